import os, sys


def resource_filename(pkg, name):
    for p in sys.path:
        f = os.path.join(p, pkg, name)
        if os.path.exists(f) or name == '':
            return f
    raise FileNotFoundError(name)


def iter_entry_points(*a, **k):
    return []
