---- MODULE MC_Session ----
EXTENDS Session, TLC, Randomization
mc_LeafSet == {Numpy("int64", d) : d \in {<<>>, <<1>>, <<0,2>>, <<2,1>>, <<1,1,0>>}}
mc_MaxLen == 2
mc_MaxDepth == 2
mc_Classes == {"ListOffset","List","Regular","IndexedOption","ByteMasked","BitMasked","Unmasked","Indexed"}
mc_OpSet == {"reduce"}
mc_ValidOnly == TRUE
mc_SliceItems == {}
mc_SliceTuples == {}
mc_Axes == {-3,-2,-1,0,1,2}
mc_Targets == {0,1,2,3}
mc_CombNs == {0,1,2,3}
mc_ReduceArgs == RandomSubset(4, AllReduceArgs)
mc_SortArgs == AllSortArgs
mc_MaxNodes == 99
mc_EmitOn == TRUE
====
