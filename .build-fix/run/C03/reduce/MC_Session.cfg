INIT Init
NEXT Next
CONSTANTS
  LeafSet <- mc_LeafSet
  MaxLen <- mc_MaxLen
  MaxDepth <- mc_MaxDepth
  Classes <- mc_Classes
  OpSet <- mc_OpSet
  ValidOnly <- mc_ValidOnly
  SliceItems <- mc_SliceItems
  SliceTuples <- mc_SliceTuples
  Axes <- mc_Axes
  Targets <- mc_Targets
  CombNs <- mc_CombNs
  ReduceArgs <- mc_ReduceArgs
  SortArgs <- mc_SortArgs
  MaxNodes <- mc_MaxNodes
  EmitOn <- mc_EmitOn
INVARIANT Refines
INVARIANT Closed
ACTION_CONSTRAINT Emit
VIEW View
CHECK_DEADLOCK FALSE
