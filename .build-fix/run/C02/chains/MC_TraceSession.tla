---- MODULE MC_TraceSession ----
EXTENDS TraceSession, TLC, Randomization
====
