INIT SInit
NEXT SNext
CONSTANTS
CHECK_DEADLOCK FALSE
