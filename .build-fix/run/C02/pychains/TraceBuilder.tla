---------------------------- MODULE TraceBuilder ----------------------------
(***************************************************************************)
(* Code -> spec for C14: traces RECORDED from the real ArrayBuilder (long   *)
(* random command sequences, far beyond what TLC enumerates) are checked   *)
(* against Builder.tla.  A trace is a sequence of events                   *)
(*     [cmd |-> command record, ok |-> 1/0, snap |-> value]                *)
(* logged at the return of each call (on the error path too): the command, *)
(* whether it raised, and the snapshot taken right after it.               *)
(* An event is accepted iff Builder!Effect of the command from the         *)
(* specification's current state has the same outcome and                  *)
(* Unify(done') is exactly the logged snapshot.  Unlogged state (the open  *)
(* frames) is carried by the specification.  Many traces are validated in  *)
(* one TLC run (variable tid); every rejected event is printed with the    *)
(* reason and the run ends with a count line that the harness reads.       *)
(***************************************************************************)
EXTENDS Builder, IOUtils

TraceFile == IOEnv.TRACE_FILE
Traces == ndJsonDeserialize(TraceFile)         \* one JSON array of events per line

VARIABLES tid, l, rejected
tvars == <<cmds, done, open, obs, phase, tid, l, rejected>>

\* the logged snapshot shows records without their names; compare modulo the name
RECURSIVE Strip(_)
Strip(v) == CASE v.t = "list" -> [t |-> "list", xs |-> [k \in 1..Len(v.xs) |-> Strip(v.xs[k])]]
              [] v.t = "rec" -> [t |-> "rec", ks |-> v.ks, vs |-> [k \in 1..Len(v.vs) |-> Strip(v.vs[k])]]
              [] OTHER -> v

\* the logged snapshot may already show fields that a record still being filled has introduced (the shared record
\* type is updated when the field is named): such extra fields must be None in every completed record
RECURSIVE Covers(_, _)
Covers(got, want) ==
  CASE want.t = "list" -> got.t = "list" /\ Len(got.xs) = Len(want.xs) /\ \A k \in 1..Len(want.xs) : Covers(got.xs[k], want.xs[k])
    [] want.t = "rec" ->
         /\ got.t = "rec"
         /\ \A q \in 1..Len(want.ks) : \E p \in 1..Len(got.ks) : got.ks[p] = want.ks[q] /\ Covers(got.vs[p], want.vs[q])
         /\ \A p \in 1..Len(got.ks) : (\E q \in 1..Len(want.ks) : want.ks[q] = got.ks[p]) \/ got.vs[p].t = "none"
         /\ Select(got.ks, LAMBDA key : \E q \in 1..Len(want.ks) : want.ks[q] = key) = want.ks
    [] OTHER -> got = want

TInit == BInit /\ tid = 1 /\ l = 1 /\ rejected = 0

Fresh == cmds' = <<>> /\ done' = <<>> /\ open' = <<>> /\ obs' = <<>> /\ phase' = "run"

\* consume one event of the current trace
Event ==
  /\ tid <= Len(Traces) /\ l <= Len(Traces[tid])
  /\ LET ev == Traces[tid][l]
         e == Effect(ev.cmd)
         okmatch == (e.ok = 3) \/ (e.ok = ev.ok)
         valmatch == (e.ok # 1) \/ (ev.ok # 1) \/ Covers(ev.snap, Strip(VList(Unify(e.done))))
     IN IF okmatch /\ valmatch /\ e.ok = 1
        THEN /\ cmds' = cmds \o <<ev.cmd>> /\ open' = e.open /\ done' = e.done
             /\ obs' = <<>> /\ phase' = "run" /\ l' = l + 1 /\ UNCHANGED <<tid, rejected>>
        ELSE IF okmatch /\ valmatch
        THEN \* an error (or an unspecified command): the builder's later state is unspecified, the trace ends here
             /\ Fresh /\ tid' = tid + 1 /\ l' = 1 /\ UNCHANGED rejected
        ELSE /\ PrintT(<<"TRACE-REJECTED", tid, l, IF okmatch THEN "snapshot differs from Unify(done)" ELSE "outcome differs",
                         ToJson([cmd |-> ev.cmd, spec_ok |-> e.ok, logged_ok |-> ev.ok])>>)
             /\ Fresh /\ tid' = tid + 1 /\ l' = 1 /\ rejected' = rejected + 1

NextTrace ==
  /\ tid <= Len(Traces) /\ l > Len(Traces[tid])
  /\ Fresh /\ tid' = tid + 1 /\ l' = 1 /\ UNCHANGED rejected

Report ==
  /\ tid = Len(Traces) + 1
  /\ PrintT(<<"TRACES-CHECKED", Len(Traces), "rejected", rejected>>)
  /\ tid' = tid + 1 /\ UNCHANGED <<cmds, done, open, obs, phase, l, rejected>>

TNext == Event \/ NextTrace \/ Report
=============================================================================
