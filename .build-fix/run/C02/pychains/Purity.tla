------------------------------ MODULE Purity ------------------------------
(***************************************************************************)
(* C12, the "histories" half: operations are pure and results stay correct *)
(* after their inputs are dropped or other results are derived from the    *)
(* same inputs.                                                            *)
(*                                                                         *)
(* The design being modelled (include/awkward/Index.h, array/*.h): every   *)
(* Index / NumpyArray buffer is held by shared ownership; an operation     *)
(* allocates new buffers for what it computes and SHARES, never rewrites,  *)
(* the buffers of its operands (a view keeps all of them, a wrapping       *)
(* result keeps them below a new node, a fresh result keeps none).  A      *)
(* buffer is released when the last array referring to it is dropped.      *)
(*                                                                         *)
(* State: a small register file of arrays.  owns[r] is the set of buffer   *)
(* ids array r keeps alive ({} = register free), ver[b] the number of      *)
(* times buffer b has been written after its creation (immutability says   *)
(* it stays 0), seen[r] the version vector r was created with.             *)
(*                                                                         *)
(* TLC explores every interleaving of Derive / Drop / Reread up to the     *)
(* bound; each maximal behaviour is exported (hist) and replayed against   *)
(* the real library in an AddressSanitizer build: a Derive becomes a real  *)
(* operation of the named sharing kind, Drop releases the real array,      *)
(* Reread re-reads value and buffer digest and compares them with what     *)
(* was observed when the array was created.                                *)
(***************************************************************************)
EXTENDS Naturals, Sequences, FiniteSets, TLC, Json

CONSTANTS Regs,      \* register names, e.g. {"a","b","c"}
          Root,      \* the register holding the initial array
          Kinds,     \* sharing kinds of operations: subset of {"view","wrap","fresh"}
          MaxSteps,  \* length bound of a behaviour
          EmitOn

VARIABLES owns, alloc, ver, seen, nextbuf, hist, done
pvars == <<owns, alloc, ver, seen, nextbuf, hist, done>>

Live(r) == owns[r] # {}

PInit ==
  /\ owns = [r \in Regs |-> IF r = Root THEN {0} ELSE {}]
  /\ alloc = {0}
  /\ ver = [b \in {0} |-> 0]
  /\ seen = [r \in Regs |-> [b \in owns[r] |-> 0]]
  /\ nextbuf = 1
  /\ hist = <<>>
  /\ done = FALSE

Room == Len(hist) < MaxSteps /\ ~done

\* dst := op(src): the result keeps the operand's buffers (view / wrap) or none of them (fresh),
\* plus one newly allocated buffer; NO existing buffer is written.
Derive(src, dst, kind) ==
  /\ Room /\ Live(src) /\ ~Live(dst) /\ kind \in Kinds
  /\ LET kept == IF kind = "fresh" THEN {} ELSE owns[src]
         mine == kept \cup {nextbuf}
     IN /\ owns' = [owns EXCEPT ![dst] = mine]
        /\ alloc' = alloc \cup {nextbuf}
        /\ ver' = [b \in alloc \cup {nextbuf} |-> IF b \in alloc THEN ver[b] ELSE 0]
        /\ seen' = [seen EXCEPT ![dst] = [b \in mine |-> IF b \in alloc THEN ver[b] ELSE 0]]
  /\ nextbuf' = nextbuf + 1
  /\ hist' = Append(hist, [a |-> "derive", src |-> src, dst |-> dst, kind |-> kind])
  /\ UNCHANGED done

\* a binary operation: both operands stay untouched, the result may keep buffers of both
Derive2(src, other, dst) ==
  /\ Room /\ Live(src) /\ Live(other) /\ src # other /\ ~Live(dst) /\ "wrap" \in Kinds
  /\ LET mine == owns[src] \cup owns[other] \cup {nextbuf}
     IN /\ owns' = [owns EXCEPT ![dst] = mine]
        /\ alloc' = alloc \cup {nextbuf}
        /\ ver' = [b \in alloc \cup {nextbuf} |-> IF b \in alloc THEN ver[b] ELSE 0]
        /\ seen' = [seen EXCEPT ![dst] = [b \in mine |-> IF b \in alloc THEN ver[b] ELSE 0]]
  /\ nextbuf' = nextbuf + 1
  /\ hist' = Append(hist, [a |-> "derive2", src |-> src, other |-> other, dst |-> dst])
  /\ UNCHANGED done

\* the last reference releases a buffer
Drop(r) ==
  /\ Room /\ Live(r) /\ Cardinality({q \in Regs : Live(q)}) > 1
  /\ LET freed == {b \in owns[r] : \A q \in Regs \ {r} : b \notin owns[q]}
     IN /\ alloc' = alloc \ freed
        /\ ver' = [b \in alloc \ freed |-> ver[b]]
  /\ owns' = [owns EXCEPT ![r] = {}]
  /\ seen' = [seen EXCEPT ![r] = <<>>]
  /\ hist' = Append(hist, [a |-> "drop", r |-> r])
  /\ UNCHANGED <<nextbuf, done>>

\* observation: value and bytes of r are what they were when r was created
Reread(r) ==
  /\ Room /\ Live(r)
  /\ hist' = Append(hist, [a |-> "reread", r |-> r])
  /\ UNCHANGED <<owns, alloc, ver, seen, nextbuf, done>>

Finish ==
  /\ ~done /\ Len(hist) = MaxSteps
  /\ done' = TRUE
  /\ UNCHANGED <<owns, alloc, ver, seen, nextbuf, hist>>

PNext ==
  \/ \E s \in Regs, d \in Regs, k \in Kinds : Derive(s, d, k)
  \/ \E s \in Regs, o \in Regs, d \in Regs : Derive2(s, o, d)
  \/ \E r \in Regs : Drop(r)
  \/ \E r \in Regs : Reread(r)
  \/ Finish

\* ---------------------------------------------------------------- properties
\* no array refers to a released buffer (what ASan observes as heap-use-after-free)
NoDangling == \A r \in Regs : owns[r] \subseteq alloc
\* nothing reachable from a live array has been written since the array was created
Unchanged == \A r \in Regs : \A b \in owns[r] : ver[b] = seen[r][b]
\* action property: no step writes an existing buffer
Immutable == [][\A b \in alloc \cap alloc' : ver'[b] = ver[b]]_pvars
\* every buffer is released exactly when unreferenced (no leak in the model)
NoLeak == alloc = UNION {owns[r] : r \in Regs}

PEmit == (EmitOn /\ done' /\ ~done) => PrintT(<<"CASE", ToJson([act |-> "history", steps |-> hist])>>)
PView == <<owns, alloc, ver, seen, hist, done>>
=============================================================================
