------------------------------ MODULE AkLayout ------------------------------
(***************************************************************************)
(* PHYSICAL layouts (one record shape per node class of                    *)
(* include/awkward/array/*.h), the documented validity rules, and the      *)
(* abstraction function ToList (= ak.to_list) to the logical domain of     *)
(* AkValue.  Layout records have exactly the LJSON shapes of DESIGN.md     *)
(* Appendix A, so ToJson of a layout is what the replayer feeds to the     *)
(* real constructors:                                                      *)
(*   [c |-> "Numpy", dt, d]            1-d leaf, d = sequence of ints       *)
(*   [c |-> "Empty"]                                                        *)
(*   [c |-> "Regular", size, zl, x]                                         *)
(*   [c |-> "ListOffset", o, x]        [c |-> "List", s, e, x]             *)
(*   [c |-> "Indexed", i, x]           [c |-> "IndexedOption", i, x]       *)
(*   [c |-> "ByteMasked", m, vw, x]    [c |-> "BitMasked", m, vw, lsb, n, x]*)
(*   [c |-> "Unmasked", x]                                                  *)
(*   [c |-> "Record", names, tuple, n, xs]   [c |-> "Union", t, i, xs]     *)
(* Index widths are not part of the abstract layout: the replayer          *)
(* instantiates every abstract case over 32/U32/64-bit indexes.            *)
(***************************************************************************)
EXTENDS AkValue

NaNCode            == -777     \* a float leaf holding NaN (instantiated as NaN by the replayer)
Numpy(dt, d)       == [c |-> "Numpy", dt |-> dt, d |-> d]
EmptyL             == [c |-> "Empty"]
Regular(size, zl, x) == [c |-> "Regular", size |-> size, zl |-> zl, x |-> x]
ListOffset(o, x)   == [c |-> "ListOffset", o |-> o, x |-> x]
ListA(s, e, x)     == [c |-> "List", s |-> s, e |-> e, x |-> x]
Indexed(i, x)      == [c |-> "Indexed", i |-> i, x |-> x]
IndexedOption(i, x) == [c |-> "IndexedOption", i |-> i, x |-> x]
ByteMasked(m, vw, x) == [c |-> "ByteMasked", m |-> m, vw |-> vw, x |-> x]
BitMasked(m, vw, lsb, n, x) == [c |-> "BitMasked", m |-> m, vw |-> vw, lsb |-> lsb, n |-> n, x |-> x]
Unmasked(x)        == [c |-> "Unmasked", x |-> x]
RecordL(names, tuple, n, xs) == [c |-> "Record", names |-> names, tuple |-> tuple, n |-> n, xs |-> xs]
UnionL(t, i, xs)   == [c |-> "Union", t |-> t, i |-> i, xs |-> xs]
\* an array of strings: ListOffsetArray(__array__="string") over NumpyArray(uint8, __array__="char"); a leaf for the
\* list-structure operations (strings are units), bs = 1 for bytestring/byte
StrL(o, d, bs)     == [c |-> "Str", o |-> o, d |-> d, bs |-> bs]

IsOptionL(L)  == L.c \in {"IndexedOption", "ByteMasked", "BitMasked", "Unmasked"}
IsListL(L)    == L.c \in {"ListOffset", "List", "Regular"}
HasX(L)       == L.c \in {"Regular", "ListOffset", "List", "Indexed", "IndexedOption",
                          "ByteMasked", "BitMasked", "Unmasked"}

RECURSIVE LLen(_)
LLen(L) == CASE L.c = "Numpy"         -> Len(L.d)
             [] L.c = "Empty"         -> 0
             [] L.c = "Regular"       -> IF L.size = 0 THEN L.zl ELSE LLen(L.x) \div L.size
             [] L.c = "ListOffset"    -> Len(L.o) - 1
             [] L.c = "List"          -> Len(L.s)
             [] L.c = "Indexed"       -> Len(L.i)
             [] L.c = "IndexedOption" -> Len(L.i)
             [] L.c = "ByteMasked"    -> Len(L.m)
             [] L.c = "BitMasked"     -> L.n
             [] L.c = "Unmasked"      -> LLen(L.x)
             [] L.c = "Record"        -> L.n
             [] L.c = "Union"         -> Len(L.t)
             [] L.c = "Str"           -> Len(L.o) - 1

RECURSIVE LDepth(_)
LDepth(L) == IF HasX(L) THEN 1 + LDepth(L.x)
             ELSE IF L.c \in {"Record", "Union"} THEN
                    1 + (IF L.xs = <<>> THEN 0 ELSE SeqMax([j \in 1..Len(L.xs) |-> LDepth(L.xs[j])]))
             ELSE 0

RECURSIVE LNodes(_)
LNodes(L) == IF HasX(L) THEN 1 + LNodes(L.x)
             ELSE IF L.c \in {"Record", "Union"} THEN 1 + SeqSum([j \in 1..Len(L.xs) |-> LNodes(L.xs[j])])
             ELSE IF L.c = "NoLayout" \/ L.c = "Sink" THEN 0 ELSE 1

\* bit k (0-based) of a BitMasked mask
Bit(L, k) == LET byte == L.m[(k \div 8) + 1]
                 sh   == IF L.lsb = 1 THEN k % 8 ELSE 7 - (k % 8)
             IN (byte \div (2 ^ sh)) % 2

\* ---------------------------------------------------------------- validity: the documented rules
\* (docs-sphinx/ak.layout.*.rst constructors + Content::validityerror), node by node
RECURSIVE Valid(_)
Valid(L) ==
  CASE L.c = "Numpy" -> TRUE
    [] L.c = "Empty" -> TRUE
    [] L.c = "Str" ->
         /\ Len(L.o) >= 1
         /\ \A i \in 1..(Len(L.o) - 1) :
               LET a == L.o[i] b == L.o[i + 1] IN
               a # b => (a < b /\ a >= 0 /\ b <= Len(L.d))
    [] L.c = "Regular" -> L.size >= 0 /\ L.zl >= 0 /\ Valid(L.x)
    [] L.c = "ListOffset" ->
         /\ Len(L.o) >= 1
         /\ \A i \in 1..(Len(L.o) - 1) :
               LET a == L.o[i] b == L.o[i + 1] IN
               a # b => (a < b /\ a >= 0 /\ b <= LLen(L.x))
         /\ Valid(L.x)
    [] L.c = "List" ->
         /\ Len(L.e) >= Len(L.s)
         /\ \A i \in 1..Len(L.s) :
               LET a == L.s[i] b == L.e[i] IN
               a # b => (a < b /\ a >= 0 /\ b <= LLen(L.x))
         /\ Valid(L.x)
    [] L.c = "Indexed" ->
         /\ \A i \in 1..Len(L.i) : L.i[i] >= 0 /\ L.i[i] < LLen(L.x)
         /\ ~IsOptionL(L.x) /\ L.x.c # "Indexed"
         /\ Valid(L.x)
    [] L.c = "IndexedOption" ->
         /\ \A i \in 1..Len(L.i) : L.i[i] < LLen(L.x)
         /\ ~IsOptionL(L.x) /\ L.x.c # "Indexed"
         /\ Valid(L.x)
    [] L.c = "ByteMasked" ->
         /\ LLen(L.x) >= Len(L.m)
         /\ ~IsOptionL(L.x) /\ L.x.c # "Indexed"
         /\ Valid(L.x)
    [] L.c = "BitMasked" ->
         /\ L.n >= 0 /\ LLen(L.x) >= L.n /\ Len(L.m) * 8 >= L.n
         /\ ~IsOptionL(L.x) /\ L.x.c # "Indexed"
         /\ Valid(L.x)
    [] L.c = "Unmasked" ->
         /\ ~IsOptionL(L.x) /\ L.x.c # "Indexed"
         /\ Valid(L.x)
    [] L.c = "Record" ->
         /\ L.n >= 0
         /\ \A j \in 1..Len(L.xs) : LLen(L.xs[j]) >= L.n /\ Valid(L.xs[j])
    [] L.c = "Union" ->
         /\ Len(L.i) >= Len(L.t)
         /\ \A k \in 1..Len(L.t) :
               /\ L.t[k] >= 0 /\ L.t[k] < Len(L.xs)
               /\ L.i[k] >= 0 /\ L.i[k] < LLen(L.xs[L.t[k] + 1])
         /\ \A j \in 1..Len(L.xs) : L.xs[j].c # "Union" /\ Valid(L.xs[j])

\* ---------------------------------------------------------------- element type of a layout
RECURSIVE TypeOf(_)
TypeOf(L) ==
  CASE L.c = "Numpy" -> TNum(L.dt)
    [] L.c = "Empty" -> TUnknown
    [] L.c = "Str" -> IF L.bs = 1 THEN TBytes ELSE TStr
    [] L.c = "Regular" -> TReg(L.size, TypeOf(L.x))
    [] L.c \in {"ListOffset", "List"} -> TVar(TypeOf(L.x))
    [] L.c = "Indexed" -> TypeOf(L.x)
    [] L.c \in {"IndexedOption", "ByteMasked", "BitMasked", "Unmasked"} -> TOpt(TypeOf(L.x))
    [] L.c = "Record" -> TRec(IF L.tuple = 1 THEN TupleKeys(Len(L.xs)) ELSE L.names,
                              [j \in 1..Len(L.xs) |-> TypeOf(L.xs[j])], L.tuple)
    [] L.c = "Union" -> TUnion([j \in 1..Len(L.xs) |-> TypeOf(L.xs[j])])

\* ---------------------------------------------------------------- the abstraction function (= ak.to_list)
\* ToListS(L) is the SEQUENCE of element values; defined for Valid layouts.
RECURSIVE ToListS(_)
ToListS(L) ==
  LET n == LLen(L) IN
  CASE L.c = "Numpy" -> [k \in 1..n |-> IF L.d[k] = NaNCode THEN VNaN ELSE VInt(L.d[k])]
    [] L.c = "Empty" -> <<>>
    [] L.c = "Str" -> [k \in 1..n |-> VStr(SubSeq(L.d, L.o[k] + 1, L.o[k + 1]))]
    [] L.c = "Regular" ->
         LET c == ToListS(L.x) IN
         [k \in 1..n |-> VList(SubSeq(c, (k - 1) * L.size + 1, k * L.size))]
    [] L.c = "ListOffset" ->
         LET c == ToListS(L.x) IN
         [k \in 1..n |-> VList(SubSeq(c, L.o[k] + 1, L.o[k + 1]))]
    [] L.c = "List" ->
         LET c == ToListS(L.x) IN
         [k \in 1..n |-> VList(SubSeq(c, L.s[k] + 1, L.e[k]))]
    [] L.c = "Indexed" ->
         LET c == ToListS(L.x) IN [k \in 1..n |-> c[L.i[k] + 1]]
    [] L.c = "IndexedOption" ->
         LET c == ToListS(L.x) IN
         [k \in 1..n |-> IF L.i[k] < 0 THEN VNone ELSE c[L.i[k] + 1]]
    [] L.c = "ByteMasked" ->
         LET c == ToListS(L.x) IN
         [k \in 1..n |-> IF (L.m[k] # 0) = (L.vw # 0) THEN c[k] ELSE VNone]
    [] L.c = "BitMasked" ->
         LET c == ToListS(L.x) IN
         [k \in 1..n |-> IF (Bit(L, k - 1) # 0) = (L.vw # 0) THEN c[k] ELSE VNone]
    [] L.c = "Unmasked" -> ToListS(L.x)
    [] L.c = "Record" ->
         LET cs == [j \in 1..Len(L.xs) |-> ToListS(L.xs[j])]
             ks == IF L.tuple = 1 THEN TupleKeys(Len(L.xs)) ELSE L.names IN
         [k \in 1..n |-> VRec(ks, [j \in 1..Len(L.xs) |-> cs[j][k]])]
    [] L.c = "Union" ->
         LET cs == [j \in 1..Len(L.xs) |-> ToListS(L.xs[j])] IN
         [k \in 1..n |-> cs[L.t[k] + 1][L.i[k] + 1]]
ToList(L) == VList(ToListS(L))

=============================================================================
