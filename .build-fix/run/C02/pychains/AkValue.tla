------------------------------ MODULE AkValue ------------------------------
(***************************************************************************)
(* The LOGICAL domain of Awkward Array and the reference meaning of its    *)
(* operations (the "value machine" of DESIGN.md section 2).                *)
(*                                                                         *)
(* Values are uniformly tagged records because TLC refuses to compare      *)
(* values of different shapes:                                             *)
(*   [t |-> "int",  x |-> n]      any numeric / boolean leaf (the dtype    *)
(*                                lives in the type, not in the value)     *)
(*   [t |-> "nan"]                floating-point NaN leaf                   *)
(*   [t |-> "none"]               a missing value                           *)
(*   [t |-> "list", xs |-> seq]   a list (variable or regular)              *)
(*   [t |-> "rec",  ks |-> seq of field names, vs |-> seq of values]        *)
(*   [t |-> "str",  b |-> seq of byte values]                               *)
(* Types are records as well:                                              *)
(*   [k |-> "num", dt |-> "int64"] [k |-> "unknown"]                       *)
(*   [k |-> "var", x |-> T]  [k |-> "reg", n |-> size, x |-> T]            *)
(*   [k |-> "opt", x |-> T]                                                *)
(*   [k |-> "rec", ks |-> names, xs |-> seq of T, tup |-> 0/1]             *)
(*   [k |-> "union", xs |-> seq of T]  [k |-> "str"]  [k |-> "bytes"]      *)
(* Every operator is total and returns [ok |-> 1, v |-> value] ("Ok"),     *)
(* [ok |-> 0, v |-> VNone] ("must raise"), or ok = 2 ("may refuse": the    *)
(* documented unsupported combinations; an error or this value are both   *)
(* acceptable).                                                            *)
(***************************************************************************)
EXTENDS Naturals, Integers, Sequences, FiniteSets, TLC

\* ---------------------------------------------------------------- values
VInt(x)   == [t |-> "int",  x |-> x]
VNaN      == [t |-> "nan"]
VNone     == [t |-> "none"]
VList(xs) == [t |-> "list", xs |-> xs]
VRec(ks, vs) == [t |-> "rec", ks |-> ks, vs |-> vs]
VStr(b)   == [t |-> "str", b |-> b]
IsNone(v) == v.t = "none"
IsList(v) == v.t = "list"
IsRec(v)  == v.t = "rec"
IsInt(v)  == v.t = "int"
Ok(v)     == [ok |-> 1, v |-> v]
Err       == [ok |-> 0, v |-> VNone]
May(v)    == [ok |-> 2, v |-> v]
Unspec    == [ok |-> 3, v |-> [t |-> "none"]]   \* ill-formed request: outside every property's quantifier
AllOk(rs) == \A k \in 1..Len(rs) : rs[k].ok = 1
AnyErr(rs) == \E k \in 1..Len(rs) : rs[k].ok = 0
Vals(rs)  == [k \in 1..Len(rs) |-> rs[k].v]
\* combine element results: any definite error -> error; any "may refuse" -> may refuse
AnyUnspec(rs) == \E k \in 1..Len(rs) : rs[k].ok = 3
Lift(rs)  == IF AnyErr(rs) THEN Err
             ELSE IF AnyUnspec(rs) THEN Unspec
             ELSE IF AllOk(rs) THEN Ok(VList(Vals(rs))) ELSE May(VList(Vals(rs)))
LiftRec(ks, rs) == IF AnyErr(rs) THEN Err
                   ELSE IF AnyUnspec(rs) THEN Unspec
                   ELSE IF AllOk(rs) THEN Ok(VRec(ks, Vals(rs))) ELSE May(VRec(ks, Vals(rs)))
Ints(s)   == VList([k \in 1..Len(s) |-> VInt(s[k])])
TupleKeys(k) == [j \in 1..k |-> ToString(j - 1)]

SeqMap(Op(_), s) == [k \in 1..Len(s) |-> Op(s[k])]
RECURSIVE SeqSum(_)
SeqSum(s) == IF s = <<>> THEN 0 ELSE Head(s) + SeqSum(Tail(s))
RECURSIVE Flat(_)
Flat(ss) == IF ss = <<>> THEN <<>> ELSE Head(ss) \o Flat(Tail(ss))     \* concatenate a seq of seqs
Min2(a, b) == IF a < b THEN a ELSE b
Max2(a, b) == IF a > b THEN a ELSE b
RECURSIVE SeqMin(_)
SeqMin(s) == IF Len(s) = 1 THEN s[1] ELSE Min2(s[1], SeqMin(Tail(s)))
RECURSIVE SeqMax(_)
SeqMax(s) == IF Len(s) = 1 THEN s[1] ELSE Max2(s[1], SeqMax(Tail(s)))
Indexes(s, P(_)) == LET RECURSIVE go(_)
                        go(k) == IF k > Len(s) THEN <<>>
                                 ELSE (IF P(s[k]) THEN <<k>> ELSE <<>>) \o go(k + 1)
                    IN go(1)
Select(s, P(_)) == LET ix == Indexes(s, P) IN [k \in 1..Len(ix) |-> s[ix[k]]]

\* ---------------------------------------------------------------- types
TNum(dt)     == [k |-> "num", dt |-> dt]
TUnknown     == [k |-> "unknown"]
TVar(x)      == [k |-> "var", x |-> x]
TReg(n, x)   == [k |-> "reg", n |-> n, x |-> x]
TOpt(x)      == [k |-> "opt", x |-> x]
TRec(ks, xs, tup) == [k |-> "rec", ks |-> ks, xs |-> xs, tup |-> tup]
TUnion(xs)   == [k |-> "union", xs |-> xs]
TStr         == [k |-> "str"]
TBytes       == [k |-> "bytes"]
IsListT(T)   == T.k \in {"var", "reg"}

\* purelist depth bookkeeping exactly as Content::minmax_depth / purelist_depth /
\* branch_depth define it: the array itself counts as one level.
RECURSIVE MinDepthE(_), MaxDepthE(_), PureDepthE(_)
MinDepthE(T) == CASE T.k \in {"num", "unknown", "str", "bytes"} -> 1
                  [] T.k \in {"var", "reg"} -> 1 + MinDepthE(T.x)
                  [] T.k = "opt" -> MinDepthE(T.x)
                  [] T.k = "rec" -> IF T.xs = <<>> THEN 1 ELSE SeqMin([j \in 1..Len(T.xs) |-> MinDepthE(T.xs[j])])
                  [] T.k = "union" -> SeqMin([j \in 1..Len(T.xs) |-> MinDepthE(T.xs[j])])
MaxDepthE(T) == CASE T.k \in {"num", "unknown", "str", "bytes"} -> 1
                  [] T.k \in {"var", "reg"} -> 1 + MaxDepthE(T.x)
                  [] T.k = "opt" -> MaxDepthE(T.x)
                  [] T.k = "rec" -> IF T.xs = <<>> THEN 1 ELSE SeqMax([j \in 1..Len(T.xs) |-> MaxDepthE(T.xs[j])])
                  [] T.k = "union" -> SeqMax([j \in 1..Len(T.xs) |-> MaxDepthE(T.xs[j])])
\* purelist_depth: records count 1; unions take the first content unless all agree
PureDepthE(T) == CASE T.k \in {"num", "unknown", "str", "bytes"} -> 1
                   [] T.k \in {"var", "reg"} -> 1 + PureDepthE(T.x)
                   [] T.k = "opt" -> PureDepthE(T.x)
                   [] T.k = "rec" -> 1
                   [] T.k = "union" -> PureDepthE(T.xs[1])
Uniform(T) == MinDepthE(T) = MaxDepthE(T) /\ MinDepthE(T) = PureDepthE(T)

\* Content::axis_wrap_if_negative at a node whose *element* type is T.
\* Returns a non-negative axis, the unchanged negative axis (branching), or WrapErr.
WrapErr == -99999
\* `depth` is the depth of that node (0 for the array itself): a negative axis counts from the innermost level
\* of the node's subtree, so its absolute position is depth + (levels below and including the node) + axis.
\* (Content::axis_wrap_if_negative in this version omits `depth`: correct at the top, wrong once the axis is
\*  resolved below a record that is itself inside a list -- known finding F56.)
AxisWrap(T, axis, depth) ==
  IF axis >= 0 THEN axis
  ELSE IF Uniform(T) THEN (IF PureDepthE(T) + axis < 0 THEN WrapErr ELSE depth + PureDepthE(T) + axis)
  ELSE IF MinDepthE(T) + axis = 0 THEN WrapErr
  ELSE axis

\* datashape printing (as Type::tostring prints it in this version)
RECURSIVE TypeStr(_)
TypeStr(T) ==
  CASE T.k = "num" -> T.dt
    [] T.k = "unknown" -> "unknown"
    [] T.k = "str" -> "string"
    [] T.k = "bytes" -> "bytes"
    [] T.k = "var" -> "var * " \o TypeStr(T.x)
    [] T.k = "reg" -> ToString(T.n) \o " * " \o TypeStr(T.x)
    [] T.k = "opt" -> IF T.x.k \in {"var", "reg", "str", "bytes"} THEN "option[" \o TypeStr(T.x) \o "]"
                      ELSE "?" \o TypeStr(T.x)
    [] T.k = "rec" ->
         LET RECURSIVE items(_)
             items(j) == IF j > Len(T.xs) THEN ""
                         ELSE (IF j > 1 THEN ", " ELSE "")
                              \o (IF T.tup = 1 THEN "" ELSE "\"" \o T.ks[j] \o "\": ")
                              \o TypeStr(T.xs[j]) \o items(j + 1)
         IN IF T.tup = 1 THEN "(" \o items(1) \o ")" ELSE "{" \o items(1) \o "}"
    [] T.k = "union" ->
         LET RECURSIVE items(_)
             items(j) == IF j > Len(T.xs) THEN ""
                         ELSE (IF j > 1 THEN ", " ELSE "") \o TypeStr(T.xs[j]) \o items(j + 1)
         IN "union[" \o items(1) \o "]"

\* ---------------------------------------------------------------- slicing (C01)
NoBound == 99999     \* "absent" start/stop/None-entry (an integer: TLC cannot compare 3 with "None")
At(i)          == [k |-> "at", i |-> i]
Range(a, b, s) == [k |-> "range", a |-> a, b |-> b, s |-> s]
NewAxis        == [k |-> "newaxis"]
Ellipsis       == [k |-> "ellipsis"]
Arr(is)        == [k |-> "arr", is |-> is]           \* 1-d integer array
Arr2(is, cols) == [k |-> "arr2", is |-> is, cols |-> cols]   \* 2-d integer array of shape (Len(is) \div cols, cols), row-major
Missing(is)    == [k |-> "missing", is |-> is]       \* entries: integers, or NoBound for None
Jagged(js)     == [k |-> "jagged", js |-> js]        \* one sub-index (seq of ints) per list
Field(key)     == [k |-> "field", key |-> key]
Fields(keys)   == [k |-> "fields", keys |-> keys]

Clamp(x, lo, hi) == IF x < lo THEN lo ELSE IF x > hi THEN hi ELSE x
\* Python's slice.indices: the selected positions (0-based), in order
RangeIdx(n, a, b, s0) ==
  LET s == IF s0 = NoBound THEN 1 ELSE s0            \* an absent step is 1
      wrap(x) == IF x < 0 THEN x + n ELSE x
      start == IF a = NoBound THEN (IF s > 0 THEN 0 ELSE n - 1)
               ELSE IF s > 0 THEN Clamp(wrap(a), 0, n) ELSE Clamp(wrap(a), -1, n - 1)
      stop  == IF b = NoBound THEN (IF s > 0 THEN n ELSE -1)
               ELSE IF s > 0 THEN Clamp(wrap(b), 0, n) ELSE Clamp(wrap(b), -1, n - 1)
      cnt   == IF s > 0 THEN (IF stop > start THEN (stop - start + s - 1) \div s ELSE 0)
                        ELSE (IF start > stop THEN (start - stop - s - 1) \div (-s) ELSE 0)
  IN [k \in 1..cnt |-> start + (k - 1) * s]

IsPositional(it) == it.k \in {"at", "range", "arr", "arr2", "missing", "jagged"}
IsArrLike(it) == it.k \in {"arr", "missing"}
IsAdv(it) == it.k \in {"arr", "at", "missing"}
RECURSIVE AdvPrefix(_)
AdvPrefix(items) == IF items = <<>> \/ ~IsAdv(Head(items)) THEN <<>>
                    ELSE <<Head(items)>> \o AdvPrefix(Tail(items))
HasArr(items) == \E k \in 1..Len(items) : IsArrLike(items[k])
HasAdv(items) == \E k \in 1..Len(items) : IsAdv(items[k])
BLen(block) == LET ls == {Len(block[k].is) : k \in {j \in 1..Len(block) : IsArrLike(block[j])}}
               IN IF \E m \in ls : m # 1 THEN CHOOSE m \in ls : m # 1 ELSE 1
Broadcastable(block) ==
  \A k \in 1..Len(block) : IsArrLike(block[k]) => Len(block[k].is) \in {1, BLen(block)}
Pick(it, j) == IF it.k = "at" THEN it.i ELSE IF Len(it.is) = 1 THEN it.is[1] ELSE it.is[j]

RECURSIVE VGet(_, _), VWalk(_, _, _)
\* follow one chain of integer indexes (one element of the broadcast advanced block);
\* a None entry of an index array gives None
VWalk(v, idxs, rest) ==
  IF idxs = <<>> THEN VGet(v, rest)
  ELSE IF Head(idxs) = NoBound THEN Ok(VNone)
  ELSE IF IsNone(v) THEN Ok(VNone)
  ELSE IF IsRec(v) THEN                            \* integer indexes pass through records too, field by field
       LiftRec(v.ks, [j \in 1..Len(v.vs) |-> VWalk(v.vs[j], idxs, rest)])
  ELSE IF ~IsList(v) THEN Err
  ELSE LET n == Len(v.xs)  i == IF Head(idxs) < 0 THEN Head(idxs) + n ELSE Head(idxs) IN
       IF i < 0 \/ i >= n THEN Err ELSE VWalk(v.xs[i + 1], Tail(idxs), rest)

VGet(v, items) ==
  IF items = <<>> THEN Ok(v)
  ELSE LET h == Head(items)  t == Tail(items) IN
  IF h.k = "newaxis" THEN
       LET r == VGet(v, t) IN IF r.ok \in {0, 3} THEN r ELSE [ok |-> r.ok, v |-> VList(<<r.v>>)]
  ELSE IF h.k = "field" THEN
       \* a field name descends through lists and options to the records
       LET RECURSIVE proj(_)
           proj(u) == IF IsNone(u) THEN Ok(VNone)
                      ELSE IF IsList(u) THEN Lift([k \in 1..Len(u.xs) |-> proj(u.xs[k])])
                      ELSE IF IsRec(u) THEN
                           (IF \E j \in 1..Len(u.ks) : u.ks[j] = h.key
                            THEN Ok(u.vs[CHOOSE j \in 1..Len(u.ks) : u.ks[j] = h.key]) ELSE Err)
                      ELSE Err
           r == proj(v)
       IN IF r.ok = 0 THEN Err ELSE VGet(r.v, t)
  ELSE IF h.k = "fields" THEN
       \* a list of field names keeps exactly those fields, in the requested order
       LET RECURSIVE projs(_)
           projs(u) == IF IsNone(u) THEN Ok(VNone)
                       ELSE IF IsList(u) THEN Lift([k \in 1..Len(u.xs) |-> projs(u.xs[k])])
                       ELSE IF IsRec(u) THEN
                            (IF \A q \in 1..Len(h.keys) : \E j \in 1..Len(u.ks) : u.ks[j] = h.keys[q]
                             THEN Ok(VRec(IF u.ks = TupleKeys(Len(u.ks)) /\ u.ks # <<>> THEN TupleKeys(Len(h.keys)) ELSE h.keys,
                                          [q \in 1..Len(h.keys) |->
                                                    u.vs[CHOOSE j \in 1..Len(u.ks) : u.ks[j] = h.keys[q]]]))
                             ELSE Err)
                       ELSE Err
           r == projs(v)
       IN IF r.ok = 0 THEN Err ELSE VGet(r.v, t)
  ELSE IF IsNone(v) THEN Ok(VNone)                 \* options are transparent to positional items
  ELSE IF IsRec(v) THEN                            \* positional items pass through records, field by field
       LiftRec(v.ks, [j \in 1..Len(v.vs) |-> VGet(v.vs[j], items)])
  ELSE IF ~IsList(v) THEN Err                      \* too many dimensions in slice
  ELSE LET n == Len(v.xs) IN
  CASE h.k = "range" ->
         IF h.s = 0 THEN Err
         ELSE LET idx == RangeIdx(n, h.a, h.b, h.s) IN
              Lift([k \in 1..Len(idx) |-> VGet(v.xs[idx[k] + 1], t)])
    [] h.k = "arr2" ->
         \* a 2-d index array (alone among ranges): NumPy gives, for each row of the index, what the row gives as a
         \* 1-d index: index with the flattened array and cut the result into rows of `cols`
         IF HasAdv(t) \/ (\E q \in 1..Len(t) : t[q].k \in {"arr2", "jagged"}) THEN Unspec
         ELSE LET flat == VGet(v, <<Arr(h.is)>> \o t) IN
              IF flat.ok # 1 THEN flat
              ELSE LET rows == Len(h.is) \div h.cols IN
                   Ok(VList([r \in 1..rows |-> VList(SubSeq(flat.v.xs, (r - 1) * h.cols + 1, r * h.cols))]))
    [] h.k = "at" /\ ~HasArr(items) -> VWalk(v, <<h.i>>, t)
    [] h.k \in {"at", "arr", "missing"} ->          \* advanced block, NumPy pairing
         LET block == AdvPrefix(items)
             rest  == SubSeq(items, Len(block) + 1, Len(items)) IN
         IF (\E k \in 1..Len(block) : block[k].k = "missing") /\
            Cardinality({Len(block[k].is) : k \in {j \in 1..Len(block) : IsArrLike(block[j])}}) > 1
         THEN Unspec        \* an index array with missing values is not broadcast against others
         ELSE IF ~Broadcastable(block) THEN Err
         ELSE LET r == Lift([j \in 1..BLen(block) |->
                              VWalk(v, [k \in 1..Len(block) |-> Pick(block[k], j)], rest)])
              IN IF HasAdv(rest) /\ r.ok # 0 THEN May(r.v) ELSE r
    [] h.k = "jagged" ->
         IF Len(h.js) # n THEN Err
         ELSE Lift([i \in 1..n |->
                      IF IsNone(v.xs[i]) THEN Ok(VNone)
                      ELSE Lift([j \in 1..Len(h.js[i]) |->
                                   IF h.js[i][j] = NoBound THEN Ok(VNone)
                                   ELSE VWalk(v.xs[i], <<h.js[i][j]>>, t)])])

\* number of list levels the items consume, for the ellipsis expansion (a jagged index
\* consumes the list it is applied to and the lists its sub-indexes address)
NPositional(items) ==
  LET RECURSIVE cnt(_)
      cnt(k) == IF k > Len(items) THEN 0
                ELSE (IF items[k].k = "jagged" THEN 2 ELSE IF IsPositional(items[k]) THEN 1 ELSE 0) + cnt(k + 1)
  IN cnt(1)

\* Ellipsis expansion needs the depth: replaced by as many full ranges as make the
\* remaining positional items address the innermost dimensions (Content::getitem_next(ellipsis)).
ExpandEllipsis(items, depth) ==
  LET pos == {k \in 1..Len(items) : items[k].k = "ellipsis"} IN
  IF pos = {} THEN items
  ELSE LET p == CHOOSE k \in pos : TRUE
           before == SubSeq(items, 1, p - 1)
           after  == SubSeq(items, p + 1, Len(items))
           nfill  == depth - NPositional(before) - NPositional(after)
       IN before \o [k \in 1..(IF nfill > 0 THEN nfill ELSE 0) |-> Range(NoBound, NoBound, 1)] \o after

\* Errors that are decided by the TYPE alone, whatever the data (statement of C01: "decided by
\* the type for regular dimensions"): too many dimensions, and an integer that is out of range
\* for a regular dimension.  T is the type of the value the items are applied to.
\* type of the projection by field names: records are replaced by the selected field(s);
\* [k |-> "bad"] if some record lacks a key (or there is no record at all)
NumericKey(key) == key \in {"0", "1", "2", "3"}
IsTupleT(T) == T.k = "rec" /\ T.tup = 1
RECURSIVE ProjT(_, _, _)
ProjT(T, keys, single) ==
  CASE T.k \in {"var", "reg", "opt"} ->
         LET X == ProjT(T.x, keys, single) IN IF X.k \in {"bad", "unspec"} THEN X ELSE [T EXCEPT !.x = X]
    [] T.k = "rec" ->
         IF \E q \in 1..Len(keys) : NumericKey(keys[q]) # IsTupleT(T) THEN
              (IF IsTupleT(T) THEN [k |-> "bad"] ELSE [k |-> "unspec"])   \* "0" on a named record: index-like keys, not modelled
         ELSE IF \A q \in 1..Len(keys) : \E j \in 1..Len(T.ks) : T.ks[j] = keys[q] THEN
              (IF single THEN T.xs[CHOOSE j \in 1..Len(T.ks) : T.ks[j] = keys[1]]
               ELSE TRec(IF IsTupleT(T) THEN TupleKeys(Len(keys)) ELSE keys,
                         [q \in 1..Len(keys) |-> T.xs[CHOOSE j \in 1..Len(T.ks) : T.ks[j] = keys[q]]], T.tup))
         ELSE [k |-> "bad"]
    [] T.k = "union" -> [k |-> "unspec"]
    [] OTHER -> [k |-> "bad"]

InReg(T, i) == T.k # "reg" \/ (i >= -T.n /\ i < T.n)
RECURSIVE HasKeyClash(_, _)
HasKeyClash(T, keys) ==
  CASE T.k \in {"var", "reg", "opt"} -> HasKeyClash(T.x, keys)
    [] T.k = "rec" -> (~IsTupleT(T) /\ \E q \in 1..Len(keys) : NumericKey(keys[q]))
                      \/ \E j \in 1..Len(T.xs) : HasKeyClash(T.xs[j], keys)
    [] T.k = "union" -> TRUE
    [] OTHER -> FALSE
RECURSIVE StaticOk(_, _)
StaticOk(T, items) ==
  IF items = <<>> THEN TRUE
  ELSE LET h == Head(items)  t == Tail(items) IN
  CASE h.k = "newaxis" -> StaticOk(T, t)
    [] h.k = "field" -> LET P == ProjT(T, <<h.key>>, TRUE) IN P.k = "unspec" \/ (P.k # "bad" /\ StaticOk(P, t))
    [] h.k = "fields" -> LET P == ProjT(T, h.keys, FALSE) IN P.k = "unspec" \/ (P.k # "bad" /\ StaticOk(P, t))
    [] T.k = "opt" -> StaticOk(T.x, items)
    [] T.k = "union" -> TRUE
    [] T.k = "rec" -> \A j \in 1..Len(T.xs) : StaticOk(T.xs[j], items)
    [] T.k \in {"var", "reg"} ->
         (CASE h.k = "at" -> InReg(T, h.i) /\ StaticOk(T.x, t)
            [] h.k = "range" -> StaticOk(T.x, t)
            [] h.k \in {"arr", "arr2"} -> (\A j \in 1..Len(h.is) : InReg(T, h.is[j])) /\ StaticOk(T.x, t)
            [] h.k = "missing" -> (\A j \in 1..Len(h.is) : h.is[j] = NoBound \/ InReg(T, h.is[j])) /\ StaticOk(T.x, t)
            [] h.k = "jagged" ->
                 LET U == IF T.x.k = "opt" THEN T.x.x ELSE T.x IN
                 U.k \in {"var", "reg"} /\ StaticOk(U.x, t)
            [] OTHER -> TRUE)
    [] OTHER -> FALSE                              \* a leaf: too many dimensions in slice

\* index-like keys ("0") on named records and projections through unions are not modelled
FieldUnspec(T, items) ==
  \E q \in 1..Len(items) :
    \/ items[q].k = "field" /\ HasKeyClash(T, <<items[q].key>>)
    \/ items[q].k = "fields" /\ HasKeyClash(T, items[q].keys)

\* combinations the library documents (or is observed) to refuse: either outcome conforms
MayRefuse(items) ==
  \/ \E i, j, k \in 1..Len(items) : i < j /\ j < k /\ IsAdv(items[i]) /\ ~IsAdv(items[j]) /\ IsAdv(items[k])
                                     /\ HasArr(items)
  \/ \E k \in 1..Len(items) : items[k].k = "missing" /\ \E j \in 1..Len(items) : j # k /\ IsAdv(items[j])

RECURSIVE VGetItem(_, _, _)
\* The whole of Content::getitem for an array whose element type is T and value v.
\* Index well-formedness and type-level refusals first (they do not depend on the data),
\* then the value walk.
VGetItem(v, T, items) ==
  LET nell == Cardinality({k \in 1..Len(items) : items[k].k = "ellipsis"}) IN
  IF \E k \in 1..Len(items) : items[k].k = "range" /\ items[k].s = 0 THEN Err
  ELSE IF nell > 1 THEN Unspec              \* not a well-formed index
  \* an Ellipsis in last place stands for "everything below": nothing to expand, whatever the depths
  ELSE IF nell = 1 /\ items[Len(items)].k = "ellipsis" THEN VGetItem(v, T, SubSeq(items, 1, Len(items) - 1))
  ELSE IF nell = 1 /\ MinDepthE(T) # MaxDepthE(T) THEN Err
  ELSE LET its == ExpandEllipsis(items, MinDepthE(T)) IN
       IF FieldUnspec(TVar(T), its) THEN Unspec
       ELSE IF ~StaticOk(TVar(T), its) THEN Err
       ELSE LET r == VGet(v, its) IN
            IF r.ok = 1 /\ (MayRefuse(its) \/ MayRefuse(items)) THEN May(r.v) ELSE r

\* ---------------------------------------------------------------- per-list operations at an axis (C05, C07, C09)
\* o is an operation descriptor: [n |-> "num"], [n |-> "localindex"],
\* [n |-> "pad", target |-> k, clip |-> 0/1], [n |-> "comb", k |-> n, repl |-> 0/1]

\* all k-combinations of positions 1..n in itertools order
RECURSIVE CombIdx(_, _, _, _)
CombIdx(lo, n, k, repl) ==
  IF k = 0 THEN << <<>> >>
  ELSE Flat([i \in 1..(IF n - lo + 1 > 0 THEN n - lo + 1 ELSE 0) |->
              LET first == lo + i - 1
                  rest  == CombIdx(IF repl = 1 THEN first ELSE first + 1, n, k - 1, repl)
              IN [j \in 1..Len(rest) |-> <<first>> \o rest[j]]])

\* what the operation makes of ONE list (sequence xs of elements)
ListOp(o, xs) ==
  CASE o.n = "num" -> VInt(Len(xs))
    [] o.n = "localindex" -> VList([j \in 1..Len(xs) |-> VInt(j - 1)])
    [] o.n = "pad" ->
         LET m == IF o.clip = 1 THEN o.target ELSE Max2(Len(xs), o.target) IN
         VList([j \in 1..m |-> IF j <= Len(xs) THEN xs[j] ELSE VNone])
    [] o.n = "comb" ->
         LET cs == CombIdx(1, Len(xs), o.k, o.repl) IN
         VList([c \in 1..Len(cs) |-> VRec(TupleKeys(o.k), [j \in 1..o.k |-> xs[cs[c][j]]])])
    [] o.n = "argcomb" ->
         LET cs == CombIdx(1, Len(xs), o.k, o.repl) IN
         VList([c \in 1..Len(cs) |-> VRec(TupleKeys(o.k), [j \in 1..o.k |-> VInt(cs[c][j] - 1)])])

\* Is the (axis, depth) combination legal for element type T?  Mirrors the recursion of
\* num / localindex / rpad / combinations through the node classes: `depth` is the depth of
\* the node whose ELEMENTS have type T.
RECURSIVE AxisOkE(_, _, _)
AxisOkE(T, axis, depth) ==
  LET pa == AxisWrap(T, axis, depth) IN
  IF pa = WrapErr THEN FALSE
  ELSE IF pa = depth THEN TRUE
  ELSE CASE T.k \in {"var", "reg"} -> IF pa = depth + 1 THEN TRUE ELSE AxisOkE(T.x, pa, depth + 1)
         [] T.k = "opt" -> AxisOkE(T.x, pa, depth)
         [] T.k = "rec" -> \A j \in 1..Len(T.xs) : AxisOkE(T.xs[j], pa, depth)
         [] T.k = "union" -> \A j \in 1..Len(T.xs) : AxisOkE(T.xs[j], pa, depth)
         [] OTHER -> FALSE          \* leaves: axis exceeds the depth

\* the value, for ONE element e of type T at a node of depth `depth` (legality already checked).
\* Union elements carry no tag in the value: the branch is chosen by shape.
RECURSIVE AxisV(_, _, _, _, _)
RECURSIVE Fits(_, _)
Fits(e, T) == CASE T.k \in {"var", "reg"} -> e.t = "list" /\ \A j \in 1..Len(e.xs) : Fits(e.xs[j], T.x)
                [] T.k = "rec" -> e.t = "rec" /\ Len(e.vs) = Len(T.xs) /\ \A j \in 1..Len(e.vs) : Fits(e.vs[j], T.xs[j])
                [] T.k \in {"num"} -> e.t \in {"int", "nan"}
                [] T.k \in {"str", "bytes"} -> e.t = "str"
                [] T.k = "opt" -> IsNone(e) \/ Fits(e, T.x)
                [] T.k = "union" -> \E j \in 1..Len(T.xs) : Fits(e, T.xs[j])
                [] OTHER -> FALSE
AxisV(o, e, T, axis, depth) ==
  LET pa == AxisWrap(T, axis, depth) IN
  IF IsNone(e) THEN VNone
  ELSE CASE T.k \in {"var", "reg"} ->
              IF pa = depth + 1 THEN ListOp(o, e.xs)
              ELSE VList([j \in 1..Len(e.xs) |-> AxisV(o, e.xs[j], T.x, pa, depth + 1)])
         [] T.k = "opt" -> AxisV(o, e, T.x, pa, depth)
         [] T.k = "rec" -> VRec(e.ks, [j \in 1..Len(e.vs) |-> AxisV(o, e.vs[j], T.xs[j], pa, depth)])
         [] T.k = "union" ->
              LET j == CHOOSE j \in 1..Len(T.xs) : Fits(e, T.xs[j]) IN AxisV(o, e, T.xs[j], pa, depth)
         [] OTHER -> e

\* the whole array: v = VList of elements of type T
VAxisOp(o, v, T, axis) ==
  LET pa == AxisWrap(T, axis, 0) IN
  IF pa = WrapErr \/ ~AxisOkE(T, axis, 0) THEN Err
  ELSE IF pa = 0 THEN
         \* (a bare RecordArray answers with a record holding the length once per field, the same records behind an
         \*  IndexedArray or an option answer with the length: known finding F60)
         (CASE o.n = "num" -> Ok(VInt(Len(v.xs)))
            [] OTHER -> Ok(ListOp(o, v.xs)))
  ELSE Ok(VList([j \in 1..Len(v.xs) |-> AxisV(o, v.xs[j], T, axis, 0)]))

\* ---------------------------------------------------------------- flatten (C05)
\* flatten(axis): concatenate, in order, the lists found at that level; a missing list
\* contributes nothing.  `depth` as above.
RECURSIVE FlattenOkE(_, _, _)
FlattenOkE(T, axis, depth) ==
  LET pa == AxisWrap(T, axis, depth) IN
  IF pa = WrapErr \/ pa = depth THEN FALSE
  ELSE CASE T.k \in {"var", "reg"} ->
              IF pa = depth + 1 THEN TRUE
              ELSE FlattenOkE(T.x, pa, depth + 1)
         [] T.k = "opt" -> FlattenOkE(T.x, pa, depth)
         \* RecordArray::offsets_and_flattened: "arrays of records cannot be flattened (but their contents can be)":
         \* the level of the records themselves is refused, deeper levels are flattened field by field
         \* (a field that would be flattened at the records' own level -- its negative axis resolving there -- is
         \*  refused as well: the fields would no longer line up)
         [] T.k = "rec" -> /\ pa # depth + 1
                           /\ \A j \in 1..Len(T.xs) : /\ AxisWrap(T.xs[j], pa, depth) # depth + 1
                                                       /\ FlattenOkE(T.xs[j], pa, depth)
         [] OTHER -> FALSE
\* xs: the elements (each of type T) of a node at `depth`; result: the elements of the flattened node
RECURSIVE FlattenE(_, _, _, _)
FlattenE(xs, T, axis, depth) ==
  LET pa == AxisWrap(T, axis, depth) IN
  CASE T.k \in {"var", "reg"} ->
         IF pa = depth + 1 THEN Flat([j \in 1..Len(xs) |-> IF IsNone(xs[j]) THEN <<>> ELSE xs[j].xs])
         ELSE [j \in 1..Len(xs) |-> IF IsNone(xs[j]) THEN VNone
                                    ELSE VList(FlattenE(xs[j].xs, T.x, pa, depth + 1))]
    [] T.k = "opt" ->
         \* at the flattened level missing lists vanish; above it they stay missing
         FlattenE(xs, T.x, pa, depth)
    [] T.k = "rec" ->
         \* below the records nothing changes the number of records: field by field, element by element
         [i \in 1..Len(xs) |-> IF IsNone(xs[i]) THEN VNone
                               ELSE VRec(xs[i].ks, [j \in 1..Len(T.xs) |-> FlattenE(<<xs[i].vs[j]>>, T.xs[j], pa, depth)[1]])]
    [] OTHER -> xs
VFlatten(v, T, axis) ==
  IF ~FlattenOkE(T, axis, 0) THEN Err
  ELSE Ok(VList(FlattenE(v.xs, T, axis, 0)))


\* ---------------------------------------------------------------- reducers (C03)
\* A group is a sequence of [i |-> position along the reduced axis, v |-> value].
\* Identities that do not fit TLC's 32-bit integers are tokens: [t |-> "ident", r |-> "min"|"max"].
VIdent(r) == [t |-> "ident", r |-> r]
Reducers == {"count", "count_nonzero", "sum", "prod", "any", "all", "min", "max", "argmin", "argmax"}
AllReduceArgs == [r : Reducers, mask : {0, 1}, kd : {0, 1}]
RECURSIVE SeqProd(_)
SeqProd(s) == IF s = <<>> THEN 1 ELSE Head(s) * SeqProd(Tail(s))

LeafReduce(r, g, mask) ==
  LET xs == [k \in 1..Len(g) |-> g[k].v.x] IN
  IF g = <<>> /\ mask = 1 THEN VNone
  ELSE CASE r = "count" -> VInt(Len(g))
         [] r = "count_nonzero" -> VInt(Cardinality({k \in 1..Len(g) : xs[k] # 0}))
         [] r = "sum" -> VInt(SeqSum(xs))
         [] r = "prod" -> VInt(SeqProd(xs))
         [] r = "any" -> VInt(IF \E k \in 1..Len(g) : xs[k] # 0 THEN 1 ELSE 0)
         [] r = "all" -> VInt(IF \A k \in 1..Len(g) : xs[k] # 0 THEN 1 ELSE 0)
         [] r = "min" -> IF g = <<>> THEN VIdent("min") ELSE VInt(SeqMin(xs))
         [] r = "max" -> IF g = <<>> THEN VIdent("max") ELSE VInt(SeqMax(xs))
         [] r = "argmin" -> IF g = <<>> THEN VInt(-1)
                            ELSE VInt(g[CHOOSE k \in 1..Len(g) : xs[k] = SeqMin(xs) /\ \A m \in 1..(k - 1) : xs[m] # SeqMin(xs)].i)
         [] r = "argmax" -> IF g = <<>> THEN VInt(-1)
                            ELSE VInt(g[CHOOSE k \in 1..Len(g) : xs[k] = SeqMax(xs) /\ \A m \in 1..(k - 1) : xs[m] # SeqMax(xs)].i)

\* combine the members of a group position by position (everything below the reduced level)
RECURSIVE Combine(_, _, _, _)
Combine(g, T, r, mask) ==
  LET live == Select(g, LAMBDA m : ~IsNone(m.v)) IN
  CASE T.k = "opt" -> Combine(live, T.x, r, mask)
    [] T.k \in {"var", "reg"} ->
         LET lens == [k \in 1..Len(live) |-> Len(live[k].v.xs)]
             m == IF live = <<>> THEN 0 ELSE SeqMax(lens) IN
         VList([j \in 1..m |->
                  LET col == Select(live, LAMBDA mem : Len(mem.v.xs) >= j) IN
                  Combine([k \in 1..Len(col) |-> [i |-> col[k].i, v |-> col[k].v.xs[j]]], T.x, r, mask)])
    [] OTHER -> LeafReduce(r, live, mask)

StripOpt(T) == IF T.k = "opt" THEN T.x ELSE T
\* xs: the elements (type T) of a list that sits PureDepthE(T) levels above the leaves
RECURSIVE ReduceSeq(_, _, _, _, _, _)
ReduceSeq(xs, T, negaxis, r, mask, keepdims) ==
  IF negaxis = PureDepthE(T) THEN
       LET c == Combine([k \in 1..Len(xs) |-> [i |-> k - 1, v |-> xs[k]]], T, r, mask) IN
       IF keepdims = 1 THEN VList(<<c>>) ELSE c
  ELSE VList([k \in 1..Len(xs) |->
                IF IsNone(xs[k]) THEN VNone
                ELSE ReduceSeq(xs[k].xs, StripOpt(T).x, negaxis, r, mask, keepdims)])

\* Content::reduce: axis normalisation against the (uniform) depth, then the reduction
HasRecOrUnion(T) == LET RECURSIVE has(_)
                        has(U) == CASE U.k \in {"rec", "union"} -> TRUE
                                    [] U.k \in {"var", "reg", "opt"} -> has(U.x)
                                    [] OTHER -> FALSE
                    IN has(T)
VReduce(v, T, r, axis, mask, keepdims) ==
  LET D == PureDepthE(T)
      negaxis == IF axis >= 0 THEN D - axis ELSE -axis IN
  IF HasRecOrUnion(T) THEN Unspec                     \* records/unions: not modelled here
  ELSE IF negaxis < 1 \/ negaxis > D THEN Err
  ELSE Ok(ReduceSeq(v.xs, T, negaxis, r, mask, keepdims))


\* ---------------------------------------------------------------- sort / argsort (C06)
AllSortArgs == [asc : {0, 1}, stable : {0, 1}, arg : {0, 1}]
\* items are [i |-> position in the group, v |-> value]; the library's order: NaN first (both
\* directions), then the numbers ascending or descending, missing values last; stable.
\* strings are compared as units, lexicographically by (unsigned) bytes, a proper prefix first
RECURSIVE LexLess(_, _)
LexLess(x, y) == IF y = <<>> THEN FALSE
                 ELSE IF x = <<>> THEN TRUE
                 ELSE IF Head(x) # Head(y) THEN Head(x) < Head(y)
                 ELSE LexLess(Tail(x), Tail(y))
Before(a, b, asc) ==      \* TRUE iff a must come strictly before b
  CASE a.v.t = "none" -> FALSE
    [] b.v.t = "none" -> TRUE
    [] a.v.t = "str" -> IF asc = 1 THEN LexLess(a.v.b, b.v.b) ELSE LexLess(b.v.b, a.v.b)
    [] a.v.t = "nan" -> b.v.t # "nan"
    [] b.v.t = "nan" -> FALSE
    [] OTHER -> IF asc = 1 THEN a.v.x < b.v.x ELSE a.v.x > b.v.x
RECURSIVE InsertSorted(_, _, _)
InsertSorted(sorted, a, asc) ==      \* stable: a goes after every element it is not strictly before
  IF sorted = <<>> THEN <<a>>
  ELSE IF Before(a, Head(sorted), asc) THEN <<a>> \o sorted
  ELSE <<Head(sorted)>> \o InsertSorted(Tail(sorted), a, asc)
RECURSIVE StableSort(_, _)
StableSort(s, asc) == IF s = <<>> THEN <<>> ELSE InsertSorted(StableSort(SubSeq(s, 1, Len(s) - 1), asc), s[Len(s)], asc)

\* rows: sequence of [i, v] whose v are values of type T (the members of one group along the
\* sorted axis, in order).  Result: what stands at the members' places afterwards; `arg` = 1 gives
\* positions instead of values.  Along a non-innermost axis the group of column j is formed by the
\* rows long enough to have a j-th element; every row keeps its length ("without moving data
\* between lists").
RECURSIVE SortRows(_, _, _, _)
SortRows(rows, T, asc, arg) ==
  LET U == StripOpt(T) IN
  IF ~IsListT(U) THEN
       LET srt == StableSort(rows, asc) IN
       [k \in 1..Len(srt) |-> IF arg = 1 THEN VInt(srt[k].i) ELSE srt[k].v]    \* a missing value has a position too
  ELSE LET width == IF rows = <<>> THEN 0 ELSE SeqMax([k \in 1..Len(rows) |-> Len(rows[k].v.xs)])
           members(j) == Indexes(rows, LAMBDA m : Len(m.v.xs) >= j)
           colres(j) == LET ms == members(j) IN
                        SortRows([k \in 1..Len(ms) |-> [i |-> rows[ms[k]].i, v |-> rows[ms[k]].v.xs[j]]], U.x, asc, arg)
           cols == [j \in 1..width |-> [ms |-> members(j), res |-> colres(j)]]
           rank(j, k) == CHOOSE r \in 1..Len(cols[j].ms) : cols[j].ms[r] = k
       IN [k \in 1..Len(rows) |-> VList([j \in 1..Len(rows[k].v.xs) |-> cols[j].res[rank(j, k)]])]

RECURSIVE SortSeqAx(_, _, _, _, _)
SortSeqAx(xs, T, negaxis, asc, arg) ==
  IF negaxis = PureDepthE(T) THEN SortRows([k \in 1..Len(xs) |-> [i |-> k - 1, v |-> xs[k]]], T, asc, arg)
  ELSE [k \in 1..Len(xs) |-> IF IsNone(xs[k]) THEN VNone
                             ELSE VList(SortSeqAx(xs[k].xs, StripOpt(T).x, negaxis, asc, arg))]

HasOptList(T) == LET RECURSIVE has(_)
                     has(U) == CASE U.k = "opt" -> IsListT(U.x) \/ has(U.x)
                                 [] U.k \in {"var", "reg"} -> has(U.x)
                                 [] OTHER -> FALSE
                 IN has(T)
HasAnyOpt(T) == LET RECURSIVE has(_)
                    has(U) == CASE U.k = "opt" -> TRUE
                                [] U.k \in {"var", "reg"} -> has(U.x)
                                [] OTHER -> FALSE
                IN has(T)
HasStrT(T) == LET RECURSIVE has(_)
                   has(U) == CASE U.k \in {"str", "bytes"} -> TRUE
                               [] U.k \in {"var", "reg", "opt"} -> has(U.x)
                               [] OTHER -> FALSE
               IN has(T)
VSort(v, T, axis, asc, arg) ==
  LET D == PureDepthE(T)
      negaxis == IF axis >= 0 THEN D - axis ELSE -axis IN
  IF HasRecOrUnion(T) THEN Unspec
  ELSE IF HasStrT(T) /\ negaxis # 1 THEN Unspec          \* "array with strings can only be sorted with axis=-1"
  ELSE IF negaxis < 1 \/ negaxis > D THEN Err
  ELSE IF negaxis >= 2 /\ HasOptList(T) THEN Unspec     \* missing lists inside a non-innermost group: not modelled
  ELSE IF negaxis >= 2 /\ arg = 1 /\ HasAnyOpt(T) THEN Unspec   \* position of a missing leaf in a column: unspecified
  ELSE Ok(VList(SortSeqAx(v.xs, T, negaxis, asc, arg)))


\* ---------------------------------------------------------------- builder-side values and unification (C14, C15)
VReal(n, d) == [t |-> "real", n |-> n, d |-> d]
VBool(x)    == [t |-> "int", x |-> x]
BRec(nm, ks, vs) == [t |-> "rec", ks |-> ks, vs |-> vs, nm |-> nm]      \* nm = "" for unnamed
BTup(vs) == [t |-> "rec", ks |-> TupleKeys(Len(vs)), vs |-> vs, nm |-> "(tuple)"]

\* ---------------------------------------------------------------- unification of the values met at one position
Positions(vals, P(_)) == Indexes(vals, P)
RECURSIVE Unify(_)
Unify(vals) ==
  LET isL(v) == v.t = "list"
      isR(v) == v.t = "rec"
      li == Indexes(vals, isL)
      \* all elements of all lists at this position form one position
      flat == Flat([k \in 1..Len(li) |-> vals[li[k]].xs])
      uflat == Unify(flat)
      startOf(k) == SeqSum([m \in 1..(k - 1) |-> Len(vals[li[m]].xs)])
      listAt(k) == VList(SubSeq(uflat, startOf(k) + 1, startOf(k) + Len(vals[li[k]].xs)))
      \* record groups: same name and (for tuples) same arity
      grp(v) == IF v.nm = "(tuple)" THEN <<v.nm, Len(v.ks)>> ELSE <<v.nm, 0>>
      groups == {grp(vals[k]) : k \in {j \in 1..Len(vals) : isR(vals[j])}}
      members(g) == Indexes(vals, LAMBDA v : isR(v) /\ grp(v) = g)
      \* keys of a group in order of first appearance
      keysOf(g) == LET ms == members(g)
                       RECURSIVE acc(_, _)
                       acc(k, ks) == IF k > Len(ms) THEN ks
                                     ELSE acc(k + 1, ks \o Select(vals[ms[k]].ks, LAMBDA key : \A q \in 1..Len(ks) : ks[q] # key
                                                                                               ))
                   IN acc(1, <<>>)
      \* NB: a key repeated inside one record cannot occur (that is an error before Unify is reached)
      fieldOf(v, key) == IF \E q \in 1..Len(v.ks) : v.ks[q] = key
                         THEN v.vs[CHOOSE q \in 1..Len(v.ks) : v.ks[q] = key] ELSE VNone
      unifiedGroup(g) ==
        LET ms == members(g)  ks == keysOf(g)
            cols == [c \in 1..Len(ks) |-> Unify([m \in 1..Len(ms) |-> fieldOf(vals[ms[m]], ks[c])])]
        IN [m \in 1..Len(ms) |-> BRec(vals[ms[m]].nm, ks, [c \in 1..Len(ks) |-> cols[c][m]])]
      rankIn(seq, k) == CHOOSE r \in 1..Len(seq) : seq[r] = k
  IN [k \in 1..Len(vals) |->
        IF isL(vals[k]) THEN listAt(rankIn(li, k))
        ELSE IF isR(vals[k]) THEN LET g == grp(vals[k]) IN unifiedGroup(g)[rankIn(members(g), k)]
        ELSE vals[k]]


=============================================================================
