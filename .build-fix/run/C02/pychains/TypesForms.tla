----------------------------- MODULE TypesForms -----------------------------
(***************************************************************************)
(* C17: every type constructible from the node grammar, with parameters,   *)
(* record names, categorical wrappers and custom typestrs, and the text    *)
(* Type::tostring prints for it (src/libawkward/type/*.cpp, transcribed    *)
(* as TStr below).  TLC builds ALL type trees up to the depth bound by     *)
(* actions; each is exported with the expected text.  The replayer         *)
(*   (1) constructs the C++ Type objects from the tree and compares        *)
(*       Type::tostring with TStr (the printer is bound to the spec),      *)
(*   (2) feeds the text to the repository's parser                         *)
(*       (ak.types.from_datashape: Lark grammar + transformer), builds     *)
(*       the C++ types from the parser's result and requires the same      *)
(*       text and Type::equal  -- "a type survives printing and            *)
(*       re-parsing unchanged".                                            *)
(* A tree node is [k, ps, ts, ...]:                                         *)
(*   ps  parameters as a sequence of <<key, json-text>> pairs SORTED by    *)
(*       key (std::map order), ts the custom typestr ("" = none).          *)
(***************************************************************************)
EXTENDS Naturals, Sequences, FiniteSets, TLC, Json

CONSTANTS MaxDepth,     \* nesting bound
          ParamSets,    \* set of parameter sequences (each a sequence of <<key, json text>>)
          TypeStrsSet,  \* set of custom typestrs ("" = none)
          RecNames,     \* set of record names tried ("" = none)
          Dtypes,       \* primitive dtypes
          EmitOn

VARIABLES t, aux, done
tfvars == <<t, aux, done>>

None == [k |-> "none"]
Prim(dt, ps, ts) == [k |-> "prim", dt |-> dt, ps |-> ps, ts |-> ts]
Unknown(ps, ts) == [k |-> "unknown", ps |-> ps, ts |-> ts]
ListT(x, ps, ts) == [k |-> "list", x |-> x, ps |-> ps, ts |-> ts]
RegT(x, n, ps, ts) == [k |-> "reg", x |-> x, n |-> n, ps |-> ps, ts |-> ts]
OptT(x, ps, ts) == [k |-> "opt", x |-> x, ps |-> ps, ts |-> ts]
UnionT(xs, ps, ts) == [k |-> "union", xs |-> xs, ps |-> ps, ts |-> ts]
\* a record keeps its name apart from the other parameters (nm = "" : unnamed); AllParams puts __record__ back first
\* (std::map order: "__record__" sorts before lower-case keys)
RecT(xs, keys, tup, nm, ps, ts) == [k |-> "rec", xs |-> xs, keys |-> keys, tup |-> tup, nm |-> nm, ps |-> ps, ts |-> ts]

RECURSIVE Depth(_)
Depth(x) == CASE x.k \in {"prim", "unknown", "none"} -> 0
              [] x.k \in {"list", "reg", "opt"} -> 1 + Depth(x.x)
              [] x.k \in {"union", "rec"} ->
                   1 + (IF x.xs = <<>> THEN 0
                        ELSE LET ds == {Depth(x.xs[j]) : j \in 1..Len(x.xs)} IN CHOOSE d \in ds : \A e \in ds : e <= d)

\* ---------------------------------------------------------------- Type::tostring
IsCat(ps) == \E j \in 1..Len(ps) : ps[j][1] = "__categorical__" /\ ps[j][2] = "true"
\* parameters_empty(): nothing, or only __categorical__ = true
ParamsEmpty(ps) == ps = <<>> \/ (Len(ps) = 1 /\ IsCat(ps))
Quote(s) == "\"" \o s \o "\""
RECURSIVE JoinParams(_, _)
JoinParams(ps, first) ==
  IF ps = <<>> THEN ""
  ELSE IF Head(ps)[1] = "__categorical__" THEN JoinParams(Tail(ps), first)
  ELSE (IF first THEN "" ELSE ", ") \o Quote(Head(ps)[1]) \o ": " \o Head(ps)[2] \o JoinParams(Tail(ps), FALSE)
StringParams(ps) == "parameters={" \o JoinParams(ps, TRUE) \o "}"
WrapCat(ps, s) == IF IsCat(ps) THEN "categorical[type=" \o s \o "]" ELSE s

DatashapeKeywords == {"var", "option", "bool", "int8", "int16", "int32", "int64", "int128", "uint8", "uint16", "uint32",
                      "uint64", "uint128", "float16", "float32", "float64", "float128", "decimal32", "decimal64",
                      "decimal128", "bignum", "int", "real", "complex", "intptr", "uintptr", "string", "char", "bytes",
                      "date", "json", "void", "datetime", "categorical", "pointer"}
AllParams(x) == IF x.k = "rec" /\ x.nm # "" THEN <<<<"__record__", Quote(x.nm)>>>> \o x.ps ELSE x.ps

RECURSIVE TStr(_), Joined(_, _, _)
Joined(xs, keys, j) ==       \* "k": T, ...   (keys = <<>> for positional)
  IF j > Len(xs) THEN ""
  ELSE (IF j > 1 THEN ", " ELSE "") \o (IF keys = <<>> THEN "" ELSE Quote(keys[j]) \o ": ") \o TStr(xs[j]) \o Joined(xs, keys, j + 1)
RECURSIVE JoinedKeys(_, _)
JoinedKeys(keys, j) == IF j > Len(keys) THEN "" ELSE (IF j > 1 THEN ", " ELSE "") \o Quote(keys[j]) \o JoinedKeys(keys, j + 1)
TStr(x) ==
  IF x.ts # "" THEN WrapCat(x.ps, x.ts)
  ELSE
  CASE x.k = "prim" -> WrapCat(x.ps, IF ParamsEmpty(x.ps) THEN x.dt ELSE x.dt \o "[" \o StringParams(x.ps) \o "]")
    [] x.k = "unknown" -> WrapCat(x.ps, IF ParamsEmpty(x.ps) THEN "unknown" ELSE "unknown[" \o StringParams(x.ps) \o "]")
    [] x.k = "list" -> WrapCat(x.ps, IF ParamsEmpty(x.ps) THEN "var * " \o TStr(x.x)
                                     ELSE "[var * " \o TStr(x.x) \o ", " \o StringParams(x.ps) \o "]")
    [] x.k = "reg" -> WrapCat(x.ps, IF ParamsEmpty(x.ps) THEN ToString(x.n) \o " * " \o TStr(x.x)
                                    ELSE "[" \o ToString(x.n) \o " * " \o TStr(x.x) \o ", " \o StringParams(x.ps) \o "]")
    [] x.k = "opt" -> WrapCat(x.ps, IF ParamsEmpty(x.ps)
                                    THEN (IF x.x.k \in {"list", "reg"} THEN "option[" \o TStr(x.x) \o "]" ELSE "?" \o TStr(x.x))
                                    ELSE "option[" \o TStr(x.x) \o ", " \o StringParams(x.ps) \o "]")
    [] x.k = "union" -> WrapCat(x.ps, "union[" \o Joined(x.xs, <<>>, 1)
                                      \o (IF ParamsEmpty(x.ps) THEN "" ELSE ", " \o StringParams(x.ps)) \o "]")
    [] x.k = "rec" ->
         LET keys == IF x.tup = 1 THEN <<>> ELSE x.keys IN
         IF x.nm # "" /\ x.ps = <<>> /\ x.nm \notin DatashapeKeywords
         THEN x.nm \o "[" \o Joined(x.xs, keys, 1) \o "]"
         ELSE IF AllParams(x) = <<>>
         THEN (IF x.tup = 1 THEN "(" \o Joined(x.xs, <<>>, 1) \o ")" ELSE "{" \o Joined(x.xs, keys, 1) \o "}")
         ELSE (IF x.tup = 1 THEN "tuple[[" \o Joined(x.xs, <<>>, 1)
               ELSE "struct[[" \o JoinedKeys(keys, 1) \o "], [" \o Joined(x.xs, <<>>, 1))
              \o "], " \o StringParams(AllParams(x)) \o "]"

\* ---------------------------------------------------------------- the machine: build trees by actions
TFInit == t = None /\ aux = None /\ done = FALSE
Have == t.k # "none"
Room == Have /\ Depth(t) < MaxDepth /\ ~done

Leaf == /\ ~Have /\ ~done
        /\ \/ \E dt \in Dtypes, ps \in ParamSets, ts \in TypeStrsSet : t' = Prim(dt, ps, ts)
           \/ \E ps \in ParamSets : t' = Unknown(ps, "")
        /\ UNCHANGED <<aux, done>>
WrapList == Room /\ \E ps \in ParamSets, ts \in TypeStrsSet : t' = ListT(t, ps, ts) /\ UNCHANGED <<aux, done>>
WrapReg == Room /\ \E n \in {0, 2} : \E ps \in ParamSets : t' = RegT(t, n, ps, "") /\ UNCHANGED <<aux, done>>
WrapOpt == Room /\ t.k # "opt" /\ \E ps \in ParamSets : t' = OptT(t, ps, "") /\ UNCHANGED <<aux, done>>
Store == Have /\ aux.k = "none" /\ ~done /\ aux' = t /\ t' = None /\ UNCHANGED done
WrapUnion == Room /\ aux.k # "none" /\ Depth(aux) < MaxDepth
             /\ \E ps \in ParamSets : t' = UnionT(<<aux, t>>, ps, "") /\ aux' = None /\ UNCHANGED done
WrapRec == Room
           /\ \E nm \in RecNames, ps \in {p \in ParamSets : ~IsCat(p)}, tup \in {0, 1} :
                \/ t' = RecT(<<t>>, <<"x">>, tup, nm, ps, "") /\ UNCHANGED aux
                \/ aux.k # "none" /\ Depth(aux) < MaxDepth /\ t' = RecT(<<aux, t>>, <<"x", "y">>, tup, nm, ps, "") /\ aux' = None
                \/ t' = RecT(<<>>, <<>>, tup, nm, ps, "") /\ UNCHANGED aux
           /\ UNCHANGED done
Finish == Have /\ ~done /\ aux.k = "none" /\ done' = TRUE /\ UNCHANGED <<t, aux>>

TFNext == Leaf \/ WrapList \/ WrapReg \/ WrapOpt \/ Store \/ WrapUnion \/ WrapRec \/ Finish

\* ---------------------------------------------------------------- properties of the printer as specified
\* the text is never empty and categorical types are always wrapped
PrintsSomething == Have => Len(TStr(t)) > 0

TFEmit == (EmitOn /\ done' /\ ~done) => PrintT(<<"CASE", ToJson([act |-> "type", tree |-> t, str |-> TStr(t)])>>)
TFView == <<t, aux, done>>
=============================================================================
