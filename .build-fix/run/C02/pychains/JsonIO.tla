------------------------------ MODULE JsonIO ------------------------------
(***************************************************************************)
(* The JSON reader (C15) as a pushdown machine over TOKENS, with the value *)
(* machine of the builder in lock-step.  TLC explores EVERY token sequence *)
(* up to the bound: all valid texts, concatenated documents, and therefore *)
(* every truncation point and every single-token corruption of a valid     *)
(* text.  Every state is one text; it is exported with what from_json must *)
(* do with it:                                                             *)
(*   - a concatenation of k complete documents: the value of from_iter of  *)
(*     those documents (k = 1: the document itself), after the builder's   *)
(*     unification;                                                        *)
(*   - anything else (a grammar violation anywhere, or an unfinished       *)
(*     document at the end of the text): an error, never a partial array.  *)
(* The lexical layer below tokens (number spelling, escapes) belongs to    *)
(* RapidJSON, which is not part of the repository.                         *)
(***************************************************************************)
EXTENDS AkValue, Json

CONSTANTS TokAlphabet,  \* set of token records
          MaxToks, EmitOn

VARIABLES toks, stack, docs, bad
jvars == <<toks, stack, docs, bad>>

\* frames: arrays [k |-> "arr", xs, st] with st in {"first", "value", "comma"}
\*         objects [k |-> "obj", ks, vs, st] with st in {"first", "key", "colon", "value", "comma"}
JInit == toks = <<>> /\ stack = <<>> /\ docs = <<>> /\ bad = 0

JTop == stack[Len(stack)]
Below == SubSeq(stack, 1, Len(stack) - 1)
\* is a value acceptable now?
WantsValue == stack = <<>> \/ (JTop.k = "arr" /\ JTop.st \in {"first", "comma"}) \/ (JTop.k = "obj" /\ JTop.st = "colon")
\* deliver a completed value into `stk` / `dcs`
Deliver(stk, dcs, x) ==
  IF stk = <<>> THEN [stack |-> <<>>, docs |-> dcs \o <<x>>]
  ELSE LET f == stk[Len(stk)]
           f2 == IF f.k = "arr" THEN [f EXCEPT !.xs = @ \o <<x>>, !.st = "value"]
                 ELSE [f EXCEPT !.vs = @ \o <<x>>, !.st = "value"]
       IN [stack |-> [stk EXCEPT ![Len(stk)] = f2], docs |-> dcs]

TokValue(t) == CASE t.t = "null" -> VNone
                 [] t.t = "true" -> [t |-> "int", x |-> 1]
                 [] t.t = "int" -> VInt(t.x)
                 [] t.t = "bigint" -> [t |-> "big", s |-> t.s]      \* integers beyond TLC's 32 bits, as decimal text
                 [] t.t = "real" -> VReal(t.n, t.d)
                 [] t.t = "str" -> IF t.s = "nan" THEN VNaN          \* the user-chosen marker strings (exact match only)
                                   ELSE IF t.s = "inf" THEN [t |-> "inf", s |-> 1]
                                   ELSE IF t.s = "-inf" THEN [t |-> "inf", s |-> -1]
                                   ELSE VStr(t.b)

\* result of consuming token t: [ok, stack, docs]
Consume(t) ==
  LET no == [ok |-> 0, stack |-> stack, docs |-> docs]
      yes(r) == [ok |-> 1, stack |-> r.stack, docs |-> r.docs]
  IN CASE t.t \in {"null", "true", "int", "bigint", "real"} -> IF WantsValue THEN yes(Deliver(stack, docs, TokValue(t))) ELSE no
       [] t.t = "str" ->
            IF WantsValue THEN yes(Deliver(stack, docs, TokValue(t)))
            ELSE IF stack # <<>> /\ JTop.k = "obj" /\ JTop.st \in {"first", "comma"} THEN
                 [ok |-> 1, stack |-> [stack EXCEPT ![Len(stack)] = [JTop EXCEPT !.ks = @ \o <<t.s>>, !.st = "key"]], docs |-> docs]
            ELSE no
       [] t.t = "[" -> IF WantsValue THEN [ok |-> 1, stack |-> stack \o <<[k |-> "arr", xs |-> <<>>, st |-> "first"]>>, docs |-> docs] ELSE no
       [] t.t = "{" -> IF WantsValue THEN [ok |-> 1, stack |-> stack \o <<[k |-> "obj", ks |-> <<>>, vs |-> <<>>, st |-> "first"]>>, docs |-> docs] ELSE no
       [] t.t = "]" -> IF stack # <<>> /\ JTop.k = "arr" /\ JTop.st \in {"first", "value"}
                       THEN yes(Deliver(Below, docs, VList(JTop.xs))) ELSE no
       [] t.t = "}" -> IF stack # <<>> /\ JTop.k = "obj" /\ JTop.st \in {"first", "value"}
                       THEN yes(Deliver(Below, docs, BRec("", JTop.ks, JTop.vs))) ELSE no
       [] t.t = "," -> IF stack # <<>> /\ JTop.st = "value"
                       THEN [ok |-> 1, stack |-> [stack EXCEPT ![Len(stack)] = [JTop EXCEPT !.st = "comma"]], docs |-> docs] ELSE no
       [] t.t = ":" -> IF stack # <<>> /\ JTop.k = "obj" /\ JTop.st = "key"
                       THEN [ok |-> 1, stack |-> [stack EXCEPT ![Len(stack)] = [JTop EXCEPT !.st = "colon"]], docs |-> docs] ELSE no
       [] OTHER -> no          \* garbage token

JStep(t) ==
  /\ Len(toks) < MaxToks
  /\ toks' = toks \o <<t>>
  /\ IF bad = 1 THEN UNCHANGED <<stack, docs, bad>>        \* once malformed, always malformed
     ELSE LET r == Consume(t) IN
          /\ stack' = r.stack /\ docs' = r.docs /\ bad' = IF r.ok = 1 THEN 0 ELSE 1

JNext == \E t \in TokAlphabet : JStep(t)
JSpec == JInit /\ [][JNext]_jvars

\* an object with a repeated key is outside the property's quantifier
RECURSIVE HasDupKeys(_)
HasDupKeys(v) == CASE v.t = "list" -> \E k \in 1..Len(v.xs) : HasDupKeys(v.xs[k])
                   [] v.t = "rec" -> (\E p, q \in 1..Len(v.ks) : p # q /\ v.ks[p] = v.ks[q])
                                     \/ \E k \in 1..Len(v.vs) : HasDupKeys(v.vs[k])
                   [] OTHER -> FALSE
DupInStack == \E k \in 1..Len(stack) : stack[k].k = "obj" /\ \E p, q \in 1..Len(stack[k].ks) : p # q /\ stack[k].ks[p] = stack[k].ks[q]

\* what from_json must do with the text `toks`
Expected ==
  IF (\E k \in 1..Len(docs) : HasDupKeys(docs[k])) \/ DupInStack THEN [ok |-> 3, v |-> VNone, n |-> Len(docs)]
  ELSE IF bad = 1 \/ stack # <<>> THEN [ok |-> 0, v |-> VNone, n |-> Len(docs)]
  ELSE LET u == Unify(docs) IN
       [ok |-> 1, v |-> IF Len(docs) = 1 THEN u[1] ELSE VList(u), n |-> Len(docs)]

\* design properties: malformed is absorbing; a complete text has no open container
NoPartial == (bad = 1 \/ stack # <<>>) => Expected.ok # 1
DocsOnlyWhenClosed == \A k \in 1..Len(stack) : stack[k].k \in {"arr", "obj"}

JEmit == EmitOn => PrintT(<<"CASE", ToJson([act |-> "json", toks |-> toks', exp |-> Expected'])>>)
JView == <<toks>>
=============================================================================
