------------------------------ MODULE AkNumba ------------------------------
(***************************************************************************)
(* C20: what a Numba-compiled function must see.  An access PROGRAM is a   *)
(* short composition of the operations the lowering supports (len,         *)
(* integer / range / field indexing, iteration, asarray); its meaning is   *)
(* the meaning of the same Python expression on the interpreted array,     *)
(* i.e. AkValue!VGet along the same path.  NbExpect gives, for an array    *)
(* with elements v.xs of element type T, the value the compiled program    *)
(* must return (or Err for an index out of range).                         *)
(*                                                                         *)
(* Programs are chosen by the static type (Numba compiles one function per *)
(* array type and program shape); indexes are run-time arguments.          *)
(***************************************************************************)
EXTENDS AkLayout

NbAt(v, i) == LET n == Len(v.xs)  k == IF i < 0 THEN i + n ELSE i IN
              IF k < 0 \/ k >= n THEN Err ELSE Ok(v.xs[k + 1])
NbRange(v, a, b) == LET idx == RangeIdx(Len(v.xs), a, b, 1) IN Ok(VList([k \in 1..Len(idx) |-> v.xs[idx[k] + 1]]))
RECURSIVE Leaves(_)
Leaves(e) == IF IsNone(e) THEN <<>> ELSE IF IsList(e) THEN Flat([k \in 1..Len(e.xs) |-> Leaves(e.xs[k])]) ELSE <<e>>

IsNumT(T) == T.k = "num"
IsListOfNum(T) == T.k \in {"var", "reg"} /\ (T.x.k = "num" \/ (T.x.k = "opt" /\ T.x.x.k = "num"))
HasField(T, key) == T.k = "rec" /\ \E j \in 1..Len(T.ks) : T.ks[j] = key
FieldOf(e, key) == e.vs[CHOOSE j \in 1..Len(e.ks) : e.ks[j] = key]

\* the programs applicable to an array whose element type is T
NbProgs(T) ==
  {"len", "at", "range", "range_at", "iter_count"}
  \cup (IF T.k \in {"var", "reg"} THEN {"at_at", "at_len", "at_range"} ELSE {})
  \cup (IF IsNumT(T) \/ IsListOfNum(T) \/ (T.k = "opt" /\ (IsNumT(T.x) \/ IsListOfNum(T.x))) THEN {"sum_leaves"} ELSE {})
  \cup (IF IsNumT(T) THEN {"asarray"} ELSE {})
  \cup (IF HasField(T, "x") THEN {"field_x", "at_field_x", "field_x_at"} ELSE {})

NbExpect(prog, v, T, i, j) ==
  CASE prog = "len" -> Ok(VInt(Len(v.xs)))
    [] prog = "at" -> NbAt(v, i)
    [] prog = "range" -> NbRange(v, i, j)
    [] prog = "range_at" -> LET r == NbRange(v, i, NoBound) IN NbAt(r.v, j)
    [] prog = "iter_count" -> Ok(VInt(Len(v.xs)))
    [] prog = "at_at" -> LET r == NbAt(v, i) IN IF r.ok # 1 THEN r ELSE NbAt(r.v, j)
    [] prog = "at_len" -> LET r == NbAt(v, i) IN IF r.ok # 1 THEN r ELSE Ok(VInt(Len(r.v.xs)))
    [] prog = "at_range" -> LET r == NbAt(v, i) IN IF r.ok # 1 THEN r ELSE NbRange(r.v, j, NoBound)
    [] prog = "sum_leaves" -> Ok(VInt(SeqSum([k \in 1..Len(Leaves(v)) |-> Leaves(v)[k].x])))
    [] prog = "asarray" -> Ok(v)
    [] prog = "field_x" -> Ok(VList([k \in 1..Len(v.xs) |-> FieldOf(v.xs[k], "x")]))
    [] prog = "at_field_x" -> LET r == NbAt(v, i) IN IF r.ok # 1 THEN r ELSE Ok(FieldOf(r.v, "x"))
    [] prog = "field_x_at" -> LET r == NbAt(v, i) IN IF r.ok # 1 THEN r ELSE Ok(FieldOf(r.v, "x"))
=============================================================================
