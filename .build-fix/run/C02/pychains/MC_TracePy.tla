---- MODULE MC_TracePy ----
EXTENDS TracePy, TLC, Randomization
====
