--------------------------- MODULE KernelContract ---------------------------
(***************************************************************************)
(* The CALLING CONTRACT of the CPU kernels (C13), as the role groups of    *)
(* kernel-specification.yml: arguments that share a role prefix form one   *)
(* instance and are constrained jointly (ListArray-{starts,stops,...},     *)
(* ListOffsetArray-offsets, IndexedArray-index, ByteMaskedArray-mask,      *)
(* UnionArray-{tags,index}, reducer-{parents,...}, ...).                   *)
(*                                                                         *)
(* The machine builds every instance of every role up to the bounds by     *)
(* actions (one element appended per step, so TLC enumerates in parallel   *)
(* and de-duplicates); each completed instance is exported.  The harness   *)
(* (harness/py/kernels.py) assembles argument tuples from the instance     *)
(* pools, evaluates the kernel's Python definition from                    *)
(* kernel-specification.yml on index-recording proxies (the definition     *)
(* itself rejects tuples outside the contract) and the compiled symbol of  *)
(* every specialisation on the same tuple, and compares.                   *)
(***************************************************************************)
EXTENDS Naturals, Integers, Sequences, FiniteSets, TLC, Json

CONSTANTS MaxN,        \* maximal number of entries of an index-like array
          MaxContent,  \* maximal length of the content that indexes point into
          EmitOn

VARIABLES role, a, b, m, phase
kvars == <<role, a, b, m, phase>>

Roles == {"ListOffsetArray", "ListArray", "IndexedArray", "IndexedOptionArray", "ByteMaskedArray",
          "BitMaskedArray", "UnionArray", "RegularArray", "reducer", "NumpyArray", "carry"}

KInit == role \in Roles /\ a = <<>> /\ b = <<>> /\ m \in 0..MaxContent /\ phase = "grow"

Last(s, d) == IF s = <<>> THEN d ELSE s[Len(s)]

\* one more element, respecting the role's invariant (these ARE the preconditions)
Grow ==
  /\ phase = "grow" /\ Len(a) < MaxN
  /\ \/ /\ role = "ListOffsetArray"                       \* offsets: monotone, within the content
        /\ \E x \in Last(a, 0)..m : a' = a \o <<x>> /\ UNCHANGED b
     \/ /\ role = "ListArray"                             \* starts[i] <= stops[i] <= len(content)
        /\ \E s \in 0..m : \E e \in s..m : a' = a \o <<s>> /\ b' = b \o <<e>>
     \/ /\ role = "IndexedArray" /\ m > 0                 \* 0 <= index < len(content)
        /\ \E x \in 0..(m - 1) : a' = a \o <<x>> /\ UNCHANGED b
     \/ /\ role = "IndexedOptionArray"                    \* -1 <= index < len(content)
        /\ \E x \in (-1)..(m - 1) : a' = a \o <<x>> /\ UNCHANGED b
     \/ /\ role = "ByteMaskedArray"                       \* any byte counts; 0/1 and "other non-zero"
        /\ \E x \in {0, 1, 2, -1} : a' = a \o <<x>> /\ UNCHANGED b
     \/ /\ role = "BitMaskedArray" /\ Len(a) < 2          \* mask bytes
        /\ \E x \in {0, 1, 2, 5, 128, 170, 255} : a' = a \o <<x>> /\ UNCHANGED b
     \/ /\ role = "UnionArray" /\ m > 0                   \* tags in 0..1, index within the content
        /\ \E t \in 0..1 : \E x \in 0..(m - 1) : a' = a \o <<t>> /\ b' = b \o <<x>>
     \/ /\ role = "reducer"                               \* parents: sorted, starting anywhere
        /\ \E x \in Last(a, 0)..(Last(a, 0) + 2) : x <= MaxN /\ a' = a \o <<x>> /\ UNCHANGED b
     \/ /\ role = "NumpyArray"                            \* plain data (small values incl. 0 and negatives)
        /\ \E x \in {-2, 0, 1, 3} : a' = a \o <<x>> /\ UNCHANGED b
     \/ /\ role = "carry" /\ m > 0                        \* a carry / advanced index into something of length m
        /\ \E x \in 0..(m - 1) : a' = a \o <<x>> /\ UNCHANGED b
  /\ UNCHANGED <<role, m, phase>>

Finish ==
  /\ phase = "grow"
  /\ (role = "RegularArray" => a = <<>>)
  /\ phase' = "done" /\ UNCHANGED <<role, a, b, m>>

KNext == Grow \/ Finish
KSpec == KInit /\ [][KNext]_kvars

\* the invariants that make an instance a legal member of its role
RoleInvariant ==
  /\ role = "ListOffsetArray" => \A i \in 1..(Len(a) - 1) : a[i] <= a[i + 1] /\ a[i + 1] <= m
  /\ role = "ListArray" => Len(a) = Len(b) /\ \A i \in 1..Len(a) : 0 <= a[i] /\ a[i] <= b[i] /\ b[i] <= m
  /\ role \in {"IndexedArray", "carry"} => \A i \in 1..Len(a) : 0 <= a[i] /\ a[i] < m
  /\ role = "IndexedOptionArray" => \A i \in 1..Len(a) : a[i] < m
  /\ role = "UnionArray" => Len(a) = Len(b) /\ \A i \in 1..Len(a) : a[i] \in 0..1 /\ b[i] < m
  /\ role = "reducer" => \A i \in 1..(Len(a) - 1) : a[i] <= a[i + 1]

KEmit == (EmitOn /\ phase' = "done") =>
           PrintT(<<"CASE", ToJson([act |-> "instance", role |-> role, a |-> a, b |-> b, m |-> m])>>)
KView == <<role, a, b, m, phase>>
=============================================================================
