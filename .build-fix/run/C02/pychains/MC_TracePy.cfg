INIT PInit
NEXT PNext
CONSTANTS
CHECK_DEADLOCK FALSE
