---------------------------- MODULE TraceSession ----------------------------
(***************************************************************************)
(* Code -> spec for the value operations (C01, C03, C05, C06, C07, C09 and *)
(* C02's "results depend on the logical value only"): a seeded random      *)
(* driver applies CHAINS of operations to the real library, feeding the    *)
(* real result of step k into step k+1, so that the operands are genuine   *)
(* by-products (views with non-zero offset origins, carried indexes,       *)
(* ListArrays with gaps, nested options awaiting simplification) of sizes  *)
(* and depths the enumeration does not reach.  Every call is logged at its *)
(* return, on the error path too:                                          *)
(*   [op, args, v (the operand's logical value), T (its element type),     *)
(*    ok (1 value / 0 raised), out (the result's logical value)]           *)
(* An event is accepted iff the value-level specification (AkValue) of the *)
(* operation, applied to the logged operand, allows the logged outcome;    *)
(* consecutive events must be linked (operand of k+1 = result of k).       *)
(***************************************************************************)
EXTENDS AkValue, Json, IOUtils

TraceFile == IOEnv.TRACE_FILE
Traces == ndJsonDeserialize(TraceFile)

VARIABLES tid, l, rejected, prev
svars == <<tid, l, rejected, prev>>

NoPrev == [t |-> "noprev"]

Expected(ev) ==
  LET a == ev.args IN
  CASE ev.op = "slice" -> VGetItem(ev.v, ev.T, a.items)
    [] ev.op = "num" -> VAxisOp([n |-> "num"], ev.v, ev.T, a.axis)
    [] ev.op = "localindex" -> VAxisOp([n |-> "localindex"], ev.v, ev.T, a.axis)
    [] ev.op = "flatten" -> VFlatten(ev.v, ev.T, a.axis)
    [] ev.op = "pad" -> VAxisOp([n |-> "pad", target |-> a.target, clip |-> a.clip], ev.v, ev.T, a.axis)
    [] ev.op = "comb" -> IF a.n < 1 THEN Err ELSE VAxisOp([n |-> "comb", k |-> a.n, repl |-> a.repl], ev.v, ev.T, a.axis)
    [] ev.op = "reduce" -> VReduce(ev.v, ev.T, a.reducer, a.axis, a.mask, a.keepdims)
    [] ev.op = "same" -> Ok(ev.v)                                  \* re-encodings (C02, C09): the value is kept
    [] ev.op = "concatself" -> Ok(VList(ev.v.xs \o ev.v.xs))        \* C08: the elements of the first followed by the second's
    [] ev.op \in {"sort", "argsort"} -> VSort(ev.v, ev.T, a.axis, a.asc, IF ev.op = "argsort" THEN 1 ELSE 0)

SInit == tid = 1 /\ l = 1 /\ rejected = 0 /\ prev = NoPrev

Event ==
  /\ tid <= Len(Traces) /\ l <= Len(Traces[tid])
  /\ LET ev == Traces[tid][l]
         r == Expected(ev)
         linked == prev = NoPrev \/ prev = ev.v
         conforms == CASE r.ok = 3 -> TRUE                                  \* outside the properties' quantifiers
                       [] r.ok = 0 -> ev.ok = 0
                       [] r.ok = 2 -> ev.ok = 0 \/ ev.out = r.v               \* may refuse
                       [] r.ok = 1 -> ev.ok = 1 /\ ev.out = r.v
     IN IF linked /\ conforms
        THEN /\ l' = l + 1 /\ prev' = (IF ev.ok = 1 THEN ev.out ELSE ev.v) /\ UNCHANGED <<tid, rejected>>
        ELSE /\ PrintT(<<"TRACE-REJECTED", tid, l, IF linked THEN "outcome not allowed by the specification" ELSE "events not linked",
                         ToJson([op |-> ev.op, args |-> ev.args, spec |-> r, logged_ok |-> ev.ok])>>)
             /\ tid' = tid + 1 /\ l' = 1 /\ prev' = NoPrev /\ rejected' = rejected + 1

NextTrace ==
  /\ tid <= Len(Traces) /\ l > Len(Traces[tid])
  /\ tid' = tid + 1 /\ l' = 1 /\ prev' = NoPrev /\ UNCHANGED rejected

Report ==
  /\ tid = Len(Traces) + 1
  /\ PrintT(<<"TRACES-CHECKED", Len(Traces), "rejected", rejected>>)
  /\ tid' = tid + 1 /\ UNCHANGED <<l, rejected, prev>>

SNext == Event \/ NextTrace \/ Report
=============================================================================
