# BSD 3-Clause License; see https://github.com/scikit-hep/awkward-1.0/blob/main/LICENSE

from __future__ import absolute_import

import os
import datetime

import yaml

CURRENT_DIR = os.path.dirname(os.path.realpath(__file__))


def type_to_ctype(typename):
    is_const = False
    if "Const[" in typename:
        is_const = True
        typename = typename[len("Const[") : -1]
    count = 0
    while "List[" in typename:
        count += 1
        typename = typename[len("List[") : -1]
    typename = typename + "*" * count
    if is_const:
        typename = "const " + typename
    return typename


def include_kernels_h(specification):
    print("Generating include/awkward/kernels.h...")

    with open(
        os.path.join(CURRENT_DIR, "..", "include", "awkward", "kernels.h"), "w"
    ) as header:
        header.write(
            """// AUTO GENERATED ON {0}
// DO NOT EDIT BY HAND!
//
// To regenerate file, run
//
//     python dev/generate-kernel-signatures.py
//
// (It is usually run as part of pip install . or localbuild.py.)

#ifndef AWKWARD_KERNELS_H_
#define AWKWARD_KERNELS_H_

#include "awkward/common.h"

extern "C" {{

""".format(
                datetime.datetime.now().isoformat().replace("T", " AT ")[:22]
            )
        )
        for spec in specification["kernels"]:
            for childfunc in spec["specializations"]:
                header.write(" " * 2 + "EXPORT_SYMBOL ERROR\n")
                header.write(" " * 2 + childfunc["name"] + "(\n")
                for i, arg in enumerate(childfunc["args"]):
                    header.write(
                        " " * 4 + type_to_ctype(arg["type"]) + " " + arg["name"]
                    )
                    if i == (len(childfunc["args"]) - 1):
                        header.write(");\n")
                    else:
                        header.write(",\n")
            header.write("\n")
        header.write(
            """}

#endif // AWKWARD_KERNELS_H_
"""
        )

    print("Done with  include/awkward/kernels.h.")


type_to_dtype = {
    "bool": "bool_",
    "int8": "int8",
    "uint8": "uint8",
    "int16": "int16",
    "uint16": "uint16",
    "int32": "int32",
    "uint32": "uint32",
    "int64": "int64",
    "uint64": "uint64",
    "float": "float32",
    "double": "float64",
}


def type_to_pytype(typename, special):
    if "Const[" in typename:
        typename = typename[len("Const[") : -1]
    count = 0
    while "List[" in typename:
        count += 1
        typename = typename[len("List[") : -1]
    if typename.endswith("_t"):
        typename = typename[:-2]
    if count != 0:
        special.append(type_to_dtype[typename])
    return ("POINTER(" * count) + ("c_" + typename) + (")" * count)


def kernel_signatures_py(specification):
    print("Generating src/awkward/_kernel_signatures.py...")

    with open(
        os.path.join(CURRENT_DIR, "..", "src", "awkward", "_kernel_signatures.py"),
        "w",
    ) as file:
        file.write(
            """# AUTO GENERATED ON {0}
# DO NOT EDIT BY HAND!
#
# To regenerate file, run
#
#     python dev/generate-kernel-signatures.py
#
# (It is usually run as part of pip install . or localbuild.py.)

# fmt: off

from ctypes import (
    POINTER,
    Structure,
    c_bool,
    c_int8,
    c_uint8,
    c_int16,
    c_uint16,
    c_int32,
    c_uint32,
    c_int64,
    c_uint64,
    c_float,
    c_double,
    c_char_p,
)

import numpy as np

from numpy import (
    bool_,
    int8,
    uint8,
    int16,
    uint16,
    int32,
    uint32,
    int64,
    uint64,
    float32,
    float64,
)

class ERROR(Structure):
    _fields_ = [
        ("str", c_char_p),
        ("filename", c_char_p),
        ("id", c_int64),
        ("attempt", c_int64),
        ("pass_through", c_bool),
    ]


def by_signature(lib):
    out = {{}}
""".format(
                datetime.datetime.now().isoformat().replace("T", " AT ")[:22]
            )
        )

        for spec in specification["kernels"]:
            for childfunc in spec["specializations"]:
                special = [repr(spec["name"])]
                arglist = [
                    type_to_pytype(x["type"], special) for x in childfunc["args"]
                ]
                file.write(
                    """
    f = lib.{0}
    f.argtypes = [{1}]
    f.restype = ERROR
    out[{2}] = f
""".format(
                        childfunc["name"], ", ".join(arglist), ", ".join(special)
                    )
                )

        file.write(
            """
    return out
"""
        )

    print("Done with  src/awkward/_kernel_signatures.py...")


if __name__ == "__main__":
    with open(os.path.join(CURRENT_DIR, "..", "kernel-specification.yml")) as specfile:
        specification = yaml.safe_load(specfile)
        include_kernels_h(specification)
        kernel_signatures_py(specification)
