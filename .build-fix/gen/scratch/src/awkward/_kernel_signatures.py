# AUTO GENERATED ON 2026-10-05 AT 02:47:49
# DO NOT EDIT BY HAND!
#
# To regenerate file, run
#
#     python dev/generate-kernel-signatures.py
#
# (It is usually run as part of pip install . or localbuild.py.)

# fmt: off

from ctypes import (
    POINTER,
    Structure,
    c_bool,
    c_int8,
    c_uint8,
    c_int16,
    c_uint16,
    c_int32,
    c_uint32,
    c_int64,
    c_uint64,
    c_float,
    c_double,
    c_char_p,
)

import numpy as np

from numpy import (
    bool_,
    int8,
    uint8,
    int16,
    uint16,
    int32,
    uint32,
    int64,
    uint64,
    float32,
    float64,
)

class ERROR(Structure):
    _fields_ = [
        ("str", c_char_p),
        ("filename", c_char_p),
        ("id", c_int64),
        ("attempt", c_int64),
        ("pass_through", c_bool),
    ]


def by_signature(lib):
    out = {}

    f = lib.awkward_BitMaskedArray_to_ByteMaskedArray
    f.argtypes = [POINTER(c_int8), POINTER(c_uint8), c_int64, c_bool, c_bool]
    f.restype = ERROR
    out['awkward_BitMaskedArray_to_ByteMaskedArray', int8, uint8] = f

    f = lib.awkward_BitMaskedArray_to_IndexedOptionArray64
    f.argtypes = [POINTER(c_int64), POINTER(c_uint8), c_int64, c_bool, c_bool]
    f.restype = ERROR
    out['awkward_BitMaskedArray_to_IndexedOptionArray', int64, uint8] = f

    f = lib.awkward_ByteMaskedArray_getitem_carry_64
    f.argtypes = [POINTER(c_int8), POINTER(c_int8), c_int64, POINTER(c_int64), c_int64]
    f.restype = ERROR
    out['awkward_ByteMaskedArray_getitem_carry', int8, int8, int64] = f

    f = lib.awkward_ByteMaskedArray_getitem_nextcarry_64
    f.argtypes = [POINTER(c_int64), POINTER(c_int8), c_int64, c_bool]
    f.restype = ERROR
    out['awkward_ByteMaskedArray_getitem_nextcarry', int64, int8] = f

    f = lib.awkward_ByteMaskedArray_getitem_nextcarry_outindex_64
    f.argtypes = [POINTER(c_int64), POINTER(c_int64), POINTER(c_int8), c_int64, c_bool]
    f.restype = ERROR
    out['awkward_ByteMaskedArray_getitem_nextcarry_outindex', int64, int64, int8] = f

    f = lib.awkward_ByteMaskedArray_mask8
    f.argtypes = [POINTER(c_int8), POINTER(c_int8), c_int64, c_bool]
    f.restype = ERROR
    out['awkward_ByteMaskedArray_mask', int8, int8] = f

    f = lib.awkward_ByteMaskedArray_numnull
    f.argtypes = [POINTER(c_int64), POINTER(c_int8), c_int64, c_bool]
    f.restype = ERROR
    out['awkward_ByteMaskedArray_numnull', int64, int8] = f

    f = lib.awkward_ByteMaskedArray_overlay_mask8
    f.argtypes = [POINTER(c_int8), POINTER(c_int8), POINTER(c_int8), c_int64, c_bool]
    f.restype = ERROR
    out['awkward_ByteMaskedArray_overlay_mask', int8, int8, int8] = f

    f = lib.awkward_ByteMaskedArray_reduce_next_64
    f.argtypes = [POINTER(c_int64), POINTER(c_int64), POINTER(c_int64), POINTER(c_int8), POINTER(c_int64), c_int64, c_bool]
    f.restype = ERROR
    out['awkward_ByteMaskedArray_reduce_next_64', int64, int64, int64, int8, int64] = f

    f = lib.awkward_ByteMaskedArray_reduce_next_nonlocal_nextshifts_64
    f.argtypes = [POINTER(c_int64), POINTER(c_int8), c_int64, c_bool]
    f.restype = ERROR
    out['awkward_ByteMaskedArray_reduce_next_nonlocal_nextshifts_64', int64, int8] = f

    f = lib.awkward_ByteMaskedArray_reduce_next_nonlocal_nextshifts_fromshifts_64
    f.argtypes = [POINTER(c_int64), POINTER(c_int8), c_int64, c_bool, POINTER(c_int64)]
    f.restype = ERROR
    out['awkward_ByteMaskedArray_reduce_next_nonlocal_nextshifts_fromshifts_64', int64, int8, int64] = f

    f = lib.awkward_ByteMaskedArray_toIndexedOptionArray64
    f.argtypes = [POINTER(c_int64), POINTER(c_int8), c_int64, c_bool]
    f.restype = ERROR
    out['awkward_ByteMaskedArray_toIndexedOptionArray', int64, int8] = f

    f = lib.awkward_Content_getitem_next_missing_jagged_getmaskstartstop
    f.argtypes = [POINTER(c_int64), POINTER(c_int64), POINTER(c_int64), POINTER(c_int64), POINTER(c_int64), c_int64]
    f.restype = ERROR
    out['awkward_Content_getitem_next_missing_jagged_getmaskstartstop', int64, int64, int64, int64, int64] = f

    f = lib.awkward_Identities32_to_Identities64
    f.argtypes = [POINTER(c_int64), POINTER(c_int32), c_int64, c_int64]
    f.restype = ERROR
    out['awkward_Identities32_to_Identities64', int64, int32] = f

    f = lib.awkward_Identities32_extend
    f.argtypes = [POINTER(c_int32), POINTER(c_int32), c_int64, c_int64]
    f.restype = ERROR
    out['awkward_Identities_extend', int32, int32] = f

    f = lib.awkward_Identities64_extend
    f.argtypes = [POINTER(c_int64), POINTER(c_int64), c_int64, c_int64]
    f.restype = ERROR
    out['awkward_Identities_extend', int64, int64] = f

    f = lib.awkward_Identities32_from_IndexedArray32
    f.argtypes = [POINTER(c_bool), POINTER(c_int32), POINTER(c_int32), POINTER(c_int32), c_int64, c_int64, c_int64]
    f.restype = ERROR
    out['awkward_Identities_from_IndexedArray', bool_, int32, int32, int32] = f

    f = lib.awkward_Identities32_from_IndexedArray64
    f.argtypes = [POINTER(c_bool), POINTER(c_int32), POINTER(c_int32), POINTER(c_int64), c_int64, c_int64, c_int64]
    f.restype = ERROR
    out['awkward_Identities_from_IndexedArray', bool_, int32, int32, int64] = f

    f = lib.awkward_Identities32_from_IndexedArrayU32
    f.argtypes = [POINTER(c_bool), POINTER(c_int32), POINTER(c_int32), POINTER(c_uint32), c_int64, c_int64, c_int64]
    f.restype = ERROR
    out['awkward_Identities_from_IndexedArray', bool_, int32, int32, uint32] = f

    f = lib.awkward_Identities64_from_IndexedArray32
    f.argtypes = [POINTER(c_bool), POINTER(c_int64), POINTER(c_int64), POINTER(c_int32), c_int64, c_int64, c_int64]
    f.restype = ERROR
    out['awkward_Identities_from_IndexedArray', bool_, int64, int64, int32] = f

    f = lib.awkward_Identities64_from_IndexedArray64
    f.argtypes = [POINTER(c_bool), POINTER(c_int64), POINTER(c_int64), POINTER(c_int64), c_int64, c_int64, c_int64]
    f.restype = ERROR
    out['awkward_Identities_from_IndexedArray', bool_, int64, int64, int64] = f

    f = lib.awkward_Identities64_from_IndexedArrayU32
    f.argtypes = [POINTER(c_bool), POINTER(c_int64), POINTER(c_int64), POINTER(c_uint32), c_int64, c_int64, c_int64]
    f.restype = ERROR
    out['awkward_Identities_from_IndexedArray', bool_, int64, int64, uint32] = f

    f = lib.awkward_Identities32_from_ListArray32
    f.argtypes = [POINTER(c_bool), POINTER(c_int32), POINTER(c_int32), POINTER(c_int32), POINTER(c_int32), c_int64, c_int64, c_int64]
    f.restype = ERROR
    out['awkward_Identities_from_ListArray', bool_, int32, int32, int32, int32] = f

    f = lib.awkward_Identities32_from_ListArray64
    f.argtypes = [POINTER(c_bool), POINTER(c_int32), POINTER(c_int32), POINTER(c_int64), POINTER(c_int64), c_int64, c_int64, c_int64]
    f.restype = ERROR
    out['awkward_Identities_from_ListArray', bool_, int32, int32, int64, int64] = f

    f = lib.awkward_Identities32_from_ListArrayU32
    f.argtypes = [POINTER(c_bool), POINTER(c_int32), POINTER(c_int32), POINTER(c_uint32), POINTER(c_uint32), c_int64, c_int64, c_int64]
    f.restype = ERROR
    out['awkward_Identities_from_ListArray', bool_, int32, int32, uint32, uint32] = f

    f = lib.awkward_Identities64_from_ListArray32
    f.argtypes = [POINTER(c_bool), POINTER(c_int64), POINTER(c_int64), POINTER(c_int32), POINTER(c_int32), c_int64, c_int64, c_int64]
    f.restype = ERROR
    out['awkward_Identities_from_ListArray', bool_, int64, int64, int32, int32] = f

    f = lib.awkward_Identities64_from_ListArray64
    f.argtypes = [POINTER(c_bool), POINTER(c_int64), POINTER(c_int64), POINTER(c_int64), POINTER(c_int64), c_int64, c_int64, c_int64]
    f.restype = ERROR
    out['awkward_Identities_from_ListArray', bool_, int64, int64, int64, int64] = f

    f = lib.awkward_Identities64_from_ListArrayU32
    f.argtypes = [POINTER(c_bool), POINTER(c_int64), POINTER(c_int64), POINTER(c_uint32), POINTER(c_uint32), c_int64, c_int64, c_int64]
    f.restype = ERROR
    out['awkward_Identities_from_ListArray', bool_, int64, int64, uint32, uint32] = f

    f = lib.awkward_Identities32_from_ListOffsetArray32
    f.argtypes = [POINTER(c_int32), POINTER(c_int32), POINTER(c_int32), c_int64, c_int64, c_int64]
    f.restype = ERROR
    out['awkward_Identities_from_ListOffsetArray', int32, int32, int32] = f

    f = lib.awkward_Identities32_from_ListOffsetArray64
    f.argtypes = [POINTER(c_int32), POINTER(c_int32), POINTER(c_int64), c_int64, c_int64, c_int64]
    f.restype = ERROR
    out['awkward_Identities_from_ListOffsetArray', int32, int32, int64] = f

    f = lib.awkward_Identities32_from_ListOffsetArrayU32
    f.argtypes = [POINTER(c_int32), POINTER(c_int32), POINTER(c_uint32), c_int64, c_int64, c_int64]
    f.restype = ERROR
    out['awkward_Identities_from_ListOffsetArray', int32, int32, uint32] = f

    f = lib.awkward_Identities64_from_ListOffsetArray32
    f.argtypes = [POINTER(c_int64), POINTER(c_int64), POINTER(c_int32), c_int64, c_int64, c_int64]
    f.restype = ERROR
    out['awkward_Identities_from_ListOffsetArray', int64, int64, int32] = f

    f = lib.awkward_Identities64_from_ListOffsetArray64
    f.argtypes = [POINTER(c_int64), POINTER(c_int64), POINTER(c_int64), c_int64, c_int64, c_int64]
    f.restype = ERROR
    out['awkward_Identities_from_ListOffsetArray', int64, int64, int64] = f

    f = lib.awkward_Identities64_from_ListOffsetArrayU32
    f.argtypes = [POINTER(c_int64), POINTER(c_int64), POINTER(c_uint32), c_int64, c_int64, c_int64]
    f.restype = ERROR
    out['awkward_Identities_from_ListOffsetArray', int64, int64, uint32] = f

    f = lib.awkward_Identities32_from_RegularArray
    f.argtypes = [POINTER(c_int32), POINTER(c_int32), c_int64, c_int64, c_int64, c_int64]
    f.restype = ERROR
    out['awkward_Identities_from_RegularArray', int32, int32] = f

    f = lib.awkward_Identities64_from_RegularArray
    f.argtypes = [POINTER(c_int64), POINTER(c_int64), c_int64, c_int64, c_int64, c_int64]
    f.restype = ERROR
    out['awkward_Identities_from_RegularArray', int64, int64] = f

    f = lib.awkward_Identities32_from_UnionArray8_32
    f.argtypes = [POINTER(c_bool), POINTER(c_int32), POINTER(c_int32), POINTER(c_int8), POINTER(c_int32), c_int64, c_int64, c_int64, c_int64]
    f.restype = ERROR
    out['awkward_Identities_from_UnionArray', bool_, int32, int32, int8, int32] = f

    f = lib.awkward_Identities32_from_UnionArray8_64
    f.argtypes = [POINTER(c_bool), POINTER(c_int32), POINTER(c_int32), POINTER(c_int8), POINTER(c_int64), c_int64, c_int64, c_int64, c_int64]
    f.restype = ERROR
    out['awkward_Identities_from_UnionArray', bool_, int32, int32, int8, int64] = f

    f = lib.awkward_Identities32_from_UnionArray8_U32
    f.argtypes = [POINTER(c_bool), POINTER(c_int32), POINTER(c_int32), POINTER(c_int8), POINTER(c_uint32), c_int64, c_int64, c_int64, c_int64]
    f.restype = ERROR
    out['awkward_Identities_from_UnionArray', bool_, int32, int32, int8, uint32] = f

    f = lib.awkward_Identities64_from_UnionArray8_32
    f.argtypes = [POINTER(c_bool), POINTER(c_int64), POINTER(c_int64), POINTER(c_int8), POINTER(c_int32), c_int64, c_int64, c_int64, c_int64]
    f.restype = ERROR
    out['awkward_Identities_from_UnionArray', bool_, int64, int64, int8, int32] = f

    f = lib.awkward_Identities64_from_UnionArray8_64
    f.argtypes = [POINTER(c_bool), POINTER(c_int64), POINTER(c_int64), POINTER(c_int8), POINTER(c_int64), c_int64, c_int64, c_int64, c_int64]
    f.restype = ERROR
    out['awkward_Identities_from_UnionArray', bool_, int64, int64, int8, int64] = f

    f = lib.awkward_Identities64_from_UnionArray8_U32
    f.argtypes = [POINTER(c_bool), POINTER(c_int64), POINTER(c_int64), POINTER(c_int8), POINTER(c_uint32), c_int64, c_int64, c_int64, c_int64]
    f.restype = ERROR
    out['awkward_Identities_from_UnionArray', bool_, int64, int64, int8, uint32] = f

    f = lib.awkward_Identities32_getitem_carry_64
    f.argtypes = [POINTER(c_int32), POINTER(c_int32), POINTER(c_int64), c_int64, c_int64, c_int64]
    f.restype = ERROR
    out['awkward_Identities_getitem_carry', int32, int32, int64] = f

    f = lib.awkward_Identities64_getitem_carry_64
    f.argtypes = [POINTER(c_int64), POINTER(c_int64), POINTER(c_int64), c_int64, c_int64, c_int64]
    f.restype = ERROR
    out['awkward_Identities_getitem_carry', int64, int64, int64] = f

    f = lib.awkward_Index32_iscontiguous
    f.argtypes = [POINTER(c_bool), POINTER(c_int32), c_int64]
    f.restype = ERROR
    out['awkward_Index_iscontiguous', bool_, int32] = f

    f = lib.awkward_Index64_iscontiguous
    f.argtypes = [POINTER(c_bool), POINTER(c_int64), c_int64]
    f.restype = ERROR
    out['awkward_Index_iscontiguous', bool_, int64] = f

    f = lib.awkward_Index8_iscontiguous
    f.argtypes = [POINTER(c_bool), POINTER(c_int8), c_int64]
    f.restype = ERROR
    out['awkward_Index_iscontiguous', bool_, int8] = f

    f = lib.awkward_IndexU32_iscontiguous
    f.argtypes = [POINTER(c_bool), POINTER(c_uint32), c_int64]
    f.restype = ERROR
    out['awkward_Index_iscontiguous', bool_, uint32] = f

    f = lib.awkward_IndexU8_iscontiguous
    f.argtypes = [POINTER(c_bool), POINTER(c_uint8), c_int64]
    f.restype = ERROR
    out['awkward_Index_iscontiguous', bool_, uint8] = f

    f = lib.awkward_Index32_to_Index64
    f.argtypes = [POINTER(c_int64), POINTER(c_int32), c_int64]
    f.restype = ERROR
    out['awkward_Index_to_Index64', int64, int32] = f

    f = lib.awkward_Index8_to_Index64
    f.argtypes = [POINTER(c_int64), POINTER(c_int8), c_int64]
    f.restype = ERROR
    out['awkward_Index_to_Index64', int64, int8] = f

    f = lib.awkward_IndexU32_to_Index64
    f.argtypes = [POINTER(c_int64), POINTER(c_uint32), c_int64]
    f.restype = ERROR
    out['awkward_Index_to_Index64', int64, uint32] = f

    f = lib.awkward_IndexU8_to_Index64
    f.argtypes = [POINTER(c_int64), POINTER(c_uint8), c_int64]
    f.restype = ERROR
    out['awkward_Index_to_Index64', int64, uint8] = f

    f = lib.awkward_IndexedArray_fill_to64_from32
    f.argtypes = [POINTER(c_int64), c_int64, POINTER(c_int32), c_int64, c_int64]
    f.restype = ERROR
    out['awkward_IndexedArray_fill', int64, int32] = f

    f = lib.awkward_IndexedArray_fill_to64_from64
    f.argtypes = [POINTER(c_int64), c_int64, POINTER(c_int64), c_int64, c_int64]
    f.restype = ERROR
    out['awkward_IndexedArray_fill', int64, int64] = f

    f = lib.awkward_IndexedArray_fill_to64_fromU32
    f.argtypes = [POINTER(c_int64), c_int64, POINTER(c_uint32), c_int64, c_int64]
    f.restype = ERROR
    out['awkward_IndexedArray_fill', int64, uint32] = f

    f = lib.awkward_IndexedArray_fill_to64_count
    f.argtypes = [POINTER(c_int64), c_int64, c_int64, c_int64]
    f.restype = ERROR
    out['awkward_IndexedArray_fill_count', int64] = f

    f = lib.awkward_IndexedArray32_flatten_nextcarry_64
    f.argtypes = [POINTER(c_int64), POINTER(c_int32), c_int64, c_int64]
    f.restype = ERROR
    out['awkward_IndexedArray_flatten_nextcarry', int64, int32] = f

    f = lib.awkward_IndexedArray64_flatten_nextcarry_64
    f.argtypes = [POINTER(c_int64), POINTER(c_int64), c_int64, c_int64]
    f.restype = ERROR
    out['awkward_IndexedArray_flatten_nextcarry', int64, int64] = f

    f = lib.awkward_IndexedArrayU32_flatten_nextcarry_64
    f.argtypes = [POINTER(c_int64), POINTER(c_uint32), c_int64, c_int64]
    f.restype = ERROR
    out['awkward_IndexedArray_flatten_nextcarry', int64, uint32] = f

    f = lib.awkward_IndexedArray32_flatten_none2empty_64
    f.argtypes = [POINTER(c_int64), POINTER(c_int32), c_int64, POINTER(c_int64), c_int64]
    f.restype = ERROR
    out['awkward_IndexedArray_flatten_none2empty', int64, int32, int64] = f

    f = lib.awkward_IndexedArray64_flatten_none2empty_64
    f.argtypes = [POINTER(c_int64), POINTER(c_int64), c_int64, POINTER(c_int64), c_int64]
    f.restype = ERROR
    out['awkward_IndexedArray_flatten_none2empty', int64, int64, int64] = f

    f = lib.awkward_IndexedArrayU32_flatten_none2empty_64
    f.argtypes = [POINTER(c_int64), POINTER(c_uint32), c_int64, POINTER(c_int64), c_int64]
    f.restype = ERROR
    out['awkward_IndexedArray_flatten_none2empty', int64, uint32, int64] = f

    f = lib.awkward_IndexedArray_getitem_adjust_outindex_64
    f.argtypes = [POINTER(c_int8), POINTER(c_int64), POINTER(c_int64), POINTER(c_int64), c_int64, POINTER(c_int64), c_int64]
    f.restype = ERROR
    out['awkward_IndexedArray_getitem_adjust_outindex', int8, int64, int64, int64, int64] = f

    f = lib.awkward_IndexedArray32_getitem_carry_64
    f.argtypes = [POINTER(c_int32), POINTER(c_int32), POINTER(c_int64), c_int64, c_int64]
    f.restype = ERROR
    out['awkward_IndexedArray_getitem_carry', int32, int32, int64] = f

    f = lib.awkward_IndexedArray64_getitem_carry_64
    f.argtypes = [POINTER(c_int64), POINTER(c_int64), POINTER(c_int64), c_int64, c_int64]
    f.restype = ERROR
    out['awkward_IndexedArray_getitem_carry', int64, int64, int64] = f

    f = lib.awkward_IndexedArrayU32_getitem_carry_64
    f.argtypes = [POINTER(c_uint32), POINTER(c_uint32), POINTER(c_int64), c_int64, c_int64]
    f.restype = ERROR
    out['awkward_IndexedArray_getitem_carry', uint32, uint32, int64] = f

    f = lib.awkward_IndexedArray32_getitem_nextcarry_64
    f.argtypes = [POINTER(c_int64), POINTER(c_int32), c_int64, c_int64]
    f.restype = ERROR
    out['awkward_IndexedArray_getitem_nextcarry', int64, int32] = f

    f = lib.awkward_IndexedArray64_getitem_nextcarry_64
    f.argtypes = [POINTER(c_int64), POINTER(c_int64), c_int64, c_int64]
    f.restype = ERROR
    out['awkward_IndexedArray_getitem_nextcarry', int64, int64] = f

    f = lib.awkward_IndexedArrayU32_getitem_nextcarry_64
    f.argtypes = [POINTER(c_int64), POINTER(c_uint32), c_int64, c_int64]
    f.restype = ERROR
    out['awkward_IndexedArray_getitem_nextcarry', int64, uint32] = f

    f = lib.awkward_IndexedArray32_getitem_nextcarry_outindex_64
    f.argtypes = [POINTER(c_int64), POINTER(c_int32), POINTER(c_int32), c_int64, c_int64]
    f.restype = ERROR
    out['awkward_IndexedArray_getitem_nextcarry_outindex', int64, int32, int32] = f

    f = lib.awkward_IndexedArray64_getitem_nextcarry_outindex_64
    f.argtypes = [POINTER(c_int64), POINTER(c_int64), POINTER(c_int64), c_int64, c_int64]
    f.restype = ERROR
    out['awkward_IndexedArray_getitem_nextcarry_outindex', int64, int64, int64] = f

    f = lib.awkward_IndexedArrayU32_getitem_nextcarry_outindex_64
    f.argtypes = [POINTER(c_int64), POINTER(c_uint32), POINTER(c_uint32), c_int64, c_int64]
    f.restype = ERROR
    out['awkward_IndexedArray_getitem_nextcarry_outindex', int64, uint32, uint32] = f

    f = lib.awkward_IndexedArray32_getitem_nextcarry_outindex_mask_64
    f.argtypes = [POINTER(c_int64), POINTER(c_int64), POINTER(c_int32), c_int64, c_int64]
    f.restype = ERROR
    out['awkward_IndexedArray_getitem_nextcarry_outindex_mask', int64, int64, int32] = f

    f = lib.awkward_IndexedArray64_getitem_nextcarry_outindex_mask_64
    f.argtypes = [POINTER(c_int64), POINTER(c_int64), POINTER(c_int64), c_int64, c_int64]
    f.restype = ERROR
    out['awkward_IndexedArray_getitem_nextcarry_outindex_mask', int64, int64, int64] = f

    f = lib.awkward_IndexedArrayU32_getitem_nextcarry_outindex_mask_64
    f.argtypes = [POINTER(c_int64), POINTER(c_int64), POINTER(c_uint32), c_int64, c_int64]
    f.restype = ERROR
    out['awkward_IndexedArray_getitem_nextcarry_outindex_mask', int64, int64, uint32] = f

    f = lib.awkward_IndexedArray_local_preparenext_64
    f.argtypes = [POINTER(c_int64), POINTER(c_int64), POINTER(c_int64), c_int64, POINTER(c_int64), c_int64]
    f.restype = ERROR
    out['awkward_IndexedArray_local_preparenext_64', int64, int64, int64, int64] = f

    f = lib.awkward_IndexedArray32_mask8
    f.argtypes = [POINTER(c_int8), POINTER(c_int32), c_int64]
    f.restype = ERROR
    out['awkward_IndexedArray_mask', int8, int32] = f

    f = lib.awkward_IndexedArray64_mask8
    f.argtypes = [POINTER(c_int8), POINTER(c_int64), c_int64]
    f.restype = ERROR
    out['awkward_IndexedArray_mask', int8, int64] = f

    f = lib.awkward_IndexedArrayU32_mask8
    f.argtypes = [POINTER(c_int8), POINTER(c_uint32), c_int64]
    f.restype = ERROR
    out['awkward_IndexedArray_mask', int8, uint32] = f

    f = lib.awkward_IndexedArray32_numnull
    f.argtypes = [POINTER(c_int64), POINTER(c_int32), c_int64]
    f.restype = ERROR
    out['awkward_IndexedArray_numnull', int64, int32] = f

    f = lib.awkward_IndexedArray64_numnull
    f.argtypes = [POINTER(c_int64), POINTER(c_int64), c_int64]
    f.restype = ERROR
    out['awkward_IndexedArray_numnull', int64, int64] = f

    f = lib.awkward_IndexedArrayU32_numnull
    f.argtypes = [POINTER(c_int64), POINTER(c_uint32), c_int64]
    f.restype = ERROR
    out['awkward_IndexedArray_numnull', int64, uint32] = f

    f = lib.awkward_IndexedArray32_index_of_nulls
    f.argtypes = [POINTER(c_int64), POINTER(c_int32), c_int64, POINTER(c_int64), POINTER(c_int64)]
    f.restype = ERROR
    out['awkward_IndexedArray_index_of_nulls', int64, int32, int64, int64] = f

    f = lib.awkward_IndexedArray64_index_of_nulls
    f.argtypes = [POINTER(c_int64), POINTER(c_int64), c_int64, POINTER(c_int64), POINTER(c_int64)]
    f.restype = ERROR
    out['awkward_IndexedArray_index_of_nulls', int64, int64, int64, int64] = f

    f = lib.awkward_IndexedArrayU32_index_of_nulls
    f.argtypes = [POINTER(c_int64), POINTER(c_uint32), c_int64, POINTER(c_int64), POINTER(c_int64)]
    f.restype = ERROR
    out['awkward_IndexedArray_index_of_nulls', int64, uint32, int64, int64] = f

    f = lib.awkward_IndexedArray32_overlay_mask8_to64
    f.argtypes = [POINTER(c_int64), POINTER(c_int8), POINTER(c_int32), c_int64]
    f.restype = ERROR
    out['awkward_IndexedArray_overlay_mask', int64, int8, int32] = f

    f = lib.awkward_IndexedArray64_overlay_mask8_to64
    f.argtypes = [POINTER(c_int64), POINTER(c_int8), POINTER(c_int64), c_int64]
    f.restype = ERROR
    out['awkward_IndexedArray_overlay_mask', int64, int8, int64] = f

    f = lib.awkward_IndexedArrayU32_overlay_mask8_to64
    f.argtypes = [POINTER(c_int64), POINTER(c_int8), POINTER(c_uint32), c_int64]
    f.restype = ERROR
    out['awkward_IndexedArray_overlay_mask', int64, int8, uint32] = f

    f = lib.awkward_IndexedArray32_reduce_next_64
    f.argtypes = [POINTER(c_int64), POINTER(c_int64), POINTER(c_int64), POINTER(c_int32), POINTER(c_int64), c_int64]
    f.restype = ERROR
    out['awkward_IndexedArray_reduce_next_64', int64, int64, int64, int32, int64] = f

    f = lib.awkward_IndexedArray64_reduce_next_64
    f.argtypes = [POINTER(c_int64), POINTER(c_int64), POINTER(c_int64), POINTER(c_int64), POINTER(c_int64), c_int64]
    f.restype = ERROR
    out['awkward_IndexedArray_reduce_next_64', int64, int64, int64, int64, int64] = f

    f = lib.awkward_IndexedArrayU32_reduce_next_64
    f.argtypes = [POINTER(c_int64), POINTER(c_int64), POINTER(c_int64), POINTER(c_uint32), POINTER(c_int64), c_int64]
    f.restype = ERROR
    out['awkward_IndexedArray_reduce_next_64', int64, int64, int64, uint32, int64] = f

    f = lib.awkward_IndexedArray_reduce_next_fix_offsets_64
    f.argtypes = [POINTER(c_int64), POINTER(c_int64), c_int64, c_int64]
    f.restype = ERROR
    out['awkward_IndexedArray_reduce_next_fix_offsets_64', int64, int64] = f

    f = lib.awkward_IndexedArray32_reduce_next_nonlocal_nextshifts_64
    f.argtypes = [POINTER(c_int64), POINTER(c_int32), c_int64]
    f.restype = ERROR
    out['awkward_IndexedArray_reduce_next_nonlocal_nextshifts_64', int64, int32] = f

    f = lib.awkward_IndexedArray64_reduce_next_nonlocal_nextshifts_64
    f.argtypes = [POINTER(c_int64), POINTER(c_int64), c_int64]
    f.restype = ERROR
    out['awkward_IndexedArray_reduce_next_nonlocal_nextshifts_64', int64, int64] = f

    f = lib.awkward_IndexedArrayU32_reduce_next_nonlocal_nextshifts_64
    f.argtypes = [POINTER(c_int64), POINTER(c_uint32), c_int64]
    f.restype = ERROR
    out['awkward_IndexedArray_reduce_next_nonlocal_nextshifts_64', int64, uint32] = f

    f = lib.awkward_IndexedArray32_reduce_next_nonlocal_nextshifts_fromshifts_64
    f.argtypes = [POINTER(c_int64), POINTER(c_int32), c_int64, POINTER(c_int64)]
    f.restype = ERROR
    out['awkward_IndexedArray_reduce_next_nonlocal_nextshifts_fromshifts_64', int64, int32, int64] = f

    f = lib.awkward_IndexedArray64_reduce_next_nonlocal_nextshifts_fromshifts_64
    f.argtypes = [POINTER(c_int64), POINTER(c_int64), c_int64, POINTER(c_int64)]
    f.restype = ERROR
    out['awkward_IndexedArray_reduce_next_nonlocal_nextshifts_fromshifts_64', int64, int64, int64] = f

    f = lib.awkward_IndexedArrayU32_reduce_next_nonlocal_nextshifts_fromshifts_64
    f.argtypes = [POINTER(c_int64), POINTER(c_uint32), c_int64, POINTER(c_int64)]
    f.restype = ERROR
    out['awkward_IndexedArray_reduce_next_nonlocal_nextshifts_fromshifts_64', int64, uint32, int64] = f

    f = lib.awkward_IndexedArray32_simplify32_to64
    f.argtypes = [POINTER(c_int64), POINTER(c_int32), c_int64, POINTER(c_int32), c_int64]
    f.restype = ERROR
    out['awkward_IndexedArray_simplify', int64, int32, int32] = f

    f = lib.awkward_IndexedArray32_simplify64_to64
    f.argtypes = [POINTER(c_int64), POINTER(c_int32), c_int64, POINTER(c_int64), c_int64]
    f.restype = ERROR
    out['awkward_IndexedArray_simplify', int64, int32, int64] = f

    f = lib.awkward_IndexedArray32_simplifyU32_to64
    f.argtypes = [POINTER(c_int64), POINTER(c_int32), c_int64, POINTER(c_uint32), c_int64]
    f.restype = ERROR
    out['awkward_IndexedArray_simplify', int64, int32, uint32] = f

    f = lib.awkward_IndexedArray64_simplify32_to64
    f.argtypes = [POINTER(c_int64), POINTER(c_int64), c_int64, POINTER(c_int32), c_int64]
    f.restype = ERROR
    out['awkward_IndexedArray_simplify', int64, int64, int32] = f

    f = lib.awkward_IndexedArray64_simplify64_to64
    f.argtypes = [POINTER(c_int64), POINTER(c_int64), c_int64, POINTER(c_int64), c_int64]
    f.restype = ERROR
    out['awkward_IndexedArray_simplify', int64, int64, int64] = f

    f = lib.awkward_IndexedArray64_simplifyU32_to64
    f.argtypes = [POINTER(c_int64), POINTER(c_int64), c_int64, POINTER(c_uint32), c_int64]
    f.restype = ERROR
    out['awkward_IndexedArray_simplify', int64, int64, uint32] = f

    f = lib.awkward_IndexedArrayU32_simplify32_to64
    f.argtypes = [POINTER(c_int64), POINTER(c_uint32), c_int64, POINTER(c_int32), c_int64]
    f.restype = ERROR
    out['awkward_IndexedArray_simplify', int64, uint32, int32] = f

    f = lib.awkward_IndexedArrayU32_simplify64_to64
    f.argtypes = [POINTER(c_int64), POINTER(c_uint32), c_int64, POINTER(c_int64), c_int64]
    f.restype = ERROR
    out['awkward_IndexedArray_simplify', int64, uint32, int64] = f

    f = lib.awkward_IndexedArrayU32_simplifyU32_to64
    f.argtypes = [POINTER(c_int64), POINTER(c_uint32), c_int64, POINTER(c_uint32), c_int64]
    f.restype = ERROR
    out['awkward_IndexedArray_simplify', int64, uint32, uint32] = f

    f = lib.awkward_IndexedArray32_validity
    f.argtypes = [POINTER(c_int32), c_int64, c_int64, c_bool]
    f.restype = ERROR
    out['awkward_IndexedArray_validity', int32] = f

    f = lib.awkward_IndexedArray64_validity
    f.argtypes = [POINTER(c_int64), c_int64, c_int64, c_bool]
    f.restype = ERROR
    out['awkward_IndexedArray_validity', int64] = f

    f = lib.awkward_IndexedArrayU32_validity
    f.argtypes = [POINTER(c_uint32), c_int64, c_int64, c_bool]
    f.restype = ERROR
    out['awkward_IndexedArray_validity', uint32] = f

    f = lib.awkward_IndexedArray32_ranges_next_64
    f.argtypes = [POINTER(c_int32), POINTER(c_int64), POINTER(c_int64), c_int64, POINTER(c_int64), POINTER(c_int64), POINTER(c_int64)]
    f.restype = ERROR
    out['awkward_IndexedArray_ranges_next_64', int32, int64, int64, int64, int64, int64] = f

    f = lib.awkward_IndexedArray64_ranges_next_64
    f.argtypes = [POINTER(c_int64), POINTER(c_int64), POINTER(c_int64), c_int64, POINTER(c_int64), POINTER(c_int64), POINTER(c_int64)]
    f.restype = ERROR
    out['awkward_IndexedArray_ranges_next_64', int64, int64, int64, int64, int64, int64] = f

    f = lib.awkward_IndexedArrayU32_ranges_next_64
    f.argtypes = [POINTER(c_uint32), POINTER(c_int64), POINTER(c_int64), c_int64, POINTER(c_int64), POINTER(c_int64), POINTER(c_int64)]
    f.restype = ERROR
    out['awkward_IndexedArray_ranges_next_64', uint32, int64, int64, int64, int64, int64] = f

    f = lib.awkward_IndexedArray32_ranges_carry_next_64
    f.argtypes = [POINTER(c_int32), POINTER(c_int64), POINTER(c_int64), c_int64, POINTER(c_int64)]
    f.restype = ERROR
    out['awkward_IndexedArray_ranges_carry_next_64', int32, int64, int64, int64] = f

    f = lib.awkward_IndexedArray64_ranges_carry_next_64
    f.argtypes = [POINTER(c_int64), POINTER(c_int64), POINTER(c_int64), c_int64, POINTER(c_int64)]
    f.restype = ERROR
    out['awkward_IndexedArray_ranges_carry_next_64', int64, int64, int64, int64] = f

    f = lib.awkward_IndexedArrayU32_ranges_carry_next_64
    f.argtypes = [POINTER(c_uint32), POINTER(c_int64), POINTER(c_int64), c_int64, POINTER(c_int64)]
    f.restype = ERROR
    out['awkward_IndexedArray_ranges_carry_next_64', uint32, int64, int64, int64] = f

    f = lib.awkward_IndexedOptionArray_rpad_and_clip_mask_axis1_64
    f.argtypes = [POINTER(c_int64), POINTER(c_int8), c_int64]
    f.restype = ERROR
    out['awkward_IndexedOptionArray_rpad_and_clip_mask_axis1', int64, int8] = f

    f = lib.awkward_ListArray32_broadcast_tooffsets_64
    f.argtypes = [POINTER(c_int64), POINTER(c_int64), c_int64, POINTER(c_int32), POINTER(c_int32), c_int64]
    f.restype = ERROR
    out['awkward_ListArray_broadcast_tooffsets', int64, int64, int32, int32] = f

    f = lib.awkward_ListArray64_broadcast_tooffsets_64
    f.argtypes = [POINTER(c_int64), POINTER(c_int64), c_int64, POINTER(c_int64), POINTER(c_int64), c_int64]
    f.restype = ERROR
    out['awkward_ListArray_broadcast_tooffsets', int64, int64, int64, int64] = f

    f = lib.awkward_ListArrayU32_broadcast_tooffsets_64
    f.argtypes = [POINTER(c_int64), POINTER(c_int64), c_int64, POINTER(c_uint32), POINTER(c_uint32), c_int64]
    f.restype = ERROR
    out['awkward_ListArray_broadcast_tooffsets', int64, int64, uint32, uint32] = f

    f = lib.awkward_ListArray32_combinations_64
    f.argtypes = [POINTER(POINTER(c_int64)), POINTER(c_int64), POINTER(c_int64), c_int64, c_bool, POINTER(c_int32), POINTER(c_int32), c_int64]
    f.restype = ERROR
    out['awkward_ListArray_combinations', int64, int64, int64, int32, int32] = f

    f = lib.awkward_ListArray64_combinations_64
    f.argtypes = [POINTER(POINTER(c_int64)), POINTER(c_int64), POINTER(c_int64), c_int64, c_bool, POINTER(c_int64), POINTER(c_int64), c_int64]
    f.restype = ERROR
    out['awkward_ListArray_combinations', int64, int64, int64, int64, int64] = f

    f = lib.awkward_ListArrayU32_combinations_64
    f.argtypes = [POINTER(POINTER(c_int64)), POINTER(c_int64), POINTER(c_int64), c_int64, c_bool, POINTER(c_uint32), POINTER(c_uint32), c_int64]
    f.restype = ERROR
    out['awkward_ListArray_combinations', int64, int64, int64, uint32, uint32] = f

    f = lib.awkward_ListArray32_combinations_length_64
    f.argtypes = [POINTER(c_int64), POINTER(c_int64), c_int64, c_bool, POINTER(c_int32), POINTER(c_int32), c_int64]
    f.restype = ERROR
    out['awkward_ListArray_combinations_length', int64, int64, int32, int32] = f

    f = lib.awkward_ListArray64_combinations_length_64
    f.argtypes = [POINTER(c_int64), POINTER(c_int64), c_int64, c_bool, POINTER(c_int64), POINTER(c_int64), c_int64]
    f.restype = ERROR
    out['awkward_ListArray_combinations_length', int64, int64, int64, int64] = f

    f = lib.awkward_ListArrayU32_combinations_length_64
    f.argtypes = [POINTER(c_int64), POINTER(c_int64), c_int64, c_bool, POINTER(c_uint32), POINTER(c_uint32), c_int64]
    f.restype = ERROR
    out['awkward_ListArray_combinations_length', int64, int64, uint32, uint32] = f

    f = lib.awkward_ListArray32_compact_offsets_64
    f.argtypes = [POINTER(c_int64), POINTER(c_int32), POINTER(c_int32), c_int64]
    f.restype = ERROR
    out['awkward_ListArray_compact_offsets', int64, int32, int32] = f

    f = lib.awkward_ListArray64_compact_offsets_64
    f.argtypes = [POINTER(c_int64), POINTER(c_int64), POINTER(c_int64), c_int64]
    f.restype = ERROR
    out['awkward_ListArray_compact_offsets', int64, int64, int64] = f

    f = lib.awkward_ListArrayU32_compact_offsets_64
    f.argtypes = [POINTER(c_int64), POINTER(c_uint32), POINTER(c_uint32), c_int64]
    f.restype = ERROR
    out['awkward_ListArray_compact_offsets', int64, uint32, uint32] = f

    f = lib.awkward_ListArray_fill_to64_from32
    f.argtypes = [POINTER(c_int64), c_int64, POINTER(c_int64), c_int64, POINTER(c_int32), POINTER(c_int32), c_int64, c_int64]
    f.restype = ERROR
    out['awkward_ListArray_fill', int64, int64, int32, int32] = f

    f = lib.awkward_ListArray_fill_to64_from64
    f.argtypes = [POINTER(c_int64), c_int64, POINTER(c_int64), c_int64, POINTER(c_int64), POINTER(c_int64), c_int64, c_int64]
    f.restype = ERROR
    out['awkward_ListArray_fill', int64, int64, int64, int64] = f

    f = lib.awkward_ListArray_fill_to64_fromU32
    f.argtypes = [POINTER(c_int64), c_int64, POINTER(c_int64), c_int64, POINTER(c_uint32), POINTER(c_uint32), c_int64, c_int64]
    f.restype = ERROR
    out['awkward_ListArray_fill', int64, int64, uint32, uint32] = f

    f = lib.awkward_ListArray32_getitem_carry_64
    f.argtypes = [POINTER(c_int32), POINTER(c_int32), POINTER(c_int32), POINTER(c_int32), POINTER(c_int64), c_int64, c_int64]
    f.restype = ERROR
    out['awkward_ListArray_getitem_carry', int32, int32, int32, int32, int64] = f

    f = lib.awkward_ListArray64_getitem_carry_64
    f.argtypes = [POINTER(c_int64), POINTER(c_int64), POINTER(c_int64), POINTER(c_int64), POINTER(c_int64), c_int64, c_int64]
    f.restype = ERROR
    out['awkward_ListArray_getitem_carry', int64, int64, int64, int64, int64] = f

    f = lib.awkward_ListArrayU32_getitem_carry_64
    f.argtypes = [POINTER(c_uint32), POINTER(c_uint32), POINTER(c_uint32), POINTER(c_uint32), POINTER(c_int64), c_int64, c_int64]
    f.restype = ERROR
    out['awkward_ListArray_getitem_carry', uint32, uint32, uint32, uint32, int64] = f

    f = lib.awkward_ListArray32_getitem_jagged_apply_64
    f.argtypes = [POINTER(c_int64), POINTER(c_int64), POINTER(c_int64), POINTER(c_int64), c_int64, POINTER(c_int64), c_int64, POINTER(c_int32), POINTER(c_int32), c_int64]
    f.restype = ERROR
    out['awkward_ListArray_getitem_jagged_apply', int64, int64, int64, int64, int64, int32, int32] = f

    f = lib.awkward_ListArray64_getitem_jagged_apply_64
    f.argtypes = [POINTER(c_int64), POINTER(c_int64), POINTER(c_int64), POINTER(c_int64), c_int64, POINTER(c_int64), c_int64, POINTER(c_int64), POINTER(c_int64), c_int64]
    f.restype = ERROR
    out['awkward_ListArray_getitem_jagged_apply', int64, int64, int64, int64, int64, int64, int64] = f

    f = lib.awkward_ListArrayU32_getitem_jagged_apply_64
    f.argtypes = [POINTER(c_int64), POINTER(c_int64), POINTER(c_int64), POINTER(c_int64), c_int64, POINTER(c_int64), c_int64, POINTER(c_uint32), POINTER(c_uint32), c_int64]
    f.restype = ERROR
    out['awkward_ListArray_getitem_jagged_apply', int64, int64, int64, int64, int64, uint32, uint32] = f

    f = lib.awkward_ListArray_getitem_jagged_carrylen_64
    f.argtypes = [POINTER(c_int64), POINTER(c_int64), POINTER(c_int64), c_int64]
    f.restype = ERROR
    out['awkward_ListArray_getitem_jagged_carrylen', int64, int64, int64] = f

    f = lib.awkward_ListArray32_getitem_jagged_descend_64
    f.argtypes = [POINTER(c_int64), POINTER(c_int64), POINTER(c_int64), c_int64, POINTER(c_int32), POINTER(c_int32)]
    f.restype = ERROR
    out['awkward_ListArray_getitem_jagged_descend', int64, int64, int64, int32, int32] = f

    f = lib.awkward_ListArray64_getitem_jagged_descend_64
    f.argtypes = [POINTER(c_int64), POINTER(c_int64), POINTER(c_int64), c_int64, POINTER(c_int64), POINTER(c_int64)]
    f.restype = ERROR
    out['awkward_ListArray_getitem_jagged_descend', int64, int64, int64, int64, int64] = f

    f = lib.awkward_ListArrayU32_getitem_jagged_descend_64
    f.argtypes = [POINTER(c_int64), POINTER(c_int64), POINTER(c_int64), c_int64, POINTER(c_uint32), POINTER(c_uint32)]
    f.restype = ERROR
    out['awkward_ListArray_getitem_jagged_descend', int64, int64, int64, uint32, uint32] = f

    f = lib.awkward_ListArray32_getitem_jagged_expand_64
    f.argtypes = [POINTER(c_int64), POINTER(c_int64), POINTER(c_int64), POINTER(c_int64), POINTER(c_int32), POINTER(c_int32), c_int64, c_int64]
    f.restype = ERROR
    out['awkward_ListArray_getitem_jagged_expand', int64, int64, int64, int64, int32, int32] = f

    f = lib.awkward_ListArray64_getitem_jagged_expand_64
    f.argtypes = [POINTER(c_int64), POINTER(c_int64), POINTER(c_int64), POINTER(c_int64), POINTER(c_int64), POINTER(c_int64), c_int64, c_int64]
    f.restype = ERROR
    out['awkward_ListArray_getitem_jagged_expand', int64, int64, int64, int64, int64, int64] = f

    f = lib.awkward_ListArrayU32_getitem_jagged_expand_64
    f.argtypes = [POINTER(c_int64), POINTER(c_int64), POINTER(c_int64), POINTER(c_int64), POINTER(c_uint32), POINTER(c_uint32), c_int64, c_int64]
    f.restype = ERROR
    out['awkward_ListArray_getitem_jagged_expand', int64, int64, int64, int64, uint32, uint32] = f

    f = lib.awkward_ListArray_getitem_jagged_numvalid_64
    f.argtypes = [POINTER(c_int64), POINTER(c_int64), POINTER(c_int64), c_int64, POINTER(c_int64), c_int64]
    f.restype = ERROR
    out['awkward_ListArray_getitem_jagged_numvalid', int64, int64, int64, int64] = f

    f = lib.awkward_ListArray_getitem_jagged_shrink_64
    f.argtypes = [POINTER(c_int64), POINTER(c_int64), POINTER(c_int64), POINTER(c_int64), POINTER(c_int64), c_int64, POINTER(c_int64)]
    f.restype = ERROR
    out['awkward_ListArray_getitem_jagged_shrink', int64, int64, int64, int64, int64, int64] = f

    f = lib.awkward_ListArray32_getitem_next_array_64
    f.argtypes = [POINTER(c_int64), POINTER(c_int64), POINTER(c_int32), POINTER(c_int32), POINTER(c_int64), c_int64, c_int64, c_int64]
    f.restype = ERROR
    out['awkward_ListArray_getitem_next_array', int64, int64, int32, int32, int64] = f

    f = lib.awkward_ListArray64_getitem_next_array_64
    f.argtypes = [POINTER(c_int64), POINTER(c_int64), POINTER(c_int64), POINTER(c_int64), POINTER(c_int64), c_int64, c_int64, c_int64]
    f.restype = ERROR
    out['awkward_ListArray_getitem_next_array', int64, int64, int64, int64, int64] = f

    f = lib.awkward_ListArrayU32_getitem_next_array_64
    f.argtypes = [POINTER(c_int64), POINTER(c_int64), POINTER(c_uint32), POINTER(c_uint32), POINTER(c_int64), c_int64, c_int64, c_int64]
    f.restype = ERROR
    out['awkward_ListArray_getitem_next_array', int64, int64, uint32, uint32, int64] = f

    f = lib.awkward_ListArray32_getitem_next_array_advanced_64
    f.argtypes = [POINTER(c_int64), POINTER(c_int64), POINTER(c_int32), POINTER(c_int32), POINTER(c_int64), POINTER(c_int64), c_int64, c_int64, c_int64]
    f.restype = ERROR
    out['awkward_ListArray_getitem_next_array_advanced', int64, int64, int32, int32, int64, int64] = f

    f = lib.awkward_ListArray64_getitem_next_array_advanced_64
    f.argtypes = [POINTER(c_int64), POINTER(c_int64), POINTER(c_int64), POINTER(c_int64), POINTER(c_int64), POINTER(c_int64), c_int64, c_int64, c_int64]
    f.restype = ERROR
    out['awkward_ListArray_getitem_next_array_advanced', int64, int64, int64, int64, int64, int64] = f

    f = lib.awkward_ListArrayU32_getitem_next_array_advanced_64
    f.argtypes = [POINTER(c_int64), POINTER(c_int64), POINTER(c_uint32), POINTER(c_uint32), POINTER(c_int64), POINTER(c_int64), c_int64, c_int64, c_int64]
    f.restype = ERROR
    out['awkward_ListArray_getitem_next_array_advanced', int64, int64, uint32, uint32, int64, int64] = f

    f = lib.awkward_ListArray32_getitem_next_at_64
    f.argtypes = [POINTER(c_int64), POINTER(c_int32), POINTER(c_int32), c_int64, c_int64]
    f.restype = ERROR
    out['awkward_ListArray_getitem_next_at', int64, int32, int32] = f

    f = lib.awkward_ListArray64_getitem_next_at_64
    f.argtypes = [POINTER(c_int64), POINTER(c_int64), POINTER(c_int64), c_int64, c_int64]
    f.restype = ERROR
    out['awkward_ListArray_getitem_next_at', int64, int64, int64] = f

    f = lib.awkward_ListArrayU32_getitem_next_at_64
    f.argtypes = [POINTER(c_int64), POINTER(c_uint32), POINTER(c_uint32), c_int64, c_int64]
    f.restype = ERROR
    out['awkward_ListArray_getitem_next_at', int64, uint32, uint32] = f

    f = lib.awkward_ListArray32_getitem_next_range_64
    f.argtypes = [POINTER(c_int32), POINTER(c_int64), POINTER(c_int32), POINTER(c_int32), c_int64, c_int64, c_int64, c_int64]
    f.restype = ERROR
    out['awkward_ListArray_getitem_next_range', int32, int64, int32, int32] = f

    f = lib.awkward_ListArray64_getitem_next_range_64
    f.argtypes = [POINTER(c_int64), POINTER(c_int64), POINTER(c_int64), POINTER(c_int64), c_int64, c_int64, c_int64, c_int64]
    f.restype = ERROR
    out['awkward_ListArray_getitem_next_range', int64, int64, int64, int64] = f

    f = lib.awkward_ListArrayU32_getitem_next_range_64
    f.argtypes = [POINTER(c_uint32), POINTER(c_int64), POINTER(c_uint32), POINTER(c_uint32), c_int64, c_int64, c_int64, c_int64]
    f.restype = ERROR
    out['awkward_ListArray_getitem_next_range', uint32, int64, uint32, uint32] = f

    f = lib.awkward_ListArray32_getitem_next_range_carrylength
    f.argtypes = [POINTER(c_int64), POINTER(c_int32), POINTER(c_int32), c_int64, c_int64, c_int64, c_int64]
    f.restype = ERROR
    out['awkward_ListArray_getitem_next_range_carrylength', int64, int32, int32] = f

    f = lib.awkward_ListArray64_getitem_next_range_carrylength
    f.argtypes = [POINTER(c_int64), POINTER(c_int64), POINTER(c_int64), c_int64, c_int64, c_int64, c_int64]
    f.restype = ERROR
    out['awkward_ListArray_getitem_next_range_carrylength', int64, int64, int64] = f

    f = lib.awkward_ListArrayU32_getitem_next_range_carrylength
    f.argtypes = [POINTER(c_int64), POINTER(c_uint32), POINTER(c_uint32), c_int64, c_int64, c_int64, c_int64]
    f.restype = ERROR
    out['awkward_ListArray_getitem_next_range_carrylength', int64, uint32, uint32] = f

    f = lib.awkward_ListArray32_getitem_next_range_counts_64
    f.argtypes = [POINTER(c_int64), POINTER(c_int32), c_int64]
    f.restype = ERROR
    out['awkward_ListArray_getitem_next_range_counts', int64, int32] = f

    f = lib.awkward_ListArray64_getitem_next_range_counts_64
    f.argtypes = [POINTER(c_int64), POINTER(c_int64), c_int64]
    f.restype = ERROR
    out['awkward_ListArray_getitem_next_range_counts', int64, int64] = f

    f = lib.awkward_ListArrayU32_getitem_next_range_counts_64
    f.argtypes = [POINTER(c_int64), POINTER(c_uint32), c_int64]
    f.restype = ERROR
    out['awkward_ListArray_getitem_next_range_counts', int64, uint32] = f

    f = lib.awkward_ListArray32_getitem_next_range_spreadadvanced_64
    f.argtypes = [POINTER(c_int64), POINTER(c_int64), POINTER(c_int32), c_int64]
    f.restype = ERROR
    out['awkward_ListArray_getitem_next_range_spreadadvanced', int64, int64, int32] = f

    f = lib.awkward_ListArray64_getitem_next_range_spreadadvanced_64
    f.argtypes = [POINTER(c_int64), POINTER(c_int64), POINTER(c_int64), c_int64]
    f.restype = ERROR
    out['awkward_ListArray_getitem_next_range_spreadadvanced', int64, int64, int64] = f

    f = lib.awkward_ListArrayU32_getitem_next_range_spreadadvanced_64
    f.argtypes = [POINTER(c_int64), POINTER(c_int64), POINTER(c_uint32), c_int64]
    f.restype = ERROR
    out['awkward_ListArray_getitem_next_range_spreadadvanced', int64, int64, uint32] = f

    f = lib.awkward_ListArray32_localindex_64
    f.argtypes = [POINTER(c_int64), POINTER(c_int32), c_int64]
    f.restype = ERROR
    out['awkward_ListArray_localindex', int64, int32] = f

    f = lib.awkward_ListArray64_localindex_64
    f.argtypes = [POINTER(c_int64), POINTER(c_int64), c_int64]
    f.restype = ERROR
    out['awkward_ListArray_localindex', int64, int64] = f

    f = lib.awkward_ListArrayU32_localindex_64
    f.argtypes = [POINTER(c_int64), POINTER(c_uint32), c_int64]
    f.restype = ERROR
    out['awkward_ListArray_localindex', int64, uint32] = f

    f = lib.awkward_ListArray32_min_range
    f.argtypes = [POINTER(c_int64), POINTER(c_int32), POINTER(c_int32), c_int64]
    f.restype = ERROR
    out['awkward_ListArray_min_range', int64, int32, int32] = f

    f = lib.awkward_ListArray64_min_range
    f.argtypes = [POINTER(c_int64), POINTER(c_int64), POINTER(c_int64), c_int64]
    f.restype = ERROR
    out['awkward_ListArray_min_range', int64, int64, int64] = f

    f = lib.awkward_ListArrayU32_min_range
    f.argtypes = [POINTER(c_int64), POINTER(c_uint32), POINTER(c_uint32), c_int64]
    f.restype = ERROR
    out['awkward_ListArray_min_range', int64, uint32, uint32] = f

    f = lib.awkward_ListArray32_num_64
    f.argtypes = [POINTER(c_int64), POINTER(c_int32), POINTER(c_int32), c_int64]
    f.restype = ERROR
    out['awkward_ListArray_num', int64, int32, int32] = f

    f = lib.awkward_ListArray64_num_64
    f.argtypes = [POINTER(c_int64), POINTER(c_int64), POINTER(c_int64), c_int64]
    f.restype = ERROR
    out['awkward_ListArray_num', int64, int64, int64] = f

    f = lib.awkward_ListArrayU32_num_64
    f.argtypes = [POINTER(c_int64), POINTER(c_uint32), POINTER(c_uint32), c_int64]
    f.restype = ERROR
    out['awkward_ListArray_num', int64, uint32, uint32] = f

    f = lib.awkward_ListArray32_rpad_and_clip_length_axis1
    f.argtypes = [POINTER(c_int64), POINTER(c_int32), POINTER(c_int32), c_int64, c_int64]
    f.restype = ERROR
    out['awkward_ListArray_rpad_and_clip_length_axis1', int64, int32, int32] = f

    f = lib.awkward_ListArray64_rpad_and_clip_length_axis1
    f.argtypes = [POINTER(c_int64), POINTER(c_int64), POINTER(c_int64), c_int64, c_int64]
    f.restype = ERROR
    out['awkward_ListArray_rpad_and_clip_length_axis1', int64, int64, int64] = f

    f = lib.awkward_ListArrayU32_rpad_and_clip_length_axis1
    f.argtypes = [POINTER(c_int64), POINTER(c_uint32), POINTER(c_uint32), c_int64, c_int64]
    f.restype = ERROR
    out['awkward_ListArray_rpad_and_clip_length_axis1', int64, uint32, uint32] = f

    f = lib.awkward_ListArray32_rpad_axis1_64
    f.argtypes = [POINTER(c_int64), POINTER(c_int32), POINTER(c_int32), POINTER(c_int32), POINTER(c_int32), c_int64, c_int64]
    f.restype = ERROR
    out['awkward_ListArray_rpad_axis1', int64, int32, int32, int32, int32] = f

    f = lib.awkward_ListArray64_rpad_axis1_64
    f.argtypes = [POINTER(c_int64), POINTER(c_int64), POINTER(c_int64), POINTER(c_int64), POINTER(c_int64), c_int64, c_int64]
    f.restype = ERROR
    out['awkward_ListArray_rpad_axis1', int64, int64, int64, int64, int64] = f

    f = lib.awkward_ListArrayU32_rpad_axis1_64
    f.argtypes = [POINTER(c_int64), POINTER(c_uint32), POINTER(c_uint32), POINTER(c_uint32), POINTER(c_uint32), c_int64, c_int64]
    f.restype = ERROR
    out['awkward_ListArray_rpad_axis1', int64, uint32, uint32, uint32, uint32] = f

    f = lib.awkward_ListArray32_validity
    f.argtypes = [POINTER(c_int32), POINTER(c_int32), c_int64, c_int64]
    f.restype = ERROR
    out['awkward_ListArray_validity', int32, int32] = f

    f = lib.awkward_ListArray64_validity
    f.argtypes = [POINTER(c_int64), POINTER(c_int64), c_int64, c_int64]
    f.restype = ERROR
    out['awkward_ListArray_validity', int64, int64] = f

    f = lib.awkward_ListArrayU32_validity
    f.argtypes = [POINTER(c_uint32), POINTER(c_uint32), c_int64, c_int64]
    f.restype = ERROR
    out['awkward_ListArray_validity', uint32, uint32] = f

    f = lib.awkward_ListOffsetArray32_compact_offsets_64
    f.argtypes = [POINTER(c_int64), POINTER(c_int32), c_int64]
    f.restype = ERROR
    out['awkward_ListOffsetArray_compact_offsets', int64, int32] = f

    f = lib.awkward_ListOffsetArray64_compact_offsets_64
    f.argtypes = [POINTER(c_int64), POINTER(c_int64), c_int64]
    f.restype = ERROR
    out['awkward_ListOffsetArray_compact_offsets', int64, int64] = f

    f = lib.awkward_ListOffsetArrayU32_compact_offsets_64
    f.argtypes = [POINTER(c_int64), POINTER(c_uint32), c_int64]
    f.restype = ERROR
    out['awkward_ListOffsetArray_compact_offsets', int64, uint32] = f

    f = lib.awkward_ListOffsetArray32_flatten_offsets_64
    f.argtypes = [POINTER(c_int64), POINTER(c_int32), c_int64, POINTER(c_int64), c_int64]
    f.restype = ERROR
    out['awkward_ListOffsetArray_flatten_offsets', int64, int32, int64] = f

    f = lib.awkward_ListOffsetArray64_flatten_offsets_64
    f.argtypes = [POINTER(c_int64), POINTER(c_int64), c_int64, POINTER(c_int64), c_int64]
    f.restype = ERROR
    out['awkward_ListOffsetArray_flatten_offsets', int64, int64, int64] = f

    f = lib.awkward_ListOffsetArrayU32_flatten_offsets_64
    f.argtypes = [POINTER(c_int64), POINTER(c_uint32), c_int64, POINTER(c_int64), c_int64]
    f.restype = ERROR
    out['awkward_ListOffsetArray_flatten_offsets', int64, uint32, int64] = f

    f = lib.awkward_ListOffsetArray_getitem_adjust_offsets_64
    f.argtypes = [POINTER(c_int64), POINTER(c_int64), POINTER(c_int64), c_int64, POINTER(c_int64), c_int64]
    f.restype = ERROR
    out['awkward_ListOffsetArray_getitem_adjust_offsets', int64, int64, int64, int64] = f

    f = lib.awkward_ListOffsetArray_getitem_adjust_offsets_index_64
    f.argtypes = [POINTER(c_int64), POINTER(c_int64), POINTER(c_int64), c_int64, POINTER(c_int64), c_int64, POINTER(c_int64), c_int64, POINTER(c_int8), c_int64]
    f.restype = ERROR
    out['awkward_ListOffsetArray_getitem_adjust_offsets_index', int64, int64, int64, int64, int64, int8] = f

    f = lib.awkward_ListOffsetArray_local_preparenext_64
    f.argtypes = [POINTER(c_int64), POINTER(c_int64), c_int64]
    f.restype = ERROR
    out['awkward_ListOffsetArray_local_preparenext_64', int64, int64] = f

    f = lib.awkward_ListOffsetArray_reduce_global_startstop_64
    f.argtypes = [POINTER(c_int64), POINTER(c_int64), POINTER(c_int64), c_int64]
    f.restype = ERROR
    out['awkward_ListOffsetArray_reduce_global_startstop_64', int64, int64, int64] = f

    f = lib.awkward_ListOffsetArray_reduce_local_nextparents_64
    f.argtypes = [POINTER(c_int64), POINTER(c_int64), c_int64]
    f.restype = ERROR
    out['awkward_ListOffsetArray_reduce_local_nextparents_64', int64, int64] = f

    f = lib.awkward_ListOffsetArray_reduce_local_outoffsets_64
    f.argtypes = [POINTER(c_int64), POINTER(c_int64), c_int64, c_int64]
    f.restype = ERROR
    out['awkward_ListOffsetArray_reduce_local_outoffsets_64', int64, int64] = f

    f = lib.awkward_ListOffsetArray_reduce_nonlocal_findgaps_64
    f.argtypes = [POINTER(c_int64), POINTER(c_int64), c_int64]
    f.restype = ERROR
    out['awkward_ListOffsetArray_reduce_nonlocal_findgaps_64', int64, int64] = f

    f = lib.awkward_ListOffsetArray_reduce_nonlocal_maxcount_offsetscopy_64
    f.argtypes = [POINTER(c_int64), POINTER(c_int64), POINTER(c_int64), c_int64]
    f.restype = ERROR
    out['awkward_ListOffsetArray_reduce_nonlocal_maxcount_offsetscopy_64', int64, int64, int64] = f

    f = lib.awkward_ListOffsetArray_reduce_nonlocal_nextshifts_64
    f.argtypes = [POINTER(c_int64), POINTER(c_int64), POINTER(c_int64), POINTER(c_int64), c_int64, POINTER(c_int64), POINTER(c_int64), c_int64, c_int64, POINTER(c_int64)]
    f.restype = ERROR
    out['awkward_ListOffsetArray_reduce_nonlocal_nextshifts_64', int64, int64, int64, int64, int64, int64, int64] = f

    f = lib.awkward_ListOffsetArray_reduce_nonlocal_nextstarts_64
    f.argtypes = [POINTER(c_int64), POINTER(c_int64), c_int64]
    f.restype = ERROR
    out['awkward_ListOffsetArray_reduce_nonlocal_nextstarts_64', int64, int64] = f

    f = lib.awkward_ListOffsetArray_reduce_nonlocal_outstartsstops_64
    f.argtypes = [POINTER(c_int64), POINTER(c_int64), POINTER(c_int64), c_int64, POINTER(c_int64), c_int64]
    f.restype = ERROR
    out['awkward_ListOffsetArray_reduce_nonlocal_outstartsstops_64', int64, int64, int64, int64] = f

    f = lib.awkward_ListOffsetArray_reduce_nonlocal_preparenext_64
    f.argtypes = [POINTER(c_int64), POINTER(c_int64), c_int64, POINTER(c_int64), POINTER(c_int64), c_int64, POINTER(c_int64), POINTER(c_int64), c_int64, POINTER(c_int64), c_int64]
    f.restype = ERROR
    out['awkward_ListOffsetArray_reduce_nonlocal_preparenext_64', int64, int64, int64, int64, int64, int64, int64] = f

    f = lib.awkward_ListOffsetArray32_rpad_and_clip_axis1_64
    f.argtypes = [POINTER(c_int64), POINTER(c_int32), c_int64, c_int64]
    f.restype = ERROR
    out['awkward_ListOffsetArray_rpad_and_clip_axis1', int64, int32] = f

    f = lib.awkward_ListOffsetArray64_rpad_and_clip_axis1_64
    f.argtypes = [POINTER(c_int64), POINTER(c_int64), c_int64, c_int64]
    f.restype = ERROR
    out['awkward_ListOffsetArray_rpad_and_clip_axis1', int64, int64] = f

    f = lib.awkward_ListOffsetArrayU32_rpad_and_clip_axis1_64
    f.argtypes = [POINTER(c_int64), POINTER(c_uint32), c_int64, c_int64]
    f.restype = ERROR
    out['awkward_ListOffsetArray_rpad_and_clip_axis1', int64, uint32] = f

    f = lib.awkward_ListOffsetArray32_rpad_axis1_64
    f.argtypes = [POINTER(c_int64), POINTER(c_int32), c_int64, c_int64]
    f.restype = ERROR
    out['awkward_ListOffsetArray_rpad_axis1', int64, int32] = f

    f = lib.awkward_ListOffsetArray64_rpad_axis1_64
    f.argtypes = [POINTER(c_int64), POINTER(c_int64), c_int64, c_int64]
    f.restype = ERROR
    out['awkward_ListOffsetArray_rpad_axis1', int64, int64] = f

    f = lib.awkward_ListOffsetArrayU32_rpad_axis1_64
    f.argtypes = [POINTER(c_int64), POINTER(c_uint32), c_int64, c_int64]
    f.restype = ERROR
    out['awkward_ListOffsetArray_rpad_axis1', int64, uint32] = f

    f = lib.awkward_ListOffsetArray32_rpad_length_axis1
    f.argtypes = [POINTER(c_int32), POINTER(c_int32), c_int64, c_int64, POINTER(c_int64)]
    f.restype = ERROR
    out['awkward_ListOffsetArray_rpad_length_axis1', int32, int32, int64] = f

    f = lib.awkward_ListOffsetArray64_rpad_length_axis1
    f.argtypes = [POINTER(c_int64), POINTER(c_int64), c_int64, c_int64, POINTER(c_int64)]
    f.restype = ERROR
    out['awkward_ListOffsetArray_rpad_length_axis1', int64, int64, int64] = f

    f = lib.awkward_ListOffsetArrayU32_rpad_length_axis1
    f.argtypes = [POINTER(c_uint32), POINTER(c_uint32), c_int64, c_int64, POINTER(c_int64)]
    f.restype = ERROR
    out['awkward_ListOffsetArray_rpad_length_axis1', uint32, uint32, int64] = f

    f = lib.awkward_ListOffsetArray32_toRegularArray
    f.argtypes = [POINTER(c_int64), POINTER(c_int32), c_int64]
    f.restype = ERROR
    out['awkward_ListOffsetArray_toRegularArray', int64, int32] = f

    f = lib.awkward_ListOffsetArray64_toRegularArray
    f.argtypes = [POINTER(c_int64), POINTER(c_int64), c_int64]
    f.restype = ERROR
    out['awkward_ListOffsetArray_toRegularArray', int64, int64] = f

    f = lib.awkward_ListOffsetArrayU32_toRegularArray
    f.argtypes = [POINTER(c_int64), POINTER(c_uint32), c_int64]
    f.restype = ERROR
    out['awkward_ListOffsetArray_toRegularArray', int64, uint32] = f

    f = lib.awkward_MaskedArray32_getitem_next_jagged_project
    f.argtypes = [POINTER(c_int32), POINTER(c_int64), POINTER(c_int64), POINTER(c_int64), POINTER(c_int64), c_int64]
    f.restype = ERROR
    out['awkward_MaskedArray_getitem_next_jagged_project', int32, int64, int64, int64, int64] = f

    f = lib.awkward_MaskedArray64_getitem_next_jagged_project
    f.argtypes = [POINTER(c_int64), POINTER(c_int64), POINTER(c_int64), POINTER(c_int64), POINTER(c_int64), c_int64]
    f.restype = ERROR
    out['awkward_MaskedArray_getitem_next_jagged_project', int64, int64, int64, int64, int64] = f

    f = lib.awkward_MaskedArrayU32_getitem_next_jagged_project
    f.argtypes = [POINTER(c_uint32), POINTER(c_int64), POINTER(c_int64), POINTER(c_int64), POINTER(c_int64), c_int64]
    f.restype = ERROR
    out['awkward_MaskedArray_getitem_next_jagged_project', uint32, int64, int64, int64, int64] = f

    f = lib.awkward_NumpyArray_copy
    f.argtypes = [POINTER(c_uint8), POINTER(c_uint8), c_int64]
    f.restype = ERROR
    out['awkward_NumpyArray_copy', uint8, uint8] = f

    f = lib.awkward_NumpyArray_contiguous_copy_64
    f.argtypes = [POINTER(c_uint8), POINTER(c_uint8), c_int64, c_int64, POINTER(c_int64)]
    f.restype = ERROR
    out['awkward_NumpyArray_contiguous_copy', uint8, uint8, int64] = f

    f = lib.awkward_NumpyArray_contiguous_copy_from_many_64
    f.argtypes = [POINTER(c_uint8), POINTER(POINTER(c_uint8)), POINTER(c_int64), c_int64, c_int64, POINTER(c_int64)]
    f.restype = ERROR
    out['awkward_NumpyArray_contiguous_copy_from_many', uint8, uint8, int64, int64] = f

    f = lib.awkward_NumpyArray_contiguous_init_64
    f.argtypes = [POINTER(c_int64), c_int64, c_int64]
    f.restype = ERROR
    out['awkward_NumpyArray_contiguous_init', int64] = f

    f = lib.awkward_NumpyArray_contiguous_next_64
    f.argtypes = [POINTER(c_int64), POINTER(c_int64), c_int64, c_int64, c_int64]
    f.restype = ERROR
    out['awkward_NumpyArray_contiguous_next', int64, int64] = f

    f = lib.awkward_NumpyArray_fill_toint8_fromint8
    f.argtypes = [POINTER(c_int8), c_int64, POINTER(c_int8), c_int64]
    f.restype = ERROR
    out['awkward_NumpyArray_fill', int8, int8] = f

    f = lib.awkward_NumpyArray_fill_toint8_fromint16
    f.argtypes = [POINTER(c_int8), c_int64, POINTER(c_int16), c_int64]
    f.restype = ERROR
    out['awkward_NumpyArray_fill', int8, int16] = f

    f = lib.awkward_NumpyArray_fill_toint8_fromint32
    f.argtypes = [POINTER(c_int8), c_int64, POINTER(c_int32), c_int64]
    f.restype = ERROR
    out['awkward_NumpyArray_fill', int8, int32] = f

    f = lib.awkward_NumpyArray_fill_toint8_fromint64
    f.argtypes = [POINTER(c_int8), c_int64, POINTER(c_int64), c_int64]
    f.restype = ERROR
    out['awkward_NumpyArray_fill', int8, int64] = f

    f = lib.awkward_NumpyArray_fill_toint8_fromuint8
    f.argtypes = [POINTER(c_int8), c_int64, POINTER(c_uint8), c_int64]
    f.restype = ERROR
    out['awkward_NumpyArray_fill', int8, uint8] = f

    f = lib.awkward_NumpyArray_fill_toint8_fromuint16
    f.argtypes = [POINTER(c_int8), c_int64, POINTER(c_uint16), c_int64]
    f.restype = ERROR
    out['awkward_NumpyArray_fill', int8, uint16] = f

    f = lib.awkward_NumpyArray_fill_toint8_fromuint32
    f.argtypes = [POINTER(c_int8), c_int64, POINTER(c_uint32), c_int64]
    f.restype = ERROR
    out['awkward_NumpyArray_fill', int8, uint32] = f

    f = lib.awkward_NumpyArray_fill_toint8_fromuint64
    f.argtypes = [POINTER(c_int8), c_int64, POINTER(c_uint64), c_int64]
    f.restype = ERROR
    out['awkward_NumpyArray_fill', int8, uint64] = f

    f = lib.awkward_NumpyArray_fill_toint8_fromfloat32
    f.argtypes = [POINTER(c_int8), c_int64, POINTER(c_float), c_int64]
    f.restype = ERROR
    out['awkward_NumpyArray_fill', int8, float32] = f

    f = lib.awkward_NumpyArray_fill_toint8_fromfloat64
    f.argtypes = [POINTER(c_int8), c_int64, POINTER(c_double), c_int64]
    f.restype = ERROR
    out['awkward_NumpyArray_fill', int8, float64] = f

    f = lib.awkward_NumpyArray_fill_toint16_fromint8
    f.argtypes = [POINTER(c_int16), c_int64, POINTER(c_int8), c_int64]
    f.restype = ERROR
    out['awkward_NumpyArray_fill', int16, int8] = f

    f = lib.awkward_NumpyArray_fill_toint16_fromint16
    f.argtypes = [POINTER(c_int16), c_int64, POINTER(c_int16), c_int64]
    f.restype = ERROR
    out['awkward_NumpyArray_fill', int16, int16] = f

    f = lib.awkward_NumpyArray_fill_toint16_fromint32
    f.argtypes = [POINTER(c_int16), c_int64, POINTER(c_int32), c_int64]
    f.restype = ERROR
    out['awkward_NumpyArray_fill', int16, int32] = f

    f = lib.awkward_NumpyArray_fill_toint16_fromint64
    f.argtypes = [POINTER(c_int16), c_int64, POINTER(c_int64), c_int64]
    f.restype = ERROR
    out['awkward_NumpyArray_fill', int16, int64] = f

    f = lib.awkward_NumpyArray_fill_toint16_fromuint8
    f.argtypes = [POINTER(c_int16), c_int64, POINTER(c_uint8), c_int64]
    f.restype = ERROR
    out['awkward_NumpyArray_fill', int16, uint8] = f

    f = lib.awkward_NumpyArray_fill_toint16_fromuint16
    f.argtypes = [POINTER(c_int16), c_int64, POINTER(c_uint16), c_int64]
    f.restype = ERROR
    out['awkward_NumpyArray_fill', int16, uint16] = f

    f = lib.awkward_NumpyArray_fill_toint16_fromuint32
    f.argtypes = [POINTER(c_int16), c_int64, POINTER(c_uint32), c_int64]
    f.restype = ERROR
    out['awkward_NumpyArray_fill', int16, uint32] = f

    f = lib.awkward_NumpyArray_fill_toint16_fromuint64
    f.argtypes = [POINTER(c_int16), c_int64, POINTER(c_uint64), c_int64]
    f.restype = ERROR
    out['awkward_NumpyArray_fill', int16, uint64] = f

    f = lib.awkward_NumpyArray_fill_toint16_fromfloat32
    f.argtypes = [POINTER(c_int16), c_int64, POINTER(c_float), c_int64]
    f.restype = ERROR
    out['awkward_NumpyArray_fill', int16, float32] = f

    f = lib.awkward_NumpyArray_fill_toint16_fromfloat64
    f.argtypes = [POINTER(c_int16), c_int64, POINTER(c_double), c_int64]
    f.restype = ERROR
    out['awkward_NumpyArray_fill', int16, float64] = f

    f = lib.awkward_NumpyArray_fill_toint32_fromint8
    f.argtypes = [POINTER(c_int32), c_int64, POINTER(c_int8), c_int64]
    f.restype = ERROR
    out['awkward_NumpyArray_fill', int32, int8] = f

    f = lib.awkward_NumpyArray_fill_toint32_fromint16
    f.argtypes = [POINTER(c_int32), c_int64, POINTER(c_int16), c_int64]
    f.restype = ERROR
    out['awkward_NumpyArray_fill', int32, int16] = f

    f = lib.awkward_NumpyArray_fill_toint32_fromint32
    f.argtypes = [POINTER(c_int32), c_int64, POINTER(c_int32), c_int64]
    f.restype = ERROR
    out['awkward_NumpyArray_fill', int32, int32] = f

    f = lib.awkward_NumpyArray_fill_toint32_fromint64
    f.argtypes = [POINTER(c_int32), c_int64, POINTER(c_int64), c_int64]
    f.restype = ERROR
    out['awkward_NumpyArray_fill', int32, int64] = f

    f = lib.awkward_NumpyArray_fill_toint32_fromuint8
    f.argtypes = [POINTER(c_int32), c_int64, POINTER(c_uint8), c_int64]
    f.restype = ERROR
    out['awkward_NumpyArray_fill', int32, uint8] = f

    f = lib.awkward_NumpyArray_fill_toint32_fromuint16
    f.argtypes = [POINTER(c_int32), c_int64, POINTER(c_uint16), c_int64]
    f.restype = ERROR
    out['awkward_NumpyArray_fill', int32, uint16] = f

    f = lib.awkward_NumpyArray_fill_toint32_fromuint32
    f.argtypes = [POINTER(c_int32), c_int64, POINTER(c_uint32), c_int64]
    f.restype = ERROR
    out['awkward_NumpyArray_fill', int32, uint32] = f

    f = lib.awkward_NumpyArray_fill_toint32_fromuint64
    f.argtypes = [POINTER(c_int32), c_int64, POINTER(c_uint64), c_int64]
    f.restype = ERROR
    out['awkward_NumpyArray_fill', int32, uint64] = f

    f = lib.awkward_NumpyArray_fill_toint32_fromfloat32
    f.argtypes = [POINTER(c_int32), c_int64, POINTER(c_float), c_int64]
    f.restype = ERROR
    out['awkward_NumpyArray_fill', int32, float32] = f

    f = lib.awkward_NumpyArray_fill_toint32_fromfloat64
    f.argtypes = [POINTER(c_int32), c_int64, POINTER(c_double), c_int64]
    f.restype = ERROR
    out['awkward_NumpyArray_fill', int32, float64] = f

    f = lib.awkward_NumpyArray_fill_toint64_fromint8
    f.argtypes = [POINTER(c_int64), c_int64, POINTER(c_int8), c_int64]
    f.restype = ERROR
    out['awkward_NumpyArray_fill', int64, int8] = f

    f = lib.awkward_NumpyArray_fill_toint64_fromint16
    f.argtypes = [POINTER(c_int64), c_int64, POINTER(c_int16), c_int64]
    f.restype = ERROR
    out['awkward_NumpyArray_fill', int64, int16] = f

    f = lib.awkward_NumpyArray_fill_toint64_fromint32
    f.argtypes = [POINTER(c_int64), c_int64, POINTER(c_int32), c_int64]
    f.restype = ERROR
    out['awkward_NumpyArray_fill', int64, int32] = f

    f = lib.awkward_NumpyArray_fill_toint64_fromint64
    f.argtypes = [POINTER(c_int64), c_int64, POINTER(c_int64), c_int64]
    f.restype = ERROR
    out['awkward_NumpyArray_fill', int64, int64] = f

    f = lib.awkward_NumpyArray_fill_toint64_fromuint8
    f.argtypes = [POINTER(c_int64), c_int64, POINTER(c_uint8), c_int64]
    f.restype = ERROR
    out['awkward_NumpyArray_fill', int64, uint8] = f

    f = lib.awkward_NumpyArray_fill_toint64_fromuint16
    f.argtypes = [POINTER(c_int64), c_int64, POINTER(c_uint16), c_int64]
    f.restype = ERROR
    out['awkward_NumpyArray_fill', int64, uint16] = f

    f = lib.awkward_NumpyArray_fill_toint64_fromuint32
    f.argtypes = [POINTER(c_int64), c_int64, POINTER(c_uint32), c_int64]
    f.restype = ERROR
    out['awkward_NumpyArray_fill', int64, uint32] = f

    f = lib.awkward_NumpyArray_fill_toint64_fromuint64
    f.argtypes = [POINTER(c_int64), c_int64, POINTER(c_uint64), c_int64]
    f.restype = ERROR
    out['awkward_NumpyArray_fill', int64, uint64] = f

    f = lib.awkward_NumpyArray_fill_toint64_fromfloat32
    f.argtypes = [POINTER(c_int64), c_int64, POINTER(c_float), c_int64]
    f.restype = ERROR
    out['awkward_NumpyArray_fill', int64, float32] = f

    f = lib.awkward_NumpyArray_fill_toint64_fromfloat64
    f.argtypes = [POINTER(c_int64), c_int64, POINTER(c_double), c_int64]
    f.restype = ERROR
    out['awkward_NumpyArray_fill', int64, float64] = f

    f = lib.awkward_NumpyArray_fill_touint8_fromint8
    f.argtypes = [POINTER(c_uint8), c_int64, POINTER(c_int8), c_int64]
    f.restype = ERROR
    out['awkward_NumpyArray_fill', uint8, int8] = f

    f = lib.awkward_NumpyArray_fill_touint8_fromint16
    f.argtypes = [POINTER(c_uint8), c_int64, POINTER(c_int16), c_int64]
    f.restype = ERROR
    out['awkward_NumpyArray_fill', uint8, int16] = f

    f = lib.awkward_NumpyArray_fill_touint8_fromint32
    f.argtypes = [POINTER(c_uint8), c_int64, POINTER(c_int32), c_int64]
    f.restype = ERROR
    out['awkward_NumpyArray_fill', uint8, int32] = f

    f = lib.awkward_NumpyArray_fill_touint8_fromint64
    f.argtypes = [POINTER(c_uint8), c_int64, POINTER(c_int64), c_int64]
    f.restype = ERROR
    out['awkward_NumpyArray_fill', uint8, int64] = f

    f = lib.awkward_NumpyArray_fill_touint8_fromuint8
    f.argtypes = [POINTER(c_uint8), c_int64, POINTER(c_uint8), c_int64]
    f.restype = ERROR
    out['awkward_NumpyArray_fill', uint8, uint8] = f

    f = lib.awkward_NumpyArray_fill_touint8_fromuint16
    f.argtypes = [POINTER(c_uint8), c_int64, POINTER(c_uint16), c_int64]
    f.restype = ERROR
    out['awkward_NumpyArray_fill', uint8, uint16] = f

    f = lib.awkward_NumpyArray_fill_touint8_fromuint32
    f.argtypes = [POINTER(c_uint8), c_int64, POINTER(c_uint32), c_int64]
    f.restype = ERROR
    out['awkward_NumpyArray_fill', uint8, uint32] = f

    f = lib.awkward_NumpyArray_fill_touint8_fromuint64
    f.argtypes = [POINTER(c_uint8), c_int64, POINTER(c_uint64), c_int64]
    f.restype = ERROR
    out['awkward_NumpyArray_fill', uint8, uint64] = f

    f = lib.awkward_NumpyArray_fill_touint8_fromfloat32
    f.argtypes = [POINTER(c_uint8), c_int64, POINTER(c_float), c_int64]
    f.restype = ERROR
    out['awkward_NumpyArray_fill', uint8, float32] = f

    f = lib.awkward_NumpyArray_fill_touint8_fromfloat64
    f.argtypes = [POINTER(c_uint8), c_int64, POINTER(c_double), c_int64]
    f.restype = ERROR
    out['awkward_NumpyArray_fill', uint8, float64] = f

    f = lib.awkward_NumpyArray_fill_touint16_fromint8
    f.argtypes = [POINTER(c_uint16), c_int64, POINTER(c_int8), c_int64]
    f.restype = ERROR
    out['awkward_NumpyArray_fill', uint16, int8] = f

    f = lib.awkward_NumpyArray_fill_touint16_fromint16
    f.argtypes = [POINTER(c_uint16), c_int64, POINTER(c_int16), c_int64]
    f.restype = ERROR
    out['awkward_NumpyArray_fill', uint16, int16] = f

    f = lib.awkward_NumpyArray_fill_touint16_fromint32
    f.argtypes = [POINTER(c_uint16), c_int64, POINTER(c_int32), c_int64]
    f.restype = ERROR
    out['awkward_NumpyArray_fill', uint16, int32] = f

    f = lib.awkward_NumpyArray_fill_touint16_fromint64
    f.argtypes = [POINTER(c_uint16), c_int64, POINTER(c_int64), c_int64]
    f.restype = ERROR
    out['awkward_NumpyArray_fill', uint16, int64] = f

    f = lib.awkward_NumpyArray_fill_touint16_fromuint8
    f.argtypes = [POINTER(c_uint16), c_int64, POINTER(c_uint8), c_int64]
    f.restype = ERROR
    out['awkward_NumpyArray_fill', uint16, uint8] = f

    f = lib.awkward_NumpyArray_fill_touint16_fromuint16
    f.argtypes = [POINTER(c_uint16), c_int64, POINTER(c_uint16), c_int64]
    f.restype = ERROR
    out['awkward_NumpyArray_fill', uint16, uint16] = f

    f = lib.awkward_NumpyArray_fill_touint16_fromuint32
    f.argtypes = [POINTER(c_uint16), c_int64, POINTER(c_uint32), c_int64]
    f.restype = ERROR
    out['awkward_NumpyArray_fill', uint16, uint32] = f

    f = lib.awkward_NumpyArray_fill_touint16_fromuint64
    f.argtypes = [POINTER(c_uint16), c_int64, POINTER(c_uint64), c_int64]
    f.restype = ERROR
    out['awkward_NumpyArray_fill', uint16, uint64] = f

    f = lib.awkward_NumpyArray_fill_touint16_fromfloat32
    f.argtypes = [POINTER(c_uint16), c_int64, POINTER(c_float), c_int64]
    f.restype = ERROR
    out['awkward_NumpyArray_fill', uint16, float32] = f

    f = lib.awkward_NumpyArray_fill_touint16_fromfloat64
    f.argtypes = [POINTER(c_uint16), c_int64, POINTER(c_double), c_int64]
    f.restype = ERROR
    out['awkward_NumpyArray_fill', uint16, float64] = f

    f = lib.awkward_NumpyArray_fill_touint32_fromint8
    f.argtypes = [POINTER(c_uint32), c_int64, POINTER(c_int8), c_int64]
    f.restype = ERROR
    out['awkward_NumpyArray_fill', uint32, int8] = f

    f = lib.awkward_NumpyArray_fill_touint32_fromint16
    f.argtypes = [POINTER(c_uint32), c_int64, POINTER(c_int16), c_int64]
    f.restype = ERROR
    out['awkward_NumpyArray_fill', uint32, int16] = f

    f = lib.awkward_NumpyArray_fill_touint32_fromint32
    f.argtypes = [POINTER(c_uint32), c_int64, POINTER(c_int32), c_int64]
    f.restype = ERROR
    out['awkward_NumpyArray_fill', uint32, int32] = f

    f = lib.awkward_NumpyArray_fill_touint32_fromint64
    f.argtypes = [POINTER(c_uint32), c_int64, POINTER(c_int64), c_int64]
    f.restype = ERROR
    out['awkward_NumpyArray_fill', uint32, int64] = f

    f = lib.awkward_NumpyArray_fill_touint32_fromuint8
    f.argtypes = [POINTER(c_uint32), c_int64, POINTER(c_uint8), c_int64]
    f.restype = ERROR
    out['awkward_NumpyArray_fill', uint32, uint8] = f

    f = lib.awkward_NumpyArray_fill_touint32_fromuint16
    f.argtypes = [POINTER(c_uint32), c_int64, POINTER(c_uint16), c_int64]
    f.restype = ERROR
    out['awkward_NumpyArray_fill', uint32, uint16] = f

    f = lib.awkward_NumpyArray_fill_touint32_fromuint32
    f.argtypes = [POINTER(c_uint32), c_int64, POINTER(c_uint32), c_int64]
    f.restype = ERROR
    out['awkward_NumpyArray_fill', uint32, uint32] = f

    f = lib.awkward_NumpyArray_fill_touint32_fromuint64
    f.argtypes = [POINTER(c_uint32), c_int64, POINTER(c_uint64), c_int64]
    f.restype = ERROR
    out['awkward_NumpyArray_fill', uint32, uint64] = f

    f = lib.awkward_NumpyArray_fill_touint32_fromfloat32
    f.argtypes = [POINTER(c_uint32), c_int64, POINTER(c_float), c_int64]
    f.restype = ERROR
    out['awkward_NumpyArray_fill', uint32, float32] = f

    f = lib.awkward_NumpyArray_fill_touint32_fromfloat64
    f.argtypes = [POINTER(c_uint32), c_int64, POINTER(c_double), c_int64]
    f.restype = ERROR
    out['awkward_NumpyArray_fill', uint32, float64] = f

    f = lib.awkward_NumpyArray_fill_touint64_fromint8
    f.argtypes = [POINTER(c_uint64), c_int64, POINTER(c_int8), c_int64]
    f.restype = ERROR
    out['awkward_NumpyArray_fill', uint64, int8] = f

    f = lib.awkward_NumpyArray_fill_touint64_fromint16
    f.argtypes = [POINTER(c_uint64), c_int64, POINTER(c_int16), c_int64]
    f.restype = ERROR
    out['awkward_NumpyArray_fill', uint64, int16] = f

    f = lib.awkward_NumpyArray_fill_touint64_fromint32
    f.argtypes = [POINTER(c_uint64), c_int64, POINTER(c_int32), c_int64]
    f.restype = ERROR
    out['awkward_NumpyArray_fill', uint64, int32] = f

    f = lib.awkward_NumpyArray_fill_touint64_fromint64
    f.argtypes = [POINTER(c_uint64), c_int64, POINTER(c_int64), c_int64]
    f.restype = ERROR
    out['awkward_NumpyArray_fill', uint64, int64] = f

    f = lib.awkward_NumpyArray_fill_touint64_fromuint8
    f.argtypes = [POINTER(c_uint64), c_int64, POINTER(c_uint8), c_int64]
    f.restype = ERROR
    out['awkward_NumpyArray_fill', uint64, uint8] = f

    f = lib.awkward_NumpyArray_fill_touint64_fromuint16
    f.argtypes = [POINTER(c_uint64), c_int64, POINTER(c_uint16), c_int64]
    f.restype = ERROR
    out['awkward_NumpyArray_fill', uint64, uint16] = f

    f = lib.awkward_NumpyArray_fill_touint64_fromuint32
    f.argtypes = [POINTER(c_uint64), c_int64, POINTER(c_uint32), c_int64]
    f.restype = ERROR
    out['awkward_NumpyArray_fill', uint64, uint32] = f

    f = lib.awkward_NumpyArray_fill_touint64_fromuint64
    f.argtypes = [POINTER(c_uint64), c_int64, POINTER(c_uint64), c_int64]
    f.restype = ERROR
    out['awkward_NumpyArray_fill', uint64, uint64] = f

    f = lib.awkward_NumpyArray_fill_touint64_fromfloat32
    f.argtypes = [POINTER(c_uint64), c_int64, POINTER(c_float), c_int64]
    f.restype = ERROR
    out['awkward_NumpyArray_fill', uint64, float32] = f

    f = lib.awkward_NumpyArray_fill_touint64_fromfloat64
    f.argtypes = [POINTER(c_uint64), c_int64, POINTER(c_double), c_int64]
    f.restype = ERROR
    out['awkward_NumpyArray_fill', uint64, float64] = f

    f = lib.awkward_NumpyArray_fill_tofloat32_fromint8
    f.argtypes = [POINTER(c_float), c_int64, POINTER(c_int8), c_int64]
    f.restype = ERROR
    out['awkward_NumpyArray_fill', float32, int8] = f

    f = lib.awkward_NumpyArray_fill_tofloat32_fromint16
    f.argtypes = [POINTER(c_float), c_int64, POINTER(c_int16), c_int64]
    f.restype = ERROR
    out['awkward_NumpyArray_fill', float32, int16] = f

    f = lib.awkward_NumpyArray_fill_tofloat32_fromint32
    f.argtypes = [POINTER(c_float), c_int64, POINTER(c_int32), c_int64]
    f.restype = ERROR
    out['awkward_NumpyArray_fill', float32, int32] = f

    f = lib.awkward_NumpyArray_fill_tofloat32_fromint64
    f.argtypes = [POINTER(c_float), c_int64, POINTER(c_int64), c_int64]
    f.restype = ERROR
    out['awkward_NumpyArray_fill', float32, int64] = f

    f = lib.awkward_NumpyArray_fill_tofloat32_fromuint8
    f.argtypes = [POINTER(c_float), c_int64, POINTER(c_uint8), c_int64]
    f.restype = ERROR
    out['awkward_NumpyArray_fill', float32, uint8] = f

    f = lib.awkward_NumpyArray_fill_tofloat32_fromuint16
    f.argtypes = [POINTER(c_float), c_int64, POINTER(c_uint16), c_int64]
    f.restype = ERROR
    out['awkward_NumpyArray_fill', float32, uint16] = f

    f = lib.awkward_NumpyArray_fill_tofloat32_fromuint32
    f.argtypes = [POINTER(c_float), c_int64, POINTER(c_uint32), c_int64]
    f.restype = ERROR
    out['awkward_NumpyArray_fill', float32, uint32] = f

    f = lib.awkward_NumpyArray_fill_tofloat32_fromuint64
    f.argtypes = [POINTER(c_float), c_int64, POINTER(c_uint64), c_int64]
    f.restype = ERROR
    out['awkward_NumpyArray_fill', float32, uint64] = f

    f = lib.awkward_NumpyArray_fill_tofloat32_fromfloat32
    f.argtypes = [POINTER(c_float), c_int64, POINTER(c_float), c_int64]
    f.restype = ERROR
    out['awkward_NumpyArray_fill', float32, float32] = f

    f = lib.awkward_NumpyArray_fill_tofloat32_fromfloat64
    f.argtypes = [POINTER(c_float), c_int64, POINTER(c_double), c_int64]
    f.restype = ERROR
    out['awkward_NumpyArray_fill', float32, float64] = f

    f = lib.awkward_NumpyArray_fill_tofloat64_fromint8
    f.argtypes = [POINTER(c_double), c_int64, POINTER(c_int8), c_int64]
    f.restype = ERROR
    out['awkward_NumpyArray_fill', float64, int8] = f

    f = lib.awkward_NumpyArray_fill_tofloat64_fromint16
    f.argtypes = [POINTER(c_double), c_int64, POINTER(c_int16), c_int64]
    f.restype = ERROR
    out['awkward_NumpyArray_fill', float64, int16] = f

    f = lib.awkward_NumpyArray_fill_tofloat64_fromint32
    f.argtypes = [POINTER(c_double), c_int64, POINTER(c_int32), c_int64]
    f.restype = ERROR
    out['awkward_NumpyArray_fill', float64, int32] = f

    f = lib.awkward_NumpyArray_fill_tofloat64_fromint64
    f.argtypes = [POINTER(c_double), c_int64, POINTER(c_int64), c_int64]
    f.restype = ERROR
    out['awkward_NumpyArray_fill', float64, int64] = f

    f = lib.awkward_NumpyArray_fill_tofloat64_fromuint8
    f.argtypes = [POINTER(c_double), c_int64, POINTER(c_uint8), c_int64]
    f.restype = ERROR
    out['awkward_NumpyArray_fill', float64, uint8] = f

    f = lib.awkward_NumpyArray_fill_tofloat64_fromuint16
    f.argtypes = [POINTER(c_double), c_int64, POINTER(c_uint16), c_int64]
    f.restype = ERROR
    out['awkward_NumpyArray_fill', float64, uint16] = f

    f = lib.awkward_NumpyArray_fill_tofloat64_fromuint32
    f.argtypes = [POINTER(c_double), c_int64, POINTER(c_uint32), c_int64]
    f.restype = ERROR
    out['awkward_NumpyArray_fill', float64, uint32] = f

    f = lib.awkward_NumpyArray_fill_tofloat64_fromuint64
    f.argtypes = [POINTER(c_double), c_int64, POINTER(c_uint64), c_int64]
    f.restype = ERROR
    out['awkward_NumpyArray_fill', float64, uint64] = f

    f = lib.awkward_NumpyArray_fill_tofloat64_fromfloat32
    f.argtypes = [POINTER(c_double), c_int64, POINTER(c_float), c_int64]
    f.restype = ERROR
    out['awkward_NumpyArray_fill', float64, float32] = f

    f = lib.awkward_NumpyArray_fill_tofloat64_fromfloat64
    f.argtypes = [POINTER(c_double), c_int64, POINTER(c_double), c_int64]
    f.restype = ERROR
    out['awkward_NumpyArray_fill', float64, float64] = f

    f = lib.awkward_NumpyArray_fill_tocomplex64_frombool
    f.argtypes = [POINTER(c_float), c_int64, POINTER(c_bool), c_int64]
    f.restype = ERROR
    out['awkward_NumpyArray_fill_tocomplex', float32, bool_] = f

    f = lib.awkward_NumpyArray_fill_tocomplex64_fromint8
    f.argtypes = [POINTER(c_float), c_int64, POINTER(c_int8), c_int64]
    f.restype = ERROR
    out['awkward_NumpyArray_fill_tocomplex', float32, int8] = f

    f = lib.awkward_NumpyArray_fill_tocomplex64_fromint16
    f.argtypes = [POINTER(c_float), c_int64, POINTER(c_int16), c_int64]
    f.restype = ERROR
    out['awkward_NumpyArray_fill_tocomplex', float32, int16] = f

    f = lib.awkward_NumpyArray_fill_tocomplex64_fromint32
    f.argtypes = [POINTER(c_float), c_int64, POINTER(c_int32), c_int64]
    f.restype = ERROR
    out['awkward_NumpyArray_fill_tocomplex', float32, int32] = f

    f = lib.awkward_NumpyArray_fill_tocomplex64_fromint64
    f.argtypes = [POINTER(c_float), c_int64, POINTER(c_int64), c_int64]
    f.restype = ERROR
    out['awkward_NumpyArray_fill_tocomplex', float32, int64] = f

    f = lib.awkward_NumpyArray_fill_tocomplex64_fromuint8
    f.argtypes = [POINTER(c_float), c_int64, POINTER(c_uint8), c_int64]
    f.restype = ERROR
    out['awkward_NumpyArray_fill_tocomplex', float32, uint8] = f

    f = lib.awkward_NumpyArray_fill_tocomplex64_fromuint16
    f.argtypes = [POINTER(c_float), c_int64, POINTER(c_uint16), c_int64]
    f.restype = ERROR
    out['awkward_NumpyArray_fill_tocomplex', float32, uint16] = f

    f = lib.awkward_NumpyArray_fill_tocomplex64_fromuint32
    f.argtypes = [POINTER(c_float), c_int64, POINTER(c_uint32), c_int64]
    f.restype = ERROR
    out['awkward_NumpyArray_fill_tocomplex', float32, uint32] = f

    f = lib.awkward_NumpyArray_fill_tocomplex64_fromuint64
    f.argtypes = [POINTER(c_float), c_int64, POINTER(c_uint64), c_int64]
    f.restype = ERROR
    out['awkward_NumpyArray_fill_tocomplex', float32, uint64] = f

    f = lib.awkward_NumpyArray_fill_tocomplex64_fromfloat32
    f.argtypes = [POINTER(c_float), c_int64, POINTER(c_float), c_int64]
    f.restype = ERROR
    out['awkward_NumpyArray_fill_tocomplex', float32, float32] = f

    f = lib.awkward_NumpyArray_fill_tocomplex64_fromfloat64
    f.argtypes = [POINTER(c_float), c_int64, POINTER(c_double), c_int64]
    f.restype = ERROR
    out['awkward_NumpyArray_fill_tocomplex', float32, float64] = f

    f = lib.awkward_NumpyArray_fill_tocomplex128_frombool
    f.argtypes = [POINTER(c_double), c_int64, POINTER(c_bool), c_int64]
    f.restype = ERROR
    out['awkward_NumpyArray_fill_tocomplex', float64, bool_] = f

    f = lib.awkward_NumpyArray_fill_tocomplex128_fromint8
    f.argtypes = [POINTER(c_double), c_int64, POINTER(c_int8), c_int64]
    f.restype = ERROR
    out['awkward_NumpyArray_fill_tocomplex', float64, int8] = f

    f = lib.awkward_NumpyArray_fill_tocomplex128_fromint16
    f.argtypes = [POINTER(c_double), c_int64, POINTER(c_int16), c_int64]
    f.restype = ERROR
    out['awkward_NumpyArray_fill_tocomplex', float64, int16] = f

    f = lib.awkward_NumpyArray_fill_tocomplex128_fromint32
    f.argtypes = [POINTER(c_double), c_int64, POINTER(c_int32), c_int64]
    f.restype = ERROR
    out['awkward_NumpyArray_fill_tocomplex', float64, int32] = f

    f = lib.awkward_NumpyArray_fill_tocomplex128_fromint64
    f.argtypes = [POINTER(c_double), c_int64, POINTER(c_int64), c_int64]
    f.restype = ERROR
    out['awkward_NumpyArray_fill_tocomplex', float64, int64] = f

    f = lib.awkward_NumpyArray_fill_tocomplex128_fromuint8
    f.argtypes = [POINTER(c_double), c_int64, POINTER(c_uint8), c_int64]
    f.restype = ERROR
    out['awkward_NumpyArray_fill_tocomplex', float64, uint8] = f

    f = lib.awkward_NumpyArray_fill_tocomplex128_fromuint16
    f.argtypes = [POINTER(c_double), c_int64, POINTER(c_uint16), c_int64]
    f.restype = ERROR
    out['awkward_NumpyArray_fill_tocomplex', float64, uint16] = f

    f = lib.awkward_NumpyArray_fill_tocomplex128_fromuint32
    f.argtypes = [POINTER(c_double), c_int64, POINTER(c_uint32), c_int64]
    f.restype = ERROR
    out['awkward_NumpyArray_fill_tocomplex', float64, uint32] = f

    f = lib.awkward_NumpyArray_fill_tocomplex128_fromuint64
    f.argtypes = [POINTER(c_double), c_int64, POINTER(c_uint64), c_int64]
    f.restype = ERROR
    out['awkward_NumpyArray_fill_tocomplex', float64, uint64] = f

    f = lib.awkward_NumpyArray_fill_tocomplex128_fromfloat32
    f.argtypes = [POINTER(c_double), c_int64, POINTER(c_float), c_int64]
    f.restype = ERROR
    out['awkward_NumpyArray_fill_tocomplex', float64, float32] = f

    f = lib.awkward_NumpyArray_fill_tocomplex128_fromfloat64
    f.argtypes = [POINTER(c_double), c_int64, POINTER(c_double), c_int64]
    f.restype = ERROR
    out['awkward_NumpyArray_fill_tocomplex', float64, float64] = f

    f = lib.awkward_NumpyArray_fill_tobool_fromcomplex64
    f.argtypes = [POINTER(c_bool), c_int64, POINTER(c_float), c_int64]
    f.restype = ERROR
    out['awkward_NumpyArray_fill_fromcomplex', bool_, float32] = f

    f = lib.awkward_NumpyArray_fill_tobool_fromcomplex128
    f.argtypes = [POINTER(c_bool), c_int64, POINTER(c_double), c_int64]
    f.restype = ERROR
    out['awkward_NumpyArray_fill_fromcomplex', bool_, float64] = f

    f = lib.awkward_NumpyArray_fill_toint8_fromcomplex64
    f.argtypes = [POINTER(c_int8), c_int64, POINTER(c_float), c_int64]
    f.restype = ERROR
    out['awkward_NumpyArray_fill_fromcomplex', int8, float32] = f

    f = lib.awkward_NumpyArray_fill_toint8_fromcomplex128
    f.argtypes = [POINTER(c_int8), c_int64, POINTER(c_double), c_int64]
    f.restype = ERROR
    out['awkward_NumpyArray_fill_fromcomplex', int8, float64] = f

    f = lib.awkward_NumpyArray_fill_toint16_fromcomplex64
    f.argtypes = [POINTER(c_int16), c_int64, POINTER(c_float), c_int64]
    f.restype = ERROR
    out['awkward_NumpyArray_fill_fromcomplex', int16, float32] = f

    f = lib.awkward_NumpyArray_fill_toint16_fromcomplex128
    f.argtypes = [POINTER(c_int16), c_int64, POINTER(c_double), c_int64]
    f.restype = ERROR
    out['awkward_NumpyArray_fill_fromcomplex', int16, float64] = f

    f = lib.awkward_NumpyArray_fill_toint32_fromcomplex64
    f.argtypes = [POINTER(c_int32), c_int64, POINTER(c_float), c_int64]
    f.restype = ERROR
    out['awkward_NumpyArray_fill_fromcomplex', int32, float32] = f

    f = lib.awkward_NumpyArray_fill_toint32_fromcomplex128
    f.argtypes = [POINTER(c_int32), c_int64, POINTER(c_double), c_int64]
    f.restype = ERROR
    out['awkward_NumpyArray_fill_fromcomplex', int32, float64] = f

    f = lib.awkward_NumpyArray_fill_toint64_fromcomplex64
    f.argtypes = [POINTER(c_int64), c_int64, POINTER(c_float), c_int64]
    f.restype = ERROR
    out['awkward_NumpyArray_fill_fromcomplex', int64, float32] = f

    f = lib.awkward_NumpyArray_fill_toint64_fromcomplex128
    f.argtypes = [POINTER(c_int64), c_int64, POINTER(c_double), c_int64]
    f.restype = ERROR
    out['awkward_NumpyArray_fill_fromcomplex', int64, float64] = f

    f = lib.awkward_NumpyArray_fill_touint8_fromcomplex64
    f.argtypes = [POINTER(c_uint8), c_int64, POINTER(c_float), c_int64]
    f.restype = ERROR
    out['awkward_NumpyArray_fill_fromcomplex', uint8, float32] = f

    f = lib.awkward_NumpyArray_fill_touint8_fromcomplex128
    f.argtypes = [POINTER(c_uint8), c_int64, POINTER(c_double), c_int64]
    f.restype = ERROR
    out['awkward_NumpyArray_fill_fromcomplex', uint8, float64] = f

    f = lib.awkward_NumpyArray_fill_touint16_fromcomplex64
    f.argtypes = [POINTER(c_uint16), c_int64, POINTER(c_float), c_int64]
    f.restype = ERROR
    out['awkward_NumpyArray_fill_fromcomplex', uint16, float32] = f

    f = lib.awkward_NumpyArray_fill_touint16_fromcomplex128
    f.argtypes = [POINTER(c_uint16), c_int64, POINTER(c_double), c_int64]
    f.restype = ERROR
    out['awkward_NumpyArray_fill_fromcomplex', uint16, float64] = f

    f = lib.awkward_NumpyArray_fill_touint32_fromcomplex64
    f.argtypes = [POINTER(c_uint32), c_int64, POINTER(c_float), c_int64]
    f.restype = ERROR
    out['awkward_NumpyArray_fill_fromcomplex', uint32, float32] = f

    f = lib.awkward_NumpyArray_fill_touint32_fromcomplex128
    f.argtypes = [POINTER(c_uint32), c_int64, POINTER(c_double), c_int64]
    f.restype = ERROR
    out['awkward_NumpyArray_fill_fromcomplex', uint32, float64] = f

    f = lib.awkward_NumpyArray_fill_touint64_fromcomplex64
    f.argtypes = [POINTER(c_uint64), c_int64, POINTER(c_float), c_int64]
    f.restype = ERROR
    out['awkward_NumpyArray_fill_fromcomplex', uint64, float32] = f

    f = lib.awkward_NumpyArray_fill_touint64_fromcomplex128
    f.argtypes = [POINTER(c_uint64), c_int64, POINTER(c_double), c_int64]
    f.restype = ERROR
    out['awkward_NumpyArray_fill_fromcomplex', uint64, float64] = f

    f = lib.awkward_NumpyArray_fill_tofloat32_fromcomplex64
    f.argtypes = [POINTER(c_float), c_int64, POINTER(c_float), c_int64]
    f.restype = ERROR
    out['awkward_NumpyArray_fill_fromcomplex', float32, float32] = f

    f = lib.awkward_NumpyArray_fill_tofloat32_fromcomplex128
    f.argtypes = [POINTER(c_float), c_int64, POINTER(c_double), c_int64]
    f.restype = ERROR
    out['awkward_NumpyArray_fill_fromcomplex', float32, float64] = f

    f = lib.awkward_NumpyArray_fill_tofloat64_fromcomplex64
    f.argtypes = [POINTER(c_double), c_int64, POINTER(c_float), c_int64]
    f.restype = ERROR
    out['awkward_NumpyArray_fill_fromcomplex', float64, float32] = f

    f = lib.awkward_NumpyArray_fill_tofloat64_fromcomplex128
    f.argtypes = [POINTER(c_double), c_int64, POINTER(c_double), c_int64]
    f.restype = ERROR
    out['awkward_NumpyArray_fill_fromcomplex', float64, float64] = f

    f = lib.awkward_NumpyArray_fill_tobool_frombool
    f.argtypes = [POINTER(c_bool), c_int64, POINTER(c_bool), c_int64]
    f.restype = ERROR
    out['awkward_NumpyArray_fill_frombool', bool_, bool_] = f

    f = lib.awkward_NumpyArray_fill_toint8_frombool
    f.argtypes = [POINTER(c_int8), c_int64, POINTER(c_bool), c_int64]
    f.restype = ERROR
    out['awkward_NumpyArray_fill_frombool', int8, bool_] = f

    f = lib.awkward_NumpyArray_fill_toint16_frombool
    f.argtypes = [POINTER(c_int16), c_int64, POINTER(c_bool), c_int64]
    f.restype = ERROR
    out['awkward_NumpyArray_fill_frombool', int16, bool_] = f

    f = lib.awkward_NumpyArray_fill_toint32_frombool
    f.argtypes = [POINTER(c_int32), c_int64, POINTER(c_bool), c_int64]
    f.restype = ERROR
    out['awkward_NumpyArray_fill_frombool', int32, bool_] = f

    f = lib.awkward_NumpyArray_fill_toint64_frombool
    f.argtypes = [POINTER(c_int64), c_int64, POINTER(c_bool), c_int64]
    f.restype = ERROR
    out['awkward_NumpyArray_fill_frombool', int64, bool_] = f

    f = lib.awkward_NumpyArray_fill_touint8_frombool
    f.argtypes = [POINTER(c_uint8), c_int64, POINTER(c_bool), c_int64]
    f.restype = ERROR
    out['awkward_NumpyArray_fill_frombool', uint8, bool_] = f

    f = lib.awkward_NumpyArray_fill_touint16_frombool
    f.argtypes = [POINTER(c_uint16), c_int64, POINTER(c_bool), c_int64]
    f.restype = ERROR
    out['awkward_NumpyArray_fill_frombool', uint16, bool_] = f

    f = lib.awkward_NumpyArray_fill_touint32_frombool
    f.argtypes = [POINTER(c_uint32), c_int64, POINTER(c_bool), c_int64]
    f.restype = ERROR
    out['awkward_NumpyArray_fill_frombool', uint32, bool_] = f

    f = lib.awkward_NumpyArray_fill_touint64_frombool
    f.argtypes = [POINTER(c_uint64), c_int64, POINTER(c_bool), c_int64]
    f.restype = ERROR
    out['awkward_NumpyArray_fill_frombool', uint64, bool_] = f

    f = lib.awkward_NumpyArray_fill_tofloat32_frombool
    f.argtypes = [POINTER(c_float), c_int64, POINTER(c_bool), c_int64]
    f.restype = ERROR
    out['awkward_NumpyArray_fill_frombool', float32, bool_] = f

    f = lib.awkward_NumpyArray_fill_tofloat64_frombool
    f.argtypes = [POINTER(c_double), c_int64, POINTER(c_bool), c_int64]
    f.restype = ERROR
    out['awkward_NumpyArray_fill_frombool', float64, bool_] = f

    f = lib.awkward_NumpyArray_fill_tobool_fromint8
    f.argtypes = [POINTER(c_bool), c_int64, POINTER(c_int8), c_int64]
    f.restype = ERROR
    out['awkward_NumpyArray_fill_tobool', bool_, int8] = f

    f = lib.awkward_NumpyArray_fill_tobool_fromint16
    f.argtypes = [POINTER(c_bool), c_int64, POINTER(c_int16), c_int64]
    f.restype = ERROR
    out['awkward_NumpyArray_fill_tobool', bool_, int16] = f

    f = lib.awkward_NumpyArray_fill_tobool_fromint32
    f.argtypes = [POINTER(c_bool), c_int64, POINTER(c_int32), c_int64]
    f.restype = ERROR
    out['awkward_NumpyArray_fill_tobool', bool_, int32] = f

    f = lib.awkward_NumpyArray_fill_tobool_fromint64
    f.argtypes = [POINTER(c_bool), c_int64, POINTER(c_int64), c_int64]
    f.restype = ERROR
    out['awkward_NumpyArray_fill_tobool', bool_, int64] = f

    f = lib.awkward_NumpyArray_fill_tobool_fromuint8
    f.argtypes = [POINTER(c_bool), c_int64, POINTER(c_uint8), c_int64]
    f.restype = ERROR
    out['awkward_NumpyArray_fill_tobool', bool_, uint8] = f

    f = lib.awkward_NumpyArray_fill_tobool_fromuint16
    f.argtypes = [POINTER(c_bool), c_int64, POINTER(c_uint16), c_int64]
    f.restype = ERROR
    out['awkward_NumpyArray_fill_tobool', bool_, uint16] = f

    f = lib.awkward_NumpyArray_fill_tobool_fromuint32
    f.argtypes = [POINTER(c_bool), c_int64, POINTER(c_uint32), c_int64]
    f.restype = ERROR
    out['awkward_NumpyArray_fill_tobool', bool_, uint32] = f

    f = lib.awkward_NumpyArray_fill_tobool_fromuint64
    f.argtypes = [POINTER(c_bool), c_int64, POINTER(c_uint64), c_int64]
    f.restype = ERROR
    out['awkward_NumpyArray_fill_tobool', bool_, uint64] = f

    f = lib.awkward_NumpyArray_fill_tobool_fromfloat32
    f.argtypes = [POINTER(c_bool), c_int64, POINTER(c_float), c_int64]
    f.restype = ERROR
    out['awkward_NumpyArray_fill_tobool', bool_, float32] = f

    f = lib.awkward_NumpyArray_fill_tobool_fromfloat64
    f.argtypes = [POINTER(c_bool), c_int64, POINTER(c_double), c_int64]
    f.restype = ERROR
    out['awkward_NumpyArray_fill_tobool', bool_, float64] = f

    f = lib.awkward_NumpyArray_fill_scaled_toint64_fromint64
    f.argtypes = [POINTER(c_int64), c_int64, POINTER(c_int64), c_int64, c_double]
    f.restype = ERROR
    out['awkward_NumpyArray_fill_scaled', int64, int64] = f

    f = lib.awkward_NumpyArray_rearrange_shifted_toint64_fromint64
    f.argtypes = [POINTER(c_int64), POINTER(c_int64), c_int64, POINTER(c_int64), c_int64, POINTER(c_int64), c_int64, POINTER(c_int64), c_int64]
    f.restype = ERROR
    out['awkward_NumpyArray_rearrange_shifted', int64, int64, int64, int64, int64] = f

    f = lib.awkward_NumpyArray_getitem_boolean_nonzero_64
    f.argtypes = [POINTER(c_int64), POINTER(c_int8), c_int64, c_int64]
    f.restype = ERROR
    out['awkward_NumpyArray_getitem_boolean_nonzero', int64, int8] = f

    f = lib.awkward_NumpyArray_getitem_boolean_numtrue
    f.argtypes = [POINTER(c_int64), POINTER(c_int8), c_int64, c_int64]
    f.restype = ERROR
    out['awkward_NumpyArray_getitem_boolean_numtrue', int64, int8] = f

    f = lib.awkward_NumpyArray_getitem_next_array_64
    f.argtypes = [POINTER(c_int64), POINTER(c_int64), POINTER(c_int64), POINTER(c_int64), c_int64, c_int64, c_int64]
    f.restype = ERROR
    out['awkward_NumpyArray_getitem_next_array', int64, int64, int64, int64] = f

    f = lib.awkward_NumpyArray_getitem_next_array_advanced_64
    f.argtypes = [POINTER(c_int64), POINTER(c_int64), POINTER(c_int64), POINTER(c_int64), c_int64, c_int64]
    f.restype = ERROR
    out['awkward_NumpyArray_getitem_next_array_advanced', int64, int64, int64, int64] = f

    f = lib.awkward_NumpyArray_getitem_next_at_64
    f.argtypes = [POINTER(c_int64), POINTER(c_int64), c_int64, c_int64, c_int64]
    f.restype = ERROR
    out['awkward_NumpyArray_getitem_next_at', int64, int64] = f

    f = lib.awkward_NumpyArray_getitem_next_null_64
    f.argtypes = [POINTER(c_uint8), POINTER(c_uint8), c_int64, c_int64, POINTER(c_int64)]
    f.restype = ERROR
    out['awkward_NumpyArray_getitem_next_null', uint8, uint8, int64] = f

    f = lib.awkward_NumpyArray_getitem_next_range_64
    f.argtypes = [POINTER(c_int64), POINTER(c_int64), c_int64, c_int64, c_int64, c_int64, c_int64]
    f.restype = ERROR
    out['awkward_NumpyArray_getitem_next_range', int64, int64] = f

    f = lib.awkward_NumpyArray_getitem_next_range_advanced_64
    f.argtypes = [POINTER(c_int64), POINTER(c_int64), POINTER(c_int64), POINTER(c_int64), c_int64, c_int64, c_int64, c_int64, c_int64]
    f.restype = ERROR
    out['awkward_NumpyArray_getitem_next_range_advanced', int64, int64, int64, int64] = f

    f = lib.awkward_NumpyArray_reduce_adjust_starts_64
    f.argtypes = [POINTER(c_int64), c_int64, POINTER(c_int64), POINTER(c_int64)]
    f.restype = ERROR
    out['awkward_NumpyArray_reduce_adjust_starts_64', int64, int64, int64] = f

    f = lib.awkward_NumpyArray_reduce_adjust_starts_shifts_64
    f.argtypes = [POINTER(c_int64), c_int64, POINTER(c_int64), POINTER(c_int64), POINTER(c_int64)]
    f.restype = ERROR
    out['awkward_NumpyArray_reduce_adjust_starts_shifts_64', int64, int64, int64, int64] = f

    f = lib.awkward_NumpyArray_reduce_mask_ByteMaskedArray_64
    f.argtypes = [POINTER(c_int8), POINTER(c_int64), c_int64, c_int64]
    f.restype = ERROR
    out['awkward_NumpyArray_reduce_mask_ByteMaskedArray_64', int8, int64] = f

    f = lib.awkward_ListOffsetArray_argsort_strings
    f.argtypes = [POINTER(c_int64), POINTER(c_int64), c_int64, POINTER(c_uint8), POINTER(c_int64), POINTER(c_int64), c_bool, c_bool, c_bool]
    f.restype = ERROR
    out['awkward_ListOffsetArray_argsort_strings', int64, int64, uint8, int64, int64] = f

    f = lib.awkward_NumpyArray_sort_asstrings_uint8
    f.argtypes = [POINTER(c_uint8), POINTER(c_uint8), POINTER(c_int64), c_int64, POINTER(c_int64), c_bool, c_bool]
    f.restype = ERROR
    out['awkward_NumpyArray_sort_asstrings_uint8', uint8, uint8, int64, int64] = f

    f = lib.awkward_NumpyArray_unique_strings_uint8
    f.argtypes = [POINTER(c_uint8), POINTER(c_int64), c_int64, POINTER(c_int64), POINTER(c_int64)]
    f.restype = ERROR
    out['awkward_NumpyArray_unique_strings', uint8, int64, int64, int64] = f

    f = lib.awkward_NumpyArray_subrange_equal_bool
    f.argtypes = [POINTER(c_bool), POINTER(c_int64), POINTER(c_int64), c_int64, POINTER(c_bool)]
    f.restype = ERROR
    out['awkward_NumpyArray_subrange_equal', bool_, int64, int64, bool_] = f

    f = lib.awkward_NumpyArray_subrange_equal_int8
    f.argtypes = [POINTER(c_int8), POINTER(c_int64), POINTER(c_int64), c_int64, POINTER(c_bool)]
    f.restype = ERROR
    out['awkward_NumpyArray_subrange_equal', int8, int64, int64, bool_] = f

    f = lib.awkward_NumpyArray_subrange_equal_int16
    f.argtypes = [POINTER(c_int16), POINTER(c_int64), POINTER(c_int64), c_int64, POINTER(c_bool)]
    f.restype = ERROR
    out['awkward_NumpyArray_subrange_equal', int16, int64, int64, bool_] = f

    f = lib.awkward_NumpyArray_subrange_equal_int32
    f.argtypes = [POINTER(c_int32), POINTER(c_int64), POINTER(c_int64), c_int64, POINTER(c_bool)]
    f.restype = ERROR
    out['awkward_NumpyArray_subrange_equal', int32, int64, int64, bool_] = f

    f = lib.awkward_NumpyArray_subrange_equal_int64
    f.argtypes = [POINTER(c_int64), POINTER(c_int64), POINTER(c_int64), c_int64, POINTER(c_bool)]
    f.restype = ERROR
    out['awkward_NumpyArray_subrange_equal', int64, int64, int64, bool_] = f

    f = lib.awkward_NumpyArray_subrange_equal_uint8
    f.argtypes = [POINTER(c_uint8), POINTER(c_int64), POINTER(c_int64), c_int64, POINTER(c_bool)]
    f.restype = ERROR
    out['awkward_NumpyArray_subrange_equal', uint8, int64, int64, bool_] = f

    f = lib.awkward_NumpyArray_subrange_equal_uint16
    f.argtypes = [POINTER(c_uint16), POINTER(c_int64), POINTER(c_int64), c_int64, POINTER(c_bool)]
    f.restype = ERROR
    out['awkward_NumpyArray_subrange_equal', uint16, int64, int64, bool_] = f

    f = lib.awkward_NumpyArray_subrange_equal_uint32
    f.argtypes = [POINTER(c_uint32), POINTER(c_int64), POINTER(c_int64), c_int64, POINTER(c_bool)]
    f.restype = ERROR
    out['awkward_NumpyArray_subrange_equal', uint32, int64, int64, bool_] = f

    f = lib.awkward_NumpyArray_subrange_equal_uint64
    f.argtypes = [POINTER(c_uint64), POINTER(c_int64), POINTER(c_int64), c_int64, POINTER(c_bool)]
    f.restype = ERROR
    out['awkward_NumpyArray_subrange_equal', uint64, int64, int64, bool_] = f

    f = lib.awkward_NumpyArray_subrange_equal_float32
    f.argtypes = [POINTER(c_float), POINTER(c_int64), POINTER(c_int64), c_int64, POINTER(c_bool)]
    f.restype = ERROR
    out['awkward_NumpyArray_subrange_equal', float32, int64, int64, bool_] = f

    f = lib.awkward_NumpyArray_subrange_equal_float64
    f.argtypes = [POINTER(c_double), POINTER(c_int64), POINTER(c_int64), c_int64, POINTER(c_bool)]
    f.restype = ERROR
    out['awkward_NumpyArray_subrange_equal', float64, int64, int64, bool_] = f

    f = lib.awkward_RegularArray_broadcast_tooffsets_64
    f.argtypes = [POINTER(c_int64), c_int64, c_int64]
    f.restype = ERROR
    out['awkward_RegularArray_broadcast_tooffsets', int64] = f

    f = lib.awkward_RegularArray_broadcast_tooffsets_size1_64
    f.argtypes = [POINTER(c_int64), POINTER(c_int64), c_int64]
    f.restype = ERROR
    out['awkward_RegularArray_broadcast_tooffsets_size1', int64, int64] = f

    f = lib.awkward_RegularArray_combinations_64
    f.argtypes = [POINTER(POINTER(c_int64)), POINTER(c_int64), POINTER(c_int64), c_int64, c_bool, c_int64, c_int64]
    f.restype = ERROR
    out['awkward_RegularArray_combinations_64', int64, int64, int64] = f

    f = lib.awkward_RegularArray_compact_offsets64
    f.argtypes = [POINTER(c_int64), c_int64, c_int64]
    f.restype = ERROR
    out['awkward_RegularArray_compact_offsets', int64] = f

    f = lib.awkward_RegularArray_getitem_carry_64
    f.argtypes = [POINTER(c_int64), POINTER(c_int64), c_int64, c_int64]
    f.restype = ERROR
    out['awkward_RegularArray_getitem_carry', int64, int64] = f

    f = lib.awkward_RegularArray_getitem_jagged_expand_64
    f.argtypes = [POINTER(c_int64), POINTER(c_int64), POINTER(c_int64), c_int64, c_int64]
    f.restype = ERROR
    out['awkward_RegularArray_getitem_jagged_expand', int64, int64, int64] = f

    f = lib.awkward_RegularArray_getitem_next_array_64
    f.argtypes = [POINTER(c_int64), POINTER(c_int64), POINTER(c_int64), c_int64, c_int64, c_int64]
    f.restype = ERROR
    out['awkward_RegularArray_getitem_next_array', int64, int64, int64] = f

    f = lib.awkward_RegularArray_getitem_next_array_advanced_64
    f.argtypes = [POINTER(c_int64), POINTER(c_int64), POINTER(c_int64), POINTER(c_int64), c_int64, c_int64, c_int64]
    f.restype = ERROR
    out['awkward_RegularArray_getitem_next_array_advanced', int64, int64, int64, int64] = f

    f = lib.awkward_RegularArray_getitem_next_array_regularize_64
    f.argtypes = [POINTER(c_int64), POINTER(c_int64), c_int64, c_int64]
    f.restype = ERROR
    out['awkward_RegularArray_getitem_next_array_regularize', int64, int64] = f

    f = lib.awkward_RegularArray_getitem_next_at_64
    f.argtypes = [POINTER(c_int64), c_int64, c_int64, c_int64]
    f.restype = ERROR
    out['awkward_RegularArray_getitem_next_at', int64] = f

    f = lib.awkward_RegularArray_getitem_next_range_64
    f.argtypes = [POINTER(c_int64), c_int64, c_int64, c_int64, c_int64, c_int64]
    f.restype = ERROR
    out['awkward_RegularArray_getitem_next_range', int64] = f

    f = lib.awkward_RegularArray_getitem_next_range_spreadadvanced_64
    f.argtypes = [POINTER(c_int64), POINTER(c_int64), c_int64, c_int64]
    f.restype = ERROR
    out['awkward_RegularArray_getitem_next_range_spreadadvanced', int64, int64] = f

    f = lib.awkward_RegularArray_localindex_64
    f.argtypes = [POINTER(c_int64), c_int64, c_int64]
    f.restype = ERROR
    out['awkward_RegularArray_localindex', int64] = f

    f = lib.awkward_RegularArray_num_64
    f.argtypes = [POINTER(c_int64), c_int64, c_int64]
    f.restype = ERROR
    out['awkward_RegularArray_num', int64] = f

    f = lib.awkward_RegularArray_rpad_and_clip_axis1_64
    f.argtypes = [POINTER(c_int64), c_int64, c_int64, c_int64]
    f.restype = ERROR
    out['awkward_RegularArray_rpad_and_clip_axis1', int64] = f

    f = lib.awkward_SliceVarNewAxis_to_SliceJagged64
    f.argtypes = [POINTER(c_int64), POINTER(c_int64), c_int64]
    f.restype = ERROR
    out['awkward_SliceVarNewAxis_to_SliceJagged64', int64, int64] = f

    f = lib.awkward_UnionArray_fillindex_to64_from32
    f.argtypes = [POINTER(c_int64), c_int64, POINTER(c_int32), c_int64]
    f.restype = ERROR
    out['awkward_UnionArray_fillindex', int64, int32] = f

    f = lib.awkward_UnionArray_fillindex_to64_from64
    f.argtypes = [POINTER(c_int64), c_int64, POINTER(c_int64), c_int64]
    f.restype = ERROR
    out['awkward_UnionArray_fillindex', int64, int64] = f

    f = lib.awkward_UnionArray_fillindex_to64_fromU32
    f.argtypes = [POINTER(c_int64), c_int64, POINTER(c_uint32), c_int64]
    f.restype = ERROR
    out['awkward_UnionArray_fillindex', int64, uint32] = f

    f = lib.awkward_UnionArray_fillindex_to64_count
    f.argtypes = [POINTER(c_int64), c_int64, c_int64]
    f.restype = ERROR
    out['awkward_UnionArray_fillindex_count', int64] = f

    f = lib.awkward_UnionArray_fillna_from32_to64
    f.argtypes = [POINTER(c_int64), POINTER(c_int32), c_int64]
    f.restype = ERROR
    out['awkward_UnionArray_fillna', int64, int32] = f

    f = lib.awkward_UnionArray_fillna_from64_to64
    f.argtypes = [POINTER(c_int64), POINTER(c_int64), c_int64]
    f.restype = ERROR
    out['awkward_UnionArray_fillna', int64, int64] = f

    f = lib.awkward_UnionArray_fillna_fromU32_to64
    f.argtypes = [POINTER(c_int64), POINTER(c_uint32), c_int64]
    f.restype = ERROR
    out['awkward_UnionArray_fillna', int64, uint32] = f

    f = lib.awkward_UnionArray_filltags_to8_from8
    f.argtypes = [POINTER(c_int8), c_int64, POINTER(c_int8), c_int64, c_int64]
    f.restype = ERROR
    out['awkward_UnionArray_filltags', int8, int8] = f

    f = lib.awkward_UnionArray_filltags_to8_const
    f.argtypes = [POINTER(c_int8), c_int64, c_int64, c_int64]
    f.restype = ERROR
    out['awkward_UnionArray_filltags_const', int8] = f

    f = lib.awkward_UnionArray32_flatten_combine_64
    f.argtypes = [POINTER(c_int8), POINTER(c_int64), POINTER(c_int64), POINTER(c_int8), POINTER(c_int32), c_int64, POINTER(POINTER(c_int64))]
    f.restype = ERROR
    out['awkward_UnionArray_flatten_combine', int8, int64, int64, int8, int32, int64] = f

    f = lib.awkward_UnionArray64_flatten_combine_64
    f.argtypes = [POINTER(c_int8), POINTER(c_int64), POINTER(c_int64), POINTER(c_int8), POINTER(c_int64), c_int64, POINTER(POINTER(c_int64))]
    f.restype = ERROR
    out['awkward_UnionArray_flatten_combine', int8, int64, int64, int8, int64, int64] = f

    f = lib.awkward_UnionArrayU32_flatten_combine_64
    f.argtypes = [POINTER(c_int8), POINTER(c_int64), POINTER(c_int64), POINTER(c_int8), POINTER(c_uint32), c_int64, POINTER(POINTER(c_int64))]
    f.restype = ERROR
    out['awkward_UnionArray_flatten_combine', int8, int64, int64, int8, uint32, int64] = f

    f = lib.awkward_UnionArray32_flatten_length_64
    f.argtypes = [POINTER(c_int64), POINTER(c_int8), POINTER(c_int32), c_int64, POINTER(POINTER(c_int64))]
    f.restype = ERROR
    out['awkward_UnionArray_flatten_length', int64, int8, int32, int64] = f

    f = lib.awkward_UnionArray64_flatten_length_64
    f.argtypes = [POINTER(c_int64), POINTER(c_int8), POINTER(c_int64), c_int64, POINTER(POINTER(c_int64))]
    f.restype = ERROR
    out['awkward_UnionArray_flatten_length', int64, int8, int64, int64] = f

    f = lib.awkward_UnionArrayU32_flatten_length_64
    f.argtypes = [POINTER(c_int64), POINTER(c_int8), POINTER(c_uint32), c_int64, POINTER(POINTER(c_int64))]
    f.restype = ERROR
    out['awkward_UnionArray_flatten_length', int64, int8, uint32, int64] = f

    f = lib.awkward_UnionArray8_32_nestedfill_tags_index_64
    f.argtypes = [POINTER(c_int8), POINTER(c_int32), POINTER(c_int64), c_int8, POINTER(c_int64), c_int64]
    f.restype = ERROR
    out['awkward_UnionArray_nestedfill_tags_index', int8, int32, int64, int64] = f

    f = lib.awkward_UnionArray8_64_nestedfill_tags_index_64
    f.argtypes = [POINTER(c_int8), POINTER(c_int64), POINTER(c_int64), c_int8, POINTER(c_int64), c_int64]
    f.restype = ERROR
    out['awkward_UnionArray_nestedfill_tags_index', int8, int64, int64, int64] = f

    f = lib.awkward_UnionArray8_U32_nestedfill_tags_index_64
    f.argtypes = [POINTER(c_int8), POINTER(c_uint32), POINTER(c_int64), c_int8, POINTER(c_int64), c_int64]
    f.restype = ERROR
    out['awkward_UnionArray_nestedfill_tags_index', int8, uint32, int64, int64] = f

    f = lib.awkward_UnionArray8_32_project_64
    f.argtypes = [POINTER(c_int64), POINTER(c_int64), POINTER(c_int8), POINTER(c_int32), c_int64, c_int64]
    f.restype = ERROR
    out['awkward_UnionArray_project', int64, int64, int8, int32] = f

    f = lib.awkward_UnionArray8_64_project_64
    f.argtypes = [POINTER(c_int64), POINTER(c_int64), POINTER(c_int8), POINTER(c_int64), c_int64, c_int64]
    f.restype = ERROR
    out['awkward_UnionArray_project', int64, int64, int8, int64] = f

    f = lib.awkward_UnionArray8_U32_project_64
    f.argtypes = [POINTER(c_int64), POINTER(c_int64), POINTER(c_int8), POINTER(c_uint32), c_int64, c_int64]
    f.restype = ERROR
    out['awkward_UnionArray_project', int64, int64, int8, uint32] = f

    f = lib.awkward_UnionArray8_32_regular_index
    f.argtypes = [POINTER(c_int32), POINTER(c_int32), c_int64, POINTER(c_int8), c_int64]
    f.restype = ERROR
    out['awkward_UnionArray_regular_index', int32, int32, int8] = f

    f = lib.awkward_UnionArray8_64_regular_index
    f.argtypes = [POINTER(c_int64), POINTER(c_int64), c_int64, POINTER(c_int8), c_int64]
    f.restype = ERROR
    out['awkward_UnionArray_regular_index', int64, int64, int8] = f

    f = lib.awkward_UnionArray8_U32_regular_index
    f.argtypes = [POINTER(c_uint32), POINTER(c_uint32), c_int64, POINTER(c_int8), c_int64]
    f.restype = ERROR
    out['awkward_UnionArray_regular_index', uint32, uint32, int8] = f

    f = lib.awkward_UnionArray8_regular_index_getsize
    f.argtypes = [POINTER(c_int64), POINTER(c_int8), c_int64]
    f.restype = ERROR
    out['awkward_UnionArray_regular_index_getsize', int64, int8] = f

    f = lib.awkward_UnionArray8_32_simplify8_32_to8_64
    f.argtypes = [POINTER(c_int8), POINTER(c_int64), POINTER(c_int8), POINTER(c_int32), POINTER(c_int8), POINTER(c_int32), c_int64, c_int64, c_int64, c_int64, c_int64]
    f.restype = ERROR
    out['awkward_UnionArray_simplify', int8, int64, int8, int32, int8, int32] = f

    f = lib.awkward_UnionArray8_32_simplify8_64_to8_64
    f.argtypes = [POINTER(c_int8), POINTER(c_int64), POINTER(c_int8), POINTER(c_int32), POINTER(c_int8), POINTER(c_int64), c_int64, c_int64, c_int64, c_int64, c_int64]
    f.restype = ERROR
    out['awkward_UnionArray_simplify', int8, int64, int8, int32, int8, int64] = f

    f = lib.awkward_UnionArray8_32_simplify8_U32_to8_64
    f.argtypes = [POINTER(c_int8), POINTER(c_int64), POINTER(c_int8), POINTER(c_int32), POINTER(c_int8), POINTER(c_uint32), c_int64, c_int64, c_int64, c_int64, c_int64]
    f.restype = ERROR
    out['awkward_UnionArray_simplify', int8, int64, int8, int32, int8, uint32] = f

    f = lib.awkward_UnionArray8_64_simplify8_32_to8_64
    f.argtypes = [POINTER(c_int8), POINTER(c_int64), POINTER(c_int8), POINTER(c_int64), POINTER(c_int8), POINTER(c_int32), c_int64, c_int64, c_int64, c_int64, c_int64]
    f.restype = ERROR
    out['awkward_UnionArray_simplify', int8, int64, int8, int64, int8, int32] = f

    f = lib.awkward_UnionArray8_64_simplify8_64_to8_64
    f.argtypes = [POINTER(c_int8), POINTER(c_int64), POINTER(c_int8), POINTER(c_int64), POINTER(c_int8), POINTER(c_int64), c_int64, c_int64, c_int64, c_int64, c_int64]
    f.restype = ERROR
    out['awkward_UnionArray_simplify', int8, int64, int8, int64, int8, int64] = f

    f = lib.awkward_UnionArray8_64_simplify8_U32_to8_64
    f.argtypes = [POINTER(c_int8), POINTER(c_int64), POINTER(c_int8), POINTER(c_int64), POINTER(c_int8), POINTER(c_uint32), c_int64, c_int64, c_int64, c_int64, c_int64]
    f.restype = ERROR
    out['awkward_UnionArray_simplify', int8, int64, int8, int64, int8, uint32] = f

    f = lib.awkward_UnionArray8_U32_simplify8_32_to8_64
    f.argtypes = [POINTER(c_int8), POINTER(c_int64), POINTER(c_int8), POINTER(c_uint32), POINTER(c_int8), POINTER(c_int32), c_int64, c_int64, c_int64, c_int64, c_int64]
    f.restype = ERROR
    out['awkward_UnionArray_simplify', int8, int64, int8, uint32, int8, int32] = f

    f = lib.awkward_UnionArray8_U32_simplify8_64_to8_64
    f.argtypes = [POINTER(c_int8), POINTER(c_int64), POINTER(c_int8), POINTER(c_uint32), POINTER(c_int8), POINTER(c_int64), c_int64, c_int64, c_int64, c_int64, c_int64]
    f.restype = ERROR
    out['awkward_UnionArray_simplify', int8, int64, int8, uint32, int8, int64] = f

    f = lib.awkward_UnionArray8_U32_simplify8_U32_to8_64
    f.argtypes = [POINTER(c_int8), POINTER(c_int64), POINTER(c_int8), POINTER(c_uint32), POINTER(c_int8), POINTER(c_uint32), c_int64, c_int64, c_int64, c_int64, c_int64]
    f.restype = ERROR
    out['awkward_UnionArray_simplify', int8, int64, int8, uint32, int8, uint32] = f

    f = lib.awkward_UnionArray8_32_simplify_one_to8_64
    f.argtypes = [POINTER(c_int8), POINTER(c_int64), POINTER(c_int8), POINTER(c_int32), c_int64, c_int64, c_int64, c_int64]
    f.restype = ERROR
    out['awkward_UnionArray_simplify_one', int8, int64, int8, int32] = f

    f = lib.awkward_UnionArray8_64_simplify_one_to8_64
    f.argtypes = [POINTER(c_int8), POINTER(c_int64), POINTER(c_int8), POINTER(c_int64), c_int64, c_int64, c_int64, c_int64]
    f.restype = ERROR
    out['awkward_UnionArray_simplify_one', int8, int64, int8, int64] = f

    f = lib.awkward_UnionArray8_U32_simplify_one_to8_64
    f.argtypes = [POINTER(c_int8), POINTER(c_int64), POINTER(c_int8), POINTER(c_uint32), c_int64, c_int64, c_int64, c_int64]
    f.restype = ERROR
    out['awkward_UnionArray_simplify_one', int8, int64, int8, uint32] = f

    f = lib.awkward_UnionArray8_32_validity
    f.argtypes = [POINTER(c_int8), POINTER(c_int32), c_int64, c_int64, POINTER(c_int64)]
    f.restype = ERROR
    out['awkward_UnionArray_validity', int8, int32, int64] = f

    f = lib.awkward_UnionArray8_64_validity
    f.argtypes = [POINTER(c_int8), POINTER(c_int64), c_int64, c_int64, POINTER(c_int64)]
    f.restype = ERROR
    out['awkward_UnionArray_validity', int8, int64, int64] = f

    f = lib.awkward_UnionArray8_U32_validity
    f.argtypes = [POINTER(c_int8), POINTER(c_uint32), c_int64, c_int64, POINTER(c_int64)]
    f.restype = ERROR
    out['awkward_UnionArray_validity', int8, uint32, int64] = f

    f = lib.awkward_argsort_bool
    f.argtypes = [POINTER(c_int64), POINTER(c_bool), c_int64, POINTER(c_int64), c_int64, c_bool, c_bool]
    f.restype = ERROR
    out['awkward_argsort', int64, bool_, int64] = f

    f = lib.awkward_argsort_int8
    f.argtypes = [POINTER(c_int64), POINTER(c_int8), c_int64, POINTER(c_int64), c_int64, c_bool, c_bool]
    f.restype = ERROR
    out['awkward_argsort', int64, int8, int64] = f

    f = lib.awkward_argsort_int16
    f.argtypes = [POINTER(c_int64), POINTER(c_int16), c_int64, POINTER(c_int64), c_int64, c_bool, c_bool]
    f.restype = ERROR
    out['awkward_argsort', int64, int16, int64] = f

    f = lib.awkward_argsort_int32
    f.argtypes = [POINTER(c_int64), POINTER(c_int32), c_int64, POINTER(c_int64), c_int64, c_bool, c_bool]
    f.restype = ERROR
    out['awkward_argsort', int64, int32, int64] = f

    f = lib.awkward_argsort_int64
    f.argtypes = [POINTER(c_int64), POINTER(c_int64), c_int64, POINTER(c_int64), c_int64, c_bool, c_bool]
    f.restype = ERROR
    out['awkward_argsort', int64, int64, int64] = f

    f = lib.awkward_argsort_uint8
    f.argtypes = [POINTER(c_int64), POINTER(c_uint8), c_int64, POINTER(c_int64), c_int64, c_bool, c_bool]
    f.restype = ERROR
    out['awkward_argsort', int64, uint8, int64] = f

    f = lib.awkward_argsort_uint16
    f.argtypes = [POINTER(c_int64), POINTER(c_uint16), c_int64, POINTER(c_int64), c_int64, c_bool, c_bool]
    f.restype = ERROR
    out['awkward_argsort', int64, uint16, int64] = f

    f = lib.awkward_argsort_uint32
    f.argtypes = [POINTER(c_int64), POINTER(c_uint32), c_int64, POINTER(c_int64), c_int64, c_bool, c_bool]
    f.restype = ERROR
    out['awkward_argsort', int64, uint32, int64] = f

    f = lib.awkward_argsort_uint64
    f.argtypes = [POINTER(c_int64), POINTER(c_uint64), c_int64, POINTER(c_int64), c_int64, c_bool, c_bool]
    f.restype = ERROR
    out['awkward_argsort', int64, uint64, int64] = f

    f = lib.awkward_argsort_float32
    f.argtypes = [POINTER(c_int64), POINTER(c_float), c_int64, POINTER(c_int64), c_int64, c_bool, c_bool]
    f.restype = ERROR
    out['awkward_argsort', int64, float32, int64] = f

    f = lib.awkward_argsort_float64
    f.argtypes = [POINTER(c_int64), POINTER(c_double), c_int64, POINTER(c_int64), c_int64, c_bool, c_bool]
    f.restype = ERROR
    out['awkward_argsort', int64, float64, int64] = f

    f = lib.awkward_quick_argsort_bool
    f.argtypes = [POINTER(c_int64), POINTER(c_bool), c_int64, POINTER(c_int64), POINTER(c_int64), POINTER(c_int64), c_int64, c_bool, c_bool, c_int64]
    f.restype = ERROR
    out['awkward_quick_argsort', int64, bool_, int64, int64, int64] = f

    f = lib.awkward_quick_argsort_int8
    f.argtypes = [POINTER(c_int64), POINTER(c_int8), c_int64, POINTER(c_int64), POINTER(c_int64), POINTER(c_int64), c_int64, c_bool, c_bool, c_int64]
    f.restype = ERROR
    out['awkward_quick_argsort', int64, int8, int64, int64, int64] = f

    f = lib.awkward_quick_argsort_int16
    f.argtypes = [POINTER(c_int64), POINTER(c_int16), c_int64, POINTER(c_int64), POINTER(c_int64), POINTER(c_int64), c_int64, c_bool, c_bool, c_int64]
    f.restype = ERROR
    out['awkward_quick_argsort', int64, int16, int64, int64, int64] = f

    f = lib.awkward_quick_argsort_int32
    f.argtypes = [POINTER(c_int64), POINTER(c_int32), c_int64, POINTER(c_int64), POINTER(c_int64), POINTER(c_int64), c_int64, c_bool, c_bool, c_int64]
    f.restype = ERROR
    out['awkward_quick_argsort', int64, int32, int64, int64, int64] = f

    f = lib.awkward_quick_argsort_int64
    f.argtypes = [POINTER(c_int64), POINTER(c_int64), c_int64, POINTER(c_int64), POINTER(c_int64), POINTER(c_int64), c_int64, c_bool, c_bool, c_int64]
    f.restype = ERROR
    out['awkward_quick_argsort', int64, int64, int64, int64, int64] = f

    f = lib.awkward_quick_argsort_uint8
    f.argtypes = [POINTER(c_int64), POINTER(c_uint8), c_int64, POINTER(c_int64), POINTER(c_int64), POINTER(c_int64), c_int64, c_bool, c_bool, c_int64]
    f.restype = ERROR
    out['awkward_quick_argsort', int64, uint8, int64, int64, int64] = f

    f = lib.awkward_quick_argsort_uint16
    f.argtypes = [POINTER(c_int64), POINTER(c_uint16), c_int64, POINTER(c_int64), POINTER(c_int64), POINTER(c_int64), c_int64, c_bool, c_bool, c_int64]
    f.restype = ERROR
    out['awkward_quick_argsort', int64, uint16, int64, int64, int64] = f

    f = lib.awkward_quick_argsort_uint32
    f.argtypes = [POINTER(c_int64), POINTER(c_uint32), c_int64, POINTER(c_int64), POINTER(c_int64), POINTER(c_int64), c_int64, c_bool, c_bool, c_int64]
    f.restype = ERROR
    out['awkward_quick_argsort', int64, uint32, int64, int64, int64] = f

    f = lib.awkward_quick_argsort_uint64
    f.argtypes = [POINTER(c_int64), POINTER(c_uint64), c_int64, POINTER(c_int64), POINTER(c_int64), POINTER(c_int64), c_int64, c_bool, c_bool, c_int64]
    f.restype = ERROR
    out['awkward_quick_argsort', int64, uint64, int64, int64, int64] = f

    f = lib.awkward_quick_argsort_float32
    f.argtypes = [POINTER(c_int64), POINTER(c_float), c_int64, POINTER(c_int64), POINTER(c_int64), POINTER(c_int64), c_int64, c_bool, c_bool, c_int64]
    f.restype = ERROR
    out['awkward_quick_argsort', int64, float32, int64, int64, int64] = f

    f = lib.awkward_quick_argsort_float64
    f.argtypes = [POINTER(c_int64), POINTER(c_double), c_int64, POINTER(c_int64), POINTER(c_int64), POINTER(c_int64), c_int64, c_bool, c_bool, c_int64]
    f.restype = ERROR
    out['awkward_quick_argsort', int64, float64, int64, int64, int64] = f

    f = lib.awkward_carry_arange32
    f.argtypes = [POINTER(c_int32), c_int64]
    f.restype = ERROR
    out['awkward_carry_arange', int32] = f

    f = lib.awkward_carry_arange64
    f.argtypes = [POINTER(c_int64), c_int64]
    f.restype = ERROR
    out['awkward_carry_arange', int64] = f

    f = lib.awkward_carry_arangeU32
    f.argtypes = [POINTER(c_uint32), c_int64]
    f.restype = ERROR
    out['awkward_carry_arange', uint32] = f

    f = lib.awkward_carry_SliceJagged64_offsets
    f.argtypes = [POINTER(c_int64), POINTER(c_int64), POINTER(c_int64), c_int64]
    f.restype = ERROR
    out['awkward_carry_SliceJagged64_offsets', int64, int64, int64] = f

    f = lib.awkward_carry_SliceJagged64_nextcarry
    f.argtypes = [POINTER(c_int64), POINTER(c_int64), POINTER(c_int64), c_int64]
    f.restype = ERROR
    out['awkward_carry_SliceJagged64_nextcarry', int64, int64, int64] = f

    f = lib.awkward_carry_SliceMissing64_outindex
    f.argtypes = [POINTER(c_int64), POINTER(c_int64), c_int64]
    f.restype = ERROR
    out['awkward_carry_SliceMissing64_outindex', int64, int64] = f

    f = lib.awkward_combinations_64
    f.argtypes = [POINTER(c_int64), c_int64, c_bool, c_int64]
    f.restype = ERROR
    out['awkward_combinations', int64] = f

    f = lib.awkward_content_reduce_zeroparents_64
    f.argtypes = [POINTER(c_int64), c_int64]
    f.restype = ERROR
    out['awkward_content_reduce_zeroparents_64', int64] = f

    f = lib.awkward_Index32_carry_64
    f.argtypes = [POINTER(c_int32), POINTER(c_int32), POINTER(c_int64), c_int64, c_int64]
    f.restype = ERROR
    out['awkward_index_carry', int32, int32, int64] = f

    f = lib.awkward_Index64_carry_64
    f.argtypes = [POINTER(c_int64), POINTER(c_int64), POINTER(c_int64), c_int64, c_int64]
    f.restype = ERROR
    out['awkward_index_carry', int64, int64, int64] = f

    f = lib.awkward_Index8_carry_64
    f.argtypes = [POINTER(c_int8), POINTER(c_int8), POINTER(c_int64), c_int64, c_int64]
    f.restype = ERROR
    out['awkward_index_carry', int8, int8, int64] = f

    f = lib.awkward_IndexU32_carry_64
    f.argtypes = [POINTER(c_uint32), POINTER(c_uint32), POINTER(c_int64), c_int64, c_int64]
    f.restype = ERROR
    out['awkward_index_carry', uint32, uint32, int64] = f

    f = lib.awkward_IndexU8_carry_64
    f.argtypes = [POINTER(c_uint8), POINTER(c_uint8), POINTER(c_int64), c_int64, c_int64]
    f.restype = ERROR
    out['awkward_index_carry', uint8, uint8, int64] = f

    f = lib.awkward_Index32_carry_nocheck_64
    f.argtypes = [POINTER(c_int32), POINTER(c_int32), POINTER(c_int64), c_int64]
    f.restype = ERROR
    out['awkward_index_carry_nocheck', int32, int32, int64] = f

    f = lib.awkward_Index64_carry_nocheck_64
    f.argtypes = [POINTER(c_int64), POINTER(c_int64), POINTER(c_int64), c_int64]
    f.restype = ERROR
    out['awkward_index_carry_nocheck', int64, int64, int64] = f

    f = lib.awkward_Index8_carry_nocheck_64
    f.argtypes = [POINTER(c_int8), POINTER(c_int8), POINTER(c_int64), c_int64]
    f.restype = ERROR
    out['awkward_index_carry_nocheck', int8, int8, int64] = f

    f = lib.awkward_IndexU32_carry_nocheck_64
    f.argtypes = [POINTER(c_uint32), POINTER(c_uint32), POINTER(c_int64), c_int64]
    f.restype = ERROR
    out['awkward_index_carry_nocheck', uint32, uint32, int64] = f

    f = lib.awkward_IndexU8_carry_nocheck_64
    f.argtypes = [POINTER(c_uint8), POINTER(c_uint8), POINTER(c_int64), c_int64]
    f.restype = ERROR
    out['awkward_index_carry_nocheck', uint8, uint8, int64] = f

    f = lib.awkward_index_rpad_and_clip_axis0_64
    f.argtypes = [POINTER(c_int64), c_int64, c_int64]
    f.restype = ERROR
    out['awkward_index_rpad_and_clip_axis0', int64] = f

    f = lib.awkward_index_rpad_and_clip_axis1_64
    f.argtypes = [POINTER(c_int64), POINTER(c_int64), c_int64, c_int64]
    f.restype = ERROR
    out['awkward_index_rpad_and_clip_axis1', int64, int64] = f

    f = lib.awkward_Index_nones_as_index_64
    f.argtypes = [POINTER(c_int64), c_int64]
    f.restype = ERROR
    out['awkward_Index_nones_as_index', int64] = f

    f = lib.awkward_localindex_64
    f.argtypes = [POINTER(c_int64), c_int64]
    f.restype = ERROR
    out['awkward_localindex', int64] = f

    f = lib.awkward_missing_repeat_64
    f.argtypes = [POINTER(c_int64), POINTER(c_int64), c_int64, c_int64, c_int64]
    f.restype = ERROR
    out['awkward_missing_repeat', int64, int64] = f

    f = lib.awkward_new_Identities32
    f.argtypes = [POINTER(c_int32), c_int64]
    f.restype = ERROR
    out['awkward_new_Identities', int32] = f

    f = lib.awkward_new_Identities64
    f.argtypes = [POINTER(c_int64), c_int64]
    f.restype = ERROR
    out['awkward_new_Identities', int64] = f

    f = lib.awkward_reduce_argmax_int8_64
    f.argtypes = [POINTER(c_int64), POINTER(c_int8), POINTER(c_int64), c_int64, c_int64]
    f.restype = ERROR
    out['awkward_reduce_argmax', int64, int8, int64] = f

    f = lib.awkward_reduce_argmax_int16_64
    f.argtypes = [POINTER(c_int64), POINTER(c_int16), POINTER(c_int64), c_int64, c_int64]
    f.restype = ERROR
    out['awkward_reduce_argmax', int64, int16, int64] = f

    f = lib.awkward_reduce_argmax_int32_64
    f.argtypes = [POINTER(c_int64), POINTER(c_int32), POINTER(c_int64), c_int64, c_int64]
    f.restype = ERROR
    out['awkward_reduce_argmax', int64, int32, int64] = f

    f = lib.awkward_reduce_argmax_int64_64
    f.argtypes = [POINTER(c_int64), POINTER(c_int64), POINTER(c_int64), c_int64, c_int64]
    f.restype = ERROR
    out['awkward_reduce_argmax', int64, int64, int64] = f

    f = lib.awkward_reduce_argmax_uint8_64
    f.argtypes = [POINTER(c_int64), POINTER(c_uint8), POINTER(c_int64), c_int64, c_int64]
    f.restype = ERROR
    out['awkward_reduce_argmax', int64, uint8, int64] = f

    f = lib.awkward_reduce_argmax_uint16_64
    f.argtypes = [POINTER(c_int64), POINTER(c_uint16), POINTER(c_int64), c_int64, c_int64]
    f.restype = ERROR
    out['awkward_reduce_argmax', int64, uint16, int64] = f

    f = lib.awkward_reduce_argmax_uint32_64
    f.argtypes = [POINTER(c_int64), POINTER(c_uint32), POINTER(c_int64), c_int64, c_int64]
    f.restype = ERROR
    out['awkward_reduce_argmax', int64, uint32, int64] = f

    f = lib.awkward_reduce_argmax_uint64_64
    f.argtypes = [POINTER(c_int64), POINTER(c_uint64), POINTER(c_int64), c_int64, c_int64]
    f.restype = ERROR
    out['awkward_reduce_argmax', int64, uint64, int64] = f

    f = lib.awkward_reduce_argmax_float32_64
    f.argtypes = [POINTER(c_int64), POINTER(c_float), POINTER(c_int64), c_int64, c_int64]
    f.restype = ERROR
    out['awkward_reduce_argmax', int64, float32, int64] = f

    f = lib.awkward_reduce_argmax_float64_64
    f.argtypes = [POINTER(c_int64), POINTER(c_double), POINTER(c_int64), c_int64, c_int64]
    f.restype = ERROR
    out['awkward_reduce_argmax', int64, float64, int64] = f

    f = lib.awkward_reduce_argmax_complex64_64
    f.argtypes = [POINTER(c_int64), POINTER(c_float), POINTER(c_int64), c_int64, c_int64]
    f.restype = ERROR
    out['awkward_reduce_argmax_complex', int64, float32, int64] = f

    f = lib.awkward_reduce_argmax_complex128_64
    f.argtypes = [POINTER(c_int64), POINTER(c_double), POINTER(c_int64), c_int64, c_int64]
    f.restype = ERROR
    out['awkward_reduce_argmax_complex', int64, float64, int64] = f

    f = lib.awkward_reduce_argmax_bool_64
    f.argtypes = [POINTER(c_int64), POINTER(c_bool), POINTER(c_int64), c_int64, c_int64]
    f.restype = ERROR
    out['awkward_reduce_argmax_bool_64', int64, bool_, int64] = f

    f = lib.awkward_reduce_argmin_int8_64
    f.argtypes = [POINTER(c_int64), POINTER(c_int8), POINTER(c_int64), c_int64, c_int64]
    f.restype = ERROR
    out['awkward_reduce_argmin', int64, int8, int64] = f

    f = lib.awkward_reduce_argmin_int16_64
    f.argtypes = [POINTER(c_int64), POINTER(c_int16), POINTER(c_int64), c_int64, c_int64]
    f.restype = ERROR
    out['awkward_reduce_argmin', int64, int16, int64] = f

    f = lib.awkward_reduce_argmin_int32_64
    f.argtypes = [POINTER(c_int64), POINTER(c_int32), POINTER(c_int64), c_int64, c_int64]
    f.restype = ERROR
    out['awkward_reduce_argmin', int64, int32, int64] = f

    f = lib.awkward_reduce_argmin_int64_64
    f.argtypes = [POINTER(c_int64), POINTER(c_int64), POINTER(c_int64), c_int64, c_int64]
    f.restype = ERROR
    out['awkward_reduce_argmin', int64, int64, int64] = f

    f = lib.awkward_reduce_argmin_uint8_64
    f.argtypes = [POINTER(c_int64), POINTER(c_uint8), POINTER(c_int64), c_int64, c_int64]
    f.restype = ERROR
    out['awkward_reduce_argmin', int64, uint8, int64] = f

    f = lib.awkward_reduce_argmin_uint16_64
    f.argtypes = [POINTER(c_int64), POINTER(c_uint16), POINTER(c_int64), c_int64, c_int64]
    f.restype = ERROR
    out['awkward_reduce_argmin', int64, uint16, int64] = f

    f = lib.awkward_reduce_argmin_uint32_64
    f.argtypes = [POINTER(c_int64), POINTER(c_uint32), POINTER(c_int64), c_int64, c_int64]
    f.restype = ERROR
    out['awkward_reduce_argmin', int64, uint32, int64] = f

    f = lib.awkward_reduce_argmin_uint64_64
    f.argtypes = [POINTER(c_int64), POINTER(c_uint64), POINTER(c_int64), c_int64, c_int64]
    f.restype = ERROR
    out['awkward_reduce_argmin', int64, uint64, int64] = f

    f = lib.awkward_reduce_argmin_float32_64
    f.argtypes = [POINTER(c_int64), POINTER(c_float), POINTER(c_int64), c_int64, c_int64]
    f.restype = ERROR
    out['awkward_reduce_argmin', int64, float32, int64] = f

    f = lib.awkward_reduce_argmin_float64_64
    f.argtypes = [POINTER(c_int64), POINTER(c_double), POINTER(c_int64), c_int64, c_int64]
    f.restype = ERROR
    out['awkward_reduce_argmin', int64, float64, int64] = f

    f = lib.awkward_reduce_argmin_bool_64
    f.argtypes = [POINTER(c_int64), POINTER(c_bool), POINTER(c_int64), c_int64, c_int64]
    f.restype = ERROR
    out['awkward_reduce_argmin_bool_64', int64, bool_, int64] = f

    f = lib.awkward_reduce_argmin_complex64_64
    f.argtypes = [POINTER(c_int64), POINTER(c_float), POINTER(c_int64), c_int64, c_int64]
    f.restype = ERROR
    out['awkward_reduce_argmin_complex', int64, float32, int64] = f

    f = lib.awkward_reduce_argmin_complex128_64
    f.argtypes = [POINTER(c_int64), POINTER(c_double), POINTER(c_int64), c_int64, c_int64]
    f.restype = ERROR
    out['awkward_reduce_argmin_complex', int64, float64, int64] = f

    f = lib.awkward_reduce_count_64
    f.argtypes = [POINTER(c_int64), POINTER(c_int64), c_int64, c_int64]
    f.restype = ERROR
    out['awkward_reduce_count_64', int64, int64] = f

    f = lib.awkward_reduce_countnonzero_bool_64
    f.argtypes = [POINTER(c_int64), POINTER(c_bool), POINTER(c_int64), c_int64, c_int64]
    f.restype = ERROR
    out['awkward_reduce_countnonzero', int64, bool_, int64] = f

    f = lib.awkward_reduce_countnonzero_int8_64
    f.argtypes = [POINTER(c_int64), POINTER(c_int8), POINTER(c_int64), c_int64, c_int64]
    f.restype = ERROR
    out['awkward_reduce_countnonzero', int64, int8, int64] = f

    f = lib.awkward_reduce_countnonzero_int16_64
    f.argtypes = [POINTER(c_int64), POINTER(c_int16), POINTER(c_int64), c_int64, c_int64]
    f.restype = ERROR
    out['awkward_reduce_countnonzero', int64, int16, int64] = f

    f = lib.awkward_reduce_countnonzero_int32_64
    f.argtypes = [POINTER(c_int64), POINTER(c_int32), POINTER(c_int64), c_int64, c_int64]
    f.restype = ERROR
    out['awkward_reduce_countnonzero', int64, int32, int64] = f

    f = lib.awkward_reduce_countnonzero_int64_64
    f.argtypes = [POINTER(c_int64), POINTER(c_int64), POINTER(c_int64), c_int64, c_int64]
    f.restype = ERROR
    out['awkward_reduce_countnonzero', int64, int64, int64] = f

    f = lib.awkward_reduce_countnonzero_uint8_64
    f.argtypes = [POINTER(c_int64), POINTER(c_uint8), POINTER(c_int64), c_int64, c_int64]
    f.restype = ERROR
    out['awkward_reduce_countnonzero', int64, uint8, int64] = f

    f = lib.awkward_reduce_countnonzero_uint16_64
    f.argtypes = [POINTER(c_int64), POINTER(c_uint16), POINTER(c_int64), c_int64, c_int64]
    f.restype = ERROR
    out['awkward_reduce_countnonzero', int64, uint16, int64] = f

    f = lib.awkward_reduce_countnonzero_uint32_64
    f.argtypes = [POINTER(c_int64), POINTER(c_uint32), POINTER(c_int64), c_int64, c_int64]
    f.restype = ERROR
    out['awkward_reduce_countnonzero', int64, uint32, int64] = f

    f = lib.awkward_reduce_countnonzero_uint64_64
    f.argtypes = [POINTER(c_int64), POINTER(c_uint64), POINTER(c_int64), c_int64, c_int64]
    f.restype = ERROR
    out['awkward_reduce_countnonzero', int64, uint64, int64] = f

    f = lib.awkward_reduce_countnonzero_float32_64
    f.argtypes = [POINTER(c_int64), POINTER(c_float), POINTER(c_int64), c_int64, c_int64]
    f.restype = ERROR
    out['awkward_reduce_countnonzero', int64, float32, int64] = f

    f = lib.awkward_reduce_countnonzero_float64_64
    f.argtypes = [POINTER(c_int64), POINTER(c_double), POINTER(c_int64), c_int64, c_int64]
    f.restype = ERROR
    out['awkward_reduce_countnonzero', int64, float64, int64] = f

    f = lib.awkward_reduce_countnonzero_complex64_64
    f.argtypes = [POINTER(c_int64), POINTER(c_float), POINTER(c_int64), c_int64, c_int64]
    f.restype = ERROR
    out['awkward_reduce_countnonzero_complex', int64, float32, int64] = f

    f = lib.awkward_reduce_countnonzero_complex128_64
    f.argtypes = [POINTER(c_int64), POINTER(c_double), POINTER(c_int64), c_int64, c_int64]
    f.restype = ERROR
    out['awkward_reduce_countnonzero_complex', int64, float64, int64] = f

    f = lib.awkward_reduce_max_int8_int8_64
    f.argtypes = [POINTER(c_int8), POINTER(c_int8), POINTER(c_int64), c_int64, c_int64, c_int8]
    f.restype = ERROR
    out['awkward_reduce_max', int8, int8, int64] = f

    f = lib.awkward_reduce_max_int16_int16_64
    f.argtypes = [POINTER(c_int16), POINTER(c_int16), POINTER(c_int64), c_int64, c_int64, c_int16]
    f.restype = ERROR
    out['awkward_reduce_max', int16, int16, int64] = f

    f = lib.awkward_reduce_max_int32_int32_64
    f.argtypes = [POINTER(c_int32), POINTER(c_int32), POINTER(c_int64), c_int64, c_int64, c_int32]
    f.restype = ERROR
    out['awkward_reduce_max', int32, int32, int64] = f

    f = lib.awkward_reduce_max_int64_int64_64
    f.argtypes = [POINTER(c_int64), POINTER(c_int64), POINTER(c_int64), c_int64, c_int64, c_int64]
    f.restype = ERROR
    out['awkward_reduce_max', int64, int64, int64] = f

    f = lib.awkward_reduce_max_uint8_uint8_64
    f.argtypes = [POINTER(c_uint8), POINTER(c_uint8), POINTER(c_int64), c_int64, c_int64, c_uint8]
    f.restype = ERROR
    out['awkward_reduce_max', uint8, uint8, int64] = f

    f = lib.awkward_reduce_max_uint16_uint16_64
    f.argtypes = [POINTER(c_uint16), POINTER(c_uint16), POINTER(c_int64), c_int64, c_int64, c_uint16]
    f.restype = ERROR
    out['awkward_reduce_max', uint16, uint16, int64] = f

    f = lib.awkward_reduce_max_uint32_uint32_64
    f.argtypes = [POINTER(c_uint32), POINTER(c_uint32), POINTER(c_int64), c_int64, c_int64, c_uint32]
    f.restype = ERROR
    out['awkward_reduce_max', uint32, uint32, int64] = f

    f = lib.awkward_reduce_max_uint64_uint64_64
    f.argtypes = [POINTER(c_uint64), POINTER(c_uint64), POINTER(c_int64), c_int64, c_int64, c_uint64]
    f.restype = ERROR
    out['awkward_reduce_max', uint64, uint64, int64] = f

    f = lib.awkward_reduce_max_float32_float32_64
    f.argtypes = [POINTER(c_float), POINTER(c_float), POINTER(c_int64), c_int64, c_int64, c_float]
    f.restype = ERROR
    out['awkward_reduce_max', float32, float32, int64] = f

    f = lib.awkward_reduce_max_float64_float64_64
    f.argtypes = [POINTER(c_double), POINTER(c_double), POINTER(c_int64), c_int64, c_int64, c_double]
    f.restype = ERROR
    out['awkward_reduce_max', float64, float64, int64] = f

    f = lib.awkward_reduce_max_complex64_complex64_64
    f.argtypes = [POINTER(c_float), POINTER(c_float), POINTER(c_int64), c_int64, c_int64, c_float]
    f.restype = ERROR
    out['awkward_reduce_max_complex', float32, float32, int64] = f

    f = lib.awkward_reduce_max_complex128_complex128_64
    f.argtypes = [POINTER(c_double), POINTER(c_double), POINTER(c_int64), c_int64, c_int64, c_double]
    f.restype = ERROR
    out['awkward_reduce_max_complex', float64, float64, int64] = f

    f = lib.awkward_reduce_min_int8_int8_64
    f.argtypes = [POINTER(c_int8), POINTER(c_int8), POINTER(c_int64), c_int64, c_int64, c_int8]
    f.restype = ERROR
    out['awkward_reduce_min', int8, int8, int64] = f

    f = lib.awkward_reduce_min_int16_int16_64
    f.argtypes = [POINTER(c_int16), POINTER(c_int16), POINTER(c_int64), c_int64, c_int64, c_int16]
    f.restype = ERROR
    out['awkward_reduce_min', int16, int16, int64] = f

    f = lib.awkward_reduce_min_int32_int32_64
    f.argtypes = [POINTER(c_int32), POINTER(c_int32), POINTER(c_int64), c_int64, c_int64, c_int32]
    f.restype = ERROR
    out['awkward_reduce_min', int32, int32, int64] = f

    f = lib.awkward_reduce_min_int64_int64_64
    f.argtypes = [POINTER(c_int64), POINTER(c_int64), POINTER(c_int64), c_int64, c_int64, c_int64]
    f.restype = ERROR
    out['awkward_reduce_min', int64, int64, int64] = f

    f = lib.awkward_reduce_min_uint8_uint8_64
    f.argtypes = [POINTER(c_uint8), POINTER(c_uint8), POINTER(c_int64), c_int64, c_int64, c_uint8]
    f.restype = ERROR
    out['awkward_reduce_min', uint8, uint8, int64] = f

    f = lib.awkward_reduce_min_uint16_uint16_64
    f.argtypes = [POINTER(c_uint16), POINTER(c_uint16), POINTER(c_int64), c_int64, c_int64, c_uint16]
    f.restype = ERROR
    out['awkward_reduce_min', uint16, uint16, int64] = f

    f = lib.awkward_reduce_min_uint32_uint32_64
    f.argtypes = [POINTER(c_uint32), POINTER(c_uint32), POINTER(c_int64), c_int64, c_int64, c_uint32]
    f.restype = ERROR
    out['awkward_reduce_min', uint32, uint32, int64] = f

    f = lib.awkward_reduce_min_uint64_uint64_64
    f.argtypes = [POINTER(c_uint64), POINTER(c_uint64), POINTER(c_int64), c_int64, c_int64, c_uint64]
    f.restype = ERROR
    out['awkward_reduce_min', uint64, uint64, int64] = f

    f = lib.awkward_reduce_min_float32_float32_64
    f.argtypes = [POINTER(c_float), POINTER(c_float), POINTER(c_int64), c_int64, c_int64, c_float]
    f.restype = ERROR
    out['awkward_reduce_min', float32, float32, int64] = f

    f = lib.awkward_reduce_min_float64_float64_64
    f.argtypes = [POINTER(c_double), POINTER(c_double), POINTER(c_int64), c_int64, c_int64, c_double]
    f.restype = ERROR
    out['awkward_reduce_min', float64, float64, int64] = f

    f = lib.awkward_reduce_min_complex64_complex64_64
    f.argtypes = [POINTER(c_float), POINTER(c_float), POINTER(c_int64), c_int64, c_int64, c_float]
    f.restype = ERROR
    out['awkward_reduce_min_complex', float32, float32, int64] = f

    f = lib.awkward_reduce_min_complex128_complex128_64
    f.argtypes = [POINTER(c_double), POINTER(c_double), POINTER(c_int64), c_int64, c_int64, c_double]
    f.restype = ERROR
    out['awkward_reduce_min_complex', float64, float64, int64] = f

    f = lib.awkward_reduce_prod_int32_int8_64
    f.argtypes = [POINTER(c_int32), POINTER(c_int8), POINTER(c_int64), c_int64, c_int64]
    f.restype = ERROR
    out['awkward_reduce_prod', int32, int8, int64] = f

    f = lib.awkward_reduce_prod_int32_int16_64
    f.argtypes = [POINTER(c_int32), POINTER(c_int16), POINTER(c_int64), c_int64, c_int64]
    f.restype = ERROR
    out['awkward_reduce_prod', int32, int16, int64] = f

    f = lib.awkward_reduce_prod_int32_int32_64
    f.argtypes = [POINTER(c_int32), POINTER(c_int32), POINTER(c_int64), c_int64, c_int64]
    f.restype = ERROR
    out['awkward_reduce_prod', int32, int32, int64] = f

    f = lib.awkward_reduce_prod_int64_int8_64
    f.argtypes = [POINTER(c_int64), POINTER(c_int8), POINTER(c_int64), c_int64, c_int64]
    f.restype = ERROR
    out['awkward_reduce_prod', int64, int8, int64] = f

    f = lib.awkward_reduce_prod_int64_int16_64
    f.argtypes = [POINTER(c_int64), POINTER(c_int16), POINTER(c_int64), c_int64, c_int64]
    f.restype = ERROR
    out['awkward_reduce_prod', int64, int16, int64] = f

    f = lib.awkward_reduce_prod_int64_int32_64
    f.argtypes = [POINTER(c_int64), POINTER(c_int32), POINTER(c_int64), c_int64, c_int64]
    f.restype = ERROR
    out['awkward_reduce_prod', int64, int32, int64] = f

    f = lib.awkward_reduce_prod_int64_int64_64
    f.argtypes = [POINTER(c_int64), POINTER(c_int64), POINTER(c_int64), c_int64, c_int64]
    f.restype = ERROR
    out['awkward_reduce_prod', int64, int64, int64] = f

    f = lib.awkward_reduce_prod_uint32_uint8_64
    f.argtypes = [POINTER(c_uint32), POINTER(c_uint8), POINTER(c_int64), c_int64, c_int64]
    f.restype = ERROR
    out['awkward_reduce_prod', uint32, uint8, int64] = f

    f = lib.awkward_reduce_prod_uint32_uint16_64
    f.argtypes = [POINTER(c_uint32), POINTER(c_uint16), POINTER(c_int64), c_int64, c_int64]
    f.restype = ERROR
    out['awkward_reduce_prod', uint32, uint16, int64] = f

    f = lib.awkward_reduce_prod_uint32_uint32_64
    f.argtypes = [POINTER(c_uint32), POINTER(c_uint32), POINTER(c_int64), c_int64, c_int64]
    f.restype = ERROR
    out['awkward_reduce_prod', uint32, uint32, int64] = f

    f = lib.awkward_reduce_prod_uint64_uint8_64
    f.argtypes = [POINTER(c_uint64), POINTER(c_uint8), POINTER(c_int64), c_int64, c_int64]
    f.restype = ERROR
    out['awkward_reduce_prod', uint64, uint8, int64] = f

    f = lib.awkward_reduce_prod_uint64_uint16_64
    f.argtypes = [POINTER(c_uint64), POINTER(c_uint16), POINTER(c_int64), c_int64, c_int64]
    f.restype = ERROR
    out['awkward_reduce_prod', uint64, uint16, int64] = f

    f = lib.awkward_reduce_prod_uint64_uint32_64
    f.argtypes = [POINTER(c_uint64), POINTER(c_uint32), POINTER(c_int64), c_int64, c_int64]
    f.restype = ERROR
    out['awkward_reduce_prod', uint64, uint32, int64] = f

    f = lib.awkward_reduce_prod_uint64_uint64_64
    f.argtypes = [POINTER(c_uint64), POINTER(c_uint64), POINTER(c_int64), c_int64, c_int64]
    f.restype = ERROR
    out['awkward_reduce_prod', uint64, uint64, int64] = f

    f = lib.awkward_reduce_prod_float32_float32_64
    f.argtypes = [POINTER(c_float), POINTER(c_float), POINTER(c_int64), c_int64, c_int64]
    f.restype = ERROR
    out['awkward_reduce_prod', float32, float32, int64] = f

    f = lib.awkward_reduce_prod_float64_float64_64
    f.argtypes = [POINTER(c_double), POINTER(c_double), POINTER(c_int64), c_int64, c_int64]
    f.restype = ERROR
    out['awkward_reduce_prod', float64, float64, int64] = f

    f = lib.awkward_reduce_prod_complex64_complex64_64
    f.argtypes = [POINTER(c_float), POINTER(c_float), POINTER(c_int64), c_int64, c_int64]
    f.restype = ERROR
    out['awkward_reduce_prod_complex', float32, float32, int64] = f

    f = lib.awkward_reduce_prod_complex128_complex128_64
    f.argtypes = [POINTER(c_double), POINTER(c_double), POINTER(c_int64), c_int64, c_int64]
    f.restype = ERROR
    out['awkward_reduce_prod_complex', float64, float64, int64] = f

    f = lib.awkward_reduce_prod_bool_bool_64
    f.argtypes = [POINTER(c_bool), POINTER(c_bool), POINTER(c_int64), c_int64, c_int64]
    f.restype = ERROR
    out['awkward_reduce_prod_bool', bool_, bool_, int64] = f

    f = lib.awkward_reduce_prod_bool_int8_64
    f.argtypes = [POINTER(c_bool), POINTER(c_int8), POINTER(c_int64), c_int64, c_int64]
    f.restype = ERROR
    out['awkward_reduce_prod_bool', bool_, int8, int64] = f

    f = lib.awkward_reduce_prod_bool_int16_64
    f.argtypes = [POINTER(c_bool), POINTER(c_int16), POINTER(c_int64), c_int64, c_int64]
    f.restype = ERROR
    out['awkward_reduce_prod_bool', bool_, int16, int64] = f

    f = lib.awkward_reduce_prod_bool_int32_64
    f.argtypes = [POINTER(c_bool), POINTER(c_int32), POINTER(c_int64), c_int64, c_int64]
    f.restype = ERROR
    out['awkward_reduce_prod_bool', bool_, int32, int64] = f

    f = lib.awkward_reduce_prod_bool_int64_64
    f.argtypes = [POINTER(c_bool), POINTER(c_int64), POINTER(c_int64), c_int64, c_int64]
    f.restype = ERROR
    out['awkward_reduce_prod_bool', bool_, int64, int64] = f

    f = lib.awkward_reduce_prod_bool_uint8_64
    f.argtypes = [POINTER(c_bool), POINTER(c_uint8), POINTER(c_int64), c_int64, c_int64]
    f.restype = ERROR
    out['awkward_reduce_prod_bool', bool_, uint8, int64] = f

    f = lib.awkward_reduce_prod_bool_uint16_64
    f.argtypes = [POINTER(c_bool), POINTER(c_uint16), POINTER(c_int64), c_int64, c_int64]
    f.restype = ERROR
    out['awkward_reduce_prod_bool', bool_, uint16, int64] = f

    f = lib.awkward_reduce_prod_bool_uint32_64
    f.argtypes = [POINTER(c_bool), POINTER(c_uint32), POINTER(c_int64), c_int64, c_int64]
    f.restype = ERROR
    out['awkward_reduce_prod_bool', bool_, uint32, int64] = f

    f = lib.awkward_reduce_prod_bool_uint64_64
    f.argtypes = [POINTER(c_bool), POINTER(c_uint64), POINTER(c_int64), c_int64, c_int64]
    f.restype = ERROR
    out['awkward_reduce_prod_bool', bool_, uint64, int64] = f

    f = lib.awkward_reduce_prod_bool_float32_64
    f.argtypes = [POINTER(c_bool), POINTER(c_float), POINTER(c_int64), c_int64, c_int64]
    f.restype = ERROR
    out['awkward_reduce_prod_bool', bool_, float32, int64] = f

    f = lib.awkward_reduce_prod_bool_float64_64
    f.argtypes = [POINTER(c_bool), POINTER(c_double), POINTER(c_int64), c_int64, c_int64]
    f.restype = ERROR
    out['awkward_reduce_prod_bool', bool_, float64, int64] = f

    f = lib.awkward_reduce_prod_bool_complex64_64
    f.argtypes = [POINTER(c_bool), POINTER(c_float), POINTER(c_int64), c_int64, c_int64]
    f.restype = ERROR
    out['awkward_reduce_prod_bool_complex', bool_, float32, int64] = f

    f = lib.awkward_reduce_prod_bool_complex128_64
    f.argtypes = [POINTER(c_bool), POINTER(c_double), POINTER(c_int64), c_int64, c_int64]
    f.restype = ERROR
    out['awkward_reduce_prod_bool_complex', bool_, float64, int64] = f

    f = lib.awkward_reduce_prod_int32_bool_64
    f.argtypes = [POINTER(c_int32), POINTER(c_bool), POINTER(c_int64), c_int64, c_int64]
    f.restype = ERROR
    out['awkward_reduce_prod_int32_bool_64', int32, bool_, int64] = f

    f = lib.awkward_reduce_prod_int64_bool_64
    f.argtypes = [POINTER(c_int64), POINTER(c_bool), POINTER(c_int64), c_int64, c_int64]
    f.restype = ERROR
    out['awkward_reduce_prod_int64_bool_64', int64, bool_, int64] = f

    f = lib.awkward_reduce_sum_int32_int8_64
    f.argtypes = [POINTER(c_int32), POINTER(c_int8), POINTER(c_int64), c_int64, c_int64]
    f.restype = ERROR
    out['awkward_reduce_sum', int32, int8, int64] = f

    f = lib.awkward_reduce_sum_int32_int16_64
    f.argtypes = [POINTER(c_int32), POINTER(c_int16), POINTER(c_int64), c_int64, c_int64]
    f.restype = ERROR
    out['awkward_reduce_sum', int32, int16, int64] = f

    f = lib.awkward_reduce_sum_int32_int32_64
    f.argtypes = [POINTER(c_int32), POINTER(c_int32), POINTER(c_int64), c_int64, c_int64]
    f.restype = ERROR
    out['awkward_reduce_sum', int32, int32, int64] = f

    f = lib.awkward_reduce_sum_int64_int8_64
    f.argtypes = [POINTER(c_int64), POINTER(c_int8), POINTER(c_int64), c_int64, c_int64]
    f.restype = ERROR
    out['awkward_reduce_sum', int64, int8, int64] = f

    f = lib.awkward_reduce_sum_int64_int16_64
    f.argtypes = [POINTER(c_int64), POINTER(c_int16), POINTER(c_int64), c_int64, c_int64]
    f.restype = ERROR
    out['awkward_reduce_sum', int64, int16, int64] = f

    f = lib.awkward_reduce_sum_int64_int32_64
    f.argtypes = [POINTER(c_int64), POINTER(c_int32), POINTER(c_int64), c_int64, c_int64]
    f.restype = ERROR
    out['awkward_reduce_sum', int64, int32, int64] = f

    f = lib.awkward_reduce_sum_int64_int64_64
    f.argtypes = [POINTER(c_int64), POINTER(c_int64), POINTER(c_int64), c_int64, c_int64]
    f.restype = ERROR
    out['awkward_reduce_sum', int64, int64, int64] = f

    f = lib.awkward_reduce_sum_uint32_uint8_64
    f.argtypes = [POINTER(c_uint32), POINTER(c_uint8), POINTER(c_int64), c_int64, c_int64]
    f.restype = ERROR
    out['awkward_reduce_sum', uint32, uint8, int64] = f

    f = lib.awkward_reduce_sum_uint32_uint16_64
    f.argtypes = [POINTER(c_uint32), POINTER(c_uint16), POINTER(c_int64), c_int64, c_int64]
    f.restype = ERROR
    out['awkward_reduce_sum', uint32, uint16, int64] = f

    f = lib.awkward_reduce_sum_uint32_uint32_64
    f.argtypes = [POINTER(c_uint32), POINTER(c_uint32), POINTER(c_int64), c_int64, c_int64]
    f.restype = ERROR
    out['awkward_reduce_sum', uint32, uint32, int64] = f

    f = lib.awkward_reduce_sum_uint64_uint8_64
    f.argtypes = [POINTER(c_uint64), POINTER(c_uint8), POINTER(c_int64), c_int64, c_int64]
    f.restype = ERROR
    out['awkward_reduce_sum', uint64, uint8, int64] = f

    f = lib.awkward_reduce_sum_uint64_uint16_64
    f.argtypes = [POINTER(c_uint64), POINTER(c_uint16), POINTER(c_int64), c_int64, c_int64]
    f.restype = ERROR
    out['awkward_reduce_sum', uint64, uint16, int64] = f

    f = lib.awkward_reduce_sum_uint64_uint32_64
    f.argtypes = [POINTER(c_uint64), POINTER(c_uint32), POINTER(c_int64), c_int64, c_int64]
    f.restype = ERROR
    out['awkward_reduce_sum', uint64, uint32, int64] = f

    f = lib.awkward_reduce_sum_uint64_uint64_64
    f.argtypes = [POINTER(c_uint64), POINTER(c_uint64), POINTER(c_int64), c_int64, c_int64]
    f.restype = ERROR
    out['awkward_reduce_sum', uint64, uint64, int64] = f

    f = lib.awkward_reduce_sum_float32_float32_64
    f.argtypes = [POINTER(c_float), POINTER(c_float), POINTER(c_int64), c_int64, c_int64]
    f.restype = ERROR
    out['awkward_reduce_sum', float32, float32, int64] = f

    f = lib.awkward_reduce_sum_float64_float64_64
    f.argtypes = [POINTER(c_double), POINTER(c_double), POINTER(c_int64), c_int64, c_int64]
    f.restype = ERROR
    out['awkward_reduce_sum', float64, float64, int64] = f

    f = lib.awkward_reduce_sum_complex64_complex64_64
    f.argtypes = [POINTER(c_float), POINTER(c_float), POINTER(c_int64), c_int64, c_int64]
    f.restype = ERROR
    out['awkward_reduce_sum_complex', float32, float32, int64] = f

    f = lib.awkward_reduce_sum_complex128_complex128_64
    f.argtypes = [POINTER(c_double), POINTER(c_double), POINTER(c_int64), c_int64, c_int64]
    f.restype = ERROR
    out['awkward_reduce_sum_complex', float64, float64, int64] = f

    f = lib.awkward_reduce_sum_bool_bool_64
    f.argtypes = [POINTER(c_bool), POINTER(c_bool), POINTER(c_int64), c_int64, c_int64]
    f.restype = ERROR
    out['awkward_reduce_sum_bool', bool_, bool_, int64] = f

    f = lib.awkward_reduce_sum_bool_int8_64
    f.argtypes = [POINTER(c_bool), POINTER(c_int8), POINTER(c_int64), c_int64, c_int64]
    f.restype = ERROR
    out['awkward_reduce_sum_bool', bool_, int8, int64] = f

    f = lib.awkward_reduce_sum_bool_int16_64
    f.argtypes = [POINTER(c_bool), POINTER(c_int16), POINTER(c_int64), c_int64, c_int64]
    f.restype = ERROR
    out['awkward_reduce_sum_bool', bool_, int16, int64] = f

    f = lib.awkward_reduce_sum_bool_int32_64
    f.argtypes = [POINTER(c_bool), POINTER(c_int32), POINTER(c_int64), c_int64, c_int64]
    f.restype = ERROR
    out['awkward_reduce_sum_bool', bool_, int32, int64] = f

    f = lib.awkward_reduce_sum_bool_int64_64
    f.argtypes = [POINTER(c_bool), POINTER(c_int64), POINTER(c_int64), c_int64, c_int64]
    f.restype = ERROR
    out['awkward_reduce_sum_bool', bool_, int64, int64] = f

    f = lib.awkward_reduce_sum_bool_uint8_64
    f.argtypes = [POINTER(c_bool), POINTER(c_uint8), POINTER(c_int64), c_int64, c_int64]
    f.restype = ERROR
    out['awkward_reduce_sum_bool', bool_, uint8, int64] = f

    f = lib.awkward_reduce_sum_bool_uint16_64
    f.argtypes = [POINTER(c_bool), POINTER(c_uint16), POINTER(c_int64), c_int64, c_int64]
    f.restype = ERROR
    out['awkward_reduce_sum_bool', bool_, uint16, int64] = f

    f = lib.awkward_reduce_sum_bool_uint32_64
    f.argtypes = [POINTER(c_bool), POINTER(c_uint32), POINTER(c_int64), c_int64, c_int64]
    f.restype = ERROR
    out['awkward_reduce_sum_bool', bool_, uint32, int64] = f

    f = lib.awkward_reduce_sum_bool_uint64_64
    f.argtypes = [POINTER(c_bool), POINTER(c_uint64), POINTER(c_int64), c_int64, c_int64]
    f.restype = ERROR
    out['awkward_reduce_sum_bool', bool_, uint64, int64] = f

    f = lib.awkward_reduce_sum_bool_float32_64
    f.argtypes = [POINTER(c_bool), POINTER(c_float), POINTER(c_int64), c_int64, c_int64]
    f.restype = ERROR
    out['awkward_reduce_sum_bool', bool_, float32, int64] = f

    f = lib.awkward_reduce_sum_bool_float64_64
    f.argtypes = [POINTER(c_bool), POINTER(c_double), POINTER(c_int64), c_int64, c_int64]
    f.restype = ERROR
    out['awkward_reduce_sum_bool', bool_, float64, int64] = f

    f = lib.awkward_reduce_sum_bool_complex64_64
    f.argtypes = [POINTER(c_bool), POINTER(c_float), POINTER(c_int64), c_int64, c_int64]
    f.restype = ERROR
    out['awkward_reduce_sum_bool_complex', bool_, float32, int64] = f

    f = lib.awkward_reduce_sum_bool_complex128_64
    f.argtypes = [POINTER(c_bool), POINTER(c_double), POINTER(c_int64), c_int64, c_int64]
    f.restype = ERROR
    out['awkward_reduce_sum_bool_complex', bool_, float64, int64] = f

    f = lib.awkward_reduce_sum_int32_bool_64
    f.argtypes = [POINTER(c_int32), POINTER(c_bool), POINTER(c_int64), c_int64, c_int64]
    f.restype = ERROR
    out['awkward_reduce_sum_int32_bool_64', int32, bool_, int64] = f

    f = lib.awkward_reduce_sum_int64_bool_64
    f.argtypes = [POINTER(c_int64), POINTER(c_bool), POINTER(c_int64), c_int64, c_int64]
    f.restype = ERROR
    out['awkward_reduce_sum_int64_bool_64', int64, bool_, int64] = f

    f = lib.awkward_regularize_arrayslice_64
    f.argtypes = [POINTER(c_int64), c_int64, c_int64]
    f.restype = ERROR
    out['awkward_regularize_arrayslice', int64] = f

    f = lib.awkward_slicearray_ravel_64
    f.argtypes = [POINTER(c_int64), POINTER(c_int64), c_int64, POINTER(c_int64), POINTER(c_int64)]
    f.restype = ERROR
    out['awkward_slicearray_ravel', int64, int64, int64, int64] = f

    f = lib.awkward_slicemissing_check_same
    f.argtypes = [POINTER(c_bool), POINTER(c_int8), POINTER(c_int64), c_int64]
    f.restype = ERROR
    out['awkward_slicemissing_check_same', bool_, int8, int64] = f

    f = lib.awkward_quick_sort_bool
    f.argtypes = [POINTER(c_bool), POINTER(c_int64), POINTER(c_int64), POINTER(c_int64), POINTER(c_int64), c_bool, c_int64, c_int64]
    f.restype = ERROR
    out['awkward_quick_sort', bool_, int64, int64, int64, int64] = f

    f = lib.awkward_quick_sort_int8
    f.argtypes = [POINTER(c_int8), POINTER(c_int64), POINTER(c_int64), POINTER(c_int64), POINTER(c_int64), c_bool, c_int64, c_int64]
    f.restype = ERROR
    out['awkward_quick_sort', int8, int64, int64, int64, int64] = f

    f = lib.awkward_quick_sort_int16
    f.argtypes = [POINTER(c_int16), POINTER(c_int64), POINTER(c_int64), POINTER(c_int64), POINTER(c_int64), c_bool, c_int64, c_int64]
    f.restype = ERROR
    out['awkward_quick_sort', int16, int64, int64, int64, int64] = f

    f = lib.awkward_quick_sort_int32
    f.argtypes = [POINTER(c_int32), POINTER(c_int64), POINTER(c_int64), POINTER(c_int64), POINTER(c_int64), c_bool, c_int64, c_int64]
    f.restype = ERROR
    out['awkward_quick_sort', int32, int64, int64, int64, int64] = f

    f = lib.awkward_quick_sort_int64
    f.argtypes = [POINTER(c_int64), POINTER(c_int64), POINTER(c_int64), POINTER(c_int64), POINTER(c_int64), c_bool, c_int64, c_int64]
    f.restype = ERROR
    out['awkward_quick_sort', int64, int64, int64, int64, int64] = f

    f = lib.awkward_quick_sort_uint8
    f.argtypes = [POINTER(c_uint8), POINTER(c_int64), POINTER(c_int64), POINTER(c_int64), POINTER(c_int64), c_bool, c_int64, c_int64]
    f.restype = ERROR
    out['awkward_quick_sort', uint8, int64, int64, int64, int64] = f

    f = lib.awkward_quick_sort_uint16
    f.argtypes = [POINTER(c_uint16), POINTER(c_int64), POINTER(c_int64), POINTER(c_int64), POINTER(c_int64), c_bool, c_int64, c_int64]
    f.restype = ERROR
    out['awkward_quick_sort', uint16, int64, int64, int64, int64] = f

    f = lib.awkward_quick_sort_uint32
    f.argtypes = [POINTER(c_uint32), POINTER(c_int64), POINTER(c_int64), POINTER(c_int64), POINTER(c_int64), c_bool, c_int64, c_int64]
    f.restype = ERROR
    out['awkward_quick_sort', uint32, int64, int64, int64, int64] = f

    f = lib.awkward_quick_sort_uint64
    f.argtypes = [POINTER(c_uint64), POINTER(c_int64), POINTER(c_int64), POINTER(c_int64), POINTER(c_int64), c_bool, c_int64, c_int64]
    f.restype = ERROR
    out['awkward_quick_sort', uint64, int64, int64, int64, int64] = f

    f = lib.awkward_quick_sort_float32
    f.argtypes = [POINTER(c_float), POINTER(c_int64), POINTER(c_int64), POINTER(c_int64), POINTER(c_int64), c_bool, c_int64, c_int64]
    f.restype = ERROR
    out['awkward_quick_sort', float32, int64, int64, int64, int64] = f

    f = lib.awkward_quick_sort_float64
    f.argtypes = [POINTER(c_double), POINTER(c_int64), POINTER(c_int64), POINTER(c_int64), POINTER(c_int64), c_bool, c_int64, c_int64]
    f.restype = ERROR
    out['awkward_quick_sort', float64, int64, int64, int64, int64] = f

    f = lib.awkward_sort_bool
    f.argtypes = [POINTER(c_bool), POINTER(c_bool), c_int64, POINTER(c_int64), c_int64, c_int64, c_bool, c_bool]
    f.restype = ERROR
    out['awkward_sort', bool_, bool_, int64] = f

    f = lib.awkward_sort_int8
    f.argtypes = [POINTER(c_int8), POINTER(c_int8), c_int64, POINTER(c_int64), c_int64, c_int64, c_bool, c_bool]
    f.restype = ERROR
    out['awkward_sort', int8, int8, int64] = f

    f = lib.awkward_sort_int16
    f.argtypes = [POINTER(c_int16), POINTER(c_int16), c_int64, POINTER(c_int64), c_int64, c_int64, c_bool, c_bool]
    f.restype = ERROR
    out['awkward_sort', int16, int16, int64] = f

    f = lib.awkward_sort_int32
    f.argtypes = [POINTER(c_int32), POINTER(c_int32), c_int64, POINTER(c_int64), c_int64, c_int64, c_bool, c_bool]
    f.restype = ERROR
    out['awkward_sort', int32, int32, int64] = f

    f = lib.awkward_sort_int64
    f.argtypes = [POINTER(c_int64), POINTER(c_int64), c_int64, POINTER(c_int64), c_int64, c_int64, c_bool, c_bool]
    f.restype = ERROR
    out['awkward_sort', int64, int64, int64] = f

    f = lib.awkward_sort_uint8
    f.argtypes = [POINTER(c_uint8), POINTER(c_uint8), c_int64, POINTER(c_int64), c_int64, c_int64, c_bool, c_bool]
    f.restype = ERROR
    out['awkward_sort', uint8, uint8, int64] = f

    f = lib.awkward_sort_uint16
    f.argtypes = [POINTER(c_uint16), POINTER(c_uint16), c_int64, POINTER(c_int64), c_int64, c_int64, c_bool, c_bool]
    f.restype = ERROR
    out['awkward_sort', uint16, uint16, int64] = f

    f = lib.awkward_sort_uint32
    f.argtypes = [POINTER(c_uint32), POINTER(c_uint32), c_int64, POINTER(c_int64), c_int64, c_int64, c_bool, c_bool]
    f.restype = ERROR
    out['awkward_sort', uint32, uint32, int64] = f

    f = lib.awkward_sort_uint64
    f.argtypes = [POINTER(c_uint64), POINTER(c_uint64), c_int64, POINTER(c_int64), c_int64, c_int64, c_bool, c_bool]
    f.restype = ERROR
    out['awkward_sort', uint64, uint64, int64] = f

    f = lib.awkward_sort_float32
    f.argtypes = [POINTER(c_float), POINTER(c_float), c_int64, POINTER(c_int64), c_int64, c_int64, c_bool, c_bool]
    f.restype = ERROR
    out['awkward_sort', float32, float32, int64] = f

    f = lib.awkward_sort_float64
    f.argtypes = [POINTER(c_double), POINTER(c_double), c_int64, POINTER(c_int64), c_int64, c_int64, c_bool, c_bool]
    f.restype = ERROR
    out['awkward_sort', float64, float64, int64] = f

    f = lib.awkward_unique_bool
    f.argtypes = [POINTER(c_bool), c_int64, POINTER(c_int64)]
    f.restype = ERROR
    out['awkward_unique', bool_, int64] = f

    f = lib.awkward_unique_int8
    f.argtypes = [POINTER(c_int8), c_int64, POINTER(c_int64)]
    f.restype = ERROR
    out['awkward_unique', int8, int64] = f

    f = lib.awkward_unique_int16
    f.argtypes = [POINTER(c_int16), c_int64, POINTER(c_int64)]
    f.restype = ERROR
    out['awkward_unique', int16, int64] = f

    f = lib.awkward_unique_int32
    f.argtypes = [POINTER(c_int32), c_int64, POINTER(c_int64)]
    f.restype = ERROR
    out['awkward_unique', int32, int64] = f

    f = lib.awkward_unique_int64
    f.argtypes = [POINTER(c_int64), c_int64, POINTER(c_int64)]
    f.restype = ERROR
    out['awkward_unique', int64, int64] = f

    f = lib.awkward_unique_uint8
    f.argtypes = [POINTER(c_uint8), c_int64, POINTER(c_int64)]
    f.restype = ERROR
    out['awkward_unique', uint8, int64] = f

    f = lib.awkward_unique_uint16
    f.argtypes = [POINTER(c_uint16), c_int64, POINTER(c_int64)]
    f.restype = ERROR
    out['awkward_unique', uint16, int64] = f

    f = lib.awkward_unique_uint32
    f.argtypes = [POINTER(c_uint32), c_int64, POINTER(c_int64)]
    f.restype = ERROR
    out['awkward_unique', uint32, int64] = f

    f = lib.awkward_unique_uint64
    f.argtypes = [POINTER(c_uint64), c_int64, POINTER(c_int64)]
    f.restype = ERROR
    out['awkward_unique', uint64, int64] = f

    f = lib.awkward_unique_float32
    f.argtypes = [POINTER(c_float), c_int64, POINTER(c_int64)]
    f.restype = ERROR
    out['awkward_unique', float32, int64] = f

    f = lib.awkward_unique_float64
    f.argtypes = [POINTER(c_double), c_int64, POINTER(c_int64)]
    f.restype = ERROR
    out['awkward_unique', float64, int64] = f

    f = lib.awkward_sorting_ranges
    f.argtypes = [POINTER(c_int64), c_int64, POINTER(c_int64), c_int64]
    f.restype = ERROR
    out['awkward_sorting_ranges', int64, int64] = f

    f = lib.awkward_sorting_ranges_length
    f.argtypes = [POINTER(c_int64), POINTER(c_int64), c_int64]
    f.restype = ERROR
    out['awkward_sorting_ranges_length', int64, int64] = f

    f = lib.awkward_one_mask8
    f.argtypes = [POINTER(c_int8), c_int64]
    f.restype = ERROR
    out['awkward_one_mask', int8] = f

    f = lib.awkward_zero_mask8
    f.argtypes = [POINTER(c_int8), c_int64]
    f.restype = ERROR
    out['awkward_zero_mask', int8] = f

    return out
