// AUTO GENERATED ON 2026-10-05 AT 02:47:49
// DO NOT EDIT BY HAND!
//
// To regenerate file, run
//
//     python dev/generate-kernel-signatures.py
//
// (It is usually run as part of pip install . or localbuild.py.)

#ifndef AWKWARD_KERNELS_H_
#define AWKWARD_KERNELS_H_

#include "awkward/common.h"

extern "C" {

  EXPORT_SYMBOL ERROR
  awkward_BitMaskedArray_to_ByteMaskedArray(
    int8_t* tobytemask,
    const uint8_t* frombitmask,
    int64_t bitmasklength,
    bool validwhen,
    bool lsb_order);

  EXPORT_SYMBOL ERROR
  awkward_BitMaskedArray_to_IndexedOptionArray64(
    int64_t* toindex,
    const uint8_t* frombitmask,
    int64_t bitmasklength,
    bool validwhen,
    bool lsb_order);

  EXPORT_SYMBOL ERROR
  awkward_ByteMaskedArray_getitem_carry_64(
    int8_t* tomask,
    const int8_t* frommask,
    int64_t lenmask,
    const int64_t* fromcarry,
    int64_t lencarry);

  EXPORT_SYMBOL ERROR
  awkward_ByteMaskedArray_getitem_nextcarry_64(
    int64_t* tocarry,
    const int8_t* mask,
    int64_t length,
    bool validwhen);

  EXPORT_SYMBOL ERROR
  awkward_ByteMaskedArray_getitem_nextcarry_outindex_64(
    int64_t* tocarry,
    int64_t* outindex,
    const int8_t* mask,
    int64_t length,
    bool validwhen);

  EXPORT_SYMBOL ERROR
  awkward_ByteMaskedArray_mask8(
    int8_t* tomask,
    const int8_t* frommask,
    int64_t length,
    bool validwhen);

  EXPORT_SYMBOL ERROR
  awkward_ByteMaskedArray_numnull(
    int64_t* numnull,
    const int8_t* mask,
    int64_t length,
    bool validwhen);

  EXPORT_SYMBOL ERROR
  awkward_ByteMaskedArray_overlay_mask8(
    int8_t* tomask,
    const int8_t* theirmask,
    const int8_t* mymask,
    int64_t length,
    bool validwhen);

  EXPORT_SYMBOL ERROR
  awkward_ByteMaskedArray_reduce_next_64(
    int64_t* nextcarry,
    int64_t* nextparents,
    int64_t* outindex,
    const int8_t* mask,
    const int64_t* parents,
    int64_t length,
    bool validwhen);

  EXPORT_SYMBOL ERROR
  awkward_ByteMaskedArray_reduce_next_nonlocal_nextshifts_64(
    int64_t* nextshifts,
    const int8_t* mask,
    int64_t length,
    bool valid_when);

  EXPORT_SYMBOL ERROR
  awkward_ByteMaskedArray_reduce_next_nonlocal_nextshifts_fromshifts_64(
    int64_t* nextshifts,
    const int8_t* mask,
    int64_t length,
    bool valid_when,
    const int64_t* shifts);

  EXPORT_SYMBOL ERROR
  awkward_ByteMaskedArray_toIndexedOptionArray64(
    int64_t* toindex,
    const int8_t* mask,
    int64_t length,
    bool validwhen);

  EXPORT_SYMBOL ERROR
  awkward_Content_getitem_next_missing_jagged_getmaskstartstop(
    int64_t* index_in,
    int64_t* offsets_in,
    int64_t* mask_out,
    int64_t* starts_out,
    int64_t* stops_out,
    int64_t length);

  EXPORT_SYMBOL ERROR
  awkward_Identities32_to_Identities64(
    int64_t* toptr,
    const int32_t* fromptr,
    int64_t length,
    int64_t width);

  EXPORT_SYMBOL ERROR
  awkward_Identities32_extend(
    int32_t* toptr,
    const int32_t* fromptr,
    int64_t fromlength,
    int64_t tolength);
  EXPORT_SYMBOL ERROR
  awkward_Identities64_extend(
    int64_t* toptr,
    const int64_t* fromptr,
    int64_t fromlength,
    int64_t tolength);

  EXPORT_SYMBOL ERROR
  awkward_Identities32_from_IndexedArray32(
    bool* uniquecontents,
    int32_t* toptr,
    const int32_t* fromptr,
    const int32_t* fromindex,
    int64_t tolength,
    int64_t fromlength,
    int64_t fromwidth);
  EXPORT_SYMBOL ERROR
  awkward_Identities32_from_IndexedArray64(
    bool* uniquecontents,
    int32_t* toptr,
    const int32_t* fromptr,
    const int64_t* fromindex,
    int64_t tolength,
    int64_t fromlength,
    int64_t fromwidth);
  EXPORT_SYMBOL ERROR
  awkward_Identities32_from_IndexedArrayU32(
    bool* uniquecontents,
    int32_t* toptr,
    const int32_t* fromptr,
    const uint32_t* fromindex,
    int64_t tolength,
    int64_t fromlength,
    int64_t fromwidth);
  EXPORT_SYMBOL ERROR
  awkward_Identities64_from_IndexedArray32(
    bool* uniquecontents,
    int64_t* toptr,
    const int64_t* fromptr,
    const int32_t* fromindex,
    int64_t tolength,
    int64_t fromlength,
    int64_t fromwidth);
  EXPORT_SYMBOL ERROR
  awkward_Identities64_from_IndexedArray64(
    bool* uniquecontents,
    int64_t* toptr,
    const int64_t* fromptr,
    const int64_t* fromindex,
    int64_t tolength,
    int64_t fromlength,
    int64_t fromwidth);
  EXPORT_SYMBOL ERROR
  awkward_Identities64_from_IndexedArrayU32(
    bool* uniquecontents,
    int64_t* toptr,
    const int64_t* fromptr,
    const uint32_t* fromindex,
    int64_t tolength,
    int64_t fromlength,
    int64_t fromwidth);

  EXPORT_SYMBOL ERROR
  awkward_Identities32_from_ListArray32(
    bool* uniquecontents,
    int32_t* toptr,
    const int32_t* fromptr,
    const int32_t* fromstarts,
    const int32_t* fromstops,
    int64_t tolength,
    int64_t fromlength,
    int64_t fromwidth);
  EXPORT_SYMBOL ERROR
  awkward_Identities32_from_ListArray64(
    bool* uniquecontents,
    int32_t* toptr,
    const int32_t* fromptr,
    const int64_t* fromstarts,
    const int64_t* fromstops,
    int64_t tolength,
    int64_t fromlength,
    int64_t fromwidth);
  EXPORT_SYMBOL ERROR
  awkward_Identities32_from_ListArrayU32(
    bool* uniquecontents,
    int32_t* toptr,
    const int32_t* fromptr,
    const uint32_t* fromstarts,
    const uint32_t* fromstops,
    int64_t tolength,
    int64_t fromlength,
    int64_t fromwidth);
  EXPORT_SYMBOL ERROR
  awkward_Identities64_from_ListArray32(
    bool* uniquecontents,
    int64_t* toptr,
    const int64_t* fromptr,
    const int32_t* fromstarts,
    const int32_t* fromstops,
    int64_t tolength,
    int64_t fromlength,
    int64_t fromwidth);
  EXPORT_SYMBOL ERROR
  awkward_Identities64_from_ListArray64(
    bool* uniquecontents,
    int64_t* toptr,
    const int64_t* fromptr,
    const int64_t* fromstarts,
    const int64_t* fromstops,
    int64_t tolength,
    int64_t fromlength,
    int64_t fromwidth);
  EXPORT_SYMBOL ERROR
  awkward_Identities64_from_ListArrayU32(
    bool* uniquecontents,
    int64_t* toptr,
    const int64_t* fromptr,
    const uint32_t* fromstarts,
    const uint32_t* fromstops,
    int64_t tolength,
    int64_t fromlength,
    int64_t fromwidth);

  EXPORT_SYMBOL ERROR
  awkward_Identities32_from_ListOffsetArray32(
    int32_t* toptr,
    const int32_t* fromptr,
    const int32_t* fromoffsets,
    int64_t tolength,
    int64_t fromlength,
    int64_t fromwidth);
  EXPORT_SYMBOL ERROR
  awkward_Identities32_from_ListOffsetArray64(
    int32_t* toptr,
    const int32_t* fromptr,
    const int64_t* fromoffsets,
    int64_t tolength,
    int64_t fromlength,
    int64_t fromwidth);
  EXPORT_SYMBOL ERROR
  awkward_Identities32_from_ListOffsetArrayU32(
    int32_t* toptr,
    const int32_t* fromptr,
    const uint32_t* fromoffsets,
    int64_t tolength,
    int64_t fromlength,
    int64_t fromwidth);
  EXPORT_SYMBOL ERROR
  awkward_Identities64_from_ListOffsetArray32(
    int64_t* toptr,
    const int64_t* fromptr,
    const int32_t* fromoffsets,
    int64_t tolength,
    int64_t fromlength,
    int64_t fromwidth);
  EXPORT_SYMBOL ERROR
  awkward_Identities64_from_ListOffsetArray64(
    int64_t* toptr,
    const int64_t* fromptr,
    const int64_t* fromoffsets,
    int64_t tolength,
    int64_t fromlength,
    int64_t fromwidth);
  EXPORT_SYMBOL ERROR
  awkward_Identities64_from_ListOffsetArrayU32(
    int64_t* toptr,
    const int64_t* fromptr,
    const uint32_t* fromoffsets,
    int64_t tolength,
    int64_t fromlength,
    int64_t fromwidth);

  EXPORT_SYMBOL ERROR
  awkward_Identities32_from_RegularArray(
    int32_t* toptr,
    const int32_t* fromptr,
    int64_t size,
    int64_t tolength,
    int64_t fromlength,
    int64_t fromwidth);
  EXPORT_SYMBOL ERROR
  awkward_Identities64_from_RegularArray(
    int64_t* toptr,
    const int64_t* fromptr,
    int64_t size,
    int64_t tolength,
    int64_t fromlength,
    int64_t fromwidth);

  EXPORT_SYMBOL ERROR
  awkward_Identities32_from_UnionArray8_32(
    bool* uniquecontents,
    int32_t* toptr,
    const int32_t* fromptr,
    const int8_t* fromtags,
    const int32_t* fromindex,
    int64_t tolength,
    int64_t fromlength,
    int64_t fromwidth,
    int64_t which);
  EXPORT_SYMBOL ERROR
  awkward_Identities32_from_UnionArray8_64(
    bool* uniquecontents,
    int32_t* toptr,
    const int32_t* fromptr,
    const int8_t* fromtags,
    const int64_t* fromindex,
    int64_t tolength,
    int64_t fromlength,
    int64_t fromwidth,
    int64_t which);
  EXPORT_SYMBOL ERROR
  awkward_Identities32_from_UnionArray8_U32(
    bool* uniquecontents,
    int32_t* toptr,
    const int32_t* fromptr,
    const int8_t* fromtags,
    const uint32_t* fromindex,
    int64_t tolength,
    int64_t fromlength,
    int64_t fromwidth,
    int64_t which);
  EXPORT_SYMBOL ERROR
  awkward_Identities64_from_UnionArray8_32(
    bool* uniquecontents,
    int64_t* toptr,
    const int64_t* fromptr,
    const int8_t* fromtags,
    const int32_t* fromindex,
    int64_t tolength,
    int64_t fromlength,
    int64_t fromwidth,
    int64_t which);
  EXPORT_SYMBOL ERROR
  awkward_Identities64_from_UnionArray8_64(
    bool* uniquecontents,
    int64_t* toptr,
    const int64_t* fromptr,
    const int8_t* fromtags,
    const int64_t* fromindex,
    int64_t tolength,
    int64_t fromlength,
    int64_t fromwidth,
    int64_t which);
  EXPORT_SYMBOL ERROR
  awkward_Identities64_from_UnionArray8_U32(
    bool* uniquecontents,
    int64_t* toptr,
    const int64_t* fromptr,
    const int8_t* fromtags,
    const uint32_t* fromindex,
    int64_t tolength,
    int64_t fromlength,
    int64_t fromwidth,
    int64_t which);

  EXPORT_SYMBOL ERROR
  awkward_Identities32_getitem_carry_64(
    int32_t* newidentitiesptr,
    const int32_t* identitiesptr,
    const int64_t* carryptr,
    int64_t lencarry,
    int64_t width,
    int64_t length);
  EXPORT_SYMBOL ERROR
  awkward_Identities64_getitem_carry_64(
    int64_t* newidentitiesptr,
    const int64_t* identitiesptr,
    const int64_t* carryptr,
    int64_t lencarry,
    int64_t width,
    int64_t length);

  EXPORT_SYMBOL ERROR
  awkward_Index32_iscontiguous(
    bool* result,
    const int32_t* fromindex,
    int64_t length);
  EXPORT_SYMBOL ERROR
  awkward_Index64_iscontiguous(
    bool* result,
    const int64_t* fromindex,
    int64_t length);
  EXPORT_SYMBOL ERROR
  awkward_Index8_iscontiguous(
    bool* result,
    const int8_t* fromindex,
    int64_t length);
  EXPORT_SYMBOL ERROR
  awkward_IndexU32_iscontiguous(
    bool* result,
    const uint32_t* fromindex,
    int64_t length);
  EXPORT_SYMBOL ERROR
  awkward_IndexU8_iscontiguous(
    bool* result,
    const uint8_t* fromindex,
    int64_t length);

  EXPORT_SYMBOL ERROR
  awkward_Index32_to_Index64(
    int64_t* toptr,
    const int32_t* fromptr,
    int64_t length);
  EXPORT_SYMBOL ERROR
  awkward_Index8_to_Index64(
    int64_t* toptr,
    const int8_t* fromptr,
    int64_t length);
  EXPORT_SYMBOL ERROR
  awkward_IndexU32_to_Index64(
    int64_t* toptr,
    const uint32_t* fromptr,
    int64_t length);
  EXPORT_SYMBOL ERROR
  awkward_IndexU8_to_Index64(
    int64_t* toptr,
    const uint8_t* fromptr,
    int64_t length);

  EXPORT_SYMBOL ERROR
  awkward_IndexedArray_fill_to64_from32(
    int64_t* toindex,
    int64_t toindexoffset,
    const int32_t* fromindex,
    int64_t length,
    int64_t base);
  EXPORT_SYMBOL ERROR
  awkward_IndexedArray_fill_to64_from64(
    int64_t* toindex,
    int64_t toindexoffset,
    const int64_t* fromindex,
    int64_t length,
    int64_t base);
  EXPORT_SYMBOL ERROR
  awkward_IndexedArray_fill_to64_fromU32(
    int64_t* toindex,
    int64_t toindexoffset,
    const uint32_t* fromindex,
    int64_t length,
    int64_t base);

  EXPORT_SYMBOL ERROR
  awkward_IndexedArray_fill_to64_count(
    int64_t* toindex,
    int64_t toindexoffset,
    int64_t length,
    int64_t base);

  EXPORT_SYMBOL ERROR
  awkward_IndexedArray32_flatten_nextcarry_64(
    int64_t* tocarry,
    const int32_t* fromindex,
    int64_t lenindex,
    int64_t lencontent);
  EXPORT_SYMBOL ERROR
  awkward_IndexedArray64_flatten_nextcarry_64(
    int64_t* tocarry,
    const int64_t* fromindex,
    int64_t lenindex,
    int64_t lencontent);
  EXPORT_SYMBOL ERROR
  awkward_IndexedArrayU32_flatten_nextcarry_64(
    int64_t* tocarry,
    const uint32_t* fromindex,
    int64_t lenindex,
    int64_t lencontent);

  EXPORT_SYMBOL ERROR
  awkward_IndexedArray32_flatten_none2empty_64(
    int64_t* outoffsets,
    const int32_t* outindex,
    int64_t outindexlength,
    const int64_t* offsets,
    int64_t offsetslength);
  EXPORT_SYMBOL ERROR
  awkward_IndexedArray64_flatten_none2empty_64(
    int64_t* outoffsets,
    const int64_t* outindex,
    int64_t outindexlength,
    const int64_t* offsets,
    int64_t offsetslength);
  EXPORT_SYMBOL ERROR
  awkward_IndexedArrayU32_flatten_none2empty_64(
    int64_t* outoffsets,
    const uint32_t* outindex,
    int64_t outindexlength,
    const int64_t* offsets,
    int64_t offsetslength);

  EXPORT_SYMBOL ERROR
  awkward_IndexedArray_getitem_adjust_outindex_64(
    int8_t* tomask,
    int64_t* toindex,
    int64_t* tononzero,
    const int64_t* fromindex,
    int64_t fromindexlength,
    const int64_t* nonzero,
    int64_t nonzerolength);

  EXPORT_SYMBOL ERROR
  awkward_IndexedArray32_getitem_carry_64(
    int32_t* toindex,
    const int32_t* fromindex,
    const int64_t* fromcarry,
    int64_t lenindex,
    int64_t lencarry);
  EXPORT_SYMBOL ERROR
  awkward_IndexedArray64_getitem_carry_64(
    int64_t* toindex,
    const int64_t* fromindex,
    const int64_t* fromcarry,
    int64_t lenindex,
    int64_t lencarry);
  EXPORT_SYMBOL ERROR
  awkward_IndexedArrayU32_getitem_carry_64(
    uint32_t* toindex,
    const uint32_t* fromindex,
    const int64_t* fromcarry,
    int64_t lenindex,
    int64_t lencarry);

  EXPORT_SYMBOL ERROR
  awkward_IndexedArray32_getitem_nextcarry_64(
    int64_t* tocarry,
    const int32_t* fromindex,
    int64_t lenindex,
    int64_t lencontent);
  EXPORT_SYMBOL ERROR
  awkward_IndexedArray64_getitem_nextcarry_64(
    int64_t* tocarry,
    const int64_t* fromindex,
    int64_t lenindex,
    int64_t lencontent);
  EXPORT_SYMBOL ERROR
  awkward_IndexedArrayU32_getitem_nextcarry_64(
    int64_t* tocarry,
    const uint32_t* fromindex,
    int64_t lenindex,
    int64_t lencontent);

  EXPORT_SYMBOL ERROR
  awkward_IndexedArray32_getitem_nextcarry_outindex_64(
    int64_t* tocarry,
    int32_t* toindex,
    const int32_t* fromindex,
    int64_t lenindex,
    int64_t lencontent);
  EXPORT_SYMBOL ERROR
  awkward_IndexedArray64_getitem_nextcarry_outindex_64(
    int64_t* tocarry,
    int64_t* toindex,
    const int64_t* fromindex,
    int64_t lenindex,
    int64_t lencontent);
  EXPORT_SYMBOL ERROR
  awkward_IndexedArrayU32_getitem_nextcarry_outindex_64(
    int64_t* tocarry,
    uint32_t* toindex,
    const uint32_t* fromindex,
    int64_t lenindex,
    int64_t lencontent);

  EXPORT_SYMBOL ERROR
  awkward_IndexedArray32_getitem_nextcarry_outindex_mask_64(
    int64_t* tocarry,
    int64_t* toindex,
    const int32_t* fromindex,
    int64_t lenindex,
    int64_t lencontent);
  EXPORT_SYMBOL ERROR
  awkward_IndexedArray64_getitem_nextcarry_outindex_mask_64(
    int64_t* tocarry,
    int64_t* toindex,
    const int64_t* fromindex,
    int64_t lenindex,
    int64_t lencontent);
  EXPORT_SYMBOL ERROR
  awkward_IndexedArrayU32_getitem_nextcarry_outindex_mask_64(
    int64_t* tocarry,
    int64_t* toindex,
    const uint32_t* fromindex,
    int64_t lenindex,
    int64_t lencontent);

  EXPORT_SYMBOL ERROR
  awkward_IndexedArray_local_preparenext_64(
    int64_t* tocarry,
    const int64_t* starts,
    const int64_t* parents,
    const int64_t parentslength,
    const int64_t* nextparents,
    const int64_t nextlen);

  EXPORT_SYMBOL ERROR
  awkward_IndexedArray32_mask8(
    int8_t* tomask,
    const int32_t* fromindex,
    int64_t length);
  EXPORT_SYMBOL ERROR
  awkward_IndexedArray64_mask8(
    int8_t* tomask,
    const int64_t* fromindex,
    int64_t length);
  EXPORT_SYMBOL ERROR
  awkward_IndexedArrayU32_mask8(
    int8_t* tomask,
    const uint32_t* fromindex,
    int64_t length);

  EXPORT_SYMBOL ERROR
  awkward_IndexedArray32_numnull(
    int64_t* numnull,
    const int32_t* fromindex,
    int64_t lenindex);
  EXPORT_SYMBOL ERROR
  awkward_IndexedArray64_numnull(
    int64_t* numnull,
    const int64_t* fromindex,
    int64_t lenindex);
  EXPORT_SYMBOL ERROR
  awkward_IndexedArrayU32_numnull(
    int64_t* numnull,
    const uint32_t* fromindex,
    int64_t lenindex);

  EXPORT_SYMBOL ERROR
  awkward_IndexedArray32_index_of_nulls(
    int64_t* toindex,
    const int32_t* fromindex,
    int64_t lenindex,
    const int64_t* parents,
    const int64_t* starts);
  EXPORT_SYMBOL ERROR
  awkward_IndexedArray64_index_of_nulls(
    int64_t* toindex,
    const int64_t* fromindex,
    int64_t lenindex,
    const int64_t* parents,
    const int64_t* starts);
  EXPORT_SYMBOL ERROR
  awkward_IndexedArrayU32_index_of_nulls(
    int64_t* toindex,
    const uint32_t* fromindex,
    int64_t lenindex,
    const int64_t* parents,
    const int64_t* starts);

  EXPORT_SYMBOL ERROR
  awkward_IndexedArray32_overlay_mask8_to64(
    int64_t* toindex,
    const int8_t* mask,
    const int32_t* fromindex,
    int64_t length);
  EXPORT_SYMBOL ERROR
  awkward_IndexedArray64_overlay_mask8_to64(
    int64_t* toindex,
    const int8_t* mask,
    const int64_t* fromindex,
    int64_t length);
  EXPORT_SYMBOL ERROR
  awkward_IndexedArrayU32_overlay_mask8_to64(
    int64_t* toindex,
    const int8_t* mask,
    const uint32_t* fromindex,
    int64_t length);

  EXPORT_SYMBOL ERROR
  awkward_IndexedArray32_reduce_next_64(
    int64_t* nextcarry,
    int64_t* nextparents,
    int64_t* outindex,
    const int32_t* index,
    int64_t* parents,
    int64_t length);
  EXPORT_SYMBOL ERROR
  awkward_IndexedArray64_reduce_next_64(
    int64_t* nextcarry,
    int64_t* nextparents,
    int64_t* outindex,
    const int64_t* index,
    int64_t* parents,
    int64_t length);
  EXPORT_SYMBOL ERROR
  awkward_IndexedArrayU32_reduce_next_64(
    int64_t* nextcarry,
    int64_t* nextparents,
    int64_t* outindex,
    const uint32_t* index,
    int64_t* parents,
    int64_t length);

  EXPORT_SYMBOL ERROR
  awkward_IndexedArray_reduce_next_fix_offsets_64(
    int64_t* outoffsets,
    const int64_t* starts,
    int64_t startslength,
    int64_t outindexlength);

  EXPORT_SYMBOL ERROR
  awkward_IndexedArray32_reduce_next_nonlocal_nextshifts_64(
    int64_t* nextshifts,
    const int32_t* index,
    int64_t length);
  EXPORT_SYMBOL ERROR
  awkward_IndexedArray64_reduce_next_nonlocal_nextshifts_64(
    int64_t* nextshifts,
    const int64_t* index,
    int64_t length);
  EXPORT_SYMBOL ERROR
  awkward_IndexedArrayU32_reduce_next_nonlocal_nextshifts_64(
    int64_t* nextshifts,
    const uint32_t* index,
    int64_t length);

  EXPORT_SYMBOL ERROR
  awkward_IndexedArray32_reduce_next_nonlocal_nextshifts_fromshifts_64(
    int64_t* nextshifts,
    const int32_t* index,
    int64_t length,
    const int64_t* shifts);
  EXPORT_SYMBOL ERROR
  awkward_IndexedArray64_reduce_next_nonlocal_nextshifts_fromshifts_64(
    int64_t* nextshifts,
    const int64_t* index,
    int64_t length,
    const int64_t* shifts);
  EXPORT_SYMBOL ERROR
  awkward_IndexedArrayU32_reduce_next_nonlocal_nextshifts_fromshifts_64(
    int64_t* nextshifts,
    const uint32_t* index,
    int64_t length,
    const int64_t* shifts);

  EXPORT_SYMBOL ERROR
  awkward_IndexedArray32_simplify32_to64(
    int64_t* toindex,
    const int32_t* outerindex,
    int64_t outerlength,
    const int32_t* innerindex,
    int64_t innerlength);
  EXPORT_SYMBOL ERROR
  awkward_IndexedArray32_simplify64_to64(
    int64_t* toindex,
    const int32_t* outerindex,
    int64_t outerlength,
    const int64_t* innerindex,
    int64_t innerlength);
  EXPORT_SYMBOL ERROR
  awkward_IndexedArray32_simplifyU32_to64(
    int64_t* toindex,
    const int32_t* outerindex,
    int64_t outerlength,
    const uint32_t* innerindex,
    int64_t innerlength);
  EXPORT_SYMBOL ERROR
  awkward_IndexedArray64_simplify32_to64(
    int64_t* toindex,
    const int64_t* outerindex,
    int64_t outerlength,
    const int32_t* innerindex,
    int64_t innerlength);
  EXPORT_SYMBOL ERROR
  awkward_IndexedArray64_simplify64_to64(
    int64_t* toindex,
    const int64_t* outerindex,
    int64_t outerlength,
    const int64_t* innerindex,
    int64_t innerlength);
  EXPORT_SYMBOL ERROR
  awkward_IndexedArray64_simplifyU32_to64(
    int64_t* toindex,
    const int64_t* outerindex,
    int64_t outerlength,
    const uint32_t* innerindex,
    int64_t innerlength);
  EXPORT_SYMBOL ERROR
  awkward_IndexedArrayU32_simplify32_to64(
    int64_t* toindex,
    const uint32_t* outerindex,
    int64_t outerlength,
    const int32_t* innerindex,
    int64_t innerlength);
  EXPORT_SYMBOL ERROR
  awkward_IndexedArrayU32_simplify64_to64(
    int64_t* toindex,
    const uint32_t* outerindex,
    int64_t outerlength,
    const int64_t* innerindex,
    int64_t innerlength);
  EXPORT_SYMBOL ERROR
  awkward_IndexedArrayU32_simplifyU32_to64(
    int64_t* toindex,
    const uint32_t* outerindex,
    int64_t outerlength,
    const uint32_t* innerindex,
    int64_t innerlength);

  EXPORT_SYMBOL ERROR
  awkward_IndexedArray32_validity(
    const int32_t* index,
    int64_t length,
    int64_t lencontent,
    bool isoption);
  EXPORT_SYMBOL ERROR
  awkward_IndexedArray64_validity(
    const int64_t* index,
    int64_t length,
    int64_t lencontent,
    bool isoption);
  EXPORT_SYMBOL ERROR
  awkward_IndexedArrayU32_validity(
    const uint32_t* index,
    int64_t length,
    int64_t lencontent,
    bool isoption);

  EXPORT_SYMBOL ERROR
  awkward_IndexedArray32_ranges_next_64(
    const int32_t* index,
    const int64_t* fromstarts,
    const int64_t* fromstops,
    int64_t length,
    int64_t* tostarts,
    int64_t* tostops,
    int64_t* tolength);
  EXPORT_SYMBOL ERROR
  awkward_IndexedArray64_ranges_next_64(
    const int64_t* index,
    const int64_t* fromstarts,
    const int64_t* fromstops,
    int64_t length,
    int64_t* tostarts,
    int64_t* tostops,
    int64_t* tolength);
  EXPORT_SYMBOL ERROR
  awkward_IndexedArrayU32_ranges_next_64(
    const uint32_t* index,
    const int64_t* fromstarts,
    const int64_t* fromstops,
    int64_t length,
    int64_t* tostarts,
    int64_t* tostops,
    int64_t* tolength);

  EXPORT_SYMBOL ERROR
  awkward_IndexedArray32_ranges_carry_next_64(
    const int32_t* index,
    const int64_t* fromstarts,
    const int64_t* fromstops,
    int64_t length,
    int64_t* tocarry);
  EXPORT_SYMBOL ERROR
  awkward_IndexedArray64_ranges_carry_next_64(
    const int64_t* index,
    const int64_t* fromstarts,
    const int64_t* fromstops,
    int64_t length,
    int64_t* tocarry);
  EXPORT_SYMBOL ERROR
  awkward_IndexedArrayU32_ranges_carry_next_64(
    const uint32_t* index,
    const int64_t* fromstarts,
    const int64_t* fromstops,
    int64_t length,
    int64_t* tocarry);

  EXPORT_SYMBOL ERROR
  awkward_IndexedOptionArray_rpad_and_clip_mask_axis1_64(
    int64_t* toindex,
    const int8_t* frommask,
    int64_t length);

  EXPORT_SYMBOL ERROR
  awkward_ListArray32_broadcast_tooffsets_64(
    int64_t* tocarry,
    const int64_t* fromoffsets,
    int64_t offsetslength,
    const int32_t* fromstarts,
    const int32_t* fromstops,
    int64_t lencontent);
  EXPORT_SYMBOL ERROR
  awkward_ListArray64_broadcast_tooffsets_64(
    int64_t* tocarry,
    const int64_t* fromoffsets,
    int64_t offsetslength,
    const int64_t* fromstarts,
    const int64_t* fromstops,
    int64_t lencontent);
  EXPORT_SYMBOL ERROR
  awkward_ListArrayU32_broadcast_tooffsets_64(
    int64_t* tocarry,
    const int64_t* fromoffsets,
    int64_t offsetslength,
    const uint32_t* fromstarts,
    const uint32_t* fromstops,
    int64_t lencontent);

  EXPORT_SYMBOL ERROR
  awkward_ListArray32_combinations_64(
    int64_t** tocarry,
    int64_t* toindex,
    int64_t* fromindex,
    int64_t n,
    bool replacement,
    const int32_t* starts,
    const int32_t* stops,
    int64_t length);
  EXPORT_SYMBOL ERROR
  awkward_ListArray64_combinations_64(
    int64_t** tocarry,
    int64_t* toindex,
    int64_t* fromindex,
    int64_t n,
    bool replacement,
    const int64_t* starts,
    const int64_t* stops,
    int64_t length);
  EXPORT_SYMBOL ERROR
  awkward_ListArrayU32_combinations_64(
    int64_t** tocarry,
    int64_t* toindex,
    int64_t* fromindex,
    int64_t n,
    bool replacement,
    const uint32_t* starts,
    const uint32_t* stops,
    int64_t length);

  EXPORT_SYMBOL ERROR
  awkward_ListArray32_combinations_length_64(
    int64_t* totallen,
    int64_t* tooffsets,
    int64_t n,
    bool replacement,
    const int32_t* starts,
    const int32_t* stops,
    int64_t length);
  EXPORT_SYMBOL ERROR
  awkward_ListArray64_combinations_length_64(
    int64_t* totallen,
    int64_t* tooffsets,
    int64_t n,
    bool replacement,
    const int64_t* starts,
    const int64_t* stops,
    int64_t length);
  EXPORT_SYMBOL ERROR
  awkward_ListArrayU32_combinations_length_64(
    int64_t* totallen,
    int64_t* tooffsets,
    int64_t n,
    bool replacement,
    const uint32_t* starts,
    const uint32_t* stops,
    int64_t length);

  EXPORT_SYMBOL ERROR
  awkward_ListArray32_compact_offsets_64(
    int64_t* tooffsets,
    const int32_t* fromstarts,
    const int32_t* fromstops,
    int64_t length);
  EXPORT_SYMBOL ERROR
  awkward_ListArray64_compact_offsets_64(
    int64_t* tooffsets,
    const int64_t* fromstarts,
    const int64_t* fromstops,
    int64_t length);
  EXPORT_SYMBOL ERROR
  awkward_ListArrayU32_compact_offsets_64(
    int64_t* tooffsets,
    const uint32_t* fromstarts,
    const uint32_t* fromstops,
    int64_t length);

  EXPORT_SYMBOL ERROR
  awkward_ListArray_fill_to64_from32(
    int64_t* tostarts,
    int64_t tostartsoffset,
    int64_t* tostops,
    int64_t tostopsoffset,
    const int32_t* fromstarts,
    const int32_t* fromstops,
    int64_t length,
    int64_t base);
  EXPORT_SYMBOL ERROR
  awkward_ListArray_fill_to64_from64(
    int64_t* tostarts,
    int64_t tostartsoffset,
    int64_t* tostops,
    int64_t tostopsoffset,
    const int64_t* fromstarts,
    const int64_t* fromstops,
    int64_t length,
    int64_t base);
  EXPORT_SYMBOL ERROR
  awkward_ListArray_fill_to64_fromU32(
    int64_t* tostarts,
    int64_t tostartsoffset,
    int64_t* tostops,
    int64_t tostopsoffset,
    const uint32_t* fromstarts,
    const uint32_t* fromstops,
    int64_t length,
    int64_t base);

  EXPORT_SYMBOL ERROR
  awkward_ListArray32_getitem_carry_64(
    int32_t* tostarts,
    int32_t* tostops,
    const int32_t* fromstarts,
    const int32_t* fromstops,
    const int64_t* fromcarry,
    int64_t lenstarts,
    int64_t lencarry);
  EXPORT_SYMBOL ERROR
  awkward_ListArray64_getitem_carry_64(
    int64_t* tostarts,
    int64_t* tostops,
    const int64_t* fromstarts,
    const int64_t* fromstops,
    const int64_t* fromcarry,
    int64_t lenstarts,
    int64_t lencarry);
  EXPORT_SYMBOL ERROR
  awkward_ListArrayU32_getitem_carry_64(
    uint32_t* tostarts,
    uint32_t* tostops,
    const uint32_t* fromstarts,
    const uint32_t* fromstops,
    const int64_t* fromcarry,
    int64_t lenstarts,
    int64_t lencarry);

  EXPORT_SYMBOL ERROR
  awkward_ListArray32_getitem_jagged_apply_64(
    int64_t* tooffsets,
    int64_t* tocarry,
    const int64_t* slicestarts,
    const int64_t* slicestops,
    int64_t sliceouterlen,
    const int64_t* sliceindex,
    int64_t sliceinnerlen,
    const int32_t* fromstarts,
    const int32_t* fromstops,
    int64_t contentlen);
  EXPORT_SYMBOL ERROR
  awkward_ListArray64_getitem_jagged_apply_64(
    int64_t* tooffsets,
    int64_t* tocarry,
    const int64_t* slicestarts,
    const int64_t* slicestops,
    int64_t sliceouterlen,
    const int64_t* sliceindex,
    int64_t sliceinnerlen,
    const int64_t* fromstarts,
    const int64_t* fromstops,
    int64_t contentlen);
  EXPORT_SYMBOL ERROR
  awkward_ListArrayU32_getitem_jagged_apply_64(
    int64_t* tooffsets,
    int64_t* tocarry,
    const int64_t* slicestarts,
    const int64_t* slicestops,
    int64_t sliceouterlen,
    const int64_t* sliceindex,
    int64_t sliceinnerlen,
    const uint32_t* fromstarts,
    const uint32_t* fromstops,
    int64_t contentlen);

  EXPORT_SYMBOL ERROR
  awkward_ListArray_getitem_jagged_carrylen_64(
    int64_t* carrylen,
    const int64_t* slicestarts,
    const int64_t* slicestops,
    int64_t sliceouterlen);

  EXPORT_SYMBOL ERROR
  awkward_ListArray32_getitem_jagged_descend_64(
    int64_t* tooffsets,
    const int64_t* slicestarts,
    const int64_t* slicestops,
    int64_t sliceouterlen,
    const int32_t* fromstarts,
    const int32_t* fromstops);
  EXPORT_SYMBOL ERROR
  awkward_ListArray64_getitem_jagged_descend_64(
    int64_t* tooffsets,
    const int64_t* slicestarts,
    const int64_t* slicestops,
    int64_t sliceouterlen,
    const int64_t* fromstarts,
    const int64_t* fromstops);
  EXPORT_SYMBOL ERROR
  awkward_ListArrayU32_getitem_jagged_descend_64(
    int64_t* tooffsets,
    const int64_t* slicestarts,
    const int64_t* slicestops,
    int64_t sliceouterlen,
    const uint32_t* fromstarts,
    const uint32_t* fromstops);

  EXPORT_SYMBOL ERROR
  awkward_ListArray32_getitem_jagged_expand_64(
    int64_t* multistarts,
    int64_t* multistops,
    const int64_t* singleoffsets,
    int64_t* tocarry,
    const int32_t* fromstarts,
    const int32_t* fromstops,
    int64_t jaggedsize,
    int64_t length);
  EXPORT_SYMBOL ERROR
  awkward_ListArray64_getitem_jagged_expand_64(
    int64_t* multistarts,
    int64_t* multistops,
    const int64_t* singleoffsets,
    int64_t* tocarry,
    const int64_t* fromstarts,
    const int64_t* fromstops,
    int64_t jaggedsize,
    int64_t length);
  EXPORT_SYMBOL ERROR
  awkward_ListArrayU32_getitem_jagged_expand_64(
    int64_t* multistarts,
    int64_t* multistops,
    const int64_t* singleoffsets,
    int64_t* tocarry,
    const uint32_t* fromstarts,
    const uint32_t* fromstops,
    int64_t jaggedsize,
    int64_t length);

  EXPORT_SYMBOL ERROR
  awkward_ListArray_getitem_jagged_numvalid_64(
    int64_t* numvalid,
    const int64_t* slicestarts,
    const int64_t* slicestops,
    int64_t length,
    const int64_t* missing,
    int64_t missinglength);

  EXPORT_SYMBOL ERROR
  awkward_ListArray_getitem_jagged_shrink_64(
    int64_t* tocarry,
    int64_t* tosmalloffsets,
    int64_t* tolargeoffsets,
    const int64_t* slicestarts,
    const int64_t* slicestops,
    int64_t length,
    const int64_t* missing);

  EXPORT_SYMBOL ERROR
  awkward_ListArray32_getitem_next_array_64(
    int64_t* tocarry,
    int64_t* toadvanced,
    const int32_t* fromstarts,
    const int32_t* fromstops,
    const int64_t* fromarray,
    int64_t lenstarts,
    int64_t lenarray,
    int64_t lencontent);
  EXPORT_SYMBOL ERROR
  awkward_ListArray64_getitem_next_array_64(
    int64_t* tocarry,
    int64_t* toadvanced,
    const int64_t* fromstarts,
    const int64_t* fromstops,
    const int64_t* fromarray,
    int64_t lenstarts,
    int64_t lenarray,
    int64_t lencontent);
  EXPORT_SYMBOL ERROR
  awkward_ListArrayU32_getitem_next_array_64(
    int64_t* tocarry,
    int64_t* toadvanced,
    const uint32_t* fromstarts,
    const uint32_t* fromstops,
    const int64_t* fromarray,
    int64_t lenstarts,
    int64_t lenarray,
    int64_t lencontent);

  EXPORT_SYMBOL ERROR
  awkward_ListArray32_getitem_next_array_advanced_64(
    int64_t* tocarry,
    int64_t* toadvanced,
    const int32_t* fromstarts,
    const int32_t* fromstops,
    const int64_t* fromarray,
    const int64_t* fromadvanced,
    int64_t lenstarts,
    int64_t lenarray,
    int64_t lencontent);
  EXPORT_SYMBOL ERROR
  awkward_ListArray64_getitem_next_array_advanced_64(
    int64_t* tocarry,
    int64_t* toadvanced,
    const int64_t* fromstarts,
    const int64_t* fromstops,
    const int64_t* fromarray,
    const int64_t* fromadvanced,
    int64_t lenstarts,
    int64_t lenarray,
    int64_t lencontent);
  EXPORT_SYMBOL ERROR
  awkward_ListArrayU32_getitem_next_array_advanced_64(
    int64_t* tocarry,
    int64_t* toadvanced,
    const uint32_t* fromstarts,
    const uint32_t* fromstops,
    const int64_t* fromarray,
    const int64_t* fromadvanced,
    int64_t lenstarts,
    int64_t lenarray,
    int64_t lencontent);

  EXPORT_SYMBOL ERROR
  awkward_ListArray32_getitem_next_at_64(
    int64_t* tocarry,
    const int32_t* fromstarts,
    const int32_t* fromstops,
    int64_t lenstarts,
    int64_t at);
  EXPORT_SYMBOL ERROR
  awkward_ListArray64_getitem_next_at_64(
    int64_t* tocarry,
    const int64_t* fromstarts,
    const int64_t* fromstops,
    int64_t lenstarts,
    int64_t at);
  EXPORT_SYMBOL ERROR
  awkward_ListArrayU32_getitem_next_at_64(
    int64_t* tocarry,
    const uint32_t* fromstarts,
    const uint32_t* fromstops,
    int64_t lenstarts,
    int64_t at);

  EXPORT_SYMBOL ERROR
  awkward_ListArray32_getitem_next_range_64(
    int32_t* tooffsets,
    int64_t* tocarry,
    const int32_t* fromstarts,
    const int32_t* fromstops,
    int64_t lenstarts,
    int64_t start,
    int64_t stop,
    int64_t step);
  EXPORT_SYMBOL ERROR
  awkward_ListArray64_getitem_next_range_64(
    int64_t* tooffsets,
    int64_t* tocarry,
    const int64_t* fromstarts,
    const int64_t* fromstops,
    int64_t lenstarts,
    int64_t start,
    int64_t stop,
    int64_t step);
  EXPORT_SYMBOL ERROR
  awkward_ListArrayU32_getitem_next_range_64(
    uint32_t* tooffsets,
    int64_t* tocarry,
    const uint32_t* fromstarts,
    const uint32_t* fromstops,
    int64_t lenstarts,
    int64_t start,
    int64_t stop,
    int64_t step);

  EXPORT_SYMBOL ERROR
  awkward_ListArray32_getitem_next_range_carrylength(
    int64_t* carrylength,
    const int32_t* fromstarts,
    const int32_t* fromstops,
    int64_t lenstarts,
    int64_t start,
    int64_t stop,
    int64_t step);
  EXPORT_SYMBOL ERROR
  awkward_ListArray64_getitem_next_range_carrylength(
    int64_t* carrylength,
    const int64_t* fromstarts,
    const int64_t* fromstops,
    int64_t lenstarts,
    int64_t start,
    int64_t stop,
    int64_t step);
  EXPORT_SYMBOL ERROR
  awkward_ListArrayU32_getitem_next_range_carrylength(
    int64_t* carrylength,
    const uint32_t* fromstarts,
    const uint32_t* fromstops,
    int64_t lenstarts,
    int64_t start,
    int64_t stop,
    int64_t step);

  EXPORT_SYMBOL ERROR
  awkward_ListArray32_getitem_next_range_counts_64(
    int64_t* total,
    const int32_t* fromoffsets,
    int64_t lenstarts);
  EXPORT_SYMBOL ERROR
  awkward_ListArray64_getitem_next_range_counts_64(
    int64_t* total,
    const int64_t* fromoffsets,
    int64_t lenstarts);
  EXPORT_SYMBOL ERROR
  awkward_ListArrayU32_getitem_next_range_counts_64(
    int64_t* total,
    const uint32_t* fromoffsets,
    int64_t lenstarts);

  EXPORT_SYMBOL ERROR
  awkward_ListArray32_getitem_next_range_spreadadvanced_64(
    int64_t* toadvanced,
    const int64_t* fromadvanced,
    const int32_t* fromoffsets,
    int64_t lenstarts);
  EXPORT_SYMBOL ERROR
  awkward_ListArray64_getitem_next_range_spreadadvanced_64(
    int64_t* toadvanced,
    const int64_t* fromadvanced,
    const int64_t* fromoffsets,
    int64_t lenstarts);
  EXPORT_SYMBOL ERROR
  awkward_ListArrayU32_getitem_next_range_spreadadvanced_64(
    int64_t* toadvanced,
    const int64_t* fromadvanced,
    const uint32_t* fromoffsets,
    int64_t lenstarts);

  EXPORT_SYMBOL ERROR
  awkward_ListArray32_localindex_64(
    int64_t* toindex,
    const int32_t* offsets,
    int64_t length);
  EXPORT_SYMBOL ERROR
  awkward_ListArray64_localindex_64(
    int64_t* toindex,
    const int64_t* offsets,
    int64_t length);
  EXPORT_SYMBOL ERROR
  awkward_ListArrayU32_localindex_64(
    int64_t* toindex,
    const uint32_t* offsets,
    int64_t length);

  EXPORT_SYMBOL ERROR
  awkward_ListArray32_min_range(
    int64_t* tomin,
    const int32_t* fromstarts,
    const int32_t* fromstops,
    int64_t lenstarts);
  EXPORT_SYMBOL ERROR
  awkward_ListArray64_min_range(
    int64_t* tomin,
    const int64_t* fromstarts,
    const int64_t* fromstops,
    int64_t lenstarts);
  EXPORT_SYMBOL ERROR
  awkward_ListArrayU32_min_range(
    int64_t* tomin,
    const uint32_t* fromstarts,
    const uint32_t* fromstops,
    int64_t lenstarts);

  EXPORT_SYMBOL ERROR
  awkward_ListArray32_num_64(
    int64_t* tonum,
    const int32_t* fromstarts,
    const int32_t* fromstops,
    int64_t length);
  EXPORT_SYMBOL ERROR
  awkward_ListArray64_num_64(
    int64_t* tonum,
    const int64_t* fromstarts,
    const int64_t* fromstops,
    int64_t length);
  EXPORT_SYMBOL ERROR
  awkward_ListArrayU32_num_64(
    int64_t* tonum,
    const uint32_t* fromstarts,
    const uint32_t* fromstops,
    int64_t length);

  EXPORT_SYMBOL ERROR
  awkward_ListArray32_rpad_and_clip_length_axis1(
    int64_t* tomin,
    const int32_t* fromstarts,
    const int32_t* fromstops,
    int64_t target,
    int64_t lenstarts);
  EXPORT_SYMBOL ERROR
  awkward_ListArray64_rpad_and_clip_length_axis1(
    int64_t* tomin,
    const int64_t* fromstarts,
    const int64_t* fromstops,
    int64_t target,
    int64_t lenstarts);
  EXPORT_SYMBOL ERROR
  awkward_ListArrayU32_rpad_and_clip_length_axis1(
    int64_t* tomin,
    const uint32_t* fromstarts,
    const uint32_t* fromstops,
    int64_t target,
    int64_t lenstarts);

  EXPORT_SYMBOL ERROR
  awkward_ListArray32_rpad_axis1_64(
    int64_t* toindex,
    const int32_t* fromstarts,
    const int32_t* fromstops,
    int32_t* tostarts,
    int32_t* tostops,
    int64_t target,
    int64_t length);
  EXPORT_SYMBOL ERROR
  awkward_ListArray64_rpad_axis1_64(
    int64_t* toindex,
    const int64_t* fromstarts,
    const int64_t* fromstops,
    int64_t* tostarts,
    int64_t* tostops,
    int64_t target,
    int64_t length);
  EXPORT_SYMBOL ERROR
  awkward_ListArrayU32_rpad_axis1_64(
    int64_t* toindex,
    const uint32_t* fromstarts,
    const uint32_t* fromstops,
    uint32_t* tostarts,
    uint32_t* tostops,
    int64_t target,
    int64_t length);

  EXPORT_SYMBOL ERROR
  awkward_ListArray32_validity(
    const int32_t* starts,
    const int32_t* stops,
    int64_t length,
    int64_t lencontent);
  EXPORT_SYMBOL ERROR
  awkward_ListArray64_validity(
    const int64_t* starts,
    const int64_t* stops,
    int64_t length,
    int64_t lencontent);
  EXPORT_SYMBOL ERROR
  awkward_ListArrayU32_validity(
    const uint32_t* starts,
    const uint32_t* stops,
    int64_t length,
    int64_t lencontent);

  EXPORT_SYMBOL ERROR
  awkward_ListOffsetArray32_compact_offsets_64(
    int64_t* tooffsets,
    const int32_t* fromoffsets,
    int64_t length);
  EXPORT_SYMBOL ERROR
  awkward_ListOffsetArray64_compact_offsets_64(
    int64_t* tooffsets,
    const int64_t* fromoffsets,
    int64_t length);
  EXPORT_SYMBOL ERROR
  awkward_ListOffsetArrayU32_compact_offsets_64(
    int64_t* tooffsets,
    const uint32_t* fromoffsets,
    int64_t length);

  EXPORT_SYMBOL ERROR
  awkward_ListOffsetArray32_flatten_offsets_64(
    int64_t* tooffsets,
    const int32_t* outeroffsets,
    int64_t outeroffsetslen,
    const int64_t* inneroffsets,
    int64_t inneroffsetslen);
  EXPORT_SYMBOL ERROR
  awkward_ListOffsetArray64_flatten_offsets_64(
    int64_t* tooffsets,
    const int64_t* outeroffsets,
    int64_t outeroffsetslen,
    const int64_t* inneroffsets,
    int64_t inneroffsetslen);
  EXPORT_SYMBOL ERROR
  awkward_ListOffsetArrayU32_flatten_offsets_64(
    int64_t* tooffsets,
    const uint32_t* outeroffsets,
    int64_t outeroffsetslen,
    const int64_t* inneroffsets,
    int64_t inneroffsetslen);

  EXPORT_SYMBOL ERROR
  awkward_ListOffsetArray_getitem_adjust_offsets_64(
    int64_t* tooffsets,
    int64_t* tononzero,
    const int64_t* fromoffsets,
    int64_t length,
    const int64_t* nonzero,
    int64_t nonzerolength);

  EXPORT_SYMBOL ERROR
  awkward_ListOffsetArray_getitem_adjust_offsets_index_64(
    int64_t* tooffsets,
    int64_t* tononzero,
    const int64_t* fromoffsets,
    int64_t length,
    const int64_t* index,
    int64_t indexlength,
    const int64_t* nonzero,
    int64_t nonzerolength,
    const int8_t* originalmask,
    int64_t masklength);

  EXPORT_SYMBOL ERROR
  awkward_ListOffsetArray_local_preparenext_64(
    int64_t* tocarry,
    const int64_t* fromindex,
    int64_t length);

  EXPORT_SYMBOL ERROR
  awkward_ListOffsetArray_reduce_global_startstop_64(
    int64_t* globalstart,
    int64_t* globalstop,
    const int64_t* offsets,
    int64_t length);

  EXPORT_SYMBOL ERROR
  awkward_ListOffsetArray_reduce_local_nextparents_64(
    int64_t* nextparents,
    const int64_t* offsets,
    int64_t length);

  EXPORT_SYMBOL ERROR
  awkward_ListOffsetArray_reduce_local_outoffsets_64(
    int64_t* outoffsets,
    const int64_t* parents,
    int64_t lenparents,
    int64_t outlength);

  EXPORT_SYMBOL ERROR
  awkward_ListOffsetArray_reduce_nonlocal_findgaps_64(
    int64_t* gaps,
    const int64_t* parents,
    int64_t lenparents);

  EXPORT_SYMBOL ERROR
  awkward_ListOffsetArray_reduce_nonlocal_maxcount_offsetscopy_64(
    int64_t* maxcount,
    int64_t* offsetscopy,
    const int64_t* offsets,
    int64_t length);

  EXPORT_SYMBOL ERROR
  awkward_ListOffsetArray_reduce_nonlocal_nextshifts_64(
    int64_t* nummissing,
    int64_t* missing,
    int64_t* nextshifts,
    const int64_t* offsets,
    int64_t length,
    const int64_t* starts,
    const int64_t* parents,
    int64_t maxcount,
    int64_t nextlen,
    const int64_t* nextcarry);

  EXPORT_SYMBOL ERROR
  awkward_ListOffsetArray_reduce_nonlocal_nextstarts_64(
    int64_t* nextstarts,
    const int64_t* nextparents,
    int64_t nextlen);

  EXPORT_SYMBOL ERROR
  awkward_ListOffsetArray_reduce_nonlocal_outstartsstops_64(
    int64_t* outstarts,
    int64_t* outstops,
    const int64_t* distincts,
    int64_t lendistincts,
    const int64_t* gaps,
    int64_t outlength);

  EXPORT_SYMBOL ERROR
  awkward_ListOffsetArray_reduce_nonlocal_preparenext_64(
    int64_t* nextcarry,
    int64_t* nextparents,
    int64_t nextlen,
    int64_t* maxnextparents,
    int64_t* distincts,
    int64_t distinctslen,
    int64_t* offsetscopy,
    const int64_t* offsets,
    int64_t length,
    const int64_t* parents,
    int64_t maxcount);

  EXPORT_SYMBOL ERROR
  awkward_ListOffsetArray32_rpad_and_clip_axis1_64(
    int64_t* toindex,
    const int32_t* fromoffsets,
    int64_t length,
    int64_t target);
  EXPORT_SYMBOL ERROR
  awkward_ListOffsetArray64_rpad_and_clip_axis1_64(
    int64_t* toindex,
    const int64_t* fromoffsets,
    int64_t length,
    int64_t target);
  EXPORT_SYMBOL ERROR
  awkward_ListOffsetArrayU32_rpad_and_clip_axis1_64(
    int64_t* toindex,
    const uint32_t* fromoffsets,
    int64_t length,
    int64_t target);

  EXPORT_SYMBOL ERROR
  awkward_ListOffsetArray32_rpad_axis1_64(
    int64_t* toindex,
    const int32_t* fromoffsets,
    int64_t fromlength,
    int64_t target);
  EXPORT_SYMBOL ERROR
  awkward_ListOffsetArray64_rpad_axis1_64(
    int64_t* toindex,
    const int64_t* fromoffsets,
    int64_t fromlength,
    int64_t target);
  EXPORT_SYMBOL ERROR
  awkward_ListOffsetArrayU32_rpad_axis1_64(
    int64_t* toindex,
    const uint32_t* fromoffsets,
    int64_t fromlength,
    int64_t target);

  EXPORT_SYMBOL ERROR
  awkward_ListOffsetArray32_rpad_length_axis1(
    int32_t* tooffsets,
    const int32_t* fromoffsets,
    int64_t fromlength,
    int64_t target,
    int64_t* tolength);
  EXPORT_SYMBOL ERROR
  awkward_ListOffsetArray64_rpad_length_axis1(
    int64_t* tooffsets,
    const int64_t* fromoffsets,
    int64_t fromlength,
    int64_t target,
    int64_t* tolength);
  EXPORT_SYMBOL ERROR
  awkward_ListOffsetArrayU32_rpad_length_axis1(
    uint32_t* tooffsets,
    const uint32_t* fromoffsets,
    int64_t fromlength,
    int64_t target,
    int64_t* tolength);

  EXPORT_SYMBOL ERROR
  awkward_ListOffsetArray32_toRegularArray(
    int64_t* size,
    const int32_t* fromoffsets,
    int64_t offsetslength);
  EXPORT_SYMBOL ERROR
  awkward_ListOffsetArray64_toRegularArray(
    int64_t* size,
    const int64_t* fromoffsets,
    int64_t offsetslength);
  EXPORT_SYMBOL ERROR
  awkward_ListOffsetArrayU32_toRegularArray(
    int64_t* size,
    const uint32_t* fromoffsets,
    int64_t offsetslength);

  EXPORT_SYMBOL ERROR
  awkward_MaskedArray32_getitem_next_jagged_project(
    int32_t* index,
    int64_t* starts_in,
    int64_t* stops_in,
    int64_t* starts_out,
    int64_t* stops_out,
    int64_t length);
  EXPORT_SYMBOL ERROR
  awkward_MaskedArray64_getitem_next_jagged_project(
    int64_t* index,
    int64_t* starts_in,
    int64_t* stops_in,
    int64_t* starts_out,
    int64_t* stops_out,
    int64_t length);
  EXPORT_SYMBOL ERROR
  awkward_MaskedArrayU32_getitem_next_jagged_project(
    uint32_t* index,
    int64_t* starts_in,
    int64_t* stops_in,
    int64_t* starts_out,
    int64_t* stops_out,
    int64_t length);

  EXPORT_SYMBOL ERROR
  awkward_NumpyArray_copy(
    uint8_t* toptr,
    const uint8_t* fromptr,
    int64_t len);

  EXPORT_SYMBOL ERROR
  awkward_NumpyArray_contiguous_copy_64(
    uint8_t* toptr,
    const uint8_t* fromptr,
    int64_t len,
    int64_t stride,
    const int64_t* pos);

  EXPORT_SYMBOL ERROR
  awkward_NumpyArray_contiguous_copy_from_many_64(
    uint8_t* toptr,
    const uint8_t** fromptrs,
    int64_t* fromlens,
    int64_t len,
    int64_t stride,
    const int64_t* pos);

  EXPORT_SYMBOL ERROR
  awkward_NumpyArray_contiguous_init_64(
    int64_t* toptr,
    int64_t skip,
    int64_t stride);

  EXPORT_SYMBOL ERROR
  awkward_NumpyArray_contiguous_next_64(
    int64_t* topos,
    const int64_t* frompos,
    int64_t length,
    int64_t skip,
    int64_t stride);

  EXPORT_SYMBOL ERROR
  awkward_NumpyArray_fill_toint8_fromint8(
    int8_t* toptr,
    int64_t tooffset,
    const int8_t* fromptr,
    int64_t length);
  EXPORT_SYMBOL ERROR
  awkward_NumpyArray_fill_toint8_fromint16(
    int8_t* toptr,
    int64_t tooffset,
    const int16_t* fromptr,
    int64_t length);
  EXPORT_SYMBOL ERROR
  awkward_NumpyArray_fill_toint8_fromint32(
    int8_t* toptr,
    int64_t tooffset,
    const int32_t* fromptr,
    int64_t length);
  EXPORT_SYMBOL ERROR
  awkward_NumpyArray_fill_toint8_fromint64(
    int8_t* toptr,
    int64_t tooffset,
    const int64_t* fromptr,
    int64_t length);
  EXPORT_SYMBOL ERROR
  awkward_NumpyArray_fill_toint8_fromuint8(
    int8_t* toptr,
    int64_t tooffset,
    const uint8_t* fromptr,
    int64_t length);
  EXPORT_SYMBOL ERROR
  awkward_NumpyArray_fill_toint8_fromuint16(
    int8_t* toptr,
    int64_t tooffset,
    const uint16_t* fromptr,
    int64_t length);
  EXPORT_SYMBOL ERROR
  awkward_NumpyArray_fill_toint8_fromuint32(
    int8_t* toptr,
    int64_t tooffset,
    const uint32_t* fromptr,
    int64_t length);
  EXPORT_SYMBOL ERROR
  awkward_NumpyArray_fill_toint8_fromuint64(
    int8_t* toptr,
    int64_t tooffset,
    const uint64_t* fromptr,
    int64_t length);
  EXPORT_SYMBOL ERROR
  awkward_NumpyArray_fill_toint8_fromfloat32(
    int8_t* toptr,
    int64_t tooffset,
    const float* fromptr,
    int64_t length);
  EXPORT_SYMBOL ERROR
  awkward_NumpyArray_fill_toint8_fromfloat64(
    int8_t* toptr,
    int64_t tooffset,
    const double* fromptr,
    int64_t length);
  EXPORT_SYMBOL ERROR
  awkward_NumpyArray_fill_toint16_fromint8(
    int16_t* toptr,
    int64_t tooffset,
    const int8_t* fromptr,
    int64_t length);
  EXPORT_SYMBOL ERROR
  awkward_NumpyArray_fill_toint16_fromint16(
    int16_t* toptr,
    int64_t tooffset,
    const int16_t* fromptr,
    int64_t length);
  EXPORT_SYMBOL ERROR
  awkward_NumpyArray_fill_toint16_fromint32(
    int16_t* toptr,
    int64_t tooffset,
    const int32_t* fromptr,
    int64_t length);
  EXPORT_SYMBOL ERROR
  awkward_NumpyArray_fill_toint16_fromint64(
    int16_t* toptr,
    int64_t tooffset,
    const int64_t* fromptr,
    int64_t length);
  EXPORT_SYMBOL ERROR
  awkward_NumpyArray_fill_toint16_fromuint8(
    int16_t* toptr,
    int64_t tooffset,
    const uint8_t* fromptr,
    int64_t length);
  EXPORT_SYMBOL ERROR
  awkward_NumpyArray_fill_toint16_fromuint16(
    int16_t* toptr,
    int64_t tooffset,
    const uint16_t* fromptr,
    int64_t length);
  EXPORT_SYMBOL ERROR
  awkward_NumpyArray_fill_toint16_fromuint32(
    int16_t* toptr,
    int64_t tooffset,
    const uint32_t* fromptr,
    int64_t length);
  EXPORT_SYMBOL ERROR
  awkward_NumpyArray_fill_toint16_fromuint64(
    int16_t* toptr,
    int64_t tooffset,
    const uint64_t* fromptr,
    int64_t length);
  EXPORT_SYMBOL ERROR
  awkward_NumpyArray_fill_toint16_fromfloat32(
    int16_t* toptr,
    int64_t tooffset,
    const float* fromptr,
    int64_t length);
  EXPORT_SYMBOL ERROR
  awkward_NumpyArray_fill_toint16_fromfloat64(
    int16_t* toptr,
    int64_t tooffset,
    const double* fromptr,
    int64_t length);
  EXPORT_SYMBOL ERROR
  awkward_NumpyArray_fill_toint32_fromint8(
    int32_t* toptr,
    int64_t tooffset,
    const int8_t* fromptr,
    int64_t length);
  EXPORT_SYMBOL ERROR
  awkward_NumpyArray_fill_toint32_fromint16(
    int32_t* toptr,
    int64_t tooffset,
    const int16_t* fromptr,
    int64_t length);
  EXPORT_SYMBOL ERROR
  awkward_NumpyArray_fill_toint32_fromint32(
    int32_t* toptr,
    int64_t tooffset,
    const int32_t* fromptr,
    int64_t length);
  EXPORT_SYMBOL ERROR
  awkward_NumpyArray_fill_toint32_fromint64(
    int32_t* toptr,
    int64_t tooffset,
    const int64_t* fromptr,
    int64_t length);
  EXPORT_SYMBOL ERROR
  awkward_NumpyArray_fill_toint32_fromuint8(
    int32_t* toptr,
    int64_t tooffset,
    const uint8_t* fromptr,
    int64_t length);
  EXPORT_SYMBOL ERROR
  awkward_NumpyArray_fill_toint32_fromuint16(
    int32_t* toptr,
    int64_t tooffset,
    const uint16_t* fromptr,
    int64_t length);
  EXPORT_SYMBOL ERROR
  awkward_NumpyArray_fill_toint32_fromuint32(
    int32_t* toptr,
    int64_t tooffset,
    const uint32_t* fromptr,
    int64_t length);
  EXPORT_SYMBOL ERROR
  awkward_NumpyArray_fill_toint32_fromuint64(
    int32_t* toptr,
    int64_t tooffset,
    const uint64_t* fromptr,
    int64_t length);
  EXPORT_SYMBOL ERROR
  awkward_NumpyArray_fill_toint32_fromfloat32(
    int32_t* toptr,
    int64_t tooffset,
    const float* fromptr,
    int64_t length);
  EXPORT_SYMBOL ERROR
  awkward_NumpyArray_fill_toint32_fromfloat64(
    int32_t* toptr,
    int64_t tooffset,
    const double* fromptr,
    int64_t length);
  EXPORT_SYMBOL ERROR
  awkward_NumpyArray_fill_toint64_fromint8(
    int64_t* toptr,
    int64_t tooffset,
    const int8_t* fromptr,
    int64_t length);
  EXPORT_SYMBOL ERROR
  awkward_NumpyArray_fill_toint64_fromint16(
    int64_t* toptr,
    int64_t tooffset,
    const int16_t* fromptr,
    int64_t length);
  EXPORT_SYMBOL ERROR
  awkward_NumpyArray_fill_toint64_fromint32(
    int64_t* toptr,
    int64_t tooffset,
    const int32_t* fromptr,
    int64_t length);
  EXPORT_SYMBOL ERROR
  awkward_NumpyArray_fill_toint64_fromint64(
    int64_t* toptr,
    int64_t tooffset,
    const int64_t* fromptr,
    int64_t length);
  EXPORT_SYMBOL ERROR
  awkward_NumpyArray_fill_toint64_fromuint8(
    int64_t* toptr,
    int64_t tooffset,
    const uint8_t* fromptr,
    int64_t length);
  EXPORT_SYMBOL ERROR
  awkward_NumpyArray_fill_toint64_fromuint16(
    int64_t* toptr,
    int64_t tooffset,
    const uint16_t* fromptr,
    int64_t length);
  EXPORT_SYMBOL ERROR
  awkward_NumpyArray_fill_toint64_fromuint32(
    int64_t* toptr,
    int64_t tooffset,
    const uint32_t* fromptr,
    int64_t length);
  EXPORT_SYMBOL ERROR
  awkward_NumpyArray_fill_toint64_fromuint64(
    int64_t* toptr,
    int64_t tooffset,
    const uint64_t* fromptr,
    int64_t length);
  EXPORT_SYMBOL ERROR
  awkward_NumpyArray_fill_toint64_fromfloat32(
    int64_t* toptr,
    int64_t tooffset,
    const float* fromptr,
    int64_t length);
  EXPORT_SYMBOL ERROR
  awkward_NumpyArray_fill_toint64_fromfloat64(
    int64_t* toptr,
    int64_t tooffset,
    const double* fromptr,
    int64_t length);
  EXPORT_SYMBOL ERROR
  awkward_NumpyArray_fill_touint8_fromint8(
    uint8_t* toptr,
    int64_t tooffset,
    const int8_t* fromptr,
    int64_t length);
  EXPORT_SYMBOL ERROR
  awkward_NumpyArray_fill_touint8_fromint16(
    uint8_t* toptr,
    int64_t tooffset,
    const int16_t* fromptr,
    int64_t length);
  EXPORT_SYMBOL ERROR
  awkward_NumpyArray_fill_touint8_fromint32(
    uint8_t* toptr,
    int64_t tooffset,
    const int32_t* fromptr,
    int64_t length);
  EXPORT_SYMBOL ERROR
  awkward_NumpyArray_fill_touint8_fromint64(
    uint8_t* toptr,
    int64_t tooffset,
    const int64_t* fromptr,
    int64_t length);
  EXPORT_SYMBOL ERROR
  awkward_NumpyArray_fill_touint8_fromuint8(
    uint8_t* toptr,
    int64_t tooffset,
    const uint8_t* fromptr,
    int64_t length);
  EXPORT_SYMBOL ERROR
  awkward_NumpyArray_fill_touint8_fromuint16(
    uint8_t* toptr,
    int64_t tooffset,
    const uint16_t* fromptr,
    int64_t length);
  EXPORT_SYMBOL ERROR
  awkward_NumpyArray_fill_touint8_fromuint32(
    uint8_t* toptr,
    int64_t tooffset,
    const uint32_t* fromptr,
    int64_t length);
  EXPORT_SYMBOL ERROR
  awkward_NumpyArray_fill_touint8_fromuint64(
    uint8_t* toptr,
    int64_t tooffset,
    const uint64_t* fromptr,
    int64_t length);
  EXPORT_SYMBOL ERROR
  awkward_NumpyArray_fill_touint8_fromfloat32(
    uint8_t* toptr,
    int64_t tooffset,
    const float* fromptr,
    int64_t length);
  EXPORT_SYMBOL ERROR
  awkward_NumpyArray_fill_touint8_fromfloat64(
    uint8_t* toptr,
    int64_t tooffset,
    const double* fromptr,
    int64_t length);
  EXPORT_SYMBOL ERROR
  awkward_NumpyArray_fill_touint16_fromint8(
    uint16_t* toptr,
    int64_t tooffset,
    const int8_t* fromptr,
    int64_t length);
  EXPORT_SYMBOL ERROR
  awkward_NumpyArray_fill_touint16_fromint16(
    uint16_t* toptr,
    int64_t tooffset,
    const int16_t* fromptr,
    int64_t length);
  EXPORT_SYMBOL ERROR
  awkward_NumpyArray_fill_touint16_fromint32(
    uint16_t* toptr,
    int64_t tooffset,
    const int32_t* fromptr,
    int64_t length);
  EXPORT_SYMBOL ERROR
  awkward_NumpyArray_fill_touint16_fromint64(
    uint16_t* toptr,
    int64_t tooffset,
    const int64_t* fromptr,
    int64_t length);
  EXPORT_SYMBOL ERROR
  awkward_NumpyArray_fill_touint16_fromuint8(
    uint16_t* toptr,
    int64_t tooffset,
    const uint8_t* fromptr,
    int64_t length);
  EXPORT_SYMBOL ERROR
  awkward_NumpyArray_fill_touint16_fromuint16(
    uint16_t* toptr,
    int64_t tooffset,
    const uint16_t* fromptr,
    int64_t length);
  EXPORT_SYMBOL ERROR
  awkward_NumpyArray_fill_touint16_fromuint32(
    uint16_t* toptr,
    int64_t tooffset,
    const uint32_t* fromptr,
    int64_t length);
  EXPORT_SYMBOL ERROR
  awkward_NumpyArray_fill_touint16_fromuint64(
    uint16_t* toptr,
    int64_t tooffset,
    const uint64_t* fromptr,
    int64_t length);
  EXPORT_SYMBOL ERROR
  awkward_NumpyArray_fill_touint16_fromfloat32(
    uint16_t* toptr,
    int64_t tooffset,
    const float* fromptr,
    int64_t length);
  EXPORT_SYMBOL ERROR
  awkward_NumpyArray_fill_touint16_fromfloat64(
    uint16_t* toptr,
    int64_t tooffset,
    const double* fromptr,
    int64_t length);
  EXPORT_SYMBOL ERROR
  awkward_NumpyArray_fill_touint32_fromint8(
    uint32_t* toptr,
    int64_t tooffset,
    const int8_t* fromptr,
    int64_t length);
  EXPORT_SYMBOL ERROR
  awkward_NumpyArray_fill_touint32_fromint16(
    uint32_t* toptr,
    int64_t tooffset,
    const int16_t* fromptr,
    int64_t length);
  EXPORT_SYMBOL ERROR
  awkward_NumpyArray_fill_touint32_fromint32(
    uint32_t* toptr,
    int64_t tooffset,
    const int32_t* fromptr,
    int64_t length);
  EXPORT_SYMBOL ERROR
  awkward_NumpyArray_fill_touint32_fromint64(
    uint32_t* toptr,
    int64_t tooffset,
    const int64_t* fromptr,
    int64_t length);
  EXPORT_SYMBOL ERROR
  awkward_NumpyArray_fill_touint32_fromuint8(
    uint32_t* toptr,
    int64_t tooffset,
    const uint8_t* fromptr,
    int64_t length);
  EXPORT_SYMBOL ERROR
  awkward_NumpyArray_fill_touint32_fromuint16(
    uint32_t* toptr,
    int64_t tooffset,
    const uint16_t* fromptr,
    int64_t length);
  EXPORT_SYMBOL ERROR
  awkward_NumpyArray_fill_touint32_fromuint32(
    uint32_t* toptr,
    int64_t tooffset,
    const uint32_t* fromptr,
    int64_t length);
  EXPORT_SYMBOL ERROR
  awkward_NumpyArray_fill_touint32_fromuint64(
    uint32_t* toptr,
    int64_t tooffset,
    const uint64_t* fromptr,
    int64_t length);
  EXPORT_SYMBOL ERROR
  awkward_NumpyArray_fill_touint32_fromfloat32(
    uint32_t* toptr,
    int64_t tooffset,
    const float* fromptr,
    int64_t length);
  EXPORT_SYMBOL ERROR
  awkward_NumpyArray_fill_touint32_fromfloat64(
    uint32_t* toptr,
    int64_t tooffset,
    const double* fromptr,
    int64_t length);
  EXPORT_SYMBOL ERROR
  awkward_NumpyArray_fill_touint64_fromint8(
    uint64_t* toptr,
    int64_t tooffset,
    const int8_t* fromptr,
    int64_t length);
  EXPORT_SYMBOL ERROR
  awkward_NumpyArray_fill_touint64_fromint16(
    uint64_t* toptr,
    int64_t tooffset,
    const int16_t* fromptr,
    int64_t length);
  EXPORT_SYMBOL ERROR
  awkward_NumpyArray_fill_touint64_fromint32(
    uint64_t* toptr,
    int64_t tooffset,
    const int32_t* fromptr,
    int64_t length);
  EXPORT_SYMBOL ERROR
  awkward_NumpyArray_fill_touint64_fromint64(
    uint64_t* toptr,
    int64_t tooffset,
    const int64_t* fromptr,
    int64_t length);
  EXPORT_SYMBOL ERROR
  awkward_NumpyArray_fill_touint64_fromuint8(
    uint64_t* toptr,
    int64_t tooffset,
    const uint8_t* fromptr,
    int64_t length);
  EXPORT_SYMBOL ERROR
  awkward_NumpyArray_fill_touint64_fromuint16(
    uint64_t* toptr,
    int64_t tooffset,
    const uint16_t* fromptr,
    int64_t length);
  EXPORT_SYMBOL ERROR
  awkward_NumpyArray_fill_touint64_fromuint32(
    uint64_t* toptr,
    int64_t tooffset,
    const uint32_t* fromptr,
    int64_t length);
  EXPORT_SYMBOL ERROR
  awkward_NumpyArray_fill_touint64_fromuint64(
    uint64_t* toptr,
    int64_t tooffset,
    const uint64_t* fromptr,
    int64_t length);
  EXPORT_SYMBOL ERROR
  awkward_NumpyArray_fill_touint64_fromfloat32(
    uint64_t* toptr,
    int64_t tooffset,
    const float* fromptr,
    int64_t length);
  EXPORT_SYMBOL ERROR
  awkward_NumpyArray_fill_touint64_fromfloat64(
    uint64_t* toptr,
    int64_t tooffset,
    const double* fromptr,
    int64_t length);
  EXPORT_SYMBOL ERROR
  awkward_NumpyArray_fill_tofloat32_fromint8(
    float* toptr,
    int64_t tooffset,
    const int8_t* fromptr,
    int64_t length);
  EXPORT_SYMBOL ERROR
  awkward_NumpyArray_fill_tofloat32_fromint16(
    float* toptr,
    int64_t tooffset,
    const int16_t* fromptr,
    int64_t length);
  EXPORT_SYMBOL ERROR
  awkward_NumpyArray_fill_tofloat32_fromint32(
    float* toptr,
    int64_t tooffset,
    const int32_t* fromptr,
    int64_t length);
  EXPORT_SYMBOL ERROR
  awkward_NumpyArray_fill_tofloat32_fromint64(
    float* toptr,
    int64_t tooffset,
    const int64_t* fromptr,
    int64_t length);
  EXPORT_SYMBOL ERROR
  awkward_NumpyArray_fill_tofloat32_fromuint8(
    float* toptr,
    int64_t tooffset,
    const uint8_t* fromptr,
    int64_t length);
  EXPORT_SYMBOL ERROR
  awkward_NumpyArray_fill_tofloat32_fromuint16(
    float* toptr,
    int64_t tooffset,
    const uint16_t* fromptr,
    int64_t length);
  EXPORT_SYMBOL ERROR
  awkward_NumpyArray_fill_tofloat32_fromuint32(
    float* toptr,
    int64_t tooffset,
    const uint32_t* fromptr,
    int64_t length);
  EXPORT_SYMBOL ERROR
  awkward_NumpyArray_fill_tofloat32_fromuint64(
    float* toptr,
    int64_t tooffset,
    const uint64_t* fromptr,
    int64_t length);
  EXPORT_SYMBOL ERROR
  awkward_NumpyArray_fill_tofloat32_fromfloat32(
    float* toptr,
    int64_t tooffset,
    const float* fromptr,
    int64_t length);
  EXPORT_SYMBOL ERROR
  awkward_NumpyArray_fill_tofloat32_fromfloat64(
    float* toptr,
    int64_t tooffset,
    const double* fromptr,
    int64_t length);
  EXPORT_SYMBOL ERROR
  awkward_NumpyArray_fill_tofloat64_fromint8(
    double* toptr,
    int64_t tooffset,
    const int8_t* fromptr,
    int64_t length);
  EXPORT_SYMBOL ERROR
  awkward_NumpyArray_fill_tofloat64_fromint16(
    double* toptr,
    int64_t tooffset,
    const int16_t* fromptr,
    int64_t length);
  EXPORT_SYMBOL ERROR
  awkward_NumpyArray_fill_tofloat64_fromint32(
    double* toptr,
    int64_t tooffset,
    const int32_t* fromptr,
    int64_t length);
  EXPORT_SYMBOL ERROR
  awkward_NumpyArray_fill_tofloat64_fromint64(
    double* toptr,
    int64_t tooffset,
    const int64_t* fromptr,
    int64_t length);
  EXPORT_SYMBOL ERROR
  awkward_NumpyArray_fill_tofloat64_fromuint8(
    double* toptr,
    int64_t tooffset,
    const uint8_t* fromptr,
    int64_t length);
  EXPORT_SYMBOL ERROR
  awkward_NumpyArray_fill_tofloat64_fromuint16(
    double* toptr,
    int64_t tooffset,
    const uint16_t* fromptr,
    int64_t length);
  EXPORT_SYMBOL ERROR
  awkward_NumpyArray_fill_tofloat64_fromuint32(
    double* toptr,
    int64_t tooffset,
    const uint32_t* fromptr,
    int64_t length);
  EXPORT_SYMBOL ERROR
  awkward_NumpyArray_fill_tofloat64_fromuint64(
    double* toptr,
    int64_t tooffset,
    const uint64_t* fromptr,
    int64_t length);
  EXPORT_SYMBOL ERROR
  awkward_NumpyArray_fill_tofloat64_fromfloat32(
    double* toptr,
    int64_t tooffset,
    const float* fromptr,
    int64_t length);
  EXPORT_SYMBOL ERROR
  awkward_NumpyArray_fill_tofloat64_fromfloat64(
    double* toptr,
    int64_t tooffset,
    const double* fromptr,
    int64_t length);

  EXPORT_SYMBOL ERROR
  awkward_NumpyArray_fill_tocomplex64_frombool(
    float* toptr,
    int64_t tooffset,
    const bool* fromptr,
    int64_t length);
  EXPORT_SYMBOL ERROR
  awkward_NumpyArray_fill_tocomplex64_fromint8(
    float* toptr,
    int64_t tooffset,
    const int8_t* fromptr,
    int64_t length);
  EXPORT_SYMBOL ERROR
  awkward_NumpyArray_fill_tocomplex64_fromint16(
    float* toptr,
    int64_t tooffset,
    const int16_t* fromptr,
    int64_t length);
  EXPORT_SYMBOL ERROR
  awkward_NumpyArray_fill_tocomplex64_fromint32(
    float* toptr,
    int64_t tooffset,
    const int32_t* fromptr,
    int64_t length);
  EXPORT_SYMBOL ERROR
  awkward_NumpyArray_fill_tocomplex64_fromint64(
    float* toptr,
    int64_t tooffset,
    const int64_t* fromptr,
    int64_t length);
  EXPORT_SYMBOL ERROR
  awkward_NumpyArray_fill_tocomplex64_fromuint8(
    float* toptr,
    int64_t tooffset,
    const uint8_t* fromptr,
    int64_t length);
  EXPORT_SYMBOL ERROR
  awkward_NumpyArray_fill_tocomplex64_fromuint16(
    float* toptr,
    int64_t tooffset,
    const uint16_t* fromptr,
    int64_t length);
  EXPORT_SYMBOL ERROR
  awkward_NumpyArray_fill_tocomplex64_fromuint32(
    float* toptr,
    int64_t tooffset,
    const uint32_t* fromptr,
    int64_t length);
  EXPORT_SYMBOL ERROR
  awkward_NumpyArray_fill_tocomplex64_fromuint64(
    float* toptr,
    int64_t tooffset,
    const uint64_t* fromptr,
    int64_t length);
  EXPORT_SYMBOL ERROR
  awkward_NumpyArray_fill_tocomplex64_fromfloat32(
    float* toptr,
    int64_t tooffset,
    const float* fromptr,
    int64_t length);
  EXPORT_SYMBOL ERROR
  awkward_NumpyArray_fill_tocomplex64_fromfloat64(
    float* toptr,
    int64_t tooffset,
    const double* fromptr,
    int64_t length);
  EXPORT_SYMBOL ERROR
  awkward_NumpyArray_fill_tocomplex128_frombool(
    double* toptr,
    int64_t tooffset,
    const bool* fromptr,
    int64_t length);
  EXPORT_SYMBOL ERROR
  awkward_NumpyArray_fill_tocomplex128_fromint8(
    double* toptr,
    int64_t tooffset,
    const int8_t* fromptr,
    int64_t length);
  EXPORT_SYMBOL ERROR
  awkward_NumpyArray_fill_tocomplex128_fromint16(
    double* toptr,
    int64_t tooffset,
    const int16_t* fromptr,
    int64_t length);
  EXPORT_SYMBOL ERROR
  awkward_NumpyArray_fill_tocomplex128_fromint32(
    double* toptr,
    int64_t tooffset,
    const int32_t* fromptr,
    int64_t length);
  EXPORT_SYMBOL ERROR
  awkward_NumpyArray_fill_tocomplex128_fromint64(
    double* toptr,
    int64_t tooffset,
    const int64_t* fromptr,
    int64_t length);
  EXPORT_SYMBOL ERROR
  awkward_NumpyArray_fill_tocomplex128_fromuint8(
    double* toptr,
    int64_t tooffset,
    const uint8_t* fromptr,
    int64_t length);
  EXPORT_SYMBOL ERROR
  awkward_NumpyArray_fill_tocomplex128_fromuint16(
    double* toptr,
    int64_t tooffset,
    const uint16_t* fromptr,
    int64_t length);
  EXPORT_SYMBOL ERROR
  awkward_NumpyArray_fill_tocomplex128_fromuint32(
    double* toptr,
    int64_t tooffset,
    const uint32_t* fromptr,
    int64_t length);
  EXPORT_SYMBOL ERROR
  awkward_NumpyArray_fill_tocomplex128_fromuint64(
    double* toptr,
    int64_t tooffset,
    const uint64_t* fromptr,
    int64_t length);
  EXPORT_SYMBOL ERROR
  awkward_NumpyArray_fill_tocomplex128_fromfloat32(
    double* toptr,
    int64_t tooffset,
    const float* fromptr,
    int64_t length);
  EXPORT_SYMBOL ERROR
  awkward_NumpyArray_fill_tocomplex128_fromfloat64(
    double* toptr,
    int64_t tooffset,
    const double* fromptr,
    int64_t length);

  EXPORT_SYMBOL ERROR
  awkward_NumpyArray_fill_tobool_fromcomplex64(
    bool* toptr,
    int64_t tooffset,
    const float* fromptr,
    int64_t length);
  EXPORT_SYMBOL ERROR
  awkward_NumpyArray_fill_tobool_fromcomplex128(
    bool* toptr,
    int64_t tooffset,
    const double* fromptr,
    int64_t length);
  EXPORT_SYMBOL ERROR
  awkward_NumpyArray_fill_toint8_fromcomplex64(
    int8_t* toptr,
    int64_t tooffset,
    const float* fromptr,
    int64_t length);
  EXPORT_SYMBOL ERROR
  awkward_NumpyArray_fill_toint8_fromcomplex128(
    int8_t* toptr,
    int64_t tooffset,
    const double* fromptr,
    int64_t length);
  EXPORT_SYMBOL ERROR
  awkward_NumpyArray_fill_toint16_fromcomplex64(
    int16_t* toptr,
    int64_t tooffset,
    const float* fromptr,
    int64_t length);
  EXPORT_SYMBOL ERROR
  awkward_NumpyArray_fill_toint16_fromcomplex128(
    int16_t* toptr,
    int64_t tooffset,
    const double* fromptr,
    int64_t length);
  EXPORT_SYMBOL ERROR
  awkward_NumpyArray_fill_toint32_fromcomplex64(
    int32_t* toptr,
    int64_t tooffset,
    const float* fromptr,
    int64_t length);
  EXPORT_SYMBOL ERROR
  awkward_NumpyArray_fill_toint32_fromcomplex128(
    int32_t* toptr,
    int64_t tooffset,
    const double* fromptr,
    int64_t length);
  EXPORT_SYMBOL ERROR
  awkward_NumpyArray_fill_toint64_fromcomplex64(
    int64_t* toptr,
    int64_t tooffset,
    const float* fromptr,
    int64_t length);
  EXPORT_SYMBOL ERROR
  awkward_NumpyArray_fill_toint64_fromcomplex128(
    int64_t* toptr,
    int64_t tooffset,
    const double* fromptr,
    int64_t length);
  EXPORT_SYMBOL ERROR
  awkward_NumpyArray_fill_touint8_fromcomplex64(
    uint8_t* toptr,
    int64_t tooffset,
    const float* fromptr,
    int64_t length);
  EXPORT_SYMBOL ERROR
  awkward_NumpyArray_fill_touint8_fromcomplex128(
    uint8_t* toptr,
    int64_t tooffset,
    const double* fromptr,
    int64_t length);
  EXPORT_SYMBOL ERROR
  awkward_NumpyArray_fill_touint16_fromcomplex64(
    uint16_t* toptr,
    int64_t tooffset,
    const float* fromptr,
    int64_t length);
  EXPORT_SYMBOL ERROR
  awkward_NumpyArray_fill_touint16_fromcomplex128(
    uint16_t* toptr,
    int64_t tooffset,
    const double* fromptr,
    int64_t length);
  EXPORT_SYMBOL ERROR
  awkward_NumpyArray_fill_touint32_fromcomplex64(
    uint32_t* toptr,
    int64_t tooffset,
    const float* fromptr,
    int64_t length);
  EXPORT_SYMBOL ERROR
  awkward_NumpyArray_fill_touint32_fromcomplex128(
    uint32_t* toptr,
    int64_t tooffset,
    const double* fromptr,
    int64_t length);
  EXPORT_SYMBOL ERROR
  awkward_NumpyArray_fill_touint64_fromcomplex64(
    uint64_t* toptr,
    int64_t tooffset,
    const float* fromptr,
    int64_t length);
  EXPORT_SYMBOL ERROR
  awkward_NumpyArray_fill_touint64_fromcomplex128(
    uint64_t* toptr,
    int64_t tooffset,
    const double* fromptr,
    int64_t length);
  EXPORT_SYMBOL ERROR
  awkward_NumpyArray_fill_tofloat32_fromcomplex64(
    float* toptr,
    int64_t tooffset,
    const float* fromptr,
    int64_t length);
  EXPORT_SYMBOL ERROR
  awkward_NumpyArray_fill_tofloat32_fromcomplex128(
    float* toptr,
    int64_t tooffset,
    const double* fromptr,
    int64_t length);
  EXPORT_SYMBOL ERROR
  awkward_NumpyArray_fill_tofloat64_fromcomplex64(
    double* toptr,
    int64_t tooffset,
    const float* fromptr,
    int64_t length);
  EXPORT_SYMBOL ERROR
  awkward_NumpyArray_fill_tofloat64_fromcomplex128(
    double* toptr,
    int64_t tooffset,
    const double* fromptr,
    int64_t length);

  EXPORT_SYMBOL ERROR
  awkward_NumpyArray_fill_tobool_frombool(
    bool* toptr,
    int64_t tooffset,
    const bool* fromptr,
    int64_t length);
  EXPORT_SYMBOL ERROR
  awkward_NumpyArray_fill_toint8_frombool(
    int8_t* toptr,
    int64_t tooffset,
    const bool* fromptr,
    int64_t length);
  EXPORT_SYMBOL ERROR
  awkward_NumpyArray_fill_toint16_frombool(
    int16_t* toptr,
    int64_t tooffset,
    const bool* fromptr,
    int64_t length);
  EXPORT_SYMBOL ERROR
  awkward_NumpyArray_fill_toint32_frombool(
    int32_t* toptr,
    int64_t tooffset,
    const bool* fromptr,
    int64_t length);
  EXPORT_SYMBOL ERROR
  awkward_NumpyArray_fill_toint64_frombool(
    int64_t* toptr,
    int64_t tooffset,
    const bool* fromptr,
    int64_t length);
  EXPORT_SYMBOL ERROR
  awkward_NumpyArray_fill_touint8_frombool(
    uint8_t* toptr,
    int64_t tooffset,
    const bool* fromptr,
    int64_t length);
  EXPORT_SYMBOL ERROR
  awkward_NumpyArray_fill_touint16_frombool(
    uint16_t* toptr,
    int64_t tooffset,
    const bool* fromptr,
    int64_t length);
  EXPORT_SYMBOL ERROR
  awkward_NumpyArray_fill_touint32_frombool(
    uint32_t* toptr,
    int64_t tooffset,
    const bool* fromptr,
    int64_t length);
  EXPORT_SYMBOL ERROR
  awkward_NumpyArray_fill_touint64_frombool(
    uint64_t* toptr,
    int64_t tooffset,
    const bool* fromptr,
    int64_t length);
  EXPORT_SYMBOL ERROR
  awkward_NumpyArray_fill_tofloat32_frombool(
    float* toptr,
    int64_t tooffset,
    const bool* fromptr,
    int64_t length);
  EXPORT_SYMBOL ERROR
  awkward_NumpyArray_fill_tofloat64_frombool(
    double* toptr,
    int64_t tooffset,
    const bool* fromptr,
    int64_t length);

  EXPORT_SYMBOL ERROR
  awkward_NumpyArray_fill_tobool_fromint8(
    bool* toptr,
    int64_t tooffset,
    const int8_t* fromptr,
    int64_t length);
  EXPORT_SYMBOL ERROR
  awkward_NumpyArray_fill_tobool_fromint16(
    bool* toptr,
    int64_t tooffset,
    const int16_t* fromptr,
    int64_t length);
  EXPORT_SYMBOL ERROR
  awkward_NumpyArray_fill_tobool_fromint32(
    bool* toptr,
    int64_t tooffset,
    const int32_t* fromptr,
    int64_t length);
  EXPORT_SYMBOL ERROR
  awkward_NumpyArray_fill_tobool_fromint64(
    bool* toptr,
    int64_t tooffset,
    const int64_t* fromptr,
    int64_t length);
  EXPORT_SYMBOL ERROR
  awkward_NumpyArray_fill_tobool_fromuint8(
    bool* toptr,
    int64_t tooffset,
    const uint8_t* fromptr,
    int64_t length);
  EXPORT_SYMBOL ERROR
  awkward_NumpyArray_fill_tobool_fromuint16(
    bool* toptr,
    int64_t tooffset,
    const uint16_t* fromptr,
    int64_t length);
  EXPORT_SYMBOL ERROR
  awkward_NumpyArray_fill_tobool_fromuint32(
    bool* toptr,
    int64_t tooffset,
    const uint32_t* fromptr,
    int64_t length);
  EXPORT_SYMBOL ERROR
  awkward_NumpyArray_fill_tobool_fromuint64(
    bool* toptr,
    int64_t tooffset,
    const uint64_t* fromptr,
    int64_t length);
  EXPORT_SYMBOL ERROR
  awkward_NumpyArray_fill_tobool_fromfloat32(
    bool* toptr,
    int64_t tooffset,
    const float* fromptr,
    int64_t length);
  EXPORT_SYMBOL ERROR
  awkward_NumpyArray_fill_tobool_fromfloat64(
    bool* toptr,
    int64_t tooffset,
    const double* fromptr,
    int64_t length);

  EXPORT_SYMBOL ERROR
  awkward_NumpyArray_fill_scaled_toint64_fromint64(
    int64_t* toptr,
    int64_t tooffset,
    const int64_t* fromptr,
    int64_t length,
    double scale);

  EXPORT_SYMBOL ERROR
  awkward_NumpyArray_rearrange_shifted_toint64_fromint64(
    int64_t* toptr,
    const int64_t* fromshifts,
    int64_t length,
    const int64_t* fromoffsets,
    int64_t offsetslength,
    const int64_t* fromparents,
    int64_t parentslength,
    const int64_t* fromstarts,
    int64_t startslength);

  EXPORT_SYMBOL ERROR
  awkward_NumpyArray_getitem_boolean_nonzero_64(
    int64_t* toptr,
    const int8_t* fromptr,
    int64_t length,
    int64_t stride);

  EXPORT_SYMBOL ERROR
  awkward_NumpyArray_getitem_boolean_numtrue(
    int64_t* numtrue,
    const int8_t* fromptr,
    int64_t length,
    int64_t stride);

  EXPORT_SYMBOL ERROR
  awkward_NumpyArray_getitem_next_array_64(
    int64_t* nextcarryptr,
    int64_t* nextadvancedptr,
    const int64_t* carryptr,
    const int64_t* flatheadptr,
    int64_t lencarry,
    int64_t lenflathead,
    int64_t skip);

  EXPORT_SYMBOL ERROR
  awkward_NumpyArray_getitem_next_array_advanced_64(
    int64_t* nextcarryptr,
    const int64_t* carryptr,
    const int64_t* advancedptr,
    const int64_t* flatheadptr,
    int64_t lencarry,
    int64_t skip);

  EXPORT_SYMBOL ERROR
  awkward_NumpyArray_getitem_next_at_64(
    int64_t* nextcarryptr,
    const int64_t* carryptr,
    int64_t lencarry,
    int64_t skip,
    int64_t at);

  EXPORT_SYMBOL ERROR
  awkward_NumpyArray_getitem_next_null_64(
    uint8_t* toptr,
    const uint8_t* fromptr,
    int64_t len,
    int64_t stride,
    const int64_t* pos);

  EXPORT_SYMBOL ERROR
  awkward_NumpyArray_getitem_next_range_64(
    int64_t* nextcarryptr,
    const int64_t* carryptr,
    int64_t lencarry,
    int64_t lenhead,
    int64_t skip,
    int64_t start,
    int64_t step);

  EXPORT_SYMBOL ERROR
  awkward_NumpyArray_getitem_next_range_advanced_64(
    int64_t* nextcarryptr,
    int64_t* nextadvancedptr,
    const int64_t* carryptr,
    const int64_t* advancedptr,
    int64_t lencarry,
    int64_t lenhead,
    int64_t skip,
    int64_t start,
    int64_t step);

  EXPORT_SYMBOL ERROR
  awkward_NumpyArray_reduce_adjust_starts_64(
    int64_t* toptr,
    int64_t outlength,
    const int64_t* parents,
    const int64_t* starts);

  EXPORT_SYMBOL ERROR
  awkward_NumpyArray_reduce_adjust_starts_shifts_64(
    int64_t* toptr,
    int64_t outlength,
    const int64_t* parents,
    const int64_t* starts,
    const int64_t* shifts);

  EXPORT_SYMBOL ERROR
  awkward_NumpyArray_reduce_mask_ByteMaskedArray_64(
    int8_t* toptr,
    const int64_t* parents,
    int64_t lenparents,
    int64_t outlength);

  EXPORT_SYMBOL ERROR
  awkward_ListOffsetArray_argsort_strings(
    int64_t* tocarry,
    const int64_t* fromparents,
    int64_t length,
    const uint8_t* stringdata,
    const int64_t* stringstarts,
    const int64_t* stringstops,
    bool is_stable,
    bool is_ascending,
    bool is_local);

  EXPORT_SYMBOL ERROR
  awkward_NumpyArray_sort_asstrings_uint8(
    uint8_t* toptr,
    const uint8_t* fromptr,
    const int64_t* offsets,
    int64_t offsetslength,
    int64_t* outoffsets,
    bool ascending,
    bool stable);

  EXPORT_SYMBOL ERROR
  awkward_NumpyArray_unique_strings_uint8(
    uint8_t* toptr,
    const int64_t* offsets,
    int64_t offsetslength,
    int64_t* outoffsets,
    int64_t* tolength);

  EXPORT_SYMBOL ERROR
  awkward_NumpyArray_subrange_equal_bool(
    bool* tmpptr,
    const int64_t* fromstarts,
    const int64_t* fromstops,
    int64_t length,
    bool* toequal);
  EXPORT_SYMBOL ERROR
  awkward_NumpyArray_subrange_equal_int8(
    int8_t* tmpptr,
    const int64_t* fromstarts,
    const int64_t* fromstops,
    int64_t length,
    bool* toequal);
  EXPORT_SYMBOL ERROR
  awkward_NumpyArray_subrange_equal_int16(
    int16_t* tmpptr,
    const int64_t* fromstarts,
    const int64_t* fromstops,
    int64_t length,
    bool* toequal);
  EXPORT_SYMBOL ERROR
  awkward_NumpyArray_subrange_equal_int32(
    int32_t* tmpptr,
    const int64_t* fromstarts,
    const int64_t* fromstops,
    int64_t length,
    bool* toequal);
  EXPORT_SYMBOL ERROR
  awkward_NumpyArray_subrange_equal_int64(
    int64_t* tmpptr,
    const int64_t* fromstarts,
    const int64_t* fromstops,
    int64_t length,
    bool* toequal);
  EXPORT_SYMBOL ERROR
  awkward_NumpyArray_subrange_equal_uint8(
    uint8_t* tmpptr,
    const int64_t* fromstarts,
    const int64_t* fromstops,
    int64_t length,
    bool* toequal);
  EXPORT_SYMBOL ERROR
  awkward_NumpyArray_subrange_equal_uint16(
    uint16_t* tmpptr,
    const int64_t* fromstarts,
    const int64_t* fromstops,
    int64_t length,
    bool* toequal);
  EXPORT_SYMBOL ERROR
  awkward_NumpyArray_subrange_equal_uint32(
    uint32_t* tmpptr,
    const int64_t* fromstarts,
    const int64_t* fromstops,
    int64_t length,
    bool* toequal);
  EXPORT_SYMBOL ERROR
  awkward_NumpyArray_subrange_equal_uint64(
    uint64_t* tmpptr,
    const int64_t* fromstarts,
    const int64_t* fromstops,
    int64_t length,
    bool* toequal);
  EXPORT_SYMBOL ERROR
  awkward_NumpyArray_subrange_equal_float32(
    float* tmpptr,
    const int64_t* fromstarts,
    const int64_t* fromstops,
    int64_t length,
    bool* toequal);
  EXPORT_SYMBOL ERROR
  awkward_NumpyArray_subrange_equal_float64(
    double* tmpptr,
    const int64_t* fromstarts,
    const int64_t* fromstops,
    int64_t length,
    bool* toequal);

  EXPORT_SYMBOL ERROR
  awkward_RegularArray_broadcast_tooffsets_64(
    const int64_t* fromoffsets,
    int64_t offsetslength,
    int64_t size);

  EXPORT_SYMBOL ERROR
  awkward_RegularArray_broadcast_tooffsets_size1_64(
    int64_t* tocarry,
    const int64_t* fromoffsets,
    int64_t offsetslength);

  EXPORT_SYMBOL ERROR
  awkward_RegularArray_combinations_64(
    int64_t** tocarry,
    int64_t* toindex,
    int64_t* fromindex,
    int64_t n,
    bool replacement,
    int64_t size,
    int64_t length);

  EXPORT_SYMBOL ERROR
  awkward_RegularArray_compact_offsets64(
    int64_t* tooffsets,
    int64_t length,
    int64_t size);

  EXPORT_SYMBOL ERROR
  awkward_RegularArray_getitem_carry_64(
    int64_t* tocarry,
    const int64_t* fromcarry,
    int64_t lencarry,
    int64_t size);

  EXPORT_SYMBOL ERROR
  awkward_RegularArray_getitem_jagged_expand_64(
    int64_t* multistarts,
    int64_t* multistops,
    const int64_t* singleoffsets,
    int64_t regularsize,
    int64_t regularlength);

  EXPORT_SYMBOL ERROR
  awkward_RegularArray_getitem_next_array_64(
    int64_t* tocarry,
    int64_t* toadvanced,
    const int64_t* fromarray,
    int64_t length,
    int64_t lenarray,
    int64_t size);

  EXPORT_SYMBOL ERROR
  awkward_RegularArray_getitem_next_array_advanced_64(
    int64_t* tocarry,
    int64_t* toadvanced,
    const int64_t* fromadvanced,
    const int64_t* fromarray,
    int64_t length,
    int64_t lenarray,
    int64_t size);

  EXPORT_SYMBOL ERROR
  awkward_RegularArray_getitem_next_array_regularize_64(
    int64_t* toarray,
    const int64_t* fromarray,
    int64_t lenarray,
    int64_t size);

  EXPORT_SYMBOL ERROR
  awkward_RegularArray_getitem_next_at_64(
    int64_t* tocarry,
    int64_t at,
    int64_t length,
    int64_t size);

  EXPORT_SYMBOL ERROR
  awkward_RegularArray_getitem_next_range_64(
    int64_t* tocarry,
    int64_t regular_start,
    int64_t step,
    int64_t length,
    int64_t size,
    int64_t nextsize);

  EXPORT_SYMBOL ERROR
  awkward_RegularArray_getitem_next_range_spreadadvanced_64(
    int64_t* toadvanced,
    const int64_t* fromadvanced,
    int64_t length,
    int64_t nextsize);

  EXPORT_SYMBOL ERROR
  awkward_RegularArray_localindex_64(
    int64_t* toindex,
    int64_t size,
    int64_t length);

  EXPORT_SYMBOL ERROR
  awkward_RegularArray_num_64(
    int64_t* tonum,
    int64_t size,
    int64_t length);

  EXPORT_SYMBOL ERROR
  awkward_RegularArray_rpad_and_clip_axis1_64(
    int64_t* toindex,
    int64_t target,
    int64_t size,
    int64_t length);

  EXPORT_SYMBOL ERROR
  awkward_SliceVarNewAxis_to_SliceJagged64(
    int64_t* tocarry,
    const int64_t* fromoffsets,
    int64_t length);

  EXPORT_SYMBOL ERROR
  awkward_UnionArray_fillindex_to64_from32(
    int64_t* toindex,
    int64_t toindexoffset,
    const int32_t* fromindex,
    int64_t length);
  EXPORT_SYMBOL ERROR
  awkward_UnionArray_fillindex_to64_from64(
    int64_t* toindex,
    int64_t toindexoffset,
    const int64_t* fromindex,
    int64_t length);
  EXPORT_SYMBOL ERROR
  awkward_UnionArray_fillindex_to64_fromU32(
    int64_t* toindex,
    int64_t toindexoffset,
    const uint32_t* fromindex,
    int64_t length);

  EXPORT_SYMBOL ERROR
  awkward_UnionArray_fillindex_to64_count(
    int64_t* toindex,
    int64_t toindexoffset,
    int64_t length);

  EXPORT_SYMBOL ERROR
  awkward_UnionArray_fillna_from32_to64(
    int64_t* toindex,
    const int32_t* fromindex,
    int64_t length);
  EXPORT_SYMBOL ERROR
  awkward_UnionArray_fillna_from64_to64(
    int64_t* toindex,
    const int64_t* fromindex,
    int64_t length);
  EXPORT_SYMBOL ERROR
  awkward_UnionArray_fillna_fromU32_to64(
    int64_t* toindex,
    const uint32_t* fromindex,
    int64_t length);

  EXPORT_SYMBOL ERROR
  awkward_UnionArray_filltags_to8_from8(
    int8_t* totags,
    int64_t totagsoffset,
    const int8_t* fromtags,
    int64_t length,
    int64_t base);

  EXPORT_SYMBOL ERROR
  awkward_UnionArray_filltags_to8_const(
    int8_t* totags,
    int64_t totagsoffset,
    int64_t length,
    int64_t base);

  EXPORT_SYMBOL ERROR
  awkward_UnionArray32_flatten_combine_64(
    int8_t* totags,
    int64_t* toindex,
    int64_t* tooffsets,
    const int8_t* fromtags,
    const int32_t* fromindex,
    int64_t length,
    int64_t** offsetsraws);
  EXPORT_SYMBOL ERROR
  awkward_UnionArray64_flatten_combine_64(
    int8_t* totags,
    int64_t* toindex,
    int64_t* tooffsets,
    const int8_t* fromtags,
    const int64_t* fromindex,
    int64_t length,
    int64_t** offsetsraws);
  EXPORT_SYMBOL ERROR
  awkward_UnionArrayU32_flatten_combine_64(
    int8_t* totags,
    int64_t* toindex,
    int64_t* tooffsets,
    const int8_t* fromtags,
    const uint32_t* fromindex,
    int64_t length,
    int64_t** offsetsraws);

  EXPORT_SYMBOL ERROR
  awkward_UnionArray32_flatten_length_64(
    int64_t* total_length,
    const int8_t* fromtags,
    const int32_t* fromindex,
    int64_t length,
    int64_t** offsetsraws);
  EXPORT_SYMBOL ERROR
  awkward_UnionArray64_flatten_length_64(
    int64_t* total_length,
    const int8_t* fromtags,
    const int64_t* fromindex,
    int64_t length,
    int64_t** offsetsraws);
  EXPORT_SYMBOL ERROR
  awkward_UnionArrayU32_flatten_length_64(
    int64_t* total_length,
    const int8_t* fromtags,
    const uint32_t* fromindex,
    int64_t length,
    int64_t** offsetsraws);

  EXPORT_SYMBOL ERROR
  awkward_UnionArray8_32_nestedfill_tags_index_64(
    int8_t* totags,
    int32_t* toindex,
    int64_t* tmpstarts,
    int8_t tag,
    const int64_t* fromcounts,
    int64_t length);
  EXPORT_SYMBOL ERROR
  awkward_UnionArray8_64_nestedfill_tags_index_64(
    int8_t* totags,
    int64_t* toindex,
    int64_t* tmpstarts,
    int8_t tag,
    const int64_t* fromcounts,
    int64_t length);
  EXPORT_SYMBOL ERROR
  awkward_UnionArray8_U32_nestedfill_tags_index_64(
    int8_t* totags,
    uint32_t* toindex,
    int64_t* tmpstarts,
    int8_t tag,
    const int64_t* fromcounts,
    int64_t length);

  EXPORT_SYMBOL ERROR
  awkward_UnionArray8_32_project_64(
    int64_t* lenout,
    int64_t* tocarry,
    const int8_t* fromtags,
    const int32_t* fromindex,
    int64_t length,
    int64_t which);
  EXPORT_SYMBOL ERROR
  awkward_UnionArray8_64_project_64(
    int64_t* lenout,
    int64_t* tocarry,
    const int8_t* fromtags,
    const int64_t* fromindex,
    int64_t length,
    int64_t which);
  EXPORT_SYMBOL ERROR
  awkward_UnionArray8_U32_project_64(
    int64_t* lenout,
    int64_t* tocarry,
    const int8_t* fromtags,
    const uint32_t* fromindex,
    int64_t length,
    int64_t which);

  EXPORT_SYMBOL ERROR
  awkward_UnionArray8_32_regular_index(
    int32_t* toindex,
    int32_t* current,
    int64_t size,
    const int8_t* fromtags,
    int64_t length);
  EXPORT_SYMBOL ERROR
  awkward_UnionArray8_64_regular_index(
    int64_t* toindex,
    int64_t* current,
    int64_t size,
    const int8_t* fromtags,
    int64_t length);
  EXPORT_SYMBOL ERROR
  awkward_UnionArray8_U32_regular_index(
    uint32_t* toindex,
    uint32_t* current,
    int64_t size,
    const int8_t* fromtags,
    int64_t length);

  EXPORT_SYMBOL ERROR
  awkward_UnionArray8_regular_index_getsize(
    int64_t* size,
    const int8_t* fromtags,
    int64_t length);

  EXPORT_SYMBOL ERROR
  awkward_UnionArray8_32_simplify8_32_to8_64(
    int8_t* totags,
    int64_t* toindex,
    const int8_t* outertags,
    const int32_t* outerindex,
    const int8_t* innertags,
    const int32_t* innerindex,
    int64_t towhich,
    int64_t innerwhich,
    int64_t outerwhich,
    int64_t length,
    int64_t base);
  EXPORT_SYMBOL ERROR
  awkward_UnionArray8_32_simplify8_64_to8_64(
    int8_t* totags,
    int64_t* toindex,
    const int8_t* outertags,
    const int32_t* outerindex,
    const int8_t* innertags,
    const int64_t* innerindex,
    int64_t towhich,
    int64_t innerwhich,
    int64_t outerwhich,
    int64_t length,
    int64_t base);
  EXPORT_SYMBOL ERROR
  awkward_UnionArray8_32_simplify8_U32_to8_64(
    int8_t* totags,
    int64_t* toindex,
    const int8_t* outertags,
    const int32_t* outerindex,
    const int8_t* innertags,
    const uint32_t* innerindex,
    int64_t towhich,
    int64_t innerwhich,
    int64_t outerwhich,
    int64_t length,
    int64_t base);
  EXPORT_SYMBOL ERROR
  awkward_UnionArray8_64_simplify8_32_to8_64(
    int8_t* totags,
    int64_t* toindex,
    const int8_t* outertags,
    const int64_t* outerindex,
    const int8_t* innertags,
    const int32_t* innerindex,
    int64_t towhich,
    int64_t innerwhich,
    int64_t outerwhich,
    int64_t length,
    int64_t base);
  EXPORT_SYMBOL ERROR
  awkward_UnionArray8_64_simplify8_64_to8_64(
    int8_t* totags,
    int64_t* toindex,
    const int8_t* outertags,
    const int64_t* outerindex,
    const int8_t* innertags,
    const int64_t* innerindex,
    int64_t towhich,
    int64_t innerwhich,
    int64_t outerwhich,
    int64_t length,
    int64_t base);
  EXPORT_SYMBOL ERROR
  awkward_UnionArray8_64_simplify8_U32_to8_64(
    int8_t* totags,
    int64_t* toindex,
    const int8_t* outertags,
    const int64_t* outerindex,
    const int8_t* innertags,
    const uint32_t* innerindex,
    int64_t towhich,
    int64_t innerwhich,
    int64_t outerwhich,
    int64_t length,
    int64_t base);
  EXPORT_SYMBOL ERROR
  awkward_UnionArray8_U32_simplify8_32_to8_64(
    int8_t* totags,
    int64_t* toindex,
    const int8_t* outertags,
    const uint32_t* outerindex,
    const int8_t* innertags,
    const int32_t* innerindex,
    int64_t towhich,
    int64_t innerwhich,
    int64_t outerwhich,
    int64_t length,
    int64_t base);
  EXPORT_SYMBOL ERROR
  awkward_UnionArray8_U32_simplify8_64_to8_64(
    int8_t* totags,
    int64_t* toindex,
    const int8_t* outertags,
    const uint32_t* outerindex,
    const int8_t* innertags,
    const int64_t* innerindex,
    int64_t towhich,
    int64_t innerwhich,
    int64_t outerwhich,
    int64_t length,
    int64_t base);
  EXPORT_SYMBOL ERROR
  awkward_UnionArray8_U32_simplify8_U32_to8_64(
    int8_t* totags,
    int64_t* toindex,
    const int8_t* outertags,
    const uint32_t* outerindex,
    const int8_t* innertags,
    const uint32_t* innerindex,
    int64_t towhich,
    int64_t innerwhich,
    int64_t outerwhich,
    int64_t length,
    int64_t base);

  EXPORT_SYMBOL ERROR
  awkward_UnionArray8_32_simplify_one_to8_64(
    int8_t* totags,
    int64_t* toindex,
    const int8_t* fromtags,
    const int32_t* fromindex,
    int64_t towhich,
    int64_t fromwhich,
    int64_t length,
    int64_t base);
  EXPORT_SYMBOL ERROR
  awkward_UnionArray8_64_simplify_one_to8_64(
    int8_t* totags,
    int64_t* toindex,
    const int8_t* fromtags,
    const int64_t* fromindex,
    int64_t towhich,
    int64_t fromwhich,
    int64_t length,
    int64_t base);
  EXPORT_SYMBOL ERROR
  awkward_UnionArray8_U32_simplify_one_to8_64(
    int8_t* totags,
    int64_t* toindex,
    const int8_t* fromtags,
    const uint32_t* fromindex,
    int64_t towhich,
    int64_t fromwhich,
    int64_t length,
    int64_t base);

  EXPORT_SYMBOL ERROR
  awkward_UnionArray8_32_validity(
    const int8_t* tags,
    const int32_t* index,
    int64_t length,
    int64_t numcontents,
    const int64_t* lencontents);
  EXPORT_SYMBOL ERROR
  awkward_UnionArray8_64_validity(
    const int8_t* tags,
    const int64_t* index,
    int64_t length,
    int64_t numcontents,
    const int64_t* lencontents);
  EXPORT_SYMBOL ERROR
  awkward_UnionArray8_U32_validity(
    const int8_t* tags,
    const uint32_t* index,
    int64_t length,
    int64_t numcontents,
    const int64_t* lencontents);

  EXPORT_SYMBOL ERROR
  awkward_argsort_bool(
    int64_t* toptr,
    const bool* fromptr,
    int64_t length,
    const int64_t* offsets,
    int64_t offsetslength,
    bool ascending,
    bool stable);
  EXPORT_SYMBOL ERROR
  awkward_argsort_int8(
    int64_t* toptr,
    const int8_t* fromptr,
    int64_t length,
    const int64_t* offsets,
    int64_t offsetslength,
    bool ascending,
    bool stable);
  EXPORT_SYMBOL ERROR
  awkward_argsort_int16(
    int64_t* toptr,
    const int16_t* fromptr,
    int64_t length,
    const int64_t* offsets,
    int64_t offsetslength,
    bool ascending,
    bool stable);
  EXPORT_SYMBOL ERROR
  awkward_argsort_int32(
    int64_t* toptr,
    const int32_t* fromptr,
    int64_t length,
    const int64_t* offsets,
    int64_t offsetslength,
    bool ascending,
    bool stable);
  EXPORT_SYMBOL ERROR
  awkward_argsort_int64(
    int64_t* toptr,
    const int64_t* fromptr,
    int64_t length,
    const int64_t* offsets,
    int64_t offsetslength,
    bool ascending,
    bool stable);
  EXPORT_SYMBOL ERROR
  awkward_argsort_uint8(
    int64_t* toptr,
    const uint8_t* fromptr,
    int64_t length,
    const int64_t* offsets,
    int64_t offsetslength,
    bool ascending,
    bool stable);
  EXPORT_SYMBOL ERROR
  awkward_argsort_uint16(
    int64_t* toptr,
    const uint16_t* fromptr,
    int64_t length,
    const int64_t* offsets,
    int64_t offsetslength,
    bool ascending,
    bool stable);
  EXPORT_SYMBOL ERROR
  awkward_argsort_uint32(
    int64_t* toptr,
    const uint32_t* fromptr,
    int64_t length,
    const int64_t* offsets,
    int64_t offsetslength,
    bool ascending,
    bool stable);
  EXPORT_SYMBOL ERROR
  awkward_argsort_uint64(
    int64_t* toptr,
    const uint64_t* fromptr,
    int64_t length,
    const int64_t* offsets,
    int64_t offsetslength,
    bool ascending,
    bool stable);
  EXPORT_SYMBOL ERROR
  awkward_argsort_float32(
    int64_t* toptr,
    const float* fromptr,
    int64_t length,
    const int64_t* offsets,
    int64_t offsetslength,
    bool ascending,
    bool stable);
  EXPORT_SYMBOL ERROR
  awkward_argsort_float64(
    int64_t* toptr,
    const double* fromptr,
    int64_t length,
    const int64_t* offsets,
    int64_t offsetslength,
    bool ascending,
    bool stable);

  EXPORT_SYMBOL ERROR
  awkward_quick_argsort_bool(
    int64_t* toptr,
    const bool* fromptr,
    int64_t length,
    int64_t* tmpbeg,
    int64_t* tmpend,
    const int64_t* offsets,
    int64_t offsetslength,
    bool ascending,
    bool stable,
    int64_t maxlevels);
  EXPORT_SYMBOL ERROR
  awkward_quick_argsort_int8(
    int64_t* toptr,
    const int8_t* fromptr,
    int64_t length,
    int64_t* tmpbeg,
    int64_t* tmpend,
    const int64_t* offsets,
    int64_t offsetslength,
    bool ascending,
    bool stable,
    int64_t maxlevels);
  EXPORT_SYMBOL ERROR
  awkward_quick_argsort_int16(
    int64_t* toptr,
    const int16_t* fromptr,
    int64_t length,
    int64_t* tmpbeg,
    int64_t* tmpend,
    const int64_t* offsets,
    int64_t offsetslength,
    bool ascending,
    bool stable,
    int64_t maxlevels);
  EXPORT_SYMBOL ERROR
  awkward_quick_argsort_int32(
    int64_t* toptr,
    const int32_t* fromptr,
    int64_t length,
    int64_t* tmpbeg,
    int64_t* tmpend,
    const int64_t* offsets,
    int64_t offsetslength,
    bool ascending,
    bool stable,
    int64_t maxlevels);
  EXPORT_SYMBOL ERROR
  awkward_quick_argsort_int64(
    int64_t* toptr,
    const int64_t* fromptr,
    int64_t length,
    int64_t* tmpbeg,
    int64_t* tmpend,
    const int64_t* offsets,
    int64_t offsetslength,
    bool ascending,
    bool stable,
    int64_t maxlevels);
  EXPORT_SYMBOL ERROR
  awkward_quick_argsort_uint8(
    int64_t* toptr,
    const uint8_t* fromptr,
    int64_t length,
    int64_t* tmpbeg,
    int64_t* tmpend,
    const int64_t* offsets,
    int64_t offsetslength,
    bool ascending,
    bool stable,
    int64_t maxlevels);
  EXPORT_SYMBOL ERROR
  awkward_quick_argsort_uint16(
    int64_t* toptr,
    const uint16_t* fromptr,
    int64_t length,
    int64_t* tmpbeg,
    int64_t* tmpend,
    const int64_t* offsets,
    int64_t offsetslength,
    bool ascending,
    bool stable,
    int64_t maxlevels);
  EXPORT_SYMBOL ERROR
  awkward_quick_argsort_uint32(
    int64_t* toptr,
    const uint32_t* fromptr,
    int64_t length,
    int64_t* tmpbeg,
    int64_t* tmpend,
    const int64_t* offsets,
    int64_t offsetslength,
    bool ascending,
    bool stable,
    int64_t maxlevels);
  EXPORT_SYMBOL ERROR
  awkward_quick_argsort_uint64(
    int64_t* toptr,
    const uint64_t* fromptr,
    int64_t length,
    int64_t* tmpbeg,
    int64_t* tmpend,
    const int64_t* offsets,
    int64_t offsetslength,
    bool ascending,
    bool stable,
    int64_t maxlevels);
  EXPORT_SYMBOL ERROR
  awkward_quick_argsort_float32(
    int64_t* toptr,
    const float* fromptr,
    int64_t length,
    int64_t* tmpbeg,
    int64_t* tmpend,
    const int64_t* offsets,
    int64_t offsetslength,
    bool ascending,
    bool stable,
    int64_t maxlevels);
  EXPORT_SYMBOL ERROR
  awkward_quick_argsort_float64(
    int64_t* toptr,
    const double* fromptr,
    int64_t length,
    int64_t* tmpbeg,
    int64_t* tmpend,
    const int64_t* offsets,
    int64_t offsetslength,
    bool ascending,
    bool stable,
    int64_t maxlevels);

  EXPORT_SYMBOL ERROR
  awkward_carry_arange32(
    int32_t* toptr,
    int64_t length);
  EXPORT_SYMBOL ERROR
  awkward_carry_arange64(
    int64_t* toptr,
    int64_t length);
  EXPORT_SYMBOL ERROR
  awkward_carry_arangeU32(
    uint32_t* toptr,
    int64_t length);

  EXPORT_SYMBOL ERROR
  awkward_carry_SliceJagged64_offsets(
    int64_t* tooffsets,
    const int64_t* fromoffsets,
    const int64_t* fromcarry,
    int64_t carrylen);

  EXPORT_SYMBOL ERROR
  awkward_carry_SliceJagged64_nextcarry(
    int64_t* tocarry,
    const int64_t* fromoffsets,
    const int64_t* fromcarry,
    int64_t carrylen);

  EXPORT_SYMBOL ERROR
  awkward_carry_SliceMissing64_outindex(
    int64_t* toindex,
    const int64_t* fromindex,
    int64_t length);

  EXPORT_SYMBOL ERROR
  awkward_combinations_64(
    int64_t* toindex,
    int64_t n,
    bool replacement,
    int64_t singlelen);

  EXPORT_SYMBOL ERROR
  awkward_content_reduce_zeroparents_64(
    int64_t* toparents,
    int64_t length);

  EXPORT_SYMBOL ERROR
  awkward_Index32_carry_64(
    int32_t* toindex,
    const int32_t* fromindex,
    const int64_t* carry,
    int64_t lenfromindex,
    int64_t length);
  EXPORT_SYMBOL ERROR
  awkward_Index64_carry_64(
    int64_t* toindex,
    const int64_t* fromindex,
    const int64_t* carry,
    int64_t lenfromindex,
    int64_t length);
  EXPORT_SYMBOL ERROR
  awkward_Index8_carry_64(
    int8_t* toindex,
    const int8_t* fromindex,
    const int64_t* carry,
    int64_t lenfromindex,
    int64_t length);
  EXPORT_SYMBOL ERROR
  awkward_IndexU32_carry_64(
    uint32_t* toindex,
    const uint32_t* fromindex,
    const int64_t* carry,
    int64_t lenfromindex,
    int64_t length);
  EXPORT_SYMBOL ERROR
  awkward_IndexU8_carry_64(
    uint8_t* toindex,
    const uint8_t* fromindex,
    const int64_t* carry,
    int64_t lenfromindex,
    int64_t length);

  EXPORT_SYMBOL ERROR
  awkward_Index32_carry_nocheck_64(
    int32_t* toindex,
    const int32_t* fromindex,
    const int64_t* carry,
    int64_t length);
  EXPORT_SYMBOL ERROR
  awkward_Index64_carry_nocheck_64(
    int64_t* toindex,
    const int64_t* fromindex,
    const int64_t* carry,
    int64_t length);
  EXPORT_SYMBOL ERROR
  awkward_Index8_carry_nocheck_64(
    int8_t* toindex,
    const int8_t* fromindex,
    const int64_t* carry,
    int64_t length);
  EXPORT_SYMBOL ERROR
  awkward_IndexU32_carry_nocheck_64(
    uint32_t* toindex,
    const uint32_t* fromindex,
    const int64_t* carry,
    int64_t length);
  EXPORT_SYMBOL ERROR
  awkward_IndexU8_carry_nocheck_64(
    uint8_t* toindex,
    const uint8_t* fromindex,
    const int64_t* carry,
    int64_t length);

  EXPORT_SYMBOL ERROR
  awkward_index_rpad_and_clip_axis0_64(
    int64_t* toindex,
    int64_t target,
    int64_t length);

  EXPORT_SYMBOL ERROR
  awkward_index_rpad_and_clip_axis1_64(
    int64_t* tostarts,
    int64_t* tostops,
    int64_t target,
    int64_t length);

  EXPORT_SYMBOL ERROR
  awkward_Index_nones_as_index_64(
    int64_t* toindex,
    int64_t length);

  EXPORT_SYMBOL ERROR
  awkward_localindex_64(
    int64_t* toindex,
    int64_t length);

  EXPORT_SYMBOL ERROR
  awkward_missing_repeat_64(
    int64_t* outindex,
    const int64_t* index,
    int64_t indexlength,
    int64_t repetitions,
    int64_t regularsize);

  EXPORT_SYMBOL ERROR
  awkward_new_Identities32(
    int32_t* toptr,
    int64_t length);
  EXPORT_SYMBOL ERROR
  awkward_new_Identities64(
    int64_t* toptr,
    int64_t length);

  EXPORT_SYMBOL ERROR
  awkward_reduce_argmax_int8_64(
    int64_t* toptr,
    const int8_t* fromptr,
    const int64_t* parents,
    int64_t lenparents,
    int64_t outlength);
  EXPORT_SYMBOL ERROR
  awkward_reduce_argmax_int16_64(
    int64_t* toptr,
    const int16_t* fromptr,
    const int64_t* parents,
    int64_t lenparents,
    int64_t outlength);
  EXPORT_SYMBOL ERROR
  awkward_reduce_argmax_int32_64(
    int64_t* toptr,
    const int32_t* fromptr,
    const int64_t* parents,
    int64_t lenparents,
    int64_t outlength);
  EXPORT_SYMBOL ERROR
  awkward_reduce_argmax_int64_64(
    int64_t* toptr,
    const int64_t* fromptr,
    const int64_t* parents,
    int64_t lenparents,
    int64_t outlength);
  EXPORT_SYMBOL ERROR
  awkward_reduce_argmax_uint8_64(
    int64_t* toptr,
    const uint8_t* fromptr,
    const int64_t* parents,
    int64_t lenparents,
    int64_t outlength);
  EXPORT_SYMBOL ERROR
  awkward_reduce_argmax_uint16_64(
    int64_t* toptr,
    const uint16_t* fromptr,
    const int64_t* parents,
    int64_t lenparents,
    int64_t outlength);
  EXPORT_SYMBOL ERROR
  awkward_reduce_argmax_uint32_64(
    int64_t* toptr,
    const uint32_t* fromptr,
    const int64_t* parents,
    int64_t lenparents,
    int64_t outlength);
  EXPORT_SYMBOL ERROR
  awkward_reduce_argmax_uint64_64(
    int64_t* toptr,
    const uint64_t* fromptr,
    const int64_t* parents,
    int64_t lenparents,
    int64_t outlength);
  EXPORT_SYMBOL ERROR
  awkward_reduce_argmax_float32_64(
    int64_t* toptr,
    const float* fromptr,
    const int64_t* parents,
    int64_t lenparents,
    int64_t outlength);
  EXPORT_SYMBOL ERROR
  awkward_reduce_argmax_float64_64(
    int64_t* toptr,
    const double* fromptr,
    const int64_t* parents,
    int64_t lenparents,
    int64_t outlength);

  EXPORT_SYMBOL ERROR
  awkward_reduce_argmax_complex64_64(
    int64_t* toptr,
    const float* fromptr,
    const int64_t* parents,
    int64_t lenparents,
    int64_t outlength);
  EXPORT_SYMBOL ERROR
  awkward_reduce_argmax_complex128_64(
    int64_t* toptr,
    const double* fromptr,
    const int64_t* parents,
    int64_t lenparents,
    int64_t outlength);

  EXPORT_SYMBOL ERROR
  awkward_reduce_argmax_bool_64(
    int64_t* toptr,
    const bool* fromptr,
    const int64_t* parents,
    int64_t lenparents,
    int64_t outlength);

  EXPORT_SYMBOL ERROR
  awkward_reduce_argmin_int8_64(
    int64_t* toptr,
    const int8_t* fromptr,
    const int64_t* parents,
    int64_t lenparents,
    int64_t outlength);
  EXPORT_SYMBOL ERROR
  awkward_reduce_argmin_int16_64(
    int64_t* toptr,
    const int16_t* fromptr,
    const int64_t* parents,
    int64_t lenparents,
    int64_t outlength);
  EXPORT_SYMBOL ERROR
  awkward_reduce_argmin_int32_64(
    int64_t* toptr,
    const int32_t* fromptr,
    const int64_t* parents,
    int64_t lenparents,
    int64_t outlength);
  EXPORT_SYMBOL ERROR
  awkward_reduce_argmin_int64_64(
    int64_t* toptr,
    const int64_t* fromptr,
    const int64_t* parents,
    int64_t lenparents,
    int64_t outlength);
  EXPORT_SYMBOL ERROR
  awkward_reduce_argmin_uint8_64(
    int64_t* toptr,
    const uint8_t* fromptr,
    const int64_t* parents,
    int64_t lenparents,
    int64_t outlength);
  EXPORT_SYMBOL ERROR
  awkward_reduce_argmin_uint16_64(
    int64_t* toptr,
    const uint16_t* fromptr,
    const int64_t* parents,
    int64_t lenparents,
    int64_t outlength);
  EXPORT_SYMBOL ERROR
  awkward_reduce_argmin_uint32_64(
    int64_t* toptr,
    const uint32_t* fromptr,
    const int64_t* parents,
    int64_t lenparents,
    int64_t outlength);
  EXPORT_SYMBOL ERROR
  awkward_reduce_argmin_uint64_64(
    int64_t* toptr,
    const uint64_t* fromptr,
    const int64_t* parents,
    int64_t lenparents,
    int64_t outlength);
  EXPORT_SYMBOL ERROR
  awkward_reduce_argmin_float32_64(
    int64_t* toptr,
    const float* fromptr,
    const int64_t* parents,
    int64_t lenparents,
    int64_t outlength);
  EXPORT_SYMBOL ERROR
  awkward_reduce_argmin_float64_64(
    int64_t* toptr,
    const double* fromptr,
    const int64_t* parents,
    int64_t lenparents,
    int64_t outlength);

  EXPORT_SYMBOL ERROR
  awkward_reduce_argmin_bool_64(
    int64_t* toptr,
    const bool* fromptr,
    const int64_t* parents,
    int64_t lenparents,
    int64_t outlength);

  EXPORT_SYMBOL ERROR
  awkward_reduce_argmin_complex64_64(
    int64_t* toptr,
    const float* fromptr,
    const int64_t* parents,
    int64_t lenparents,
    int64_t outlength);
  EXPORT_SYMBOL ERROR
  awkward_reduce_argmin_complex128_64(
    int64_t* toptr,
    const double* fromptr,
    const int64_t* parents,
    int64_t lenparents,
    int64_t outlength);

  EXPORT_SYMBOL ERROR
  awkward_reduce_count_64(
    int64_t* toptr,
    const int64_t* parents,
    int64_t lenparents,
    int64_t outlength);

  EXPORT_SYMBOL ERROR
  awkward_reduce_countnonzero_bool_64(
    int64_t* toptr,
    const bool* fromptr,
    const int64_t* parents,
    int64_t lenparents,
    int64_t outlength);
  EXPORT_SYMBOL ERROR
  awkward_reduce_countnonzero_int8_64(
    int64_t* toptr,
    const int8_t* fromptr,
    const int64_t* parents,
    int64_t lenparents,
    int64_t outlength);
  EXPORT_SYMBOL ERROR
  awkward_reduce_countnonzero_int16_64(
    int64_t* toptr,
    const int16_t* fromptr,
    const int64_t* parents,
    int64_t lenparents,
    int64_t outlength);
  EXPORT_SYMBOL ERROR
  awkward_reduce_countnonzero_int32_64(
    int64_t* toptr,
    const int32_t* fromptr,
    const int64_t* parents,
    int64_t lenparents,
    int64_t outlength);
  EXPORT_SYMBOL ERROR
  awkward_reduce_countnonzero_int64_64(
    int64_t* toptr,
    const int64_t* fromptr,
    const int64_t* parents,
    int64_t lenparents,
    int64_t outlength);
  EXPORT_SYMBOL ERROR
  awkward_reduce_countnonzero_uint8_64(
    int64_t* toptr,
    const uint8_t* fromptr,
    const int64_t* parents,
    int64_t lenparents,
    int64_t outlength);
  EXPORT_SYMBOL ERROR
  awkward_reduce_countnonzero_uint16_64(
    int64_t* toptr,
    const uint16_t* fromptr,
    const int64_t* parents,
    int64_t lenparents,
    int64_t outlength);
  EXPORT_SYMBOL ERROR
  awkward_reduce_countnonzero_uint32_64(
    int64_t* toptr,
    const uint32_t* fromptr,
    const int64_t* parents,
    int64_t lenparents,
    int64_t outlength);
  EXPORT_SYMBOL ERROR
  awkward_reduce_countnonzero_uint64_64(
    int64_t* toptr,
    const uint64_t* fromptr,
    const int64_t* parents,
    int64_t lenparents,
    int64_t outlength);
  EXPORT_SYMBOL ERROR
  awkward_reduce_countnonzero_float32_64(
    int64_t* toptr,
    const float* fromptr,
    const int64_t* parents,
    int64_t lenparents,
    int64_t outlength);
  EXPORT_SYMBOL ERROR
  awkward_reduce_countnonzero_float64_64(
    int64_t* toptr,
    const double* fromptr,
    const int64_t* parents,
    int64_t lenparents,
    int64_t outlength);

  EXPORT_SYMBOL ERROR
  awkward_reduce_countnonzero_complex64_64(
    int64_t* toptr,
    const float* fromptr,
    const int64_t* parents,
    int64_t lenparents,
    int64_t outlength);
  EXPORT_SYMBOL ERROR
  awkward_reduce_countnonzero_complex128_64(
    int64_t* toptr,
    const double* fromptr,
    const int64_t* parents,
    int64_t lenparents,
    int64_t outlength);

  EXPORT_SYMBOL ERROR
  awkward_reduce_max_int8_int8_64(
    int8_t* toptr,
    const int8_t* fromptr,
    const int64_t* parents,
    int64_t lenparents,
    int64_t outlength,
    int8_t identity);
  EXPORT_SYMBOL ERROR
  awkward_reduce_max_int16_int16_64(
    int16_t* toptr,
    const int16_t* fromptr,
    const int64_t* parents,
    int64_t lenparents,
    int64_t outlength,
    int16_t identity);
  EXPORT_SYMBOL ERROR
  awkward_reduce_max_int32_int32_64(
    int32_t* toptr,
    const int32_t* fromptr,
    const int64_t* parents,
    int64_t lenparents,
    int64_t outlength,
    int32_t identity);
  EXPORT_SYMBOL ERROR
  awkward_reduce_max_int64_int64_64(
    int64_t* toptr,
    const int64_t* fromptr,
    const int64_t* parents,
    int64_t lenparents,
    int64_t outlength,
    int64_t identity);
  EXPORT_SYMBOL ERROR
  awkward_reduce_max_uint8_uint8_64(
    uint8_t* toptr,
    const uint8_t* fromptr,
    const int64_t* parents,
    int64_t lenparents,
    int64_t outlength,
    uint8_t identity);
  EXPORT_SYMBOL ERROR
  awkward_reduce_max_uint16_uint16_64(
    uint16_t* toptr,
    const uint16_t* fromptr,
    const int64_t* parents,
    int64_t lenparents,
    int64_t outlength,
    uint16_t identity);
  EXPORT_SYMBOL ERROR
  awkward_reduce_max_uint32_uint32_64(
    uint32_t* toptr,
    const uint32_t* fromptr,
    const int64_t* parents,
    int64_t lenparents,
    int64_t outlength,
    uint32_t identity);
  EXPORT_SYMBOL ERROR
  awkward_reduce_max_uint64_uint64_64(
    uint64_t* toptr,
    const uint64_t* fromptr,
    const int64_t* parents,
    int64_t lenparents,
    int64_t outlength,
    uint64_t identity);
  EXPORT_SYMBOL ERROR
  awkward_reduce_max_float32_float32_64(
    float* toptr,
    const float* fromptr,
    const int64_t* parents,
    int64_t lenparents,
    int64_t outlength,
    float identity);
  EXPORT_SYMBOL ERROR
  awkward_reduce_max_float64_float64_64(
    double* toptr,
    const double* fromptr,
    const int64_t* parents,
    int64_t lenparents,
    int64_t outlength,
    double identity);

  EXPORT_SYMBOL ERROR
  awkward_reduce_max_complex64_complex64_64(
    float* toptr,
    const float* fromptr,
    const int64_t* parents,
    int64_t lenparents,
    int64_t outlength,
    float identity);
  EXPORT_SYMBOL ERROR
  awkward_reduce_max_complex128_complex128_64(
    double* toptr,
    const double* fromptr,
    const int64_t* parents,
    int64_t lenparents,
    int64_t outlength,
    double identity);

  EXPORT_SYMBOL ERROR
  awkward_reduce_min_int8_int8_64(
    int8_t* toptr,
    const int8_t* fromptr,
    const int64_t* parents,
    int64_t lenparents,
    int64_t outlength,
    int8_t identity);
  EXPORT_SYMBOL ERROR
  awkward_reduce_min_int16_int16_64(
    int16_t* toptr,
    const int16_t* fromptr,
    const int64_t* parents,
    int64_t lenparents,
    int64_t outlength,
    int16_t identity);
  EXPORT_SYMBOL ERROR
  awkward_reduce_min_int32_int32_64(
    int32_t* toptr,
    const int32_t* fromptr,
    const int64_t* parents,
    int64_t lenparents,
    int64_t outlength,
    int32_t identity);
  EXPORT_SYMBOL ERROR
  awkward_reduce_min_int64_int64_64(
    int64_t* toptr,
    const int64_t* fromptr,
    const int64_t* parents,
    int64_t lenparents,
    int64_t outlength,
    int64_t identity);
  EXPORT_SYMBOL ERROR
  awkward_reduce_min_uint8_uint8_64(
    uint8_t* toptr,
    const uint8_t* fromptr,
    const int64_t* parents,
    int64_t lenparents,
    int64_t outlength,
    uint8_t identity);
  EXPORT_SYMBOL ERROR
  awkward_reduce_min_uint16_uint16_64(
    uint16_t* toptr,
    const uint16_t* fromptr,
    const int64_t* parents,
    int64_t lenparents,
    int64_t outlength,
    uint16_t identity);
  EXPORT_SYMBOL ERROR
  awkward_reduce_min_uint32_uint32_64(
    uint32_t* toptr,
    const uint32_t* fromptr,
    const int64_t* parents,
    int64_t lenparents,
    int64_t outlength,
    uint32_t identity);
  EXPORT_SYMBOL ERROR
  awkward_reduce_min_uint64_uint64_64(
    uint64_t* toptr,
    const uint64_t* fromptr,
    const int64_t* parents,
    int64_t lenparents,
    int64_t outlength,
    uint64_t identity);
  EXPORT_SYMBOL ERROR
  awkward_reduce_min_float32_float32_64(
    float* toptr,
    const float* fromptr,
    const int64_t* parents,
    int64_t lenparents,
    int64_t outlength,
    float identity);
  EXPORT_SYMBOL ERROR
  awkward_reduce_min_float64_float64_64(
    double* toptr,
    const double* fromptr,
    const int64_t* parents,
    int64_t lenparents,
    int64_t outlength,
    double identity);

  EXPORT_SYMBOL ERROR
  awkward_reduce_min_complex64_complex64_64(
    float* toptr,
    const float* fromptr,
    const int64_t* parents,
    int64_t lenparents,
    int64_t outlength,
    float identity);
  EXPORT_SYMBOL ERROR
  awkward_reduce_min_complex128_complex128_64(
    double* toptr,
    const double* fromptr,
    const int64_t* parents,
    int64_t lenparents,
    int64_t outlength,
    double identity);

  EXPORT_SYMBOL ERROR
  awkward_reduce_prod_int32_int8_64(
    int32_t* toptr,
    const int8_t* fromptr,
    const int64_t* parents,
    int64_t lenparents,
    int64_t outlength);
  EXPORT_SYMBOL ERROR
  awkward_reduce_prod_int32_int16_64(
    int32_t* toptr,
    const int16_t* fromptr,
    const int64_t* parents,
    int64_t lenparents,
    int64_t outlength);
  EXPORT_SYMBOL ERROR
  awkward_reduce_prod_int32_int32_64(
    int32_t* toptr,
    const int32_t* fromptr,
    const int64_t* parents,
    int64_t lenparents,
    int64_t outlength);
  EXPORT_SYMBOL ERROR
  awkward_reduce_prod_int64_int8_64(
    int64_t* toptr,
    const int8_t* fromptr,
    const int64_t* parents,
    int64_t lenparents,
    int64_t outlength);
  EXPORT_SYMBOL ERROR
  awkward_reduce_prod_int64_int16_64(
    int64_t* toptr,
    const int16_t* fromptr,
    const int64_t* parents,
    int64_t lenparents,
    int64_t outlength);
  EXPORT_SYMBOL ERROR
  awkward_reduce_prod_int64_int32_64(
    int64_t* toptr,
    const int32_t* fromptr,
    const int64_t* parents,
    int64_t lenparents,
    int64_t outlength);
  EXPORT_SYMBOL ERROR
  awkward_reduce_prod_int64_int64_64(
    int64_t* toptr,
    const int64_t* fromptr,
    const int64_t* parents,
    int64_t lenparents,
    int64_t outlength);
  EXPORT_SYMBOL ERROR
  awkward_reduce_prod_uint32_uint8_64(
    uint32_t* toptr,
    const uint8_t* fromptr,
    const int64_t* parents,
    int64_t lenparents,
    int64_t outlength);
  EXPORT_SYMBOL ERROR
  awkward_reduce_prod_uint32_uint16_64(
    uint32_t* toptr,
    const uint16_t* fromptr,
    const int64_t* parents,
    int64_t lenparents,
    int64_t outlength);
  EXPORT_SYMBOL ERROR
  awkward_reduce_prod_uint32_uint32_64(
    uint32_t* toptr,
    const uint32_t* fromptr,
    const int64_t* parents,
    int64_t lenparents,
    int64_t outlength);
  EXPORT_SYMBOL ERROR
  awkward_reduce_prod_uint64_uint8_64(
    uint64_t* toptr,
    const uint8_t* fromptr,
    const int64_t* parents,
    int64_t lenparents,
    int64_t outlength);
  EXPORT_SYMBOL ERROR
  awkward_reduce_prod_uint64_uint16_64(
    uint64_t* toptr,
    const uint16_t* fromptr,
    const int64_t* parents,
    int64_t lenparents,
    int64_t outlength);
  EXPORT_SYMBOL ERROR
  awkward_reduce_prod_uint64_uint32_64(
    uint64_t* toptr,
    const uint32_t* fromptr,
    const int64_t* parents,
    int64_t lenparents,
    int64_t outlength);
  EXPORT_SYMBOL ERROR
  awkward_reduce_prod_uint64_uint64_64(
    uint64_t* toptr,
    const uint64_t* fromptr,
    const int64_t* parents,
    int64_t lenparents,
    int64_t outlength);
  EXPORT_SYMBOL ERROR
  awkward_reduce_prod_float32_float32_64(
    float* toptr,
    const float* fromptr,
    const int64_t* parents,
    int64_t lenparents,
    int64_t outlength);
  EXPORT_SYMBOL ERROR
  awkward_reduce_prod_float64_float64_64(
    double* toptr,
    const double* fromptr,
    const int64_t* parents,
    int64_t lenparents,
    int64_t outlength);

  EXPORT_SYMBOL ERROR
  awkward_reduce_prod_complex64_complex64_64(
    float* toptr,
    const float* fromptr,
    const int64_t* parents,
    int64_t lenparents,
    int64_t outlength);
  EXPORT_SYMBOL ERROR
  awkward_reduce_prod_complex128_complex128_64(
    double* toptr,
    const double* fromptr,
    const int64_t* parents,
    int64_t lenparents,
    int64_t outlength);

  EXPORT_SYMBOL ERROR
  awkward_reduce_prod_bool_bool_64(
    bool* toptr,
    const bool* fromptr,
    const int64_t* parents,
    int64_t lenparents,
    int64_t outlength);
  EXPORT_SYMBOL ERROR
  awkward_reduce_prod_bool_int8_64(
    bool* toptr,
    const int8_t* fromptr,
    const int64_t* parents,
    int64_t lenparents,
    int64_t outlength);
  EXPORT_SYMBOL ERROR
  awkward_reduce_prod_bool_int16_64(
    bool* toptr,
    const int16_t* fromptr,
    const int64_t* parents,
    int64_t lenparents,
    int64_t outlength);
  EXPORT_SYMBOL ERROR
  awkward_reduce_prod_bool_int32_64(
    bool* toptr,
    const int32_t* fromptr,
    const int64_t* parents,
    int64_t lenparents,
    int64_t outlength);
  EXPORT_SYMBOL ERROR
  awkward_reduce_prod_bool_int64_64(
    bool* toptr,
    const int64_t* fromptr,
    const int64_t* parents,
    int64_t lenparents,
    int64_t outlength);
  EXPORT_SYMBOL ERROR
  awkward_reduce_prod_bool_uint8_64(
    bool* toptr,
    const uint8_t* fromptr,
    const int64_t* parents,
    int64_t lenparents,
    int64_t outlength);
  EXPORT_SYMBOL ERROR
  awkward_reduce_prod_bool_uint16_64(
    bool* toptr,
    const uint16_t* fromptr,
    const int64_t* parents,
    int64_t lenparents,
    int64_t outlength);
  EXPORT_SYMBOL ERROR
  awkward_reduce_prod_bool_uint32_64(
    bool* toptr,
    const uint32_t* fromptr,
    const int64_t* parents,
    int64_t lenparents,
    int64_t outlength);
  EXPORT_SYMBOL ERROR
  awkward_reduce_prod_bool_uint64_64(
    bool* toptr,
    const uint64_t* fromptr,
    const int64_t* parents,
    int64_t lenparents,
    int64_t outlength);
  EXPORT_SYMBOL ERROR
  awkward_reduce_prod_bool_float32_64(
    bool* toptr,
    const float* fromptr,
    const int64_t* parents,
    int64_t lenparents,
    int64_t outlength);
  EXPORT_SYMBOL ERROR
  awkward_reduce_prod_bool_float64_64(
    bool* toptr,
    const double* fromptr,
    const int64_t* parents,
    int64_t lenparents,
    int64_t outlength);

  EXPORT_SYMBOL ERROR
  awkward_reduce_prod_bool_complex64_64(
    bool* toptr,
    const float* fromptr,
    const int64_t* parents,
    int64_t lenparents,
    int64_t outlength);
  EXPORT_SYMBOL ERROR
  awkward_reduce_prod_bool_complex128_64(
    bool* toptr,
    const double* fromptr,
    const int64_t* parents,
    int64_t lenparents,
    int64_t outlength);

  EXPORT_SYMBOL ERROR
  awkward_reduce_prod_int32_bool_64(
    int32_t* toptr,
    const bool* fromptr,
    const int64_t* parents,
    int64_t lenparents,
    int64_t outlength);

  EXPORT_SYMBOL ERROR
  awkward_reduce_prod_int64_bool_64(
    int64_t* toptr,
    const bool* fromptr,
    const int64_t* parents,
    int64_t lenparents,
    int64_t outlength);

  EXPORT_SYMBOL ERROR
  awkward_reduce_sum_int32_int8_64(
    int32_t* toptr,
    const int8_t* fromptr,
    const int64_t* parents,
    int64_t lenparents,
    int64_t outlength);
  EXPORT_SYMBOL ERROR
  awkward_reduce_sum_int32_int16_64(
    int32_t* toptr,
    const int16_t* fromptr,
    const int64_t* parents,
    int64_t lenparents,
    int64_t outlength);
  EXPORT_SYMBOL ERROR
  awkward_reduce_sum_int32_int32_64(
    int32_t* toptr,
    const int32_t* fromptr,
    const int64_t* parents,
    int64_t lenparents,
    int64_t outlength);
  EXPORT_SYMBOL ERROR
  awkward_reduce_sum_int64_int8_64(
    int64_t* toptr,
    const int8_t* fromptr,
    const int64_t* parents,
    int64_t lenparents,
    int64_t outlength);
  EXPORT_SYMBOL ERROR
  awkward_reduce_sum_int64_int16_64(
    int64_t* toptr,
    const int16_t* fromptr,
    const int64_t* parents,
    int64_t lenparents,
    int64_t outlength);
  EXPORT_SYMBOL ERROR
  awkward_reduce_sum_int64_int32_64(
    int64_t* toptr,
    const int32_t* fromptr,
    const int64_t* parents,
    int64_t lenparents,
    int64_t outlength);
  EXPORT_SYMBOL ERROR
  awkward_reduce_sum_int64_int64_64(
    int64_t* toptr,
    const int64_t* fromptr,
    const int64_t* parents,
    int64_t lenparents,
    int64_t outlength);
  EXPORT_SYMBOL ERROR
  awkward_reduce_sum_uint32_uint8_64(
    uint32_t* toptr,
    const uint8_t* fromptr,
    const int64_t* parents,
    int64_t lenparents,
    int64_t outlength);
  EXPORT_SYMBOL ERROR
  awkward_reduce_sum_uint32_uint16_64(
    uint32_t* toptr,
    const uint16_t* fromptr,
    const int64_t* parents,
    int64_t lenparents,
    int64_t outlength);
  EXPORT_SYMBOL ERROR
  awkward_reduce_sum_uint32_uint32_64(
    uint32_t* toptr,
    const uint32_t* fromptr,
    const int64_t* parents,
    int64_t lenparents,
    int64_t outlength);
  EXPORT_SYMBOL ERROR
  awkward_reduce_sum_uint64_uint8_64(
    uint64_t* toptr,
    const uint8_t* fromptr,
    const int64_t* parents,
    int64_t lenparents,
    int64_t outlength);
  EXPORT_SYMBOL ERROR
  awkward_reduce_sum_uint64_uint16_64(
    uint64_t* toptr,
    const uint16_t* fromptr,
    const int64_t* parents,
    int64_t lenparents,
    int64_t outlength);
  EXPORT_SYMBOL ERROR
  awkward_reduce_sum_uint64_uint32_64(
    uint64_t* toptr,
    const uint32_t* fromptr,
    const int64_t* parents,
    int64_t lenparents,
    int64_t outlength);
  EXPORT_SYMBOL ERROR
  awkward_reduce_sum_uint64_uint64_64(
    uint64_t* toptr,
    const uint64_t* fromptr,
    const int64_t* parents,
    int64_t lenparents,
    int64_t outlength);
  EXPORT_SYMBOL ERROR
  awkward_reduce_sum_float32_float32_64(
    float* toptr,
    const float* fromptr,
    const int64_t* parents,
    int64_t lenparents,
    int64_t outlength);
  EXPORT_SYMBOL ERROR
  awkward_reduce_sum_float64_float64_64(
    double* toptr,
    const double* fromptr,
    const int64_t* parents,
    int64_t lenparents,
    int64_t outlength);

  EXPORT_SYMBOL ERROR
  awkward_reduce_sum_complex64_complex64_64(
    float* toptr,
    const float* fromptr,
    const int64_t* parents,
    int64_t lenparents,
    int64_t outlength);
  EXPORT_SYMBOL ERROR
  awkward_reduce_sum_complex128_complex128_64(
    double* toptr,
    const double* fromptr,
    const int64_t* parents,
    int64_t lenparents,
    int64_t outlength);

  EXPORT_SYMBOL ERROR
  awkward_reduce_sum_bool_bool_64(
    bool* toptr,
    const bool* fromptr,
    const int64_t* parents,
    int64_t lenparents,
    int64_t outlength);
  EXPORT_SYMBOL ERROR
  awkward_reduce_sum_bool_int8_64(
    bool* toptr,
    const int8_t* fromptr,
    const int64_t* parents,
    int64_t lenparents,
    int64_t outlength);
  EXPORT_SYMBOL ERROR
  awkward_reduce_sum_bool_int16_64(
    bool* toptr,
    const int16_t* fromptr,
    const int64_t* parents,
    int64_t lenparents,
    int64_t outlength);
  EXPORT_SYMBOL ERROR
  awkward_reduce_sum_bool_int32_64(
    bool* toptr,
    const int32_t* fromptr,
    const int64_t* parents,
    int64_t lenparents,
    int64_t outlength);
  EXPORT_SYMBOL ERROR
  awkward_reduce_sum_bool_int64_64(
    bool* toptr,
    const int64_t* fromptr,
    const int64_t* parents,
    int64_t lenparents,
    int64_t outlength);
  EXPORT_SYMBOL ERROR
  awkward_reduce_sum_bool_uint8_64(
    bool* toptr,
    const uint8_t* fromptr,
    const int64_t* parents,
    int64_t lenparents,
    int64_t outlength);
  EXPORT_SYMBOL ERROR
  awkward_reduce_sum_bool_uint16_64(
    bool* toptr,
    const uint16_t* fromptr,
    const int64_t* parents,
    int64_t lenparents,
    int64_t outlength);
  EXPORT_SYMBOL ERROR
  awkward_reduce_sum_bool_uint32_64(
    bool* toptr,
    const uint32_t* fromptr,
    const int64_t* parents,
    int64_t lenparents,
    int64_t outlength);
  EXPORT_SYMBOL ERROR
  awkward_reduce_sum_bool_uint64_64(
    bool* toptr,
    const uint64_t* fromptr,
    const int64_t* parents,
    int64_t lenparents,
    int64_t outlength);
  EXPORT_SYMBOL ERROR
  awkward_reduce_sum_bool_float32_64(
    bool* toptr,
    const float* fromptr,
    const int64_t* parents,
    int64_t lenparents,
    int64_t outlength);
  EXPORT_SYMBOL ERROR
  awkward_reduce_sum_bool_float64_64(
    bool* toptr,
    const double* fromptr,
    const int64_t* parents,
    int64_t lenparents,
    int64_t outlength);

  EXPORT_SYMBOL ERROR
  awkward_reduce_sum_bool_complex64_64(
    bool* toptr,
    const float* fromptr,
    const int64_t* parents,
    int64_t lenparents,
    int64_t outlength);
  EXPORT_SYMBOL ERROR
  awkward_reduce_sum_bool_complex128_64(
    bool* toptr,
    const double* fromptr,
    const int64_t* parents,
    int64_t lenparents,
    int64_t outlength);

  EXPORT_SYMBOL ERROR
  awkward_reduce_sum_int32_bool_64(
    int32_t* toptr,
    const bool* fromptr,
    const int64_t* parents,
    int64_t lenparents,
    int64_t outlength);

  EXPORT_SYMBOL ERROR
  awkward_reduce_sum_int64_bool_64(
    int64_t* toptr,
    const bool* fromptr,
    const int64_t* parents,
    int64_t lenparents,
    int64_t outlength);

  EXPORT_SYMBOL ERROR
  awkward_regularize_arrayslice_64(
    int64_t* flatheadptr,
    int64_t lenflathead,
    int64_t length);

  EXPORT_SYMBOL ERROR
  awkward_slicearray_ravel_64(
    int64_t* toptr,
    const int64_t* fromptr,
    int64_t ndim,
    const int64_t* shape,
    const int64_t* strides);

  EXPORT_SYMBOL ERROR
  awkward_slicemissing_check_same(
    bool* same,
    const int8_t* bytemask,
    const int64_t* missingindex,
    int64_t length);

  EXPORT_SYMBOL ERROR
  awkward_quick_sort_bool(
    bool* tmpptr,
    int64_t* tmpbeg,
    int64_t* tmpend,
    const int64_t* fromstarts,
    const int64_t* fromstops,
    bool ascending,
    int64_t length,
    int64_t maxlevels);
  EXPORT_SYMBOL ERROR
  awkward_quick_sort_int8(
    int8_t* tmpptr,
    int64_t* tmpbeg,
    int64_t* tmpend,
    const int64_t* fromstarts,
    const int64_t* fromstops,
    bool ascending,
    int64_t length,
    int64_t maxlevels);
  EXPORT_SYMBOL ERROR
  awkward_quick_sort_int16(
    int16_t* tmpptr,
    int64_t* tmpbeg,
    int64_t* tmpend,
    const int64_t* fromstarts,
    const int64_t* fromstops,
    bool ascending,
    int64_t length,
    int64_t maxlevels);
  EXPORT_SYMBOL ERROR
  awkward_quick_sort_int32(
    int32_t* tmpptr,
    int64_t* tmpbeg,
    int64_t* tmpend,
    const int64_t* fromstarts,
    const int64_t* fromstops,
    bool ascending,
    int64_t length,
    int64_t maxlevels);
  EXPORT_SYMBOL ERROR
  awkward_quick_sort_int64(
    int64_t* tmpptr,
    int64_t* tmpbeg,
    int64_t* tmpend,
    const int64_t* fromstarts,
    const int64_t* fromstops,
    bool ascending,
    int64_t length,
    int64_t maxlevels);
  EXPORT_SYMBOL ERROR
  awkward_quick_sort_uint8(
    uint8_t* tmpptr,
    int64_t* tmpbeg,
    int64_t* tmpend,
    const int64_t* fromstarts,
    const int64_t* fromstops,
    bool ascending,
    int64_t length,
    int64_t maxlevels);
  EXPORT_SYMBOL ERROR
  awkward_quick_sort_uint16(
    uint16_t* tmpptr,
    int64_t* tmpbeg,
    int64_t* tmpend,
    const int64_t* fromstarts,
    const int64_t* fromstops,
    bool ascending,
    int64_t length,
    int64_t maxlevels);
  EXPORT_SYMBOL ERROR
  awkward_quick_sort_uint32(
    uint32_t* tmpptr,
    int64_t* tmpbeg,
    int64_t* tmpend,
    const int64_t* fromstarts,
    const int64_t* fromstops,
    bool ascending,
    int64_t length,
    int64_t maxlevels);
  EXPORT_SYMBOL ERROR
  awkward_quick_sort_uint64(
    uint64_t* tmpptr,
    int64_t* tmpbeg,
    int64_t* tmpend,
    const int64_t* fromstarts,
    const int64_t* fromstops,
    bool ascending,
    int64_t length,
    int64_t maxlevels);
  EXPORT_SYMBOL ERROR
  awkward_quick_sort_float32(
    float* tmpptr,
    int64_t* tmpbeg,
    int64_t* tmpend,
    const int64_t* fromstarts,
    const int64_t* fromstops,
    bool ascending,
    int64_t length,
    int64_t maxlevels);
  EXPORT_SYMBOL ERROR
  awkward_quick_sort_float64(
    double* tmpptr,
    int64_t* tmpbeg,
    int64_t* tmpend,
    const int64_t* fromstarts,
    const int64_t* fromstops,
    bool ascending,
    int64_t length,
    int64_t maxlevels);

  EXPORT_SYMBOL ERROR
  awkward_sort_bool(
    bool* toptr,
    const bool* fromptr,
    int64_t length,
    const int64_t* offsets,
    int64_t offsetslength,
    int64_t parentslength,
    bool ascending,
    bool stable);
  EXPORT_SYMBOL ERROR
  awkward_sort_int8(
    int8_t* toptr,
    const int8_t* fromptr,
    int64_t length,
    const int64_t* offsets,
    int64_t offsetslength,
    int64_t parentslength,
    bool ascending,
    bool stable);
  EXPORT_SYMBOL ERROR
  awkward_sort_int16(
    int16_t* toptr,
    const int16_t* fromptr,
    int64_t length,
    const int64_t* offsets,
    int64_t offsetslength,
    int64_t parentslength,
    bool ascending,
    bool stable);
  EXPORT_SYMBOL ERROR
  awkward_sort_int32(
    int32_t* toptr,
    const int32_t* fromptr,
    int64_t length,
    const int64_t* offsets,
    int64_t offsetslength,
    int64_t parentslength,
    bool ascending,
    bool stable);
  EXPORT_SYMBOL ERROR
  awkward_sort_int64(
    int64_t* toptr,
    const int64_t* fromptr,
    int64_t length,
    const int64_t* offsets,
    int64_t offsetslength,
    int64_t parentslength,
    bool ascending,
    bool stable);
  EXPORT_SYMBOL ERROR
  awkward_sort_uint8(
    uint8_t* toptr,
    const uint8_t* fromptr,
    int64_t length,
    const int64_t* offsets,
    int64_t offsetslength,
    int64_t parentslength,
    bool ascending,
    bool stable);
  EXPORT_SYMBOL ERROR
  awkward_sort_uint16(
    uint16_t* toptr,
    const uint16_t* fromptr,
    int64_t length,
    const int64_t* offsets,
    int64_t offsetslength,
    int64_t parentslength,
    bool ascending,
    bool stable);
  EXPORT_SYMBOL ERROR
  awkward_sort_uint32(
    uint32_t* toptr,
    const uint32_t* fromptr,
    int64_t length,
    const int64_t* offsets,
    int64_t offsetslength,
    int64_t parentslength,
    bool ascending,
    bool stable);
  EXPORT_SYMBOL ERROR
  awkward_sort_uint64(
    uint64_t* toptr,
    const uint64_t* fromptr,
    int64_t length,
    const int64_t* offsets,
    int64_t offsetslength,
    int64_t parentslength,
    bool ascending,
    bool stable);
  EXPORT_SYMBOL ERROR
  awkward_sort_float32(
    float* toptr,
    const float* fromptr,
    int64_t length,
    const int64_t* offsets,
    int64_t offsetslength,
    int64_t parentslength,
    bool ascending,
    bool stable);
  EXPORT_SYMBOL ERROR
  awkward_sort_float64(
    double* toptr,
    const double* fromptr,
    int64_t length,
    const int64_t* offsets,
    int64_t offsetslength,
    int64_t parentslength,
    bool ascending,
    bool stable);

  EXPORT_SYMBOL ERROR
  awkward_unique_bool(
    bool* toptr,
    int64_t length,
    int64_t* tolength);
  EXPORT_SYMBOL ERROR
  awkward_unique_int8(
    int8_t* toptr,
    int64_t length,
    int64_t* tolength);
  EXPORT_SYMBOL ERROR
  awkward_unique_int16(
    int16_t* toptr,
    int64_t length,
    int64_t* tolength);
  EXPORT_SYMBOL ERROR
  awkward_unique_int32(
    int32_t* toptr,
    int64_t length,
    int64_t* tolength);
  EXPORT_SYMBOL ERROR
  awkward_unique_int64(
    int64_t* toptr,
    int64_t length,
    int64_t* tolength);
  EXPORT_SYMBOL ERROR
  awkward_unique_uint8(
    uint8_t* toptr,
    int64_t length,
    int64_t* tolength);
  EXPORT_SYMBOL ERROR
  awkward_unique_uint16(
    uint16_t* toptr,
    int64_t length,
    int64_t* tolength);
  EXPORT_SYMBOL ERROR
  awkward_unique_uint32(
    uint32_t* toptr,
    int64_t length,
    int64_t* tolength);
  EXPORT_SYMBOL ERROR
  awkward_unique_uint64(
    uint64_t* toptr,
    int64_t length,
    int64_t* tolength);
  EXPORT_SYMBOL ERROR
  awkward_unique_float32(
    float* toptr,
    int64_t length,
    int64_t* tolength);
  EXPORT_SYMBOL ERROR
  awkward_unique_float64(
    double* toptr,
    int64_t length,
    int64_t* tolength);

  EXPORT_SYMBOL ERROR
  awkward_sorting_ranges(
    int64_t* toindex,
    int64_t tolength,
    const int64_t* parents,
    int64_t parentslength);

  EXPORT_SYMBOL ERROR
  awkward_sorting_ranges_length(
    int64_t* tolength,
    const int64_t* parents,
    int64_t parentslength);

  EXPORT_SYMBOL ERROR
  awkward_one_mask8(
    int8_t* tomask,
    int64_t length);

  EXPORT_SYMBOL ERROR
  awkward_zero_mask8(
    int8_t* tomask,
    int64_t length);

}

#endif // AWKWARD_KERNELS_H_
