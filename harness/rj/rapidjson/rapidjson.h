// Minimal stand-in for the subset of RapidJSON used by awkward-1.0 (libawkward).
// NOT RapidJSON. Feasibility prototype.
#ifndef MINI_RAPIDJSON_H_
#define MINI_RAPIDJSON_H_
#include <cstdint>
#include <cstdio>
#include <cstring>
#include <cstdlib>
#include <cmath>
#include <string>
#include <vector>
#include <memory>
#include <limits>
namespace rapidjson {
  typedef unsigned SizeType;
  enum ParseFlag {
    kParseNoFlags = 0, kParseInsituFlag = 1, kParseValidateEncodingFlag = 2,
    kParseIterativeFlag = 4, kParseStopWhenDoneFlag = 8, kParseFullPrecisionFlag = 16,
    kParseCommentsFlag = 32, kParseNumbersAsStringsFlag = 64, kParseTrailingCommasFlag = 128,
    kParseNanAndInfFlag = 256, kParseDefaultFlags = 0
  };
  enum ParseErrorCode {
    kParseErrorNone = 0, kParseErrorDocumentEmpty, kParseErrorDocumentRootNotSingular,
    kParseErrorValueInvalid, kParseErrorObjectMissName, kParseErrorObjectMissColon,
    kParseErrorObjectMissCommaOrCurlyBracket, kParseErrorArrayMissCommaOrSquareBracket,
    kParseErrorStringUnicodeEscapeInvalidHex, kParseErrorStringUnicodeSurrogateInvalid,
    kParseErrorStringEscapeInvalid, kParseErrorStringMissQuotationMark,
    kParseErrorStringInvalidEncoding, kParseErrorNumberTooBig, kParseErrorNumberMissFraction,
    kParseErrorNumberMissExponent, kParseErrorTermination, kParseErrorUnspecificSyntaxError
  };
  template <typename CharType = char> struct UTF8 { typedef CharType Ch; };

  // ---------------------------------------------------------------- streams
  struct StringStream {
    typedef char Ch;
    StringStream(const char* src) : src_(src), head_(src) {}
    Ch Peek() const { return *src_; }
    Ch Take() { return *src_++; }
    size_t Tell() const { return (size_t)(src_ - head_); }
    const char* src_; const char* head_;
  };
  class FileReadStream {
  public:
    typedef char Ch;
    FileReadStream(FILE* fp, char* buffer, size_t bufferSize)
      : fp_(fp), buffer_(buffer), bufferSize_(bufferSize), bufferLast_(0),
        current_(buffer), readCount_(0), count_(0), eof_(false) { Read(); }
    Ch Peek() const { return *current_; }
    Ch Take() { Ch c = *current_; Read(); return c; }
    size_t Tell() const { return count_ + (size_t)(current_ - buffer_); }
  private:
    void Read() {
      if (current_ < bufferLast_) { ++current_; }
      else if (!eof_) {
        count_ += readCount_;
        readCount_ = std::fread(buffer_, 1, bufferSize_, fp_);
        bufferLast_ = buffer_ + readCount_ - 1;
        current_ = buffer_;
        if (readCount_ < bufferSize_) {
          buffer_[readCount_] = '\0';
          ++bufferLast_;
          eof_ = true;
        }
      }
    }
    FILE* fp_; char* buffer_; size_t bufferSize_; char* bufferLast_; char* current_;
    size_t readCount_; size_t count_; bool eof_;
  };
  class StringBuffer {
  public:
    typedef char Ch;
    void Put(char c) { s_.push_back(c); }
    void Flush() {}
    const char* GetString() const { return s_.c_str(); }
    size_t GetSize() const { return s_.size(); }
    void Clear() { s_.clear(); }
  private:
    std::string s_;
  };
  class FileWriteStream {
  public:
    typedef char Ch;
    FileWriteStream(FILE* fp, char* buffer, size_t bufferSize)
      : fp_(fp), buffer_(buffer), end_(buffer + bufferSize), cur_(buffer) {}
    void Put(char c) { if (cur_ >= end_) Flush(); *cur_++ = c; }
    void Flush() {
      if (cur_ != buffer_) { std::fwrite(buffer_, 1, (size_t)(cur_ - buffer_), fp_); cur_ = buffer_; }
    }
  private:
    FILE* fp_; char* buffer_; char* end_; char* cur_;
  };

  // ---------------------------------------------------------------- SAX reader
  template <typename Encoding = UTF8<>, typename Derived = void>
  struct BaseReaderHandler {
    typedef char Ch;
    bool Default() { return true; }
    bool Null() { return true; }
    bool Bool(bool) { return true; }
    bool Int(int) { return true; }
    bool Uint(unsigned) { return true; }
    bool Int64(int64_t) { return true; }
    bool Uint64(uint64_t) { return true; }
    bool Double(double) { return true; }
    bool RawNumber(const Ch*, SizeType, bool) { return true; }
    bool String(const Ch*, SizeType, bool) { return true; }
    bool StartObject() { return true; }
    bool Key(const Ch*, SizeType, bool) { return true; }
    bool EndObject(SizeType) { return true; }
    bool StartArray() { return true; }
    bool EndArray(SizeType) { return true; }
  };

  class Reader {
  public:
    Reader() : err_(kParseErrorNone), off_(0) {}
    template <unsigned F, typename IS, typename H>
    bool Parse(IS& is, H& h) {
      err_ = kParseErrorNone; off_ = 0;
      SkipWs(is);
      if (is.Peek() == '\0') { return Fail(kParseErrorDocumentEmpty, is); }
      if (!Value<F>(is, h)) { return false; }
      if (!(F & kParseStopWhenDoneFlag)) {
        SkipWs(is);
        if (is.Peek() != '\0') { return Fail(kParseErrorDocumentRootNotSingular, is); }
      }
      return true;
    }
    template <typename IS, typename H>
    bool Parse(IS& is, H& h) { return Parse<kParseDefaultFlags>(is, h); }
    bool HasParseError() const { return err_ != kParseErrorNone; }
    ParseErrorCode GetParseErrorCode() const { return err_; }
    size_t GetErrorOffset() const { return off_; }
  private:
    template <typename IS> bool Fail(ParseErrorCode e, IS& is) { err_ = e; off_ = is.Tell(); return false; }
    template <typename IS> static void SkipWs(IS& is) {
      while (is.Peek() == ' ' || is.Peek() == '\n' || is.Peek() == '\r' || is.Peek() == '\t') is.Take();
    }
    template <typename IS> bool Lit(IS& is, const char* rest) {
      for (const char* p = rest; *p; ++p) { if (is.Peek() != *p) return false; is.Take(); }
      return true;
    }
    template <unsigned F, typename IS, typename H>
    bool Value(IS& is, H& h) {
      switch (is.Peek()) {
        case 'n': is.Take(); if (!Lit(is, "ull")) return Fail(kParseErrorValueInvalid, is);
                  if (!h.Null()) return Fail(kParseErrorTermination, is); return true;
        case 't': is.Take(); if (!Lit(is, "rue")) return Fail(kParseErrorValueInvalid, is);
                  if (!h.Bool(true)) return Fail(kParseErrorTermination, is); return true;
        case 'f': is.Take(); if (!Lit(is, "alse")) return Fail(kParseErrorValueInvalid, is);
                  if (!h.Bool(false)) return Fail(kParseErrorTermination, is); return true;
        case '"': { std::string s; if (!Str(is, s)) return false;
                  if (!h.String(s.c_str(), (SizeType)s.size(), true)) return Fail(kParseErrorTermination, is);
                  return true; }
        case '{': return Obj<F>(is, h);
        case '[': return Arr<F>(is, h);
        default: return Num<F>(is, h);
      }
    }
    template <unsigned F, typename IS, typename H>
    bool Obj(IS& is, H& h) {
      is.Take();
      if (!h.StartObject()) return Fail(kParseErrorTermination, is);
      SkipWs(is);
      if (is.Peek() == '}') { is.Take(); if (!h.EndObject(0)) return Fail(kParseErrorTermination, is); return true; }
      SizeType n = 0;
      for (;;) {
        if (is.Peek() != '"') return Fail(kParseErrorObjectMissName, is);
        std::string k; if (!Str(is, k)) return false;
        if (!h.Key(k.c_str(), (SizeType)k.size(), true)) return Fail(kParseErrorTermination, is);
        SkipWs(is);
        if (is.Peek() != ':') return Fail(kParseErrorObjectMissColon, is);
        is.Take(); SkipWs(is);
        if (!Value<F>(is, h)) return false;
        SkipWs(is); ++n;
        if (is.Peek() == ',') { is.Take(); SkipWs(is); }
        else if (is.Peek() == '}') { is.Take(); if (!h.EndObject(n)) return Fail(kParseErrorTermination, is); return true; }
        else return Fail(kParseErrorObjectMissCommaOrCurlyBracket, is);
      }
    }
    template <unsigned F, typename IS, typename H>
    bool Arr(IS& is, H& h) {
      is.Take();
      if (!h.StartArray()) return Fail(kParseErrorTermination, is);
      SkipWs(is);
      if (is.Peek() == ']') { is.Take(); if (!h.EndArray(0)) return Fail(kParseErrorTermination, is); return true; }
      SizeType n = 0;
      for (;;) {
        if (!Value<F>(is, h)) return false;
        ++n; SkipWs(is);
        if (is.Peek() == ',') { is.Take(); SkipWs(is); }
        else if (is.Peek() == ']') { is.Take(); if (!h.EndArray(n)) return Fail(kParseErrorTermination, is); return true; }
        else return Fail(kParseErrorArrayMissCommaOrSquareBracket, is);
      }
    }
    template <typename IS> bool Hex4(IS& is, unsigned& cp) {
      cp = 0;
      for (int i = 0; i < 4; i++) {
        char c = is.Peek(); cp <<= 4;
        if (c >= '0' && c <= '9') cp += (unsigned)(c - '0');
        else if (c >= 'A' && c <= 'F') cp += (unsigned)(c - 'A' + 10);
        else if (c >= 'a' && c <= 'f') cp += (unsigned)(c - 'a' + 10);
        else return Fail(kParseErrorStringUnicodeEscapeInvalidHex, is);
        is.Take();
      }
      return true;
    }
    static void Utf8(std::string& s, unsigned cp) {
      if (cp <= 0x7F) s.push_back((char)cp);
      else if (cp <= 0x7FF) { s.push_back((char)(0xC0 | (cp >> 6))); s.push_back((char)(0x80 | (cp & 0x3F))); }
      else if (cp <= 0xFFFF) { s.push_back((char)(0xE0 | (cp >> 12))); s.push_back((char)(0x80 | ((cp >> 6) & 0x3F))); s.push_back((char)(0x80 | (cp & 0x3F))); }
      else { s.push_back((char)(0xF0 | (cp >> 18))); s.push_back((char)(0x80 | ((cp >> 12) & 0x3F))); s.push_back((char)(0x80 | ((cp >> 6) & 0x3F))); s.push_back((char)(0x80 | (cp & 0x3F))); }
    }
    template <typename IS> bool Str(IS& is, std::string& s) {
      is.Take();
      for (;;) {
        char c = is.Peek();
        if (c == '\\') {
          is.Take(); char e = is.Take();
          switch (e) {
            case '"': s.push_back('"'); break; case '\\': s.push_back('\\'); break;
            case '/': s.push_back('/'); break; case 'b': s.push_back('\b'); break;
            case 'f': s.push_back('\f'); break; case 'n': s.push_back('\n'); break;
            case 'r': s.push_back('\r'); break; case 't': s.push_back('\t'); break;
            case 'u': { unsigned cp; if (!Hex4(is, cp)) return false;
              if (cp >= 0xD800 && cp <= 0xDBFF) {
                if (is.Peek() != '\\') return Fail(kParseErrorStringUnicodeSurrogateInvalid, is); is.Take();
                if (is.Peek() != 'u') return Fail(kParseErrorStringUnicodeSurrogateInvalid, is); is.Take();
                unsigned cp2; if (!Hex4(is, cp2)) return false;
                if (cp2 < 0xDC00 || cp2 > 0xDFFF) return Fail(kParseErrorStringUnicodeSurrogateInvalid, is);
                cp = (((cp - 0xD800) << 10) | (cp2 - 0xDC00)) + 0x10000;
              }
              Utf8(s, cp); break; }
            default: return Fail(kParseErrorStringEscapeInvalid, is);
          }
        }
        else if (c == '"') { is.Take(); return true; }
        else if ((unsigned char)c < 0x20) {
          return Fail(c == '\0' ? kParseErrorStringMissQuotationMark : kParseErrorStringInvalidEncoding, is);
        }
        else { s.push_back(is.Take()); }
      }
    }
    template <unsigned F, typename IS, typename H>
    bool Num(IS& is, H& h) {
      std::string t; bool neg = false, isint = true;
      if (is.Peek() == '-') { neg = true; t.push_back(is.Take()); }
      if (F & kParseNanAndInfFlag) {
        if (is.Peek() == 'N') { is.Take(); if (!Lit(is, "aN")) return Fail(kParseErrorValueInvalid, is);
          if (!h.Double(std::numeric_limits<double>::quiet_NaN())) return Fail(kParseErrorTermination, is); return true; }
        if (is.Peek() == 'I') { is.Take(); if (!Lit(is, "nf")) return Fail(kParseErrorValueInvalid, is);
          if (is.Peek() == 'i') { if (!Lit(is, "inity")) return Fail(kParseErrorValueInvalid, is); }
          double d = std::numeric_limits<double>::infinity();
          if (!h.Double(neg ? -d : d)) return Fail(kParseErrorTermination, is); return true; }
      }
      if (is.Peek() == '0') { t.push_back(is.Take()); }
      else if (is.Peek() >= '1' && is.Peek() <= '9') { while (is.Peek() >= '0' && is.Peek() <= '9') t.push_back(is.Take()); }
      else return Fail(kParseErrorValueInvalid, is);
      if (is.Peek() == '.') { isint = false; t.push_back(is.Take());
        if (!(is.Peek() >= '0' && is.Peek() <= '9')) return Fail(kParseErrorNumberMissFraction, is);
        while (is.Peek() >= '0' && is.Peek() <= '9') t.push_back(is.Take()); }
      if (is.Peek() == 'e' || is.Peek() == 'E') { isint = false; t.push_back(is.Take());
        if (is.Peek() == '+' || is.Peek() == '-') t.push_back(is.Take());
        if (!(is.Peek() >= '0' && is.Peek() <= '9')) return Fail(kParseErrorNumberMissExponent, is);
        while (is.Peek() >= '0' && is.Peek() <= '9') t.push_back(is.Take()); }
      bool ok;
      if (isint) {
        const char* digits = t.c_str() + (neg ? 1 : 0); size_t nd = std::strlen(digits);
        bool fits64;
        if (neg) fits64 = nd < 19 || (nd == 19 && std::strcmp(digits, "9223372036854775808") <= 0);
        else     fits64 = nd < 20 || (nd == 20 && std::strcmp(digits, "18446744073709551615") <= 0);
        if (fits64) {
          if (neg) { int64_t v = (int64_t)(0 - std::strtoull(digits, nullptr, 10));
            ok = (v >= (int64_t)std::numeric_limits<int>::min()) ? h.Int((int)v) : h.Int64(v); }
          else { uint64_t v = std::strtoull(digits, nullptr, 10);
            if (v <= (uint64_t)std::numeric_limits<int>::max()) ok = h.Uint((unsigned)v);
            else if (v <= 0xFFFFFFFFull) ok = h.Uint((unsigned)v);
            else if (v <= (uint64_t)std::numeric_limits<int64_t>::max()) ok = h.Int64((int64_t)v);
            else ok = h.Uint64(v); }
        }
        else { double d = std::strtod(t.c_str(), nullptr); if (std::isinf(d)) return Fail(kParseErrorNumberTooBig, is); ok = h.Double(d); }
      }
      else { double d = std::strtod(t.c_str(), nullptr); if (std::isinf(d)) return Fail(kParseErrorNumberTooBig, is); ok = h.Double(d); }
      if (!ok) return Fail(kParseErrorTermination, is);
      return true;
    }
    ParseErrorCode err_; size_t off_;
  };
}
#endif
