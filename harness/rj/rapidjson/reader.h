#include "rapidjson/rapidjson.h"
