#include "rapidjson/rapidjson.h"
