#ifndef MINI_RAPIDJSON_WRITER_H_
#define MINI_RAPIDJSON_WRITER_H_
#include "rapidjson/rapidjson.h"
namespace rapidjson {
  template <typename OS>
  class Writer {
  public:
    typedef char Ch;
    explicit Writer(OS& os) : os_(&os), maxdec_(324), pretty_(false), indent_(4) {}
    void SetMaxDecimalPlaces(int n) { maxdec_ = n; }
    bool Null() { Prefix(); Raw("null"); return End(); }
    bool Bool(bool b) { Prefix(); Raw(b ? "true" : "false"); return End(); }
    bool Int(int i) { return Int64((int64_t)i); }
    bool Uint(unsigned u) { return Uint64((uint64_t)u); }
    bool Int64(int64_t i) { Prefix(); char buf[32]; std::snprintf(buf, sizeof buf, "%lld", (long long)i); Raw(buf); return End(); }
    bool Uint64(uint64_t u) { Prefix(); char buf[32]; std::snprintf(buf, sizeof buf, "%llu", (unsigned long long)u); Raw(buf); return End(); }
    bool Double(double d) {
      if (std::isnan(d) || std::isinf(d)) { return false; }
      Prefix();
      char buf[64];
      for (int prec = 1; prec <= 17; prec++) {
        std::snprintf(buf, sizeof buf, "%.*g", prec, d);
        if (std::strtod(buf, nullptr) == d) break;
      }
      std::string s(buf);
      // expand exponent form for moderate magnitudes and guarantee a ".0"
      if (s.find('e') != std::string::npos) {
        double a = std::fabs(d);
        if (a >= 1e-6 && a < 1e21) {
          char b2[400]; std::snprintf(b2, sizeof b2, "%.*f", 330, d);
          // shortest fixed repr that round-trips
          for (int prec = 0; prec <= 330; prec++) {
            std::snprintf(b2, sizeof b2, "%.*f", prec, d);
            if (std::strtod(b2, nullptr) == d) break;
          }
          s = b2;
        }
      }
      if (s.find('.') == std::string::npos && s.find('e') == std::string::npos) s += ".0";
      size_t dot = s.find('.');
      if (dot != std::string::npos && s.find('e') == std::string::npos && maxdec_ < 324) {
        size_t decimals = s.size() - dot - 1;
        if ((int)decimals > maxdec_) {
          s = s.substr(0, dot + 1 + (size_t)(maxdec_ > 0 ? maxdec_ : 1));
          if (maxdec_ <= 0) s = s.substr(0, dot + 1) + "0";
          // strip trailing zeros but keep one
          while (s.size() > dot + 2 && s[s.size() - 1] == '0') s.erase(s.size() - 1);
        }
      }
      Raw(s.c_str());
      return End();
    }
    bool String(const char* s, SizeType len, bool = false) { Prefix(); Quote(s, len); return End(); }
    bool String(const char* s) { return String(s, (SizeType)std::strlen(s)); }
    bool String(const std::string& s) { return String(s.c_str(), (SizeType)s.size()); }
    bool Key(const char* s, SizeType len, bool = false) { return String(s, len); }
    bool Key(const char* s) { return String(s); }
    bool RawNumber(const char* s, SizeType len, bool = false) { Prefix(); for (SizeType i = 0; i < len; i++) os_->Put(s[i]); return End(); }
    bool StartObject() { Prefix(); os_->Put('{'); stack_.push_back(Level(false)); return true; }
    bool EndObject(SizeType = 0) {
      bool nonempty = stack_.back().count != 0; stack_.pop_back();
      if (pretty_ && nonempty) { os_->Put('\n'); Indent(); }
      os_->Put('}'); return End(); }
    bool StartArray() { Prefix(); os_->Put('['); stack_.push_back(Level(true)); return true; }
    bool EndArray(SizeType = 0) {
      bool nonempty = stack_.back().count != 0; stack_.pop_back();
      if (pretty_ && nonempty) { os_->Put('\n'); Indent(); }
      os_->Put(']'); return End(); }
    void Flush() { os_->Flush(); }
    bool IsComplete() const { return stack_.empty(); }
  protected:
    struct Level { Level(bool a) : inArray(a), count(0) {} bool inArray; size_t count; };
    void Raw(const char* s) { while (*s) os_->Put(*s++); }
    void Indent() { for (size_t i = 0; i < stack_.size() * (size_t)indent_; i++) os_->Put(' '); }
    void Prefix() {
      if (!stack_.empty()) {
        Level& lv = stack_.back();
        if (lv.inArray) {
          if (lv.count > 0) os_->Put(',');
          if (pretty_) { os_->Put('\n'); Indent(); }
        }
        else {
          if (lv.count % 2 == 0) {
            if (lv.count > 0) os_->Put(',');
            if (pretty_) { os_->Put('\n'); Indent(); }
          }
          else { os_->Put(':'); if (pretty_) os_->Put(' '); }
        }
        lv.count++;
      }
    }
    bool End() { if (stack_.empty()) os_->Flush(); return true; }
    void Quote(const char* s, SizeType len) {
      static const char hex[] = "0123456789ABCDEF";
      os_->Put('"');
      for (SizeType i = 0; i < len; i++) {
        unsigned char c = (unsigned char)s[i];
        switch (c) {
          case '"': Raw("\\\""); break; case '\\': Raw("\\\\"); break;
          case '\b': Raw("\\b"); break; case '\f': Raw("\\f"); break;
          case '\n': Raw("\\n"); break; case '\r': Raw("\\r"); break; case '\t': Raw("\\t"); break;
          default:
            if (c < 0x20) { Raw("\\u00"); os_->Put(hex[c >> 4]); os_->Put(hex[c & 15]); }
            else os_->Put((char)c);
        }
      }
      os_->Put('"');
    }
    OS* os_; int maxdec_; bool pretty_; int indent_;
    std::vector<Level> stack_;
  };
}
#endif
