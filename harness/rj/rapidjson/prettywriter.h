#ifndef MINI_RAPIDJSON_PRETTYWRITER_H_
#define MINI_RAPIDJSON_PRETTYWRITER_H_
#include "rapidjson/writer.h"
namespace rapidjson {
  template <typename OS>
  class PrettyWriter : public Writer<OS> {
  public:
    explicit PrettyWriter(OS& os) : Writer<OS>(os) { this->pretty_ = true; }
    PrettyWriter& SetIndent(char, unsigned n) { this->indent_ = (int)n; return *this; }
  };
}
#endif
