#ifndef MINI_RAPIDJSON_DOCUMENT_H_
#define MINI_RAPIDJSON_DOCUMENT_H_
#include "rapidjson/rapidjson.h"
namespace rapidjson {
  class Value;
  struct Member;
  class Value {
  public:
    enum Kind { kNull, kFalse, kTrue, kObject, kArray, kString, kInt64, kUint64, kDouble };
    Value() : kind_(kNull), i_(0), u_(0), d_(0) {}
    bool IsNull() const { return kind_ == kNull; }
    bool IsBool() const { return kind_ == kTrue || kind_ == kFalse; }
    bool IsTrue() const { return kind_ == kTrue; }
    bool IsFalse() const { return kind_ == kFalse; }
    bool IsObject() const { return kind_ == kObject; }
    bool IsArray() const { return kind_ == kArray; }
    bool IsString() const { return kind_ == kString; }
    bool IsNumber() const { return kind_ == kInt64 || kind_ == kUint64 || kind_ == kDouble; }
    bool IsInt() const { return (kind_ == kInt64 && i_ >= -2147483648LL && i_ <= 2147483647LL); }
    bool IsUint() const { return (kind_ == kInt64 && i_ >= 0 && i_ <= 4294967295LL); }
    bool IsInt64() const { return kind_ == kInt64; }
    bool IsUint64() const { return kind_ == kUint64 || (kind_ == kInt64 && i_ >= 0); }
    bool IsDouble() const { return kind_ == kDouble; }
    bool GetBool() const { return kind_ == kTrue; }
    int GetInt() const { return (int)i_; }
    unsigned GetUint() const { return (unsigned)i_; }
    int64_t GetInt64() const { return kind_ == kUint64 ? (int64_t)u_ : i_; }
    uint64_t GetUint64() const { return kind_ == kUint64 ? u_ : (uint64_t)i_; }
    double GetDouble() const { return kind_ == kDouble ? d_ : (kind_ == kUint64 ? (double)u_ : (double)i_); }
    const char* GetString() const { return s_.c_str(); }
    SizeType GetStringLength() const { return (SizeType)s_.size(); }
    SizeType Size() const { return (SizeType)a_.size(); }
    SizeType MemberCount() const { return (SizeType)m_.size(); }
    bool Empty() const { return a_.empty(); }
    const Value& operator[](SizeType i) const { return a_[i]; }
    const Value& operator[](int i) const { return a_[(size_t)i]; }
    inline const Value& operator[](const char* name) const;
    inline bool HasMember(const char* name) const;
    typedef std::vector<Member>::const_iterator ConstMemberIterator;
    typedef std::vector<Value>::const_iterator ConstValueIterator;
    ConstMemberIterator MemberBegin() const { return m_.begin(); }
    ConstMemberIterator MemberEnd() const { return m_.end(); }
    ConstValueIterator Begin() const { return a_.begin(); }
    ConstValueIterator End() const { return a_.end(); }
    struct ConstObject { const std::vector<Member>* m;
      std::vector<Member>::const_iterator begin() const { return m->begin(); }
      std::vector<Member>::const_iterator end() const { return m->end(); } };
    struct ConstArray { const std::vector<Value>* a;
      std::vector<Value>::const_iterator begin() const { return a->begin(); }
      std::vector<Value>::const_iterator end() const { return a->end(); } };
    ConstObject GetObject() const { ConstObject o; o.m = &m_; return o; }
    ConstArray GetArray() const { ConstArray o; o.a = &a_; return o; }
    template <typename H> inline bool Accept(H& h) const;
    inline bool operator==(const Value& o) const;
    bool operator!=(const Value& o) const { return !(*this == o); }
    // building (used by the DOM builder below)
    Kind kind_; int64_t i_; uint64_t u_; double d_; std::string s_;
    std::vector<Value> a_; std::vector<Member> m_;
  };
  struct Member { Value name; Value value; };

  inline bool Value::HasMember(const char* name) const {
    for (size_t i = 0; i < m_.size(); i++) if (m_[i].name.s_ == name) return true;
    return false;
  }
  inline const Value& Value::operator[](const char* name) const {
    for (size_t i = 0; i < m_.size(); i++) if (m_[i].name.s_ == name) return m_[i].value;
    static const Value nullvalue; return nullvalue;
  }
  template <typename H> inline bool Value::Accept(H& h) const {
    switch (kind_) {
      case kNull: return h.Null();
      case kFalse: return h.Bool(false);
      case kTrue: return h.Bool(true);
      case kString: return h.String(s_.c_str(), (SizeType)s_.size(), true);
      case kInt64: return h.Int64(i_);
      case kUint64: return h.Uint64(u_);
      case kDouble: return h.Double(d_);
      case kArray:
        if (!h.StartArray()) return false;
        for (size_t i = 0; i < a_.size(); i++) if (!a_[i].Accept(h)) return false;
        return h.EndArray((SizeType)a_.size());
      case kObject:
        if (!h.StartObject()) return false;
        for (size_t i = 0; i < m_.size(); i++) {
          if (!h.Key(m_[i].name.s_.c_str(), (SizeType)m_[i].name.s_.size(), true)) return false;
          if (!m_[i].value.Accept(h)) return false;
        }
        return h.EndObject((SizeType)m_.size());
    }
    return false;
  }
  inline bool Value::operator==(const Value& o) const {
    if (IsNumber() && o.IsNumber()) {
      if (kind_ == kDouble || o.kind_ == kDouble) {
        double a = GetDouble(), b = o.GetDouble();
        return a >= b && a <= b;   // as RapidJSON: NaN != NaN
      }
      if (kind_ == kUint64 || o.kind_ == kUint64) {
        if ((kind_ == kInt64 && i_ < 0) || (o.kind_ == kInt64 && o.i_ < 0)) return false;
        return GetUint64() == o.GetUint64();
      }
      return i_ == o.i_;
    }
    if (kind_ != o.kind_) return false;
    switch (kind_) {
      case kNull: case kFalse: case kTrue: return true;
      case kString: return s_ == o.s_;
      case kArray:
        if (a_.size() != o.a_.size()) return false;
        for (size_t i = 0; i < a_.size(); i++) if (!(a_[i] == o.a_[i])) return false;
        return true;
      case kObject:
        if (m_.size() != o.m_.size()) return false;
        for (size_t i = 0; i < m_.size(); i++) {
          if (!o.HasMember(m_[i].name.s_.c_str())) return false;
          if (!(m_[i].value == o[m_[i].name.s_.c_str()])) return false;
        }
        return true;
      default: return false;
    }
  }

  class Document : public Value {
  public:
    Document() : err_(kParseErrorNone), off_(0) {}
    template <unsigned F> Document& Parse(const char* text) {
      StringStream ss(text); Builder b; Reader r;
      bool ok = r.template Parse<F>(ss, b);
      if (ok && b.done) { static_cast<Value&>(*this) = b.root; err_ = kParseErrorNone; }
      else { static_cast<Value&>(*this) = Value(); err_ = r.HasParseError() ? r.GetParseErrorCode() : kParseErrorDocumentEmpty; off_ = r.GetErrorOffset(); }
      return *this;
    }
    Document& Parse(const char* text) { return Parse<kParseDefaultFlags>(text); }
    bool HasParseError() const { return err_ != kParseErrorNone; }
    ParseErrorCode GetParseError() const { return err_; }
    size_t GetErrorOffset() const { return off_; }
  private:
    struct Builder : public BaseReaderHandler<UTF8<>, Builder> {
      Builder() : done(false) {}
      Value root; bool done;
      std::vector<Value> stack; std::vector<std::string> keys;
      bool Put(const Value& v) {
        if (stack.empty()) { root = v; done = true; return true; }
        Value& top = stack.back();
        if (top.kind_ == Value::kArray) top.a_.push_back(v);
        else { Member m; m.name.kind_ = Value::kString; m.name.s_ = keys.back(); keys.pop_back(); m.value = v; top.m_.push_back(m); }
        return true;
      }
      bool Null() { Value v; return Put(v); }
      bool Bool(bool b) { Value v; v.kind_ = b ? Value::kTrue : Value::kFalse; return Put(v); }
      bool Int(int i) { return Int64(i); }
      bool Uint(unsigned u) { return Int64((int64_t)u); }
      bool Int64(int64_t i) { Value v; v.kind_ = Value::kInt64; v.i_ = i; return Put(v); }
      bool Uint64(uint64_t u) { Value v; if (u <= 9223372036854775807ULL) { v.kind_ = Value::kInt64; v.i_ = (int64_t)u; } else { v.kind_ = Value::kUint64; v.u_ = u; } return Put(v); }
      bool Double(double d) { Value v; v.kind_ = Value::kDouble; v.d_ = d; return Put(v); }
      bool String(const char* s, SizeType n, bool) { Value v; v.kind_ = Value::kString; v.s_.assign(s, n); return Put(v); }
      bool StartObject() { Value v; v.kind_ = Value::kObject; stack.push_back(v); return true; }
      bool Key(const char* s, SizeType n, bool) { keys.push_back(std::string(s, n)); return true; }
      bool EndObject(SizeType) { Value v = stack.back(); stack.pop_back(); return Put(v); }
      bool StartArray() { Value v; v.kind_ = Value::kArray; stack.push_back(v); return true; }
      bool EndArray(SizeType) { Value v = stack.back(); stack.pop_back(); return Put(v); }
    };
    ParseErrorCode err_; size_t off_;
  };
}
#endif
