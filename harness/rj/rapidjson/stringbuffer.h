#include "rapidjson/rapidjson.h"
