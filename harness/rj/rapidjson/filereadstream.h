#include "rapidjson/rapidjson.h"
