#include "rapidjson/rapidjson.h"
namespace rapidjson { inline const char* GetParseError_En(ParseErrorCode) { return "parse error"; } }
