// In-process entry points and the extra operations needed by the L2 stand-in for awkward._ext (harness/l2/_ext.py).
// Compiled together with harness/worker/*.cpp (-DAKWORKER_SHARED) into libakworker.so.  Marshalling only.
#include <cstdio>
#include <cstring>
#include <cmath>
#include <sstream>
#include <vector>

#include "akworker.h"
#include "awkward/type/Type.h"
#include "awkward/type/ArrayType.h"
#include "awkward/type/ListType.h"
#include "awkward/type/OptionType.h"
#include "awkward/type/PrimitiveType.h"
#include "awkward/type/RecordType.h"
#include "awkward/type/RegularType.h"
#include "awkward/type/UnionType.h"
#include "awkward/type/UnknownType.h"
#include "awkward/builder/ArrayBuilder.h"
#include "awkward/builder/ArrayBuilderOptions.h"
#include "awkward/array/NumpyArray.h"
#include "awkward/array/RecordArray.h"
#include "awkward/array/UnionArray.h"
#include "awkward/array/IndexedArray.h"
#include "awkward/array/ByteMaskedArray.h"
#include "awkward/array/BitMaskedArray.h"
#include "awkward/array/UnmaskedArray.h"
#include "awkward/Reducer.h"

namespace ak = awkward;
namespace rj = rapidjson;
typedef rj::Value JV;

std::string process_line(const std::string& line);   // akworker.cpp

static std::string jint(int64_t x) { return std::to_string((long long)x); }

static std::string params_json(const ak::util::Parameters& p) {
  std::string out; bool first = true;
  for (auto& kv : p) {
    if (kv.second == "null") continue;
    out += (first ? "" : ","); first = false;
    out += jstr(kv.first) + ":" + jstr(kv.second);
  }
  return "{" + out + "}";
}

// ------------------------------------------------------------------ types <-> trees
std::string typetree(const ak::TypePtr& t) {
  const ak::Type* r = t.get();
  std::string base = ",\"p\":" + params_json(r->parameters());
  if (!r->typestr().empty()) base += ",\"typestr\":" + jstr(r->typestr());
  if (const ak::ArrayType* a = dynamic_cast<const ak::ArrayType*>(r))
    return "{\"c\":\"ArrayType\",\"x\":" + typetree(a->type()) + ",\"length\":" + jint(a->length()) + base + "}";
  if (dynamic_cast<const ak::UnknownType*>(r)) return "{\"c\":\"UnknownType\"" + base + "}";
  if (const ak::PrimitiveType* a = dynamic_cast<const ak::PrimitiveType*>(r))
    return "{\"c\":\"PrimitiveType\",\"dtype\":" + jstr(ak::util::dtype_to_name(a->dtype())) + base + "}";
  if (const ak::RegularType* a = dynamic_cast<const ak::RegularType*>(r))
    return "{\"c\":\"RegularType\",\"x\":" + typetree(a->type()) + ",\"size\":" + jint(a->size()) + base + "}";
  if (const ak::ListType* a = dynamic_cast<const ak::ListType*>(r))
    return "{\"c\":\"ListType\",\"x\":" + typetree(a->type()) + base + "}";
  if (const ak::OptionType* a = dynamic_cast<const ak::OptionType*>(r))
    return "{\"c\":\"OptionType\",\"x\":" + typetree(a->type()) + base + "}";
  if (const ak::UnionType* a = dynamic_cast<const ak::UnionType*>(r)) {
    std::string out = "{\"c\":\"UnionType\",\"xs\":[";
    std::vector<ak::TypePtr> ts = a->types();
    for (size_t i = 0; i < ts.size(); i++) out += (i ? "," : "") + typetree(ts[i]);
    return out + "]" + base + "}";
  }
  if (const ak::RecordType* a = dynamic_cast<const ak::RecordType*>(r)) {
    std::string out = "{\"c\":\"RecordType\",\"xs\":[";
    std::vector<ak::TypePtr> ts = a->types();
    for (size_t i = 0; i < ts.size(); i++) out += (i ? "," : "") + typetree(ts[i]);
    out += "]";
    if (!a->istuple()) {
      out += ",\"keys\":[";
      ak::util::RecordLookupPtr lk = a->recordlookup();
      for (size_t i = 0; i < lk->size(); i++) out += (i ? "," : "") + jstr((*lk)[i]);
      out += "]";
    }
    return out + base + "}";
  }
  throw HarnessError("unknown Type class");
}

static ak::util::Parameters tparams(const JV& t) {
  ak::util::Parameters p;
  if (t.HasMember("p") && t["p"].IsObject())
    for (auto& m : t["p"].GetObject()) p[std::string(m.name.GetString())] = std::string(m.value.GetString(), m.value.GetStringLength());
  return p;
}

ak::TypePtr mktype(const JV& t) {
  std::string c = gets(t, "c", "");
  ak::util::Parameters p = tparams(t);
  std::string ts = gets(t, "typestr", "");
  if (c == "ArrayType") return std::make_shared<ak::ArrayType>(p, ts, mktype(need(t, "x")), geti(t, "length", 0));
  if (c == "UnknownType") return std::make_shared<ak::UnknownType>(p, ts);
  if (c == "PrimitiveType") {
    ak::util::dtype dt = ak::util::name_to_dtype(gets(t, "dtype", ""));
    if (dt == ak::util::dtype::NOT_PRIMITIVE) throw std::invalid_argument("unrecognized primitive type: " + gets(t, "dtype", ""));
    return std::make_shared<ak::PrimitiveType>(p, ts, dt);
  }
  if (c == "RegularType") return std::make_shared<ak::RegularType>(p, ts, mktype(need(t, "x")), geti(t, "size", 0));
  if (c == "ListType") return std::make_shared<ak::ListType>(p, ts, mktype(need(t, "x")));
  if (c == "OptionType") return std::make_shared<ak::OptionType>(p, ts, mktype(need(t, "x")));
  std::vector<ak::TypePtr> xs;
  if (t.HasMember("xs")) for (auto& x : t["xs"].GetArray()) xs.push_back(mktype(x));
  if (c == "UnionType") return std::make_shared<ak::UnionType>(p, ts, xs);
  if (c == "RecordType") {
    if (t.HasMember("keys")) {
      ak::util::RecordLookupPtr lk = std::make_shared<ak::util::RecordLookup>();
      for (auto& x : t["keys"].GetArray()) lk->push_back(std::string(x.GetString()));
      return std::make_shared<ak::RecordType>(p, ts, xs, lk);
    }
    return std::make_shared<ak::RecordType>(p, ts, xs);
  }
  throw HarnessError("unknown type tree class '" + c + "'");
}

static ak::util::TypeStrs mktypestrs(const JV& st) {
  ak::util::TypeStrs out;
  if (st.HasMember("typestrs") && st["typestrs"].IsObject())
    for (auto& m : st["typestrs"].GetObject()) out[std::string(m.name.GetString())] = std::string(m.value.GetString());
  return out;
}

static std::string formquery(const ak::FormPtr& f) {
  std::pair<int64_t, int64_t> mm = f->minmax_depth();
  std::pair<bool, int64_t> bd = f->branch_depth();
  std::string out = "\"purelist_depth\":" + jint(f->purelist_depth()) + ",\"mindepth\":" + jint(mm.first) + ",\"maxdepth\":" + jint(mm.second)
       + ",\"branch\":" + (bd.first ? "1" : "0") + ",\"branchdepth\":" + jint(bd.second)
       + ",\"isregular\":" + (f->purelist_isregular() ? "1" : "0") + ",\"numfields\":" + jint(f->numfields()) + ",\"keys\":[";
  std::vector<std::string> ks = f->keys();
  for (size_t i = 0; i < ks.size(); i++) out += (i ? "," : "") + jstr(ks[i]);
  return out + "]";
}

static const char* optstr(const JV& st, const char* k, std::string& hold) {
  if (!st.HasMember(k) || !st[k].IsString()) return nullptr;
  hold = std::string(st[k].GetString(), st[k].GetStringLength());
  return hold.c_str();
}

// returns true when handled
bool l2_ops(const std::string& op, const JV& st, Session& S, std::string& out) {
  if (op == "type_tostring") { out = "{\"ok\":1,\"text\":" + jstr(mktype(need(st, "tree"))->tostring()) + "}"; return true; }
  if (op == "type_equal") {
    bool eq = mktype(need(st, "tree"))->equal(mktype(need(st, "other")), true);
    out = std::string("{\"ok\":1,\"bool\":") + (eq ? "1" : "0") + "}"; return true;
  }
  if (op == "form_fromjson") { out = "{\"ok\":1,\"text\":" + jstr(ak::Form::fromjson(gets(st, "text", ""))->tojson(false, true)) + "}"; return true; }
  if (op == "form_fromnumpy") {
    std::vector<int64_t> inner;
    if (st.HasMember("inner_shape")) for (auto& x : st["inner_shape"].GetArray()) inner.push_back(x.GetInt64());
    std::string kind = gets(st, "kind", "f");
    out = "{\"ok\":1,\"text\":" + jstr(ak::Form::fromnumpy(kind[0], geti(st, "itemsize", 8), inner)->tojson(false, true)) + "}";
    return true;
  }
  if (op == "form_tojson") {
    out = "{\"ok\":1,\"text\":" + jstr(ak::Form::fromjson(gets(st, "text", ""))->tojson(geti(st, "pretty", 0) != 0, geti(st, "verbose", 0) != 0)) + "}";
    return true;
  }
  if (op == "form_query") { out = "{\"ok\":1," + formquery(ak::Form::fromjson(gets(st, "text", ""))) + "}"; return true; }
  if (op == "form_type") {
    out = "{\"ok\":1,\"typetree\":" + typetree(ak::Form::fromjson(gets(st, "text", ""))->type(mktypestrs(st))) + "}"; return true;
  }
  if (op == "form_equal") {
    bool eq = ak::Form::fromjson(gets(st, "text", ""))->equal(ak::Form::fromjson(gets(st, "other", "")), true, true, true, false);
    out = std::string("{\"ok\":1,\"bool\":") + (eq ? "1" : "0") + "}"; return true;
  }
  if (op == "form_purelist_parameter") {
    out = "{\"ok\":1,\"text\":" + jstr(ak::Form::fromjson(gets(st, "text", ""))->purelist_parameter(gets(st, "key", ""))) + "}"; return true;
  }
  if (!st.HasMember("src")) return false;
  // ---- operations on a register
  static const char* mine[] = {"purelist_parameter", "fieldindex", "key", "axis_wrap_if_negative", "typeof", "tojson_opts",
                               "getitem_nothing", "getitem_at_nowrap", "getitem_range_nowrap", "union_project", nullptr};
  bool ismine = false;
  for (int i = 0; mine[i] != nullptr; i++) if (op == mine[i]) ismine = true;
  if (!ismine) return false;
  ak::ContentPtr src = S.get(gets(st, "src", ""));
  if (op == "purelist_parameter") { out = "{\"ok\":1,\"text\":" + jstr(src->purelist_parameter(gets(st, "key", ""))) + "}"; return true; }
  if (op == "fieldindex") { out = "{\"ok\":1,\"int\":" + jint(src->fieldindex(gets(st, "key", ""))) + "}"; return true; }
  if (op == "key") { out = "{\"ok\":1,\"text\":" + jstr(src->key(geti(st, "i", 0))) + "}"; return true; }
  if (op == "axis_wrap_if_negative") { out = "{\"ok\":1,\"int\":" + jint(src->axis_wrap_if_negative(geti(st, "axis", 0))) + "}"; return true; }
  if (op == "typeof") { out = "{\"ok\":1,\"typetree\":" + typetree(src->type(mktypestrs(st))) + "}"; return true; }
  if (op == "tojson_opts") {
    std::string h1, h2, h3, h4, h5;
    const char* nan_s = optstr(st, "nan_string", h1);
    const char* inf_s = optstr(st, "infinity_string", h2);
    const char* minf_s = optstr(st, "minus_infinity_string", h3);
    const char* re_s = optstr(st, "complex_real_string", h4);
    const char* im_s = optstr(st, "complex_imag_string", h5);
    bool pretty = geti(st, "pretty", 0) != 0;
    int64_t maxdecimals = geti(st, "maxdecimals", -1);
    if (st.HasMember("destination")) {
      FILE* f = fopen(gets(st, "destination", "").c_str(), "wb");
      if (f == nullptr) throw std::invalid_argument("file \"" + gets(st, "destination", "") + "\" could not be opened for writing");
      try { src->tojson(f, pretty, maxdecimals, geti(st, "buffersize", 65536), nan_s, inf_s, minf_s, re_s, im_s); }
      catch (...) { fclose(f); throw; }
      fclose(f);
      out = "{\"ok\":1}"; return true;
    }
    out = "{\"ok\":1,\"text\":" + jstr(src->tojson(pretty, maxdecimals, nan_s, inf_s, minf_s, re_s, im_s)) + "}"; return true;
  }
  ak::ContentPtr res;
  if (op == "getitem_nothing") res = src->getitem_nothing();
  else if (op == "getitem_at_nowrap") res = src->getitem_at_nowrap(geti(st, "i", 0));
  else if (op == "getitem_range_nowrap") res = src->getitem_range_nowrap(geti(st, "a", 0), geti(st, "b", 0));
  else if (op == "union_project") {
    int64_t i = geti(st, "i", 0);
    if (const ak::UnionArray8_32* u = dynamic_cast<const ak::UnionArray8_32*>(src.get())) res = u->project(i);
    else if (const ak::UnionArray8_U32* u = dynamic_cast<const ak::UnionArray8_U32*>(src.get())) res = u->project(i);
    else if (const ak::UnionArray8_64* u = dynamic_cast<const ak::UnionArray8_64*>(src.get())) res = u->project(i);
    else throw HarnessError("union_project: not a union");
  }
  std::string dst = gets(st, "dst", "");
  if (!dst.empty()) S.regs[dst] = res;
  out = "{" + project(res, st) + "}";
  return true;
}

// ------------------------------------------------------------------ in-process entry points
extern "C" {

const char* akw_run(const char* line) {
  static std::string hold;
  hold = process_line(std::string(line));
  return hold.c_str();
}

void* akw_builder_new(int64_t initial, double resize) {
  return reinterpret_cast<void*>(new ak::ArrayBuilder(ak::ArrayBuilderOptions(initial, resize)));
}

void akw_builder_free(void* b) {
  delete reinterpret_cast<ak::ArrayBuilder*>(b);
}

const char* akw_builder_cmd(void* vb, const char* cmd) {
  static std::string hold;
  ak::ArrayBuilder& b = *reinterpret_cast<ak::ArrayBuilder*>(vb);
  rj::Document c;
  c.Parse<rj::kParseNanAndInfFlag>(cmd);
  try {
    std::string k = gets(c, "c", "");
    if (k == "length") hold = "{\"ok\":1,\"int\":" + jint(b.length()) + "}";
    else if (k == "snapshot") hold = "{\"ok\":1,\"layout\":" + dumplayout(b.snapshot()) + "}";
    else {
      if (k == "null") b.null();
      else if (k == "bool") b.boolean(geti(c, "x", 0) != 0);
      else if (k == "int") b.integer(geti(c, "x", 0));
      else if (k == "realf") {
        const JV& x = need(c, "x");
        double v;
        if (x.IsString()) { std::string s(x.GetString()); v = s == "nan" ? std::nan("") : (s == "inf" ? INFINITY : -INFINITY); }
        else v = x.GetDouble();
        b.real(v);
      }
      else if (k == "complex") b.complex(std::complex<double>(need(c, "re").GetDouble(), need(c, "im").GetDouble()));
      else if (k == "datetime") b.datetime(geti(c, "x", 0), gets(c, "unit", "datetime64[s]"));
      else if (k == "timedelta") b.timedelta(geti(c, "x", 0), gets(c, "unit", "timedelta64[s]"));
      else if (k == "bytes" || k == "strb") {
        std::string s;
        for (auto& x : need(c, "b").GetArray()) s.push_back((char)x.GetInt());
        if (k == "bytes") b.bytestring(s); else b.string(s);
      }
      else if (k == "beginlist") b.beginlist();
      else if (k == "endlist") b.endlist();
      else if (k == "begintuple") b.begintuple(geti(c, "n", 0));
      else if (k == "index") b.index(geti(c, "i", 0));
      else if (k == "endtuple") b.endtuple();
      else if (k == "beginrecord") { if (geti(c, "hasname", 0) != 0) b.beginrecord_check(gets(c, "name", "")); else b.beginrecord(); }
      else if (k == "field") b.field_check(gets(c, "key", ""));
      else if (k == "endrecord") b.endrecord();
      else if (k == "clear") b.clear();
      else throw HarnessError("builder command " + k);
      hold = "{\"ok\":1}";
    }
  }
  catch (HarnessError& e) { hold = "{\"ok\":-1,\"harness\":" + jstr(e.what()) + "}"; }
  catch (std::invalid_argument& e) { hold = "{\"ok\":0,\"exc\":\"ValueError\",\"msg\":" + jstr(e.what()) + "}"; }
  catch (std::exception& e) { hold = "{\"ok\":0,\"exc\":\"RuntimeError\",\"msg\":" + jstr(e.what()) + "}"; }
  return hold.c_str();
}

}
