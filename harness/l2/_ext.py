"""Stand-in for awkward._ext (the pybind11 extension of /repo, which cannot be compiled in this sandbox:
the pybind11 submodule is empty).  Layer L2 of DESIGN.md section 3.1.

The classes below have the names, constructors, properties and methods that /repo/src/awkward/**/*.py import
from awkward._ext.  STRUCTURE (buffers, children, parameters) lives on the Python side as numpy arrays; every
method that computes something is forwarded to the real C++ of /repo (libawkward built from the working tree) through
libakworker.so: the operand layouts are serialised (LJSON), rebuilt with the public C++ constructors, the C++
method is called, and the resulting layout is serialised back.  So the repository's Python layer runs UNMODIFIED
on top of the repository's C++ algorithms; what this file replaces is only src/python/*.cpp (argument conversion).
It is part of the trusted base of every L2 check."""
import ctypes
import json
import numbers
import os

import numpy

__version__ = "1.4.0"
_HERE = os.path.dirname(os.path.abspath(__file__))
_lib = ctypes.CDLL(os.path.join(_HERE, "libakworker.so"))
_lib.akw_run.restype = ctypes.c_char_p
_lib.akw_run.argtypes = [ctypes.c_char_p]


def startup():
    pass


class _Harness(Exception):
    pass


def _run(steps):
    out = _lib.akw_run(json.dumps({"id": 0, "steps": steps}).encode("utf-8"))
    return json.loads(out.decode("utf-8", errors="replace"))["res"]


def _raise(r):
    if r.get("ok") == -1:
        raise _Harness(r.get("harness"))
    cls = {"ValueError": ValueError, "RuntimeError": RuntimeError, "MemoryError": MemoryError}.get(r.get("exc"), RuntimeError)
    raise cls(r.get("msg", ""))


# ------------------------------------------------------------------ dtypes
_DT = {"bool": "b", "int8": "i8", "int16": "i16", "int32": "i32", "int64": "i64", "uint8": "u8", "uint16": "u16",
       "uint32": "u32", "uint64": "u64", "float32": "f32", "float64": "f64", "complex64": "c64", "complex128": "c128"}
_DT_BACK = {v: k for k, v in _DT.items()}


def _dt_of(a):
    if a.dtype.kind == "M":
        return "M8"
    if a.dtype.kind == "m":
        return "m8"
    name = a.dtype.name
    if name not in _DT:
        raise ValueError("cannot include NumPy dtype %s in an Awkward Array (stand-in)" % name)
    return _DT[name]


def _vals(a):
    """flat JSON-able list of the elements of a numpy array (C order)"""
    a = numpy.ascontiguousarray(a)
    k = a.dtype.kind
    flat = a.reshape(-1)
    if k in "Mm":
        return [int(x) for x in flat.view(numpy.int64)]
    if k == "b":
        return [1 if x else 0 for x in flat]
    if k in "iu":
        return [int(x) for x in flat]
    if k == "f":
        out = []
        for x in flat:
            x = float(x)
            out.append("nan" if x != x else ("inf" if x == float("inf") else ("-inf" if x == float("-inf") else x)))
        return out
    if k == "c":
        def f(x):
            x = float(x)
            return "nan" if x != x else ("inf" if x == float("inf") else ("-inf" if x == float("-inf") else x))
        return [[f(x.real), f(x.imag)] for x in flat]
    raise ValueError("unsupported dtype kind " + k)


def _np_from(dt, shape, d, fmt=None):
    if dt in ("M8", "m8"):
        unit = ""
        if fmt and "[" in fmt:
            unit = fmt[fmt.index("["):]
        arr = numpy.array(d, dtype=numpy.int64).reshape(shape).view(("datetime64" if dt == "M8" else "timedelta64") + unit)
        return arr
    name = _DT_BACK[dt]
    if dt in ("c64", "c128"):
        def g(x):
            return float(x)
        vals = [complex(g(x[0]), g(x[1])) for x in d]
    elif dt in ("f32", "f64"):
        vals = [float(x) for x in d]
    else:
        vals = d
    return numpy.array(vals, dtype=name).reshape(shape)


# ------------------------------------------------------------------ Index
class _Index(object):
    _dtype = None
    _w = None

    def __init__(self, array):
        if isinstance(array, _Index):
            array = array._a
        a = numpy.asarray(array)
        if a.ndim != 1:
            raise ValueError("Index must be built from a one-dimensional array")
        if a.dtype != self._dtype:
            a = a.astype(self._dtype)
        self._a = numpy.ascontiguousarray(a)

    def __len__(self):
        return len(self._a)

    def __array__(self, *args, **kwargs):
        return self._a

    @property
    def __array_interface__(self):
        return self._a.__array_interface__

    def __buffer__(self, flags):
        return memoryview(self._a)

    def __getitem__(self, where):
        out = self._a[where]
        if isinstance(out, numpy.ndarray):
            return type(self)(out)
        return out.item() if hasattr(out, "item") else out

    def __repr__(self):
        return "<%s i=%r>" % (type(self).__name__, self._a.tolist())

    def tolist(self):
        return self._a.tolist()

    @property
    def form(self):
        return self._form

    @property
    def nbytes(self):
        return self._a.nbytes

    def copy_to(self, ptr_lib):
        return self

    @property
    def ptr_lib(self):
        return "cpu"


class Index8(_Index):
    _dtype = numpy.dtype(numpy.int8)
    _form = "i8"


class IndexU8(_Index):
    _dtype = numpy.dtype(numpy.uint8)
    _form = "u8"


class Index32(_Index):
    _dtype = numpy.dtype(numpy.int32)
    _form = "i32"


class IndexU32(_Index):
    _dtype = numpy.dtype(numpy.uint32)
    _form = "u32"


class Index64(_Index):
    _dtype = numpy.dtype(numpy.int64)
    _form = "i64"


_IDX = {"32": Index32, "U32": IndexU32, "64": Index64}


def _ilist(ix):
    return [int(x) for x in numpy.asarray(ix)]


class Identities32(object):
    pass


class Identities64(object):
    pass


class kernel_lib(object):
    cpu = "cpu"
    cuda = "cuda"


class _PersistentSharedPtr(object):
    def __init__(self, layout):
        self._layout = layout

    def layout(self):
        return self._layout

    def ptr(self):
        return id(self._layout)


# ------------------------------------------------------------------ parameters
def _params_in(parameters):
    if parameters is None:
        return {}
    return dict(parameters)


def _params_json(p):
    return {k: json.dumps(v) for k, v in p.items() if v is not None}


def _params_back(L):
    return {k: json.loads(v) for k, v in L.get("p", {}).items()}


# ------------------------------------------------------------------ slices (what src/python/content.cpp toslice() does)
def _slice_item(obj):
    if isinstance(obj, (bool, numpy.bool_)):
        raise ValueError("a boolean scalar is not a valid slice item (stand-in)")
    if isinstance(obj, (numbers.Integral, numpy.integer)):
        return [{"k": "at", "i": int(obj)}]
    if isinstance(obj, slice):
        def n(x):
            return None if x is None else int(x)
        if obj.step is not None and int(obj.step) == 0:
            raise ValueError("slice step must not be 0")
        return [{"k": "range", "a": n(obj.start), "b": n(obj.stop), "s": n(obj.step)}]
    if obj is Ellipsis:
        return [{"k": "ellipsis"}]
    if obj is None:
        return [{"k": "newaxis"}]
    if isinstance(obj, str):
        return [{"k": "field", "key": obj}]
    if isinstance(obj, Content):
        return [{"k": "content", "layout": obj._ljson()}]
    if hasattr(obj, "layout") and isinstance(getattr(obj, "layout"), Content):
        return [{"k": "content", "layout": obj.layout._ljson()}]
    if isinstance(obj, (list, tuple)) and len(obj) > 0 and all(isinstance(x, str) for x in obj):
        return [{"k": "fields", "keys": list(obj)}]
    if isinstance(obj, numpy.ma.MaskedArray):
        import awkward as ak
        return [{"k": "content", "layout": ak.operations.convert.from_numpy(obj, highlevel=False)._ljson()}]
    if isinstance(obj, (list, tuple)):
        import awkward as ak
        lay = ak.operations.convert.from_iter(obj, highlevel=False)
        if isinstance(lay, NumpyArray) or (isinstance(lay, RegularArray)):
            try:
                obj = numpy.asarray(ak.operations.convert.to_numpy(lay, allow_missing=False))
            except Exception:
                return [{"k": "content", "layout": lay._ljson()}]
        else:
            return [{"k": "content", "layout": lay._ljson()}]
    if isinstance(obj, numpy.ndarray) or hasattr(obj, "__array__"):
        a = numpy.asarray(obj)
        if a.dtype.kind == "b":
            if a.ndim == 0:
                raise ValueError("a boolean scalar is not a valid slice item (stand-in)")
            nz = numpy.nonzero(a)
            return [{"k": "arr", "data": [int(x) for x in ix], "shape": [len(ix)], "frombool": 1} for ix in nz]
        if a.dtype.kind in "iu":
            if a.ndim == 0:
                return [{"k": "at", "i": int(a)}]
            return [{"k": "arr", "data": [int(x) for x in a.reshape(-1)], "shape": list(a.shape)}]
        if a.size == 0:
            return [{"k": "arr", "data": [], "shape": list(a.shape)}]
        raise TypeError("only integers, slices (`:`), ellipsis (`...`), numpy.newaxis (`None`), integer/boolean "
                        "arrays (possibly with variable-length nested lists or missing values), field name (str) "
                        "or names (non-tuple iterable of str) are valid indices for slicing, not\n\n    " + repr(obj))
    raise TypeError("only integers, slices (`:`), ellipsis (`...`), numpy.newaxis (`None`), integer/boolean "
                    "arrays (possibly with variable-length nested lists or missing values), field name (str) "
                    "or names (non-tuple iterable of str) are valid indices for slicing, not\n\n    " + repr(obj))


def _slice(where):
    items = []
    if isinstance(where, tuple):
        for w in where:
            items.extend(_slice_item(w))
    else:
        items.extend(_slice_item(where))
    return items


# ------------------------------------------------------------------ Content
def _box(L):
    """LJSON dump of a C++ result -> stand-in object (what box() in content.cpp does)"""
    if L is None:
        return None
    c = L["c"]
    if c == "None":
        return None
    p = _params_back(L)
    if c == "Numpy":
        a = _np_from(L["dt"], L["shape"], L["d"], L.get("fmt"))
        if L.get("view") == "step2" and a.ndim == 1 and len(a) >= 1:
            wide = numpy.empty(2 * len(a), dtype=a.dtype)          # every second element of a wider buffer: x[1::2]
            wide[1::2] = a
            wide[0::2] = a[::-1] if a.dtype.kind not in "Mm" else a
            a = wide[1::2]
        if L.get("order") == "F" and a.ndim >= 2:
            a = numpy.asfortranarray(a)               # column-major buffer, same values (what x.T / asfortranarray hand over)
        if len(L["shape"]) == 0:
            return a[()] if a.dtype.kind in "Mm" else a[()].item()        # a scalar (py::cast of the C++ value)
        return NumpyArray(a, None, p)
    if c == "Empty":
        return EmptyArray(None, p)
    if c == "Regular":
        return RegularArray(_box(L["x"]), L["size"], L["zl"], None, p)
    if c == "ListOffset":
        cls = {"32": ListOffsetArray32, "U32": ListOffsetArrayU32, "64": ListOffsetArray64}[L["w"]]
        return cls(_IDX[L["w"]](L["o"]), _box(L["x"]), None, p)
    if c == "List":
        cls = {"32": ListArray32, "U32": ListArrayU32, "64": ListArray64}[L["w"]]
        return cls(_IDX[L["w"]](L["s"]), _IDX[L["w"]](L["e"]), _box(L["x"]), None, p)
    if c == "Indexed":
        cls = {"32": IndexedArray32, "U32": IndexedArrayU32, "64": IndexedArray64}[L["w"]]
        return cls(_IDX[L["w"]](L["i"]), _box(L["x"]), None, p)
    if c == "IndexedOption":
        cls = {"32": IndexedOptionArray32, "64": IndexedOptionArray64}[L["w"]]
        return cls(_IDX[L["w"]](L["i"]), _box(L["x"]), None, p)
    if c == "ByteMasked":
        return ByteMaskedArray(Index8(L["m"]), _box(L["x"]), bool(L["vw"]), None, p)
    if c == "BitMasked":
        return BitMaskedArray(IndexU8(L["m"]), _box(L["x"]), bool(L["vw"]), L["n"], bool(L["lsb"]), None, p)
    if c == "Unmasked":
        return UnmaskedArray(_box(L["x"]), None, p)
    if c == "Record":
        return RecordArray([_box(x) for x in L["xs"]], None if L["tuple"] else list(L["names"]), L["n"], None, p)
    if c == "RecordScalar":
        return Record(_box(L["x"]), L["at"])
    if c == "Union":
        cls = {"32": UnionArray8_32, "U32": UnionArray8_U32, "64": UnionArray8_64}[L["w"]]
        return cls(Index8(L["t"]), _IDX[L["w"]](L["i"]), [_box(x) for x in L["xs"]], None, p)
    raise _Harness("cannot box " + repr(L)[:200])


class Content(object):
    _parameters = None

    # ---- forwarding machinery
    def _call(self, op, extra_builds=(), want=("layout",), raw=False, **kw):
        steps = [{"op": "build", "dst": "a", "layout": self._ljson(), "want": []}]
        for name, lay in extra_builds:
            steps.append({"op": "build", "dst": name, "layout": lay._ljson(), "want": []})
        st = {"op": op, "src": "a", "want": list(want)}
        st.update(kw)
        steps.append(st)
        res = _run(steps)
        for r in res[:-1]:
            if r.get("ok") != 1:
                _raise(r)
        r = res[-1]
        if r.get("ok") != 1:
            _raise(r)
        if raw:
            return r
        return _box(r.get("layout"))

    # ---- generic properties
    @property
    def identities(self):
        return None

    @property
    def _persistent_shared_ptr(self):
        return _PersistentSharedPtr(self)

    @property
    def identity(self):
        raise ValueError("Record has no Identities")

    def setidentities(self, *args):
        pass

    @property
    def parameters(self):
        return dict(self._parameters)

    def parameter(self, key):
        return self._parameters.get(key)

    def setparameter(self, key, value):
        self._parameters[key] = value

    def withparameter(self, key, value):
        out = self._copy()
        out._parameters = dict(self._parameters)
        out._parameters[key] = value
        return out

    def _copy(self):
        import copy
        return copy.copy(self)

    def purelist_parameter(self, key):
        r = self._call("purelist_parameter", raw=True, want=(), key=key)
        return json.loads(r["text"])

    @property
    def kernels(self):
        return "cpu"

    @property
    def ptr_lib(self):
        return "cpu"

    @property
    def caches(self):
        return []

    def copy_to(self, ptr_lib):
        return self

    @property
    def nbytes(self):
        return 0

    def __len__(self):
        return self._length()

    def __iter__(self):
        for i in range(len(self)):
            yield self._call("getitem_at", i=i)

    def __repr__(self):
        return "<%s len=%d json=%s/>" % (type(self).__name__, len(self), self.tojson()[:200])

    def __str__(self):
        return repr(self)

    # ---- structure queries (C++)
    def _depthinfo(self):
        return self._call("id", raw=True, want=("depth",))

    @property
    def purelist_depth(self):
        return self._depthinfo()["purelist_depth"]

    @property
    def purelist_isregular(self):
        return bool(self._depthinfo()["isregular"])

    @property
    def minmax_depth(self):
        d = self._depthinfo()
        return (d["mindepth"], d["maxdepth"])

    @property
    def branch_depth(self):
        d = self._depthinfo()
        return (bool(d["branch"]), d["branchdepth"])

    @property
    def numfields(self):
        return self._depthinfo()["numfields"]

    def keys(self):
        return list(self._depthinfo()["keys"])

    def haskey(self, key):
        return key in self.keys()

    def fieldindex(self, key):
        return self._call("fieldindex", raw=True, want=(), key=key)["int"]

    def key(self, fieldindex):
        return self._call("key", raw=True, want=(), i=int(fieldindex))["text"]

    def axis_wrap_if_negative(self, axis):
        return self._call("axis_wrap_if_negative", raw=True, want=(), axis=int(axis))["int"]

    def validityerror(self, path="layout"):
        out = self._call("validityerror", raw=True, want=())["validity"]
        return None if out == "" else out

    @property
    def form(self):
        import awkward as ak
        return ak.forms.Form.fromjson(self._call("id", raw=True, want=("form",))["form"])

    def type(self, typestrs=None):
        r = self._call("typeof", raw=True, want=(), typestrs={} if typestrs is None else dict(typestrs))
        return _type_from(r["typetree"])

    def tojson(self, *args, **kwargs):
        names = ["pretty", "maxdecimals", "nan_string", "infinity_string", "minus_infinity_string",
                 "complex_real_string", "complex_imag_string"]
        if args and isinstance(args[0], str):
            names = ["destination", "pretty", "maxdecimals", "buffersize"] + names[2:]
        opts = dict(zip(names, args))
        opts.update(kwargs)
        opts = {k: v for k, v in opts.items() if v is not None}
        if "pretty" in opts:
            opts["pretty"] = 1 if opts["pretty"] else 0
        r = self._call("tojson_opts", raw=True, want=(), **opts)
        if "destination" in opts:
            return None
        return r["text"]

    # ---- operations (C++)
    def _view_range(self, start, stop):
        """what Content::getitem_range_nowrap returns for the buffer-sharing node classes: a node of the same class whose
        indexes are VIEWS of this node's buffers (no copy).  None: no Python-side view for this class (the C++ result is
        marshalled, i.e. copied).  Aliasing matters: the Python layer may write into what bytemask()/mask/index hand out."""
        return None

    def __getitem__(self, where):
        if isinstance(where, slice) and where.step in (None, 1) and self._length() >= 0:
            n = self._length()
            start, stop, _ = where.indices(n)
            stop = max(stop, start)
            v = self._view_range(start, stop)
            if v is not None:
                return v
        return self._call("getitem", slice=_slice(where), pydispatch=1)

    def getitem_nothing(self):
        return self._call("getitem_nothing")

    def getitem_at_nowrap(self, at):
        return self._call("getitem_at_nowrap", i=int(at))

    def getitem_range_nowrap(self, start, stop):
        return self._call("getitem_range_nowrap", a=int(start), b=int(stop))

    def carry(self, index, allow_lazy=False):
        return self._call("carry", index=_ilist(index), allow_lazy=1 if allow_lazy else 0)

    def deep_copy(self, copyarrays=True, copyindexes=True, copyidentities=True):
        return self._call("deep_copy")

    def num(self, axis=1):
        return self._call("num", axis=int(axis))

    def offsets_and_flatten(self, axis=1):
        r = self._call("flatten", raw=True, want=("layout",), axis=int(axis))
        return (Index64(r["offsets"]), _box(r["layout"]))

    def flatten(self, axis=1):
        return self.offsets_and_flatten(axis)[1]

    def localindex(self, axis=1):
        return self._call("localindex", axis=int(axis))

    def combinations(self, n, replacement=False, keys=None, parameters=None, axis=1):
        kw = dict(n=int(n), replacement=1 if replacement else 0, axis=int(axis))
        if keys is not None:
            kw["keys"] = list(keys)
        if parameters:
            kw["params"] = _params_json(parameters)
        return self._call("combinations", **kw)

    def rpad(self, arg0, arg1):
        return self._call("rpad", target=int(arg0), axis=int(arg1))

    def rpad_and_clip(self, arg0, arg1):
        return self._call("rpad_and_clip", target=int(arg0), axis=int(arg1))

    def fillna(self, value):
        return self._call("fillna", extra_builds=[("v", value)], value="v")

    def mergeable(self, other, mergebool=False):
        return bool(self._call("mergeable", extra_builds=[("o", other)], raw=True, want=(), other="o",
                               mergebool=1 if mergebool else 0)["bool"])

    def merge(self, other):
        return self._call("merge", extra_builds=[("o", other)], other="o")

    def merge_as_union(self, other):
        return self._call("merge_as_union", extra_builds=[("o", other)], other="o")

    def mergemany(self, others):
        names = ["o%d" % i for i in range(len(others))]
        return self._call("mergemany", extra_builds=list(zip(names, others)), others=names)

    def numbers_to_type(self, name):
        return self._call("numbers_to_type", name=str(name))

    def is_unique(self):
        return bool(self._call("is_unique", raw=True, want=())["bool"])

    def unique(self):
        return self._call("unique")

    def sort(self, axis, ascending, stable):
        return self._call("sort", axis=int(axis), ascending=1 if ascending else 0, stable=1 if stable else 0)

    def argsort(self, axis, ascending, stable):
        return self._call("argsort", axis=int(axis), ascending=1 if ascending else 0, stable=1 if stable else 0)

    def _reduce(self, name, axis, mask, keepdims, initial=None):
        kw = dict(reducer=name, axis=int(axis), mask=1 if mask else 0, keepdims=1 if keepdims else 0)
        if initial is not None:
            kw["initial"] = float(initial)
        return self._call("reduce", **kw)

    def count(self, axis=-1, mask=False, keepdims=False):
        return self._reduce("count", axis, mask, keepdims)

    def count_nonzero(self, axis=-1, mask=False, keepdims=False):
        return self._reduce("count_nonzero", axis, mask, keepdims)

    def sum(self, axis=-1, mask=False, keepdims=False):
        return self._reduce("sum", axis, mask, keepdims)

    def prod(self, axis=-1, mask=False, keepdims=False):
        return self._reduce("prod", axis, mask, keepdims)

    def any(self, axis=-1, mask=False, keepdims=False):
        return self._reduce("any", axis, mask, keepdims)

    def all(self, axis=-1, mask=False, keepdims=False):
        return self._reduce("all", axis, mask, keepdims)

    def min(self, axis=-1, mask=True, keepdims=False, initial=None):
        return self._reduce("min", axis, mask, keepdims, initial)

    def max(self, axis=-1, mask=True, keepdims=False, initial=None):
        return self._reduce("max", axis, mask, keepdims, initial)

    def argmin(self, axis=-1, mask=True, keepdims=False):
        return self._reduce("argmin", axis, mask, keepdims)

    def argmax(self, axis=-1, mask=True, keepdims=False):
        return self._reduce("argmax", axis, mask, keepdims)

    def simplify(self):
        return self._call("simplify")


def _init_common(self, identities, parameters):
    self._parameters = _params_in(parameters)


def _lp(self, d):
    p = _params_json(self._parameters)
    if p:
        d["p"] = p
    return d


class EmptyArray(Content):
    def __init__(self, identities=None, parameters=None):
        _init_common(self, identities, parameters)

    def _ljson(self):
        return _lp(self, {"c": "Empty"})

    def _length(self):
        return 0

    def toNumpyArray(self):
        return NumpyArray(numpy.array([], dtype=numpy.float64))


class NumpyArray(Content):
    def __init__(self, array, identities=None, parameters=None):
        if isinstance(array, NumpyArray):
            array = array._a
        a = numpy.asarray(array)
        if a.dtype.kind in "OUS":
            raise ValueError("cannot include NumPy object/string arrays in an Awkward Array (stand-in)")
        if a.dtype.kind in "iufcbMm" and not a.dtype.isnative:
            a = a.astype(a.dtype.newbyteorder("="))
        _dt_of(a)
        self._a = a
        _init_common(self, identities, parameters)

    @classmethod
    def from_cupy(cls, *a, **k):
        raise NotImplementedError

    from_jax = from_cupy

    def _ljson(self):
        d = {"c": "Numpy", "dt": _dt_of(self._a), "shape": list(self._a.shape), "d": _vals(self._a)}
        if self._a.dtype.kind in "Mm":
            d["fmt"] = self._a.dtype.str[1:]
        return _lp(self, d)

    def _length(self):
        if self._a.ndim == 0:
            return -1
        return self._a.shape[0]

    def _view_range(self, start, stop):
        return NumpyArray(self._a[start:stop], None, dict(self._parameters))

    def __array__(self, *args, **kwargs):
        return self._a

    @property
    def __array_interface__(self):
        return self._a.__array_interface__

    def __buffer__(self, flags):
        return memoryview(self._a)

    @property
    def shape(self):
        return tuple(self._a.shape)

    @property
    def strides(self):
        return tuple(self._a.strides)

    @property
    def itemsize(self):
        return self._a.itemsize

    @property
    def format(self):
        return self._a.dtype.char if self._a.dtype.kind not in "Mm" else self._a.dtype.str[1:]

    @property
    def ndim(self):
        return self._a.ndim

    @property
    def isscalar(self):
        return self._a.ndim == 0

    @property
    def isempty(self):
        return self._a.size == 0

    @property
    def iscontiguous(self):
        return self._a.flags["C_CONTIGUOUS"]

    @property
    def ptr(self):
        return self._a.ctypes.data

    @property
    def view_int64(self):
        return NumpyArray(self._a.view(numpy.int64))

    @property
    def nbytes(self):
        return self._a.nbytes

    def contiguous(self):
        return NumpyArray(numpy.ascontiguousarray(self._a), None, self._parameters)

    def toRegularArray(self):
        return self._call("toRegularArray")

    def to_cupy(self):
        raise NotImplementedError

    to_jax = to_cupy


class RegularArray(Content):
    def __init__(self, content, size, zeros_length=0, identities=None, parameters=None):
        if not isinstance(content, Content):
            raise TypeError("RegularArray content must be a Content")
        self._content, self._size, self._zl = content, int(size), int(zeros_length)
        _init_common(self, identities, parameters)

    def _ljson(self):
        return _lp(self, {"c": "Regular", "size": self._size, "zl": self._length(), "x": self._content._ljson()})

    def _length(self):
        return self._zl if self._size == 0 else len(self._content) // self._size

    @property
    def content(self):
        return self._content

    @property
    def size(self):
        return self._size

    def compact_offsets64(self, start_at_zero=True):
        return Index64(self._call("compact_offsets64", raw=True, want=(), start_at_zero=1 if start_at_zero else 0)["index"])

    def broadcast_tooffsets64(self, offsets):
        return self._call("broadcast_tooffsets64", offsets=_ilist(offsets))

    def toRegularArray(self):
        return self

    def toListOffsetArray64(self, start_at_zero=True):
        return self._call("toListOffsetArray64", start_at_zero=1 if start_at_zero else 0)


class _ListBase(Content):
    def compact_offsets64(self, start_at_zero=True):
        return Index64(self._call("compact_offsets64", raw=True, want=(), start_at_zero=1 if start_at_zero else 0)["index"])

    def broadcast_tooffsets64(self, offsets):
        return self._call("broadcast_tooffsets64", offsets=_ilist(offsets))

    def toRegularArray(self):
        return self._call("toRegularArray")

    def toListOffsetArray64(self, start_at_zero=True):
        return self._call("toListOffsetArray64", start_at_zero=1 if start_at_zero else 0)

    @property
    def content(self):
        return self._content


def _mk_listoffset(w):
    class _C(_ListBase):
        _w = w

        def __init__(self, offsets, content, identities=None, parameters=None):
            if not isinstance(offsets, _IDX[w]):
                raise TypeError("%s offsets must be %s" % (type(self).__name__, _IDX[w].__name__))
            if not isinstance(content, Content):
                raise TypeError("content must be a Content")
            self._offsets, self._content = offsets, content
            _init_common(self, identities, parameters)

        def _ljson(self):
            return _lp(self, {"c": "ListOffset", "w": w, "o": _ilist(self._offsets), "x": self._content._ljson()})

        def _length(self):
            return len(self._offsets) - 1

        def _view_range(self, start, stop):
            return type(self)(_IDX[w](self._offsets._a[start:stop + 1]), self._content, None, dict(self._parameters))

        @property
        def offsets(self):
            return self._offsets

        @property
        def starts(self):
            return _IDX[w](self._offsets._a[:-1])

        @property
        def stops(self):
            return _IDX[w](self._offsets._a[1:])
    return _C


ListOffsetArray32 = _mk_listoffset("32")
ListOffsetArray32.__name__ = "ListOffsetArray32"
ListOffsetArrayU32 = _mk_listoffset("U32")
ListOffsetArrayU32.__name__ = "ListOffsetArrayU32"
ListOffsetArray64 = _mk_listoffset("64")
ListOffsetArray64.__name__ = "ListOffsetArray64"


def _mk_list(w):
    class _C(_ListBase):
        _w = w

        def __init__(self, starts, stops, content, identities=None, parameters=None):
            if not isinstance(starts, _IDX[w]) or not isinstance(stops, _IDX[w]):
                raise TypeError("starts/stops must be %s" % _IDX[w].__name__)
            if not isinstance(content, Content):
                raise TypeError("content must be a Content")
            self._starts, self._stops, self._content = starts, stops, content
            _init_common(self, identities, parameters)

        def _ljson(self):
            return _lp(self, {"c": "List", "w": w, "s": _ilist(self._starts), "e": _ilist(self._stops), "x": self._content._ljson()})

        def _length(self):
            return len(self._starts)

        @property
        def starts(self):
            return self._starts

        @property
        def stops(self):
            return self._stops
    return _C


ListArray32 = _mk_list("32")
ListArray32.__name__ = "ListArray32"
ListArrayU32 = _mk_list("U32")
ListArrayU32.__name__ = "ListArrayU32"
ListArray64 = _mk_list("64")
ListArray64.__name__ = "ListArray64"


class _OptionLike(Content):
    @property
    def content(self):
        return self._content

    def project(self, mask=None):
        if mask is not None:
            return self._call("project", mask=_ilist(mask))
        return self._call("project")

    def bytemask(self):
        return Index8(self._call("bytemask", raw=True, want=())["index"])

    def simplify(self):
        return self._call("simplify_optiontype")

    @property
    def isoption(self):
        return True


def _mk_indexed(w, opt):
    class _C(_OptionLike):
        _w = w

        def __init__(self, index, content, identities=None, parameters=None):
            if not isinstance(index, _IDX[w]):
                raise TypeError("index must be %s" % _IDX[w].__name__)
            if not isinstance(content, Content):
                raise TypeError("content must be a Content")
            self._index, self._content = index, content
            _init_common(self, identities, parameters)

        def _ljson(self):
            return _lp(self, {"c": "IndexedOption" if opt else "Indexed", "w": w, "i": _ilist(self._index), "x": self._content._ljson()})

        def _length(self):
            return len(self._index)

        def _view_range(self, start, stop):
            return type(self)(_IDX[w](self._index._a[start:stop]), self._content, None, dict(self._parameters))

        @property
        def index(self):
            return self._index

        @property
        def isoption(self):
            return opt
    return _C


IndexedArray32 = _mk_indexed("32", False)
IndexedArray32.__name__ = "IndexedArray32"
IndexedArrayU32 = _mk_indexed("U32", False)
IndexedArrayU32.__name__ = "IndexedArrayU32"
IndexedArray64 = _mk_indexed("64", False)
IndexedArray64.__name__ = "IndexedArray64"
IndexedOptionArray32 = _mk_indexed("32", True)
IndexedOptionArray32.__name__ = "IndexedOptionArray32"
IndexedOptionArray64 = _mk_indexed("64", True)
IndexedOptionArray64.__name__ = "IndexedOptionArray64"


class ByteMaskedArray(_OptionLike):
    def __init__(self, mask, content, valid_when, identities=None, parameters=None):
        if not isinstance(mask, Index8):
            raise TypeError("mask must be Index8")
        if not isinstance(content, Content):
            raise TypeError("content must be a Content")
        self._mask, self._content, self._vw = mask, content, bool(valid_when)
        _init_common(self, identities, parameters)

    def _ljson(self):
        return _lp(self, {"c": "ByteMasked", "m": _ilist(self._mask), "vw": 1 if self._vw else 0, "x": self._content._ljson()})

    def _length(self):
        return len(self._mask)

    def _view_range(self, start, stop):
        return ByteMaskedArray(Index8(self._mask._a[start:stop]), self._content[start:stop], self._vw, None, dict(self._parameters))

    @property
    def mask(self):
        return self._mask

    @property
    def valid_when(self):
        return self._vw

    def toIndexedOptionArray64(self):
        return self._call("toIndexedOptionArray64")

    def bytemask(self):
        # as ByteMaskedArray::bytemask(): with valid_when == false the mask ITSELF is returned (same buffer, no copy)
        if not self._vw:
            return self._mask
        return _OptionLike.bytemask(self)


class BitMaskedArray(_OptionLike):
    def __init__(self, mask, content, valid_when, length, lsb_order, identities=None, parameters=None):
        if not isinstance(mask, IndexU8):
            raise TypeError("mask must be IndexU8")
        if not isinstance(content, Content):
            raise TypeError("content must be a Content")
        self._mask, self._content, self._vw, self._n, self._lsb = mask, content, bool(valid_when), int(length), bool(lsb_order)
        _init_common(self, identities, parameters)

    def _ljson(self):
        return _lp(self, {"c": "BitMasked", "m": _ilist(self._mask), "vw": 1 if self._vw else 0, "lsb": 1 if self._lsb else 0,
                          "n": self._n, "x": self._content._ljson()})

    def _length(self):
        return self._n

    @property
    def mask(self):
        return self._mask

    @property
    def valid_when(self):
        return self._vw

    @property
    def lsb_order(self):
        return self._lsb

    def toByteMaskedArray(self):
        return self._call("toByteMaskedArray")

    def toIndexedOptionArray64(self):
        return self._call("toIndexedOptionArray64")


class UnmaskedArray(_OptionLike):
    def __init__(self, content, identities=None, parameters=None):
        if not isinstance(content, Content):
            raise TypeError("content must be a Content")
        self._content = content
        _init_common(self, identities, parameters)

    def _ljson(self):
        return _lp(self, {"c": "Unmasked", "x": self._content._ljson()})

    def _length(self):
        return len(self._content)

    def toIndexedOptionArray64(self):
        return self._call("toIndexedOptionArray64")


class RecordArray(Content):
    def __init__(self, contents, keys=None, length=None, identities=None, parameters=None):
        if isinstance(contents, dict):
            keys = list(contents.keys())
            contents = list(contents.values())
        contents = list(contents)
        for x in contents:
            if not isinstance(x, Content):
                raise TypeError("RecordArray contents must be Content")
        if keys is not None:
            keys = [str(k) for k in keys]
            if len(keys) != len(contents):
                raise ValueError("recordlookup and contents must have the same number of elements")
        self._contents, self._keys = contents, keys
        if length is None:
            if len(contents) == 0:
                raise ValueError("RecordArray must have a length if it has no contents")
            length = min(len(x) for x in contents)
        self._n = int(length)
        _init_common(self, identities, parameters)

    def _ljson(self):
        return _lp(self, {"c": "Record", "tuple": 1 if self._keys is None else 0, "names": self._keys or [], "n": self._n,
                          "xs": [x._ljson() for x in self._contents]})

    def _length(self):
        return self._n

    @property
    def recordlookup(self):
        return None if self._keys is None else list(self._keys)

    @property
    def istuple(self):
        return self._keys is None

    @property
    def astuple(self):
        return RecordArray(self._contents, None, self._n, None, self._parameters)

    @property
    def contents(self):
        return [x if len(x) == self._n else x[0:self._n] for x in self._contents]

    def keys(self):
        return [str(i) for i in range(len(self._contents))] if self._keys is None else list(self._keys)

    def field(self, which):
        if isinstance(which, str):
            which = self.fieldindex(which)
        return self._contents[which]          # as src/python/content.cpp: the field as it is stored, NOT cut to the record length

    def fields(self):
        return self.contents

    def fielditems(self):
        return list(zip(self.keys(), self.contents))

    def setitem_field(self, where, what):
        if isinstance(where, str):
            return self._call("setitem_field", extra_builds=[("w", what)], where=where, what="w")
        kw = {} if where is None else {"wherei": int(where)}
        if where is None:
            kw = {"wherei": len(self._contents)}
        return self._call("setitem_field", extra_builds=[("w", what)], what="w", **kw)

    def __iter__(self):
        for i in range(len(self)):
            yield self._call("getitem_at", i=i)


class Record(object):
    def __init__(self, array, at):
        self._array, self._at = array, int(at)
        self._parameters = array._parameters

    @property
    def identities(self):
        return None

    @property
    def identity(self):
        raise ValueError("Record has no Identities")

    @property
    def kernels(self):
        return "cpu"

    @property
    def caches(self):
        return []

    def fields(self):
        return [x[self._at] for x in self._array.contents]

    def simplify(self):
        return self

    @property
    def array(self):
        return self._array

    @property
    def at(self):
        return self._at

    @property
    def istuple(self):
        return self._array.istuple

    @property
    def recordlookup(self):
        return self._array.recordlookup

    @property
    def astuple(self):
        return Record(self._array.astuple, self._at)

    @property
    def contents(self):
        return [x[self._at] for x in self._array.contents]

    def keys(self):
        return self._array.keys()

    def haskey(self, key):
        return self._array.haskey(key)

    def fieldindex(self, key):
        return self._array.fieldindex(key)

    def key(self, i):
        return self._array.key(i)

    @property
    def numfields(self):
        return self._array.numfields

    def field(self, which):
        return self._array.field(which)[self._at]

    def fielditems(self):
        return [(k, x[self._at]) for k, x in self._array.fielditems()]

    @property
    def parameters(self):
        return self._array.parameters

    def parameter(self, key):
        return self._array.parameter(key)

    def purelist_parameter(self, key):
        return self._array.purelist_parameter(key)

    def type(self, typestrs=None):
        return self._array.type(typestrs)

    @property
    def form(self):
        return self._array.form

    def __getitem__(self, where):
        if isinstance(where, str):
            return self.field(where)
        if isinstance(where, (list, tuple)) and len(where) > 0 and all(isinstance(x, str) for x in where):
            return Record(self._array[list(where)], self._at)
        if isinstance(where, tuple) and len(where) > 0:
            return self._array[(self._at,) + where] if False else self._array[self._at:self._at + 1][(0,) + where]
        raise ValueError("scalar Record can only be sliced by field name (string)")

    def tojson(self, *args, **kwargs):
        out = self._array[self._at:self._at + 1].tojson(*args, **kwargs)
        if out is None:
            return None
        s = out.strip()
        return s[1:-1]

    def deep_copy(self, *args, **kwargs):
        return Record(self._array.deep_copy(), self._at)

    def copy_to(self, ptr_lib):
        return self

    def __repr__(self):
        return "<Record at=%d %s/>" % (self._at, self.tojson())


def _mk_union(w):
    class _C(Content):
        _w = w

        def __init__(self, tags, index, contents, identities=None, parameters=None):
            if not isinstance(tags, Index8):
                raise TypeError("tags must be Index8")
            if not isinstance(index, _IDX[w]):
                raise TypeError("index must be %s" % _IDX[w].__name__)
            contents = list(contents)
            if len(contents) == 0:
                raise ValueError("UnionArray must have at least one content")
            for x in contents:
                if not isinstance(x, Content):
                    raise TypeError("UnionArray contents must be Content")
            self._tags, self._index, self._contents = tags, index, contents
            _init_common(self, identities, parameters)

        def _ljson(self):
            return _lp(self, {"c": "Union", "w": w, "t": _ilist(self._tags), "i": _ilist(self._index),
                              "xs": [x._ljson() for x in self._contents]})

        def _length(self):
            return len(self._tags)

        @property
        def tags(self):
            return self._tags

        @property
        def index(self):
            return self._index

        @property
        def contents(self):
            return list(self._contents)

        @property
        def numcontents(self):
            return len(self._contents)

        def content(self, i):
            return self._contents[i]

        def project(self, i):
            return self._call("union_project", i=int(i))

        def simplify(self, merge=True, mergebool=False):
            return self._call("simplify_uniontype", merge=1 if merge else 0, mergebool=1 if mergebool else 0)

        @staticmethod
        def regular_index(tags):
            t = numpy.asarray(tags)
            out = numpy.empty(len(t), dtype=_IDX[w]._dtype)
            counts = {}
            for k, x in enumerate(t):
                out[k] = counts.get(int(x), 0)
                counts[int(x)] = out[k] + 1
            return _IDX[w](out)

        @staticmethod
        def sparse_index(length):
            return _IDX[w](numpy.arange(length))

        @staticmethod
        def nested_tags_index(offsets, counts):
            off = numpy.asarray(offsets)
            cs = [numpy.asarray(c) for c in counts]
            tags = []
            index = []
            nexts = [0] * len(cs)
            for i in range(len(off) - 1):
                for k, c in enumerate(cs):
                    for _ in range(int(c[i])):
                        tags.append(k)
                        index.append(nexts[k])
                        nexts[k] += 1
            return (Index8(numpy.array(tags, dtype=numpy.int8)), _IDX[w](numpy.array(index, dtype=_IDX[w]._dtype)))
    return _C


UnionArray8_32 = _mk_union("32")
UnionArray8_32.__name__ = "UnionArray8_32"
UnionArray8_U32 = _mk_union("U32")
UnionArray8_U32.__name__ = "UnionArray8_U32"
UnionArray8_64 = _mk_union("64")
UnionArray8_64.__name__ = "UnionArray8_64"


# ------------------------------------------------------------------ iterator
class Iterator(object):
    def __init__(self, content):
        self._content = content
        self._at = 0

    def __iter__(self):
        return self

    def __next__(self):
        if self._at >= len(self._content):
            raise StopIteration
        out = self._content[self._at]
        self._at += 1
        return out

    next = __next__


# ------------------------------------------------------------------ types
class Type(object):
    def __init__(self, parameters=None, typestr=None):
        self._parameters = _params_in(parameters)
        self._typestr = typestr

    @property
    def parameters(self):
        return dict(self._parameters)

    def parameter(self, key):
        return self._parameters.get(key)

    @property
    def typestr(self):
        return self._typestr

    def _base(self, d):
        p = _params_json(self._parameters)
        if p:
            d["p"] = p
        if self._typestr is not None:
            d["typestr"] = self._typestr
        return d

    def __str__(self):
        r = _run([{"op": "type_tostring", "tree": self._tree()}])[0]
        if r.get("ok") != 1:
            _raise(r)
        return r["text"]

    def __repr__(self):
        return str(self)

    def __eq__(self, other):
        if not isinstance(other, Type):
            return False
        r = _run([{"op": "type_equal", "tree": self._tree(), "other": other._tree()}])[0]
        if r.get("ok") != 1:
            _raise(r)
        return bool(r["bool"])

    def __ne__(self, other):
        return not self.__eq__(other)

    __hash__ = None

    def empty(self):
        raise NotImplementedError


class ArrayType(Type):
    def __init__(self, type, length, parameters=None, typestr=None):
        Type.__init__(self, parameters, typestr)
        self._type, self._length = type, int(length)

    @property
    def type(self):
        return self._type

    @property
    def length(self):
        return self._length

    def _tree(self):
        return self._base({"c": "ArrayType", "x": self._type._tree(), "length": self._length})


class UnknownType(Type):
    def _tree(self):
        return self._base({"c": "UnknownType"})


class PrimitiveType(Type):
    def __init__(self, dtype, parameters=None, typestr=None):
        Type.__init__(self, parameters, typestr)
        self._dtype = str(dtype)

    @property
    def dtype(self):
        return self._dtype

    def _tree(self):
        return self._base({"c": "PrimitiveType", "dtype": self._dtype})


class RegularType(Type):
    def __init__(self, type, size, parameters=None, typestr=None):
        Type.__init__(self, parameters, typestr)
        self._type, self._size = type, int(size)

    @property
    def type(self):
        return self._type

    @property
    def size(self):
        return self._size

    def _tree(self):
        return self._base({"c": "RegularType", "x": self._type._tree(), "size": self._size})


class ListType(Type):
    def __init__(self, type, parameters=None, typestr=None):
        Type.__init__(self, parameters, typestr)
        self._type = type

    @property
    def type(self):
        return self._type

    def _tree(self):
        return self._base({"c": "ListType", "x": self._type._tree()})


class OptionType(Type):
    def __init__(self, type, parameters=None, typestr=None):
        Type.__init__(self, parameters, typestr)
        self._type = type

    @property
    def type(self):
        return self._type

    def _tree(self):
        return self._base({"c": "OptionType", "x": self._type._tree()})


class UnionType(Type):
    def __init__(self, types, parameters=None, typestr=None):
        Type.__init__(self, parameters, typestr)
        self._types = list(types)

    @property
    def types(self):
        return list(self._types)

    @property
    def numtypes(self):
        return len(self._types)

    def type(self, i):
        return self._types[i]

    def _tree(self):
        return self._base({"c": "UnionType", "xs": [x._tree() for x in self._types]})


class RecordType(Type):
    def __init__(self, types, keys=None, parameters=None, typestr=None):
        Type.__init__(self, parameters, typestr)
        if isinstance(types, dict):
            keys = list(types.keys())
            types = list(types.values())
        self._types = list(types)
        self._keys = None if keys is None else [str(k) for k in keys]

    @property
    def types(self):
        return list(self._types)

    @property
    def istuple(self):
        return self._keys is None

    def keys(self):
        return [str(i) for i in range(len(self._types))] if self._keys is None else list(self._keys)

    @property
    def numfields(self):
        return len(self._types)

    def field(self, which):
        if isinstance(which, str):
            which = self.keys().index(which)
        return self._types[which]

    def fields(self):
        return list(self._types)

    def fielditems(self):
        return list(zip(self.keys(), self._types))

    def _tree(self):
        d = {"c": "RecordType", "xs": [x._tree() for x in self._types]}
        if self._keys is not None:
            d["keys"] = self._keys
        return self._base(d)


def _type_from(t):
    p = {k: json.loads(v) for k, v in t.get("p", {}).items()}
    ts = t.get("typestr")
    c = t["c"]
    if c == "UnknownType":
        return UnknownType(p, ts)
    if c == "PrimitiveType":
        return PrimitiveType(t["dtype"], p, ts)
    if c == "RegularType":
        return RegularType(_type_from(t["x"]), t["size"], p, ts)
    if c == "ListType":
        return ListType(_type_from(t["x"]), p, ts)
    if c == "OptionType":
        return OptionType(_type_from(t["x"]), p, ts)
    if c == "UnionType":
        return UnionType([_type_from(x) for x in t["xs"]], p, ts)
    if c == "RecordType":
        return RecordType([_type_from(x) for x in t["xs"]], t.get("keys"), p, ts)
    if c == "ArrayType":
        return ArrayType(_type_from(t["x"]), t["length"], p, ts)
    raise _Harness("type tree " + repr(t)[:100])


# ------------------------------------------------------------------ forms
class Form(object):
    """a Form is kept as the verbose JSON dict the C++ Form::tojson produces; every query that computes goes to C++"""

    def __init__(self, d):
        self._d = d

    @staticmethod
    def fromjson(text):
        r = _run([{"op": "form_fromjson", "text": text}])[0]
        if r.get("ok") != 1:
            _raise(r)
        return _form_from(json.loads(r["text"]))

    @staticmethod
    def from_numpy(dtype):
        if not isinstance(dtype, numpy.dtype):
            raise ValueError("Form.from_numpy requires a numpy.dtype")
        inner = [int(x) for x in dtype.shape]
        base = dtype if not inner else dtype.subdtype[0]
        r = _run([{"op": "form_fromnumpy", "kind": base.kind, "itemsize": int(base.itemsize), "inner_shape": inner}])[0]
        if r.get("ok") != 1:
            _raise(r)
        return _form_from(json.loads(r["text"]))

    def tojson(self, pretty=False, verbose=False):
        r = _run([{"op": "form_tojson", "text": json.dumps(self._d), "pretty": 1 if pretty else 0, "verbose": 1 if verbose else 0}])[0]
        if r.get("ok") != 1:
            _raise(r)
        return r["text"]

    def _query(self):
        r = _run([{"op": "form_query", "text": json.dumps(self._d)}])[0]
        if r.get("ok") != 1:
            _raise(r)
        return r

    def type(self, typestrs=None):
        r = _run([{"op": "form_type", "text": json.dumps(self._d), "typestrs": {} if typestrs is None else dict(typestrs)}])[0]
        if r.get("ok") != 1:
            _raise(r)
        return _type_from(r["typetree"])

    def __eq__(self, other):
        if not isinstance(other, Form):
            return False
        r = _run([{"op": "form_equal", "text": json.dumps(self._d), "other": json.dumps(other._d)}])[0]
        if r.get("ok") != 1:
            _raise(r)
        return bool(r["bool"])

    def __ne__(self, other):
        return not self.__eq__(other)

    __hash__ = None

    def __repr__(self):
        return self.tojson(True, False)

    def __getstate__(self):
        return self._d

    def __setstate__(self, d):
        self._d = d

    @property
    def has_identities(self):
        return bool(self._d.get("has_identities", False))

    @property
    def parameters(self):
        return dict(self._d.get("parameters", {}) or {})

    def parameter(self, key):
        return self.parameters.get(key)

    @property
    def form_key(self):
        return self._d.get("form_key")

    @property
    def purelist_depth(self):
        return self._query()["purelist_depth"]

    @property
    def purelist_isregular(self):
        return bool(self._query()["isregular"])

    @property
    def minmax_depth(self):
        q = self._query()
        return (q["mindepth"], q["maxdepth"])

    @property
    def branch_depth(self):
        q = self._query()
        return (bool(q["branch"]), q["branchdepth"])

    @property
    def numfields(self):
        return self._query()["numfields"]

    def keys(self):
        return list(self._query()["keys"])

    def haskey(self, key):
        return key in self.keys()

    def purelist_parameter(self, key):
        r = _run([{"op": "form_purelist_parameter", "text": json.dumps(self._d), "key": key}])[0]
        if r.get("ok") != 1:
            _raise(r)
        return json.loads(r["text"])

    @property
    def content(self):
        return _form_from(self._d["content"])

    def with_form_key(self, form_key):
        d = dict(self._d)
        d["form_key"] = form_key
        return _form_from(d)


def _base_form(cls, has_identities, parameters, form_key):
    return {"class": cls, "has_identities": bool(has_identities), "parameters": dict(parameters or {}), "form_key": form_key}


class EmptyForm(Form):
    def __init__(self, has_identities=False, parameters=None, form_key=None):
        Form.__init__(self, _base_form("EmptyArray", has_identities, parameters, form_key))


class NumpyForm(Form):
    def __init__(self, inner_shape, itemsize, format, has_identities=False, parameters=None, form_key=None):
        d = _base_form("NumpyArray", has_identities, parameters, form_key)
        d.update({"inner_shape": [int(x) for x in inner_shape], "itemsize": int(itemsize), "format": str(format)})
        Form.__init__(self, d)

    @property
    def inner_shape(self):
        return [int(x) for x in self._d.get("inner_shape", [])]

    @property
    def itemsize(self):
        return int(self._d["itemsize"])

    @property
    def format(self):
        return self._d["format"]

    @property
    def primitive(self):
        return self._d.get("primitive")

    def to_numpy(self):
        fmt = self._d["format"].lstrip("<>=|")
        prim = self._d.get("primitive")
        if prim in ("datetime64", "timedelta64") or fmt.startswith("M8") or fmt.startswith("m8"):
            return numpy.dtype(fmt if "[" in fmt else fmt)
        if prim and prim in _DT:
            dt = numpy.dtype(prim)
        else:
            dt = numpy.dtype(fmt)
        shape = tuple(self.inner_shape)
        return numpy.dtype((dt, shape)) if shape else dt


class RegularForm(Form):
    def __init__(self, content, size, has_identities=False, parameters=None, form_key=None):
        d = _base_form("RegularArray", has_identities, parameters, form_key)
        d.update({"content": content._d, "size": int(size)})
        Form.__init__(self, d)

    @property
    def size(self):
        return int(self._d["size"])


class ListForm(Form):
    def __init__(self, starts, stops, content, has_identities=False, parameters=None, form_key=None):
        cls = {"i32": "ListArray32", "u32": "ListArrayU32", "i64": "ListArray64"}[starts]
        d = _base_form(cls, has_identities, parameters, form_key)
        d.update({"starts": starts, "stops": stops, "content": content._d})
        Form.__init__(self, d)

    @property
    def starts(self):
        return self._d["starts"]

    @property
    def stops(self):
        return self._d["stops"]


class ListOffsetForm(Form):
    def __init__(self, offsets, content, has_identities=False, parameters=None, form_key=None):
        cls = {"i32": "ListOffsetArray32", "u32": "ListOffsetArrayU32", "i64": "ListOffsetArray64"}[offsets]
        d = _base_form(cls, has_identities, parameters, form_key)
        d.update({"offsets": offsets, "content": content._d})
        Form.__init__(self, d)

    @property
    def offsets(self):
        return self._d["offsets"]


class RecordForm(Form):
    def __init__(self, contents, keys=None, has_identities=False, parameters=None, form_key=None):
        d = _base_form("RecordArray", has_identities, parameters, form_key)
        if isinstance(contents, dict):
            d["contents"] = {k: v._d for k, v in contents.items()}
        elif keys is not None:
            d["contents"] = {k: v._d for k, v in zip(keys, contents)}
        else:
            d["contents"] = [v._d for v in contents]
        Form.__init__(self, d)

    @property
    def istuple(self):
        return isinstance(self._d["contents"], list)

    @property
    def recordlookup(self):
        return None if self.istuple else list(self._d["contents"].keys())

    @property
    def contents(self):
        c = self._d["contents"]
        if isinstance(c, list):
            return {str(i): _form_from(x) for i, x in enumerate(c)}
        return {k: _form_from(v) for k, v in c.items()}

    def content(self, key):
        c = self._d["contents"]
        if isinstance(c, list):
            return _form_from(c[int(key)])
        if isinstance(key, str):
            return _form_from(c[key])
        return _form_from(list(c.values())[key])

    def values(self):
        return list(self.contents.values())

    def items(self):
        return list(self.contents.items())


class IndexedForm(Form):
    def __init__(self, index, content, has_identities=False, parameters=None, form_key=None):
        cls = {"i32": "IndexedArray32", "u32": "IndexedArrayU32", "i64": "IndexedArray64"}[index]
        d = _base_form(cls, has_identities, parameters, form_key)
        d.update({"index": index, "content": content._d})
        Form.__init__(self, d)

    @property
    def index(self):
        return self._d["index"]


class IndexedOptionForm(Form):
    def __init__(self, index, content, has_identities=False, parameters=None, form_key=None):
        cls = {"i32": "IndexedOptionArray32", "i64": "IndexedOptionArray64"}[index]
        d = _base_form(cls, has_identities, parameters, form_key)
        d.update({"index": index, "content": content._d})
        Form.__init__(self, d)

    @property
    def index(self):
        return self._d["index"]


class ByteMaskedForm(Form):
    def __init__(self, mask, content, valid_when, has_identities=False, parameters=None, form_key=None):
        d = _base_form("ByteMaskedArray", has_identities, parameters, form_key)
        d.update({"mask": mask, "content": content._d, "valid_when": bool(valid_when)})
        Form.__init__(self, d)

    @property
    def mask(self):
        return self._d["mask"]

    @property
    def valid_when(self):
        return bool(self._d["valid_when"])


class BitMaskedForm(Form):
    def __init__(self, mask, content, valid_when, lsb_order, has_identities=False, parameters=None, form_key=None):
        d = _base_form("BitMaskedArray", has_identities, parameters, form_key)
        d.update({"mask": mask, "content": content._d, "valid_when": bool(valid_when), "lsb_order": bool(lsb_order)})
        Form.__init__(self, d)

    @property
    def mask(self):
        return self._d["mask"]

    @property
    def valid_when(self):
        return bool(self._d["valid_when"])

    @property
    def lsb_order(self):
        return bool(self._d["lsb_order"])


class UnmaskedForm(Form):
    def __init__(self, content, has_identities=False, parameters=None, form_key=None):
        d = _base_form("UnmaskedArray", has_identities, parameters, form_key)
        d.update({"content": content._d})
        Form.__init__(self, d)


class UnionForm(Form):
    def __init__(self, tags, index, contents, has_identities=False, parameters=None, form_key=None):
        cls = {"i32": "UnionArray8_32", "u32": "UnionArray8_U32", "i64": "UnionArray8_64"}[index]
        d = _base_form(cls, has_identities, parameters, form_key)
        d.update({"tags": tags, "index": index, "contents": [x._d for x in contents]})
        Form.__init__(self, d)

    @property
    def tags(self):
        return self._d["tags"]

    @property
    def index(self):
        return self._d["index"]

    @property
    def contents(self):
        return [_form_from(x) for x in self._d["contents"]]

    @property
    def numcontents(self):
        return len(self._d["contents"])

    def content(self, i):
        return _form_from(self._d["contents"][i])


class VirtualForm(Form):
    def __init__(self, form, has_length, has_identities=False, parameters=None, form_key=None):
        d = _base_form("VirtualArray", has_identities, parameters, form_key)
        d.update({"form": None if form is None else form._d, "has_length": bool(has_length)})
        Form.__init__(self, d)

    @property
    def form(self):
        return None if self._d.get("form") is None else _form_from(self._d["form"])

    @property
    def has_length(self):
        return bool(self._d["has_length"])


_FORMCLS = {"EmptyArray": EmptyForm, "NumpyArray": NumpyForm, "RegularArray": RegularForm,
            "ListArray32": ListForm, "ListArrayU32": ListForm, "ListArray64": ListForm,
            "ListOffsetArray32": ListOffsetForm, "ListOffsetArrayU32": ListOffsetForm, "ListOffsetArray64": ListOffsetForm,
            "RecordArray": RecordForm, "IndexedArray32": IndexedForm, "IndexedArrayU32": IndexedForm, "IndexedArray64": IndexedForm,
            "IndexedOptionArray32": IndexedOptionForm, "IndexedOptionArray64": IndexedOptionForm,
            "ByteMaskedArray": ByteMaskedForm, "BitMaskedArray": BitMaskedForm, "UnmaskedArray": UnmaskedForm,
            "UnionArray8_32": UnionForm, "UnionArray8_U32": UnionForm, "UnionArray8_64": UnionForm, "VirtualArray": VirtualForm}


def _form_from(d):
    if isinstance(d, str):
        # the C++ writer abbreviates a plain NumpyForm to its primitive name in non-verbose mode
        return Form.fromjson(json.dumps(d))
    cls = _FORMCLS.get(d.get("class"))
    if cls is None:
        raise _Harness("form class " + repr(d.get("class")))
    out = Form.__new__(cls)
    out._d = d
    return out


# ------------------------------------------------------------------ ArrayBuilder (in-process, through the repository's extern "C" API)
_lib.akw_builder_new.restype = ctypes.c_void_p
_lib.akw_builder_new.argtypes = [ctypes.c_int64, ctypes.c_double]
_lib.akw_builder_free.argtypes = [ctypes.c_void_p]
_lib.akw_builder_cmd.restype = ctypes.c_char_p
_lib.akw_builder_cmd.argtypes = [ctypes.c_void_p, ctypes.c_char_p]


class ArrayBuilder(object):
    def __init__(self, initial=1024, resize=1.5):
        self._h = _lib.akw_builder_new(int(initial), float(resize))

    def __del__(self):
        try:
            _lib.akw_builder_free(self._h)
        except Exception:
            pass

    @property
    def _ptr(self):
        return self._h

    def _cmd(self, **c):
        out = json.loads(_lib.akw_builder_cmd(self._h, json.dumps(c).encode("utf-8")).decode("utf-8", errors="replace"))
        if out.get("ok") != 1:
            _raise(out)
        return out

    def __len__(self):
        return self._cmd(c="length")["int"]

    def clear(self):
        self._cmd(c="clear")

    def type(self, typestrs=None):
        return self.snapshot().type(typestrs)

    def snapshot(self):
        return _box(self._cmd(c="snapshot")["layout"])

    def __getitem__(self, where):
        return self.snapshot()[where]

    def __iter__(self):
        return iter(self.snapshot())

    def null(self):
        self._cmd(c="null")

    def boolean(self, x):
        self._cmd(c="bool", x=1 if x else 0)

    def integer(self, x):
        self._cmd(c="int", x=int(x))

    def real(self, x):
        x = float(x)
        self._cmd(c="realf", x=("nan" if x != x else "inf" if x == float("inf") else "-inf" if x == float("-inf") else x))

    def complex(self, x):
        x = complex(x)
        self._cmd(c="complex", re=x.real, im=x.imag)

    def datetime(self, x):
        x = numpy.datetime64(x)
        self._cmd(c="datetime", x=int(x.astype(numpy.int64)), unit=str(x.dtype))

    def timedelta(self, x):
        x = numpy.timedelta64(x)
        self._cmd(c="timedelta", x=int(x.astype(numpy.int64)), unit=str(x.dtype))

    def bytestring(self, x):
        self._cmd(c="bytes", b=list(bytes(x)))

    def string(self, x):
        self._cmd(c="strb", b=list(x.encode("utf-8") if isinstance(x, str) else bytes(x)))

    def beginlist(self):
        self._cmd(c="beginlist")

    def endlist(self):
        self._cmd(c="endlist")

    def begintuple(self, numfields):
        self._cmd(c="begintuple", n=int(numfields))

    def index(self, i):
        self._cmd(c="index", i=int(i))
        return self

    def endtuple(self):
        self._cmd(c="endtuple")

    def beginrecord(self, name=None):
        self._cmd(c="beginrecord", name="" if name is None else name, hasname=0 if name is None else 1)

    def field(self, key):
        self._cmd(c="field", key=key)
        return self

    def endrecord(self):
        self._cmd(c="endrecord")

    def append(self, array, at):
        raise NotImplementedError("ArrayBuilder.append(array, at) is not provided by the stand-in")

    def extend(self, array):
        raise NotImplementedError

    def fromiter(self, obj):
        _fromiter(self, obj)


def _fromiter(b, obj):
    """what builder_fromiter in src/python/content.cpp does"""
    if obj is None:
        b.null()
    elif isinstance(obj, (bool, numpy.bool_)):
        b.boolean(bool(obj))
    elif isinstance(obj, (numbers.Integral, numpy.integer)):
        b.integer(int(obj))
    elif isinstance(obj, (float, numpy.floating)):
        b.real(float(obj))
    elif isinstance(obj, (complex, numpy.complexfloating)):
        b.complex(complex(obj))
    elif isinstance(obj, numpy.datetime64):
        b.datetime(obj)
    elif isinstance(obj, numpy.timedelta64):
        b.timedelta(obj)
    elif isinstance(obj, bytes):
        b.bytestring(obj)
    elif isinstance(obj, str):
        b.string(obj)
    elif isinstance(obj, tuple):
        b.begintuple(len(obj))
        for i, x in enumerate(obj):
            b.index(i)
            _fromiter(b, x)
        b.endtuple()
    elif isinstance(obj, dict):
        b.beginrecord()
        for k, v in obj.items():
            if not isinstance(k, str):
                raise ValueError("keys of dicts in 'fromiter' must all be strings")
            b.field(k)
            _fromiter(b, v)
        b.endrecord()
    elif hasattr(obj, "__iter__"):
        b.beginlist()
        for x in obj:
            _fromiter(b, x)
        b.endlist()
    elif hasattr(obj, "tolist"):
        _fromiter(b, obj.tolist())
    else:
        raise ValueError("cannot convert %r (type %s) to an array element" % (obj, type(obj).__name__))


class LayoutBuilder(object):
    def __init__(self, *args, **kwargs):
        raise NotImplementedError("LayoutBuilder is exercised at L1 only")


LayoutBuilder32 = LayoutBuilder
LayoutBuilder64 = LayoutBuilder


def fromjson(source, nan_string=None, infinity_string=None, minus_infinity_string=None, initial=1024, resize=1.5, buffersize=65536):
    st = {"op": "json_parse", "text": source, "initial": int(initial), "want": ["layout"], "dst": "r",
          "resize_num": int(round(resize * 1000)), "resize_den": 1000}
    for k, v in (("nan_string", nan_string), ("infinity_string", infinity_string), ("minus_infinity_string", minus_infinity_string)):
        if v is not None:
            st[k] = v
    if not isinstance(source, str):
        raise _Harness("fromjson: only strings (stand-in)")
    if os.path.isfile(source):
        st["path"] = source
        st["buffersize"] = int(buffersize)
    elif nan_string is None and infinity_string is None and minus_infinity_string is None:
        st["markers"] = 0
    r = _run([st])[0]
    if r.get("ok") != 1:
        _raise(r)
    return _box(r["layout"])


def fromjsonfile(source, nan_string=None, infinity_string=None, minus_infinity_string=None, initial=1024, resize=1.5, buffersize=65536):
    return fromjson(source, nan_string, infinity_string, minus_infinity_string, initial, resize, buffersize)


def uproot_issue_90(*args, **kwargs):
    raise NotImplementedError


# ------------------------------------------------------------------ virtual arrays / partitions: Python mimics.
# The C++ classes (VirtualArray.cpp, ArrayGenerator.cpp, ArrayCache.cpp, IrregularlyPartitionedArray.cpp) are driven
# directly at L1 (C18); here they only let the Python layer above them (partition.py, ak.virtual, ak.materialized) run.
class ArrayCache(object):
    def __init__(self, mutablemapping):
        self._m = mutablemapping

    @property
    def mutablemapping(self):
        return self._m

    def get(self, key):
        if self._m is None:
            return None
        try:
            return self._m[key]
        except KeyError:
            return None

    def set(self, key, value):
        if self._m is not None:
            self._m[key] = value

    @staticmethod
    def newkey():
        ArrayCache._n = getattr(ArrayCache, "_n", 0) + 1
        return "ak%d" % ArrayCache._n

    def is_broken(self):
        return False


class ArrayGenerator(object):
    def __init__(self, callable, args=(), kwargs=None, form=None, length=None):
        self._callable, self._args, self._kwargs = callable, tuple(args), dict(kwargs or {})
        self._form, self._length = form, length

    @property
    def callable(self):
        return self._callable

    @property
    def args(self):
        return self._args

    @property
    def kwargs(self):
        return self._kwargs

    @property
    def form(self):
        return self._form

    @property
    def length(self):
        return self._length

    def with_form(self, form):
        return ArrayGenerator(self._callable, self._args, self._kwargs, form, self._length)

    def with_length(self, length):
        return ArrayGenerator(self._callable, self._args, self._kwargs, self._form, length)

    def __call__(self):
        import awkward as ak
        out = self._callable(*self._args, **self._kwargs)
        lay = ak.operations.convert.to_layout(out, allow_record=False, allow_other=False)
        if self._length is not None and len(lay) < self._length:
            raise ValueError("generated array does not have sufficient length: expected %d but generated %d" % (self._length, len(lay)))
        return lay


class SliceGenerator(ArrayGenerator):
    def __init__(self, content, slice, form=None, length=None):
        ArrayGenerator.__init__(self, lambda: content[slice], (), {}, form, length)
        self._content, self._slice = content, slice

    @property
    def content(self):
        return self._content

    @property
    def slice(self):
        return self._slice


class VirtualArray(Content):
    def __init__(self, generator, cache=None, cache_key=None, identities=None, parameters=None):
        self._generator, self._cache = generator, cache
        self._cache_key = ArrayCache.newkey() if cache_key is None else cache_key
        _init_common(self, identities, parameters)

    @property
    def generator(self):
        return self._generator

    @property
    def cache(self):
        return self._cache

    @property
    def cache_key(self):
        return self._cache_key

    @property
    def peek_array(self):
        return None if self._cache is None else self._cache.get(self._cache_key)

    @property
    def array(self):
        out = self.peek_array
        if out is None:
            out = self._generator()
            if self._cache is not None:
                self._cache.set(self._cache_key, out)
        return out

    def _ljson(self):
        return self.array._ljson()

    def _length(self):
        if self._generator.length is not None:
            return self._generator.length
        return len(self.array)

    @property
    def form(self):
        f = self._generator.form
        return VirtualForm(f, self._generator.length is not None, False, self._parameters, None)

    @property
    def caches(self):
        return [] if self._cache is None else [self._cache]


class IrregularlyPartitionedArray(object):
    def __init__(self, partitions, stops=None):
        self._partitions = list(partitions)
        if stops is None:
            stops = []
            total = 0
            for p in self._partitions:
                total += len(p)
                stops.append(total)
        self._stops = [int(x) for x in stops]

    @property
    def partitions(self):
        return list(self._partitions)

    @property
    def stops(self):
        return list(self._stops)

    @property
    def numpartitions(self):
        return len(self._partitions)

    def partition(self, i):
        return self._partitions[i]

    def start(self, i):
        return 0 if i == 0 else self._stops[i - 1]

    def stop(self, i):
        return self._stops[i]

    def __len__(self):
        return self._stops[-1] if self._stops else 0

    def partitionid_index_at(self, at):
        n = len(self)
        if at < 0:
            at += n
        if not 0 <= at < n:
            raise ValueError("index out of range")
        for i, s in enumerate(self._stops):
            if at < s:
                return (i, at - self.start(i))

    def _concat(self):
        out = self._partitions[0]
        return out.mergemany(self._partitions[1:]) if len(self._partitions) > 1 else out

    def getitem_at(self, at):
        i, j = self.partitionid_index_at(at)
        return self._partitions[i][j]

    def getitem_range(self, start, stop, step):
        whole = self._concat()
        return IrregularlyPartitionedArray([whole[slice(start, stop, step)]])

    def repartition(self, stops):
        whole = self._concat()
        parts = []
        last = 0
        for s in stops:
            parts.append(whole[last:s])
            last = s
        return IrregularlyPartitionedArray(parts, list(stops))

    def toContent(self):
        return self._concat()

    def tojson(self, *args, **kwargs):
        return self._concat().tojson(*args, **kwargs)

    def __iter__(self):
        for p in self._partitions:
            for x in p:
                yield x


class ForthMachine32(object):
    def __init__(self, *args, **kwargs):
        raise NotImplementedError("ForthMachine is exercised at L1 (C19)")


ForthMachine64 = ForthMachine32
