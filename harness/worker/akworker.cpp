// akworker — harness-side driver of libawkward's public C++ API (layer L1 of DESIGN.md).
//
// Protocol: one JSON object per stdin line ("case"), one JSON object per stdout line.
//   case   = {"id": <any>, "steps": [step, ...]}
//   step   = {"op": <name>, "dst": <reg>?, "src": <reg>?, ...op arguments..., "want": [...]}
//   answer = {"id": <id>, "res": [ {"ok":1, ...projections...} | {"ok":0,"exc":cls,"msg":m}, ... ]}
// The worker has no logic of its own beyond marshalling: every op is one call of a method
// declared in /repo/include/awkward.  C++ exceptions are mapped as pybind11 maps them.
#include <cstdio>
#include <cstring>
#include <cmath>
#include <iostream>
#include <sstream>
#include <map>
#include <vector>
#include <string>
#include <memory>
#include <stdexcept>
#include <complex>

#include "rapidjson/document.h"

#include "awkward/common.h"
#include "awkward/Index.h"
#include "awkward/Slice.h"
#include "awkward/Content.h"
#include "awkward/Reducer.h"
#include "awkward/type/Type.h"
#include "awkward/array/None.h"
#include "awkward/array/EmptyArray.h"
#include "awkward/array/NumpyArray.h"
#include "awkward/array/RegularArray.h"
#include "awkward/array/ListArray.h"
#include "awkward/array/ListOffsetArray.h"
#include "awkward/array/IndexedArray.h"
#include "awkward/array/ByteMaskedArray.h"
#include "awkward/array/BitMaskedArray.h"
#include "awkward/array/UnmaskedArray.h"
#include "awkward/array/RecordArray.h"
#include "awkward/array/Record.h"
#include "awkward/array/UnionArray.h"
#include "awkward/array/VirtualArray.h"

#include "akworker.h"

namespace ak = awkward;
namespace rj = rapidjson;
typedef rj::Value JV;

// ------------------------------------------------------------------ JSON output helpers
std::string jstr(const std::string& s) {
  std::string out = "\"";
  for (size_t i = 0; i < s.size(); i++) {
    unsigned char c = (unsigned char)s[i];
    if (c == '"') out += "\\\"";
    else if (c == '\\') out += "\\\\";
    else if (c == '\n') out += "\\n";
    else if (c == '\r') out += "\\r";
    else if (c == '\t') out += "\\t";
    else if (c < 0x20 || c >= 0x7f) { char b[8]; snprintf(b, 8, "\\u%04x", c); out += b; }  // bytes as latin-1
    else out += (char)c;
  }
  return out + "\"";
}
static std::string jint(int64_t x) { return std::to_string((long long)x); }
static std::string jdbl(double x) {
  if (std::isnan(x)) return "\"nan\"";
  if (std::isinf(x)) return x > 0 ? "\"inf\"" : "\"-inf\"";
  char b[40]; snprintf(b, 40, "%.17g", x); return b;
}
template <typename T> static std::string jindex(const ak::IndexOf<T>& ix) {
  std::string out = "[";
  for (int64_t i = 0; i < ix.length(); i++) { if (i) out += ","; out += jint((int64_t)ix.getitem_at_nowrap(i)); }
  return out + "]";
}

const JV& need(const JV& o, const char* k) {
  if (!o.IsObject() || !o.HasMember(k)) throw HarnessError(std::string("missing key '") + k + "'");
  return o[k];
}
int64_t geti(const JV& o, const char* k, int64_t dflt) {
  if (!o.IsObject() || !o.HasMember(k)) return dflt;
  const JV& v = o[k];
  if (v.IsBool()) return v.GetBool() ? 1 : 0;
  if (v.IsNull()) return dflt;
  if (v.IsDouble()) return (int64_t)v.GetDouble();
  return v.GetInt64();
}
std::string gets(const JV& o, const char* k, const std::string& dflt) {
  if (!o.IsObject() || !o.HasMember(k) || !o[k].IsString()) return dflt;
  return std::string(o[k].GetString(), o[k].GetStringLength());
}
static int64_t asint(const JV& v) {
  if (v.IsBool()) return v.GetBool() ? 1 : 0;
  if (v.IsDouble()) return (int64_t)v.GetDouble();
  return v.GetInt64();
}
static double asdbl(const JV& v) {
  if (v.IsString()) {
    std::string s(v.GetString());
    if (s == "nan") return std::nan("");
    if (s == "inf") return INFINITY;
    if (s == "-inf") return -INFINITY;
    return std::stod(s);
  }
  if (v.IsBool()) return v.GetBool() ? 1.0 : 0.0;
  return v.GetDouble();
}

// ------------------------------------------------------------------ index construction
template <typename T> static ak::IndexOf<T> mkindex(const JV& arr) {
  if (!arr.IsArray()) throw HarnessError("index must be an array");
  int64_t n = (int64_t)arr.Size();
  // exact-size allocation so that an out-of-extent access is visible to ASan
  std::shared_ptr<T> ptr(new T[(size_t)(n == 0 ? 1 : n)], std::default_delete<T[]>());
  for (int64_t i = 0; i < n; i++) ptr.get()[i] = (T)asint(arr[(rj::SizeType)i]);
  return ak::IndexOf<T>(ptr, 0, n, ak::kernel::lib::cpu);
}
ak::Index64 mkindex64(const JV& arr) { return mkindex<int64_t>(arr); }

static ak::util::Parameters mkparams(const JV& node) {
  ak::util::Parameters p;
  if (node.IsObject() && node.HasMember("p") && node["p"].IsObject()) {
    for (auto& m : node["p"].GetObject()) {
      std::string k(m.name.GetString());
      // parameter values are JSON *text*; the harness passes them already encoded as strings
      if (m.value.IsString()) p[k] = std::string(m.value.GetString(), m.value.GetStringLength());
      else throw HarnessError("parameter values must be JSON text strings");
    }
  }
  return p;
}

struct DT { ak::util::dtype dt; int64_t itemsize; };
static DT dtof(const std::string& name) {
  static std::map<std::string, std::string> alias = {
    {"b", "bool"}, {"i8", "int8"}, {"i16", "int16"}, {"i32", "int32"}, {"i64", "int64"},
    {"u8", "uint8"}, {"u16", "uint16"}, {"u32", "uint32"}, {"u64", "uint64"},
    {"f32", "float32"}, {"f64", "float64"}, {"c64", "complex64"}, {"c128", "complex128"},
    {"M8", "datetime64"}, {"m8", "timedelta64"}};
  std::string n = alias.count(name) ? alias[name] : name;
  ak::util::dtype dt = ak::util::name_to_dtype(n);
  if (dt == ak::util::dtype::NOT_PRIMITIVE) throw HarnessError("unknown dtype " + name);
  DT out; out.dt = dt; out.itemsize = ak::util::dtype_to_itemsize(dt); return out;
}

static void storeval(char* base, ak::util::dtype dt, const JV& v) {
  using ak::util::dtype;
  switch (dt) {
    case dtype::boolean: *reinterpret_cast<bool*>(base) = asint(v) != 0; break;
    case dtype::int8: *reinterpret_cast<int8_t*>(base) = (int8_t)asint(v); break;
    case dtype::int16: *reinterpret_cast<int16_t*>(base) = (int16_t)asint(v); break;
    case dtype::int32: *reinterpret_cast<int32_t*>(base) = (int32_t)asint(v); break;
    case dtype::int64: case dtype::datetime64: case dtype::timedelta64:
      *reinterpret_cast<int64_t*>(base) = (int64_t)asint(v); break;
    case dtype::uint8: *reinterpret_cast<uint8_t*>(base) = (uint8_t)asint(v); break;
    case dtype::uint16: *reinterpret_cast<uint16_t*>(base) = (uint16_t)asint(v); break;
    case dtype::uint32: *reinterpret_cast<uint32_t*>(base) = (uint32_t)asint(v); break;
    case dtype::uint64:
      *reinterpret_cast<uint64_t*>(base) = v.IsUint64() ? v.GetUint64() : (uint64_t)asint(v); break;
    case dtype::float32: *reinterpret_cast<float*>(base) = (float)asdbl(v); break;
    case dtype::float64: *reinterpret_cast<double*>(base) = asdbl(v); break;
    case dtype::complex64:
      if (v.IsArray()) { reinterpret_cast<float*>(base)[0] = (float)asdbl(v[0]); reinterpret_cast<float*>(base)[1] = (float)asdbl(v[1]); }
      else { reinterpret_cast<float*>(base)[0] = (float)asdbl(v); reinterpret_cast<float*>(base)[1] = 0; }
      break;
    case dtype::complex128:
      if (v.IsArray()) { reinterpret_cast<double*>(base)[0] = asdbl(v[0]); reinterpret_cast<double*>(base)[1] = asdbl(v[1]); }
      else { reinterpret_cast<double*>(base)[0] = asdbl(v); reinterpret_cast<double*>(base)[1] = 0; }
      break;
    default: throw HarnessError("unsupported dtype in storeval");
  }
}

// ------------------------------------------------------------------ layout construction
ak::ContentPtr mklayout(const JV& L, Session& S) {
  if (L.IsString()) return S.get(L.GetString());          // reference to a register
  std::string c = gets(L, "c", "");
  ak::util::Parameters params = mkparams(L);
  ak::IdentitiesPtr noid(nullptr);
  if (c == "Ref") return S.get(gets(L, "r", ""));
  if (c == "Empty") return std::make_shared<ak::EmptyArray>(noid, params);
  if (c == "Numpy") {
    DT d = dtof(gets(L, "dt", "i64"));
    const JV& data = need(L, "d");
    int64_t n = (int64_t)data.Size();
    std::shared_ptr<void> ptr(new char[(size_t)(n == 0 ? 1 : n * d.itemsize)], std::default_delete<char[]>());
    for (int64_t i = 0; i < n; i++)
      storeval(reinterpret_cast<char*>(ptr.get()) + i * d.itemsize, d.dt, data[(rj::SizeType)i]);
    std::vector<ssize_t> shape, strides;
    if (L.HasMember("shape")) for (auto& x : L["shape"].GetArray()) shape.push_back((ssize_t)asint(x));
    else shape.push_back((ssize_t)n);
    if (L.HasMember("st")) for (auto& x : L["st"].GetArray()) strides.push_back((ssize_t)(asint(x) * d.itemsize));
    else { strides.resize(shape.size()); ssize_t s = d.itemsize;
           for (int64_t k = (int64_t)shape.size() - 1; k >= 0; k--) { strides[(size_t)k] = s; s *= shape[(size_t)k]; } }
    ssize_t off = (ssize_t)(geti(L, "off", 0) * d.itemsize);
    std::string fmt = gets(L, "fmt", "");
    std::string format = ak::util::dtype_to_format(d.dt, fmt);
    return std::make_shared<ak::NumpyArray>(noid, params, ptr, shape, strides, off, (ssize_t)d.itemsize,
                                            format, d.dt, ak::kernel::lib::cpu);
  }
  if (c == "Regular") {
    ak::ContentPtr x = mklayout(need(L, "x"), S);
    return std::make_shared<ak::RegularArray>(noid, params, x, geti(L, "size", 0), geti(L, "zl", 0));
  }
  std::string w = gets(L, "w", "64");
  if (c == "ListOffset") {
    ak::ContentPtr x = mklayout(need(L, "x"), S);
    if (w == "32") return std::make_shared<ak::ListOffsetArray32>(noid, params, mkindex<int32_t>(need(L, "o")), x);
    if (w == "U32") return std::make_shared<ak::ListOffsetArrayU32>(noid, params, mkindex<uint32_t>(need(L, "o")), x);
    return std::make_shared<ak::ListOffsetArray64>(noid, params, mkindex<int64_t>(need(L, "o")), x);
  }
  if (c == "List") {
    ak::ContentPtr x = mklayout(need(L, "x"), S);
    if (w == "32") return std::make_shared<ak::ListArray32>(noid, params, mkindex<int32_t>(need(L, "s")), mkindex<int32_t>(need(L, "e")), x);
    if (w == "U32") return std::make_shared<ak::ListArrayU32>(noid, params, mkindex<uint32_t>(need(L, "s")), mkindex<uint32_t>(need(L, "e")), x);
    return std::make_shared<ak::ListArray64>(noid, params, mkindex<int64_t>(need(L, "s")), mkindex<int64_t>(need(L, "e")), x);
  }
  if (c == "Indexed") {
    ak::ContentPtr x = mklayout(need(L, "x"), S);
    if (w == "32") return std::make_shared<ak::IndexedArray32>(noid, params, mkindex<int32_t>(need(L, "i")), x);
    if (w == "U32") return std::make_shared<ak::IndexedArrayU32>(noid, params, mkindex<uint32_t>(need(L, "i")), x);
    return std::make_shared<ak::IndexedArray64>(noid, params, mkindex<int64_t>(need(L, "i")), x);
  }
  if (c == "IndexedOption") {
    ak::ContentPtr x = mklayout(need(L, "x"), S);
    if (w == "32") return std::make_shared<ak::IndexedOptionArray32>(noid, params, mkindex<int32_t>(need(L, "i")), x);
    return std::make_shared<ak::IndexedOptionArray64>(noid, params, mkindex<int64_t>(need(L, "i")), x);
  }
  if (c == "ByteMasked") {
    ak::ContentPtr x = mklayout(need(L, "x"), S);
    return std::make_shared<ak::ByteMaskedArray>(noid, params, mkindex<int8_t>(need(L, "m")), x, geti(L, "vw", 1) != 0);
  }
  if (c == "BitMasked") {
    ak::ContentPtr x = mklayout(need(L, "x"), S);
    return std::make_shared<ak::BitMaskedArray>(noid, params, mkindex<uint8_t>(need(L, "m")), x,
                                                geti(L, "vw", 1) != 0, geti(L, "n", 0), geti(L, "lsb", 1) != 0);
  }
  if (c == "Unmasked") {
    ak::ContentPtr x = mklayout(need(L, "x"), S);
    return std::make_shared<ak::UnmaskedArray>(noid, params, x);
  }
  if (c == "Record") {
    ak::ContentPtrVec xs;
    for (auto& x : need(L, "xs").GetArray()) xs.push_back(mklayout(x, S));
    ak::util::RecordLookupPtr lookup(nullptr);
    if (geti(L, "tuple", 0) == 0) {
      lookup = std::make_shared<ak::util::RecordLookup>();
      for (auto& x : need(L, "names").GetArray()) lookup->push_back(std::string(x.GetString()));
    }
    std::string rn = gets(L, "recname", "");
    if (!rn.empty()) params["__record__"] = jstr(rn);
    if (L.HasMember("n") && !L["n"].IsNull()) return std::make_shared<ak::RecordArray>(noid, params, xs, lookup, geti(L, "n", 0));
    return std::make_shared<ak::RecordArray>(noid, params, xs, lookup);
  }
  if (c == "Union") {
    ak::ContentPtrVec xs;
    for (auto& x : need(L, "xs").GetArray()) xs.push_back(mklayout(x, S));
    ak::Index8 tags = mkindex<int8_t>(need(L, "t"));
    if (w == "32" || w == "8_32") return std::make_shared<ak::UnionArray8_32>(noid, params, tags, mkindex<int32_t>(need(L, "i")), xs);
    if (w == "U32" || w == "8_U32") return std::make_shared<ak::UnionArray8_U32>(noid, params, tags, mkindex<uint32_t>(need(L, "i")), xs);
    return std::make_shared<ak::UnionArray8_64>(noid, params, tags, mkindex<int64_t>(need(L, "i")), xs);
  }
  throw HarnessError("unknown layout class '" + c + "'");
}

// ------------------------------------------------------------------ layout dump (physical)
static std::string dtshort(ak::util::dtype dt) {
  using ak::util::dtype;
  switch (dt) {
    case dtype::boolean: return "b"; case dtype::int8: return "i8"; case dtype::int16: return "i16";
    case dtype::int32: return "i32"; case dtype::int64: return "i64"; case dtype::uint8: return "u8";
    case dtype::uint16: return "u16"; case dtype::uint32: return "u32"; case dtype::uint64: return "u64";
    case dtype::float32: return "f32"; case dtype::float64: return "f64"; case dtype::complex64: return "c64";
    case dtype::complex128: return "c128"; case dtype::datetime64: return "M8"; case dtype::timedelta64: return "m8";
    default: return "other";
  }
}
static std::string loadval(const char* p, ak::util::dtype dt) {
  using ak::util::dtype;
  switch (dt) {
    case dtype::boolean: return *reinterpret_cast<const bool*>(p) ? "1" : "0";
    case dtype::int8: return jint(*reinterpret_cast<const int8_t*>(p));
    case dtype::int16: return jint(*reinterpret_cast<const int16_t*>(p));
    case dtype::int32: return jint(*reinterpret_cast<const int32_t*>(p));
    case dtype::int64: case dtype::datetime64: case dtype::timedelta64: return jint(*reinterpret_cast<const int64_t*>(p));
    case dtype::uint8: return jint(*reinterpret_cast<const uint8_t*>(p));
    case dtype::uint16: return jint(*reinterpret_cast<const uint16_t*>(p));
    case dtype::uint32: return jint(*reinterpret_cast<const uint32_t*>(p));
    case dtype::uint64: return std::to_string((unsigned long long)*reinterpret_cast<const uint64_t*>(p));
    case dtype::float32: return jdbl(*reinterpret_cast<const float*>(p));
    case dtype::float64: return jdbl(*reinterpret_cast<const double*>(p));
    case dtype::complex64: return "[" + jdbl(reinterpret_cast<const float*>(p)[0]) + "," + jdbl(reinterpret_cast<const float*>(p)[1]) + "]";
    case dtype::complex128: return "[" + jdbl(reinterpret_cast<const double*>(p)[0]) + "," + jdbl(reinterpret_cast<const double*>(p)[1]) + "]";
    default: return "null";
  }
}
static std::string dumpparams(const ak::Content* c) {
  ak::util::Parameters p = c->parameters();
  std::string out;
  bool first = true;
  for (auto& kv : p) {
    if (kv.second == "null") continue;
    out += (first ? "" : ","); first = false;
    out += jstr(kv.first) + ":" + jstr(kv.second);
  }
  if (first) return "";
  return ",\"p\":{" + out + "}";
}
static void numpy_elems(const ak::NumpyArray* a, size_t dim, const char* base, std::string& out, bool& first) {
  if (dim == a->shape().size()) { out += (first ? "" : ","); first = false; out += loadval(base, a->dtype()); return; }
  for (ssize_t i = 0; i < a->shape()[dim]; i++) numpy_elems(a, dim + 1, base + i * a->strides()[dim], out, first);
}
template <typename T> static bool dump_list(const ak::Content* c, std::string& out);
std::string dumplayout(const ak::ContentPtr& cp) {
  const ak::Content* c = cp.get();
  if (c == nullptr) return "null";
  std::string P = dumpparams(c);
  if (dynamic_cast<const ak::None*>(c)) return "{\"c\":\"None\"}";
  if (dynamic_cast<const ak::EmptyArray*>(c)) return "{\"c\":\"Empty\"" + P + "}";
  if (const ak::NumpyArray* a = dynamic_cast<const ak::NumpyArray*>(c)) {
    std::string out = "{\"c\":\"Numpy\",\"dt\":" + jstr(dtshort(a->dtype())) + ",\"shape\":[";
    for (size_t i = 0; i < a->shape().size(); i++) out += (i ? "," : "") + jint(a->shape()[i]);
    out += "],\"d\":[";
    bool first = true;
    numpy_elems(a, 0, reinterpret_cast<const char*>(a->data()), out, first);
    out += "]";
    if (a->dtype() == ak::util::dtype::datetime64 || a->dtype() == ak::util::dtype::timedelta64) out += ",\"fmt\":" + jstr(a->format());
    return out + P + "}";
  }
  if (const ak::RegularArray* a = dynamic_cast<const ak::RegularArray*>(c))
    return "{\"c\":\"Regular\",\"size\":" + jint(a->size()) + ",\"zl\":" + jint(a->length()) + ",\"x\":" + dumplayout(a->content()) + P + "}";
#define LISTOFF(T, W) if (const ak::ListOffsetArrayOf<T>* a = dynamic_cast<const ak::ListOffsetArrayOf<T>*>(c)) \
    return "{\"c\":\"ListOffset\",\"w\":\"" W "\",\"o\":" + jindex(a->offsets()) + ",\"x\":" + dumplayout(a->content()) + P + "}";
  LISTOFF(int32_t, "32") LISTOFF(uint32_t, "U32") LISTOFF(int64_t, "64")
#define LISTARR(T, W) if (const ak::ListArrayOf<T>* a = dynamic_cast<const ak::ListArrayOf<T>*>(c)) \
    return "{\"c\":\"List\",\"w\":\"" W "\",\"s\":" + jindex(a->starts()) + ",\"e\":" + jindex(a->stops()) + ",\"x\":" + dumplayout(a->content()) + P + "}";
  LISTARR(int32_t, "32") LISTARR(uint32_t, "U32") LISTARR(int64_t, "64")
#define INDEXED(T, O, W, N) if (const ak::IndexedArrayOf<T, O>* a = dynamic_cast<const ak::IndexedArrayOf<T, O>*>(c)) \
    return "{\"c\":\"" N "\",\"w\":\"" W "\",\"i\":" + jindex(a->index()) + ",\"x\":" + dumplayout(a->content()) + P + "}";
  INDEXED(int32_t, false, "32", "Indexed") INDEXED(uint32_t, false, "U32", "Indexed") INDEXED(int64_t, false, "64", "Indexed")
  INDEXED(int32_t, true, "32", "IndexedOption") INDEXED(int64_t, true, "64", "IndexedOption")
  if (const ak::ByteMaskedArray* a = dynamic_cast<const ak::ByteMaskedArray*>(c))
    return "{\"c\":\"ByteMasked\",\"m\":" + jindex(a->mask()) + ",\"vw\":" + (a->valid_when() ? "1" : "0") + ",\"x\":" + dumplayout(a->content()) + P + "}";
  if (const ak::BitMaskedArray* a = dynamic_cast<const ak::BitMaskedArray*>(c))
    return "{\"c\":\"BitMasked\",\"m\":" + jindex(a->mask()) + ",\"vw\":" + (a->valid_when() ? "1" : "0") + ",\"lsb\":" + (a->lsb_order() ? "1" : "0")
         + ",\"n\":" + jint(a->length()) + ",\"x\":" + dumplayout(a->content()) + P + "}";
  if (const ak::UnmaskedArray* a = dynamic_cast<const ak::UnmaskedArray*>(c))
    return "{\"c\":\"Unmasked\",\"x\":" + dumplayout(a->content()) + P + "}";
  if (const ak::RecordArray* a = dynamic_cast<const ak::RecordArray*>(c)) {
    std::string out = "{\"c\":\"Record\",\"tuple\":" + std::string(a->istuple() ? "1" : "0") + ",\"n\":" + jint(a->length()) + ",\"names\":[";
    if (!a->istuple()) for (size_t i = 0; i < a->recordlookup()->size(); i++) out += (i ? "," : "") + jstr((*a->recordlookup())[i]);
    out += "],\"xs\":[";
    ak::ContentPtrVec xs = a->contents();
    for (size_t i = 0; i < xs.size(); i++) out += (i ? "," : "") + dumplayout(xs[i]);
    return out + "]" + P + "}";
  }
  if (const ak::Record* a = dynamic_cast<const ak::Record*>(c))
    return "{\"c\":\"RecordScalar\",\"at\":" + jint(a->at()) + ",\"x\":" + dumplayout(a->array()->shallow_copy()) + "}";
#define UNION(I, W) if (const ak::UnionArrayOf<int8_t, I>* a = dynamic_cast<const ak::UnionArrayOf<int8_t, I>*>(c)) { \
    std::string out = "{\"c\":\"Union\",\"w\":\"" W "\",\"t\":" + jindex(a->tags()) + ",\"i\":" + jindex(a->index()) + ",\"xs\":["; \
    ak::ContentPtrVec xs = a->contents(); \
    for (size_t i = 0; i < xs.size(); i++) out += (i ? "," : "") + dumplayout(xs[i]); \
    return out + "]" + P + "}"; }
  UNION(int32_t, "32") UNION(uint32_t, "U32") UNION(int64_t, "64")
  if (const ak::VirtualArray* a = dynamic_cast<const ak::VirtualArray*>(c))
    return "{\"c\":\"Virtual\"}";
  return "{\"c\":\"?\",\"classname\":" + jstr(c->classname()) + "}";
}

// ------------------------------------------------------------------ digest of all buffers reachable from a layout
static void fnv(uint64_t& h, const void* p, size_t n) {
  const unsigned char* b = reinterpret_cast<const unsigned char*>(p);
  for (size_t i = 0; i < n; i++) { h ^= b[i]; h *= 1099511628211ULL; }
}
template <typename T> static void fnvidx(uint64_t& h, const ak::IndexOf<T>& ix) {
  fnv(h, ix.data(), (size_t)ix.length() * sizeof(T));
  int64_t n = ix.length(); fnv(h, &n, sizeof(n));
}
static void digest_into(uint64_t& h, const ak::ContentPtr& cp) {
  const ak::Content* c = cp.get();
  if (c == nullptr) return;
  std::string cn = c->classname(); fnv(h, cn.data(), cn.size());
  if (const ak::NumpyArray* a = dynamic_cast<const ak::NumpyArray*>(c)) {
    std::string out; bool first = true;
    numpy_elems(a, 0, reinterpret_cast<const char*>(a->data()), out, first);
    fnv(h, out.data(), out.size());
    return;
  }
  if (const ak::RegularArray* a = dynamic_cast<const ak::RegularArray*>(c)) { int64_t s = a->size(); fnv(h, &s, 8); digest_into(h, a->content()); return; }
#define D_LO(T) if (const ak::ListOffsetArrayOf<T>* a = dynamic_cast<const ak::ListOffsetArrayOf<T>*>(c)) { fnvidx(h, a->offsets()); digest_into(h, a->content()); return; }
  D_LO(int32_t) D_LO(uint32_t) D_LO(int64_t)
#define D_LA(T) if (const ak::ListArrayOf<T>* a = dynamic_cast<const ak::ListArrayOf<T>*>(c)) { fnvidx(h, a->starts()); fnvidx(h, a->stops()); digest_into(h, a->content()); return; }
  D_LA(int32_t) D_LA(uint32_t) D_LA(int64_t)
#define D_IX(T, O) if (const ak::IndexedArrayOf<T, O>* a = dynamic_cast<const ak::IndexedArrayOf<T, O>*>(c)) { fnvidx(h, a->index()); digest_into(h, a->content()); return; }
  D_IX(int32_t, false) D_IX(uint32_t, false) D_IX(int64_t, false) D_IX(int32_t, true) D_IX(int64_t, true)
  if (const ak::ByteMaskedArray* a = dynamic_cast<const ak::ByteMaskedArray*>(c)) { fnvidx(h, a->mask()); digest_into(h, a->content()); return; }
  if (const ak::BitMaskedArray* a = dynamic_cast<const ak::BitMaskedArray*>(c)) { fnvidx(h, a->mask()); digest_into(h, a->content()); return; }
  if (const ak::UnmaskedArray* a = dynamic_cast<const ak::UnmaskedArray*>(c)) { digest_into(h, a->content()); return; }
  if (const ak::RecordArray* a = dynamic_cast<const ak::RecordArray*>(c)) { for (auto& x : a->contents()) digest_into(h, x); return; }
#define D_UN(I) if (const ak::UnionArrayOf<int8_t, I>* a = dynamic_cast<const ak::UnionArrayOf<int8_t, I>*>(c)) { fnvidx(h, a->tags()); fnvidx(h, a->index()); for (auto& x : a->contents()) digest_into(h, x); return; }
  D_UN(int32_t) D_UN(uint32_t) D_UN(int64_t)
}
std::string digest(const ak::ContentPtr& cp) {
  uint64_t h = 1469598103934665603ULL;
  digest_into(h, cp);
  char b[24]; snprintf(b, 24, "%016llx", (unsigned long long)h);
  return b;
}

// ------------------------------------------------------------------ slices
static ak::SliceItemPtr mksliceitem(const JV& it, Session& S) {
  std::string k = gets(it, "k", "");
  if (k == "at") return std::make_shared<ak::SliceAt>(geti(it, "i", 0));
  if (k == "range") {
    int64_t a = (it.HasMember("a") && !it["a"].IsNull()) ? asint(it["a"]) : ak::Slice::none();
    int64_t b = (it.HasMember("b") && !it["b"].IsNull()) ? asint(it["b"]) : ak::Slice::none();
    int64_t s = (it.HasMember("s") && !it["s"].IsNull()) ? asint(it["s"]) : 1;
    if (s == 0) throw std::invalid_argument("slice step must not be 0");   // as toslice_part does
    return std::make_shared<ak::SliceRange>(a, b, s);
  }
  if (k == "ellipsis") return std::make_shared<ak::SliceEllipsis>();
  if (k == "newaxis") return std::make_shared<ak::SliceNewAxis>();
  if (k == "field") return std::make_shared<ak::SliceField>(gets(it, "key", ""));
  if (k == "fields") {
    std::vector<std::string> keys;
    for (auto& x : need(it, "keys").GetArray()) keys.push_back(std::string(x.GetString()));
    return std::make_shared<ak::SliceFields>(keys);
  }
  if (k == "arr") {
    ak::Index64 index = mkindex<int64_t>(need(it, "data"));
    std::vector<int64_t> shape, strides;
    if (it.HasMember("shape")) for (auto& x : it["shape"].GetArray()) shape.push_back(asint(x));
    else shape.push_back(index.length());
    strides.resize(shape.size()); int64_t s = 1;
    for (int64_t d = (int64_t)shape.size() - 1; d >= 0; d--) { strides[(size_t)d] = s; s *= shape[(size_t)d]; }
    return std::make_shared<ak::SliceArray64>(index, shape, strides, geti(it, "frombool", 0) != 0);
  }
  if (k == "content") {
    ak::ContentPtr c = mklayout(need(it, "layout"), S);
    return c->asslice();
  }
  throw HarnessError("unknown slice item kind '" + k + "'");
}
static ak::Slice mkslice(const JV& items, Session& S) {
  ak::Slice out;
  for (auto& it : items.GetArray()) out.append(mksliceitem(it, S));
  out.become_sealed();
  return out;
}

// ------------------------------------------------------------------ projections
static std::string firstline(const std::string& m) {
  size_t p = m.find('\n');
  std::string s = p == std::string::npos ? m : m.substr(0, p);
  size_t q = s.find("(https://");
  if (q != std::string::npos) s = s.substr(0, q);
  if (s.size() > 160) s = s.substr(0, 160);
  return s;
}
static bool wants(const JV& step, const char* what, bool dflt) {
  if (!step.HasMember("want")) return dflt;
  for (auto& x : step["want"].GetArray()) if (std::string(x.GetString()) == what) return true;
  return false;
}
std::string project(const ak::ContentPtr& c, const JV& step) {
  std::string out = "\"ok\":1";
  bool isscalar = c->isscalar();
  out += ",\"scalar\":" + std::string(isscalar ? "1" : "0");
  out += ",\"cls\":" + jstr(c->classname());
  if (!isscalar) out += ",\"len\":" + jint(c->length());
  // an array that fails its own validity check is reported as such and NOT read any further, unless the step asks for
  // it explicitly (C12 phase "arbitrary layouts x print/convert")
  bool readable = true;
  if (!isscalar && wants(step, "valid", true) && !wants(step, "json_even_if_invalid", false)) {
    try { readable = c->validityerror("layout").empty(); } catch (std::exception&) { readable = false; }
  }
  if (wants(step, "json", true) && readable) {
    try { out += ",\"json\":" + jstr(c->tojson(false, -1, "nan", "inf", "-inf", "re", "im")); }
    catch (std::exception& e) { out += ",\"json_exc\":" + jstr(firstline(e.what())); }
  }
  if (wants(step, "json_writers", false) && readable) {
    // the three other writers: pretty string, compact file, pretty file (each must parse to the same value)
    try {
      out += ",\"json_pretty\":" + jstr(c->tojson(true, -1, "nan", "inf", "-inf", "re", "im"));
      for (int pretty = 0; pretty < 2; pretty++) {
        FILE* f = tmpfile();
        if (f == nullptr) throw HarnessError("tmpfile failed");
        std::string text;
        try {
          c->tojson(f, pretty != 0, -1, 7, "nan", "inf", "-inf", "re", "im");     // (a 7-byte write buffer: many flushes)
          fflush(f); rewind(f);
          char buf[4096]; size_t n;
          while ((n = fread(buf, 1, sizeof(buf), f)) > 0) text.append(buf, n);
        } catch (...) { fclose(f); throw; }
        fclose(f);
        out += std::string(pretty ? ",\"json_file_pretty\":" : ",\"json_file\":") + jstr(text);
      }
    }
    catch (HarnessError&) { throw; }
    catch (std::exception& e) { out += ",\"json_writers_exc\":" + jstr(firstline(e.what())); }
  }
  if (!readable) out += ",\"json_skipped\":1";
  // a scalar result (0-dimensional NumpyArray, Record, None) is converted to a Python object by the bindings before
  // anything else can be asked of it; form()/type() of a 0-dimensional NumpyArray are not reachable from Python
  bool zerodim = false;
  if (const ak::NumpyArray* np = dynamic_cast<const ak::NumpyArray*>(c.get())) zerodim = np->shape().empty();
  if (wants(step, "type", true) && !zerodim) {
    try { out += ",\"type\":" + jstr(c->type(default_typestrs())->tostring()); }
    catch (std::exception& e) { out += ",\"type_exc\":" + jstr(firstline(e.what())); }
  }
  if (wants(step, "valid", true) && !isscalar) {
    try { out += ",\"valid\":" + jstr(firstline(c->validityerror("layout"))); }
    catch (std::exception& e) { out += ",\"valid_exc\":" + jstr(firstline(e.what())); }
  }
  if (wants(step, "layout", false)) out += ",\"layout\":" + dumplayout(c);
  if (wants(step, "digest", false) && readable) out += ",\"digest\":" + jstr(digest(c));
  if (wants(step, "form", false) && !zerodim) {
    try { out += ",\"form\":" + jstr(c->form(true)->tojson(false, true)); }
    catch (std::exception& e) { out += ",\"form_exc\":" + jstr(firstline(e.what())); }
  }
  if (wants(step, "depth", false) && !zerodim) {
    try {
      std::pair<int64_t, int64_t> mm = c->minmax_depth();
      std::pair<bool, int64_t> bd = c->branch_depth();
      out += ",\"purelist_depth\":" + jint(c->purelist_depth()) + ",\"mindepth\":" + jint(mm.first) + ",\"maxdepth\":" + jint(mm.second)
           + ",\"branch\":" + (bd.first ? "1" : "0") + ",\"branchdepth\":" + jint(bd.second)
           + ",\"isregular\":" + (c->purelist_isregular() ? "1" : "0") + ",\"numfields\":" + jint(c->numfields()) + ",\"keys\":[";
      std::vector<std::string> ks = c->keys();
      for (size_t i = 0; i < ks.size(); i++) out += (i ? "," : "") + jstr(ks[i]);
      out += "]";
    } catch (std::exception& e) { out += ",\"depth_exc\":" + jstr(firstline(e.what())); }
  }
  if (wants(step, "tostring", false)) {
    try { std::string s = c->tostring(); out += ",\"tostring_len\":" + jint((int64_t)s.size()); }
    catch (std::exception& e) { out += ",\"tostring_exc\":" + jstr(firstline(e.what())); }
  }
  return out;
}

// ------------------------------------------------------------------ reducers
static std::shared_ptr<ak::Reducer> mkreducer(const std::string& r) {
  if (r == "count") return std::make_shared<ak::ReducerCount>();
  if (r == "count_nonzero") return std::make_shared<ak::ReducerCountNonzero>();
  if (r == "sum") return std::make_shared<ak::ReducerSum>();
  if (r == "prod") return std::make_shared<ak::ReducerProd>();
  if (r == "any") return std::make_shared<ak::ReducerAny>();
  if (r == "all") return std::make_shared<ak::ReducerAll>();
  if (r == "min") return std::make_shared<ak::ReducerMin>();
  if (r == "max") return std::make_shared<ak::ReducerMax>();
  if (r == "argmin") return std::make_shared<ak::ReducerArgmin>();
  if (r == "argmax") return std::make_shared<ak::ReducerArgmax>();
  throw HarnessError("unknown reducer " + r);
}

// ------------------------------------------------------------------ op dispatch for Content
#define TRYCAST(T, var) const T* var = dynamic_cast<const T*>(src.get())

static ak::ContentPtr op_content(const std::string& op, const JV& st, Session& S, bool& handled, std::string& extra) {
  handled = true;
  if (op == "build") return mklayout(need(st, "layout"), S);
  ak::ContentPtr src = S.get(gets(st, "src", ""));
  if (op == "id") return src;
  if (op == "getitem") {
    const JV& items = need(st, "slice");
    bool py = geti(st, "pydispatch", 1) != 0;
    if (py && items.Size() == 1) {
      const JV& it = items[0];
      std::string k = gets(it, "k", "");
      if (k == "at") return src->getitem_at(geti(it, "i", 0));
      if (k == "range" && (!it.HasMember("s") || it["s"].IsNull() || asint(it["s"]) == 1)) {
        int64_t a = (it.HasMember("a") && !it["a"].IsNull()) ? asint(it["a"]) : ak::Slice::none();
        int64_t b = (it.HasMember("b") && !it["b"].IsNull()) ? asint(it["b"]) : ak::Slice::none();
        // content.cpp getitem(): PySlice_GetIndicesEx-free path: start/stop none -> 0 / length
        if (a == ak::Slice::none()) a = 0;
        if (b == ak::Slice::none()) b = src->length();
        return src->getitem_range(a, b);
      }
      if (k == "field") return src->getitem_field(gets(it, "key", ""));
      if (k == "fields") {
        std::vector<std::string> keys;
        for (auto& x : need(it, "keys").GetArray()) keys.push_back(std::string(x.GetString()));
        return src->getitem_fields(keys);
      }
    }
    return src->getitem(mkslice(items, S));
  }
  if (op == "getitem_at") return src->getitem_at(geti(st, "i", 0));
  if (op == "getitem_range") return src->getitem_range(geti(st, "a", 0), geti(st, "b", 0));
  if (op == "getitem_field") return src->getitem_field(gets(st, "key", ""));
  if (op == "getitem_fields") {
    std::vector<std::string> keys;
    for (auto& x : need(st, "keys").GetArray()) keys.push_back(std::string(x.GetString()));
    return src->getitem_fields(keys);
  }
  if (op == "carry") return src->carry(mkindex<int64_t>(need(st, "index")), geti(st, "allow_lazy", 0) != 0);
  if (op == "num") return src->num(geti(st, "axis", 1), 0);
  if (op == "flatten") { auto pr = src->offsets_and_flattened(geti(st, "axis", 1), 0); extra = ",\"offsets\":" + jindex(pr.first); return pr.second; }
  if (op == "localindex") return src->localindex(geti(st, "axis", 1), 0);
  if (op == "reduce") {
    std::shared_ptr<ak::Reducer> r = mkreducer(gets(st, "reducer", "sum"));
    if (st.HasMember("initial") && st["initial"].IsNumber()) {
      double f = st["initial"].GetDouble();
      if (gets(st, "reducer", "") == "min") r = std::make_shared<ak::ReducerMin>(f, (uint64_t)(f < 0 ? 0 : f), (int64_t)f);
      if (gets(st, "reducer", "") == "max") r = std::make_shared<ak::ReducerMax>(f, (uint64_t)(f < 0 ? 0 : f), (int64_t)f);
    }
    return src->reduce(*r, geti(st, "axis", -1), geti(st, "mask", 0) != 0, geti(st, "keepdims", 0) != 0);
  }
  if (op == "sort") return src->sort(geti(st, "axis", -1), geti(st, "ascending", 1) != 0, geti(st, "stable", 0) != 0);
  if (op == "argsort") return src->argsort(geti(st, "axis", -1), geti(st, "ascending", 1) != 0, geti(st, "stable", 0) != 0);
  if (op == "combinations") {
    ak::util::RecordLookupPtr lookup(nullptr);
    int64_t n = geti(st, "n", 2);
    if (st.HasMember("keys") && st["keys"].IsArray()) {
      lookup = std::make_shared<ak::util::RecordLookup>();
      for (auto& x : st["keys"].GetArray()) lookup->push_back(std::string(x.GetString()));
      if ((int64_t)lookup->size() != n) throw std::invalid_argument("if provided, the length of 'keys' must be 'n'");
    }
    ak::util::Parameters cparams;
    if (st.HasMember("params") && st["params"].IsObject())
      for (auto& m : st["params"].GetObject()) cparams[std::string(m.name.GetString())] = std::string(m.value.GetString(), m.value.GetStringLength());
    return src->combinations(n, geti(st, "replacement", 0) != 0, lookup, cparams, geti(st, "axis", 1), 0);
  }
  if (op == "rpad") return src->rpad(geti(st, "target", 0), geti(st, "axis", 1), 0);
  if (op == "rpad_and_clip") return src->rpad_and_clip(geti(st, "target", 0), geti(st, "axis", 1), 0);
  if (op == "fillna") return src->fillna(S.get(gets(st, "value", "")));
  if (op == "merge") return src->merge(S.get(gets(st, "other", "")));
  if (op == "merge_as_union") return src->merge_as_union(S.get(gets(st, "other", "")));
  if (op == "mergeable") { extra = ",\"bool\":" + std::string(src->mergeable(S.get(gets(st, "other", "")), geti(st, "mergebool", 0) != 0) ? "1" : "0"); return src; }
  if (op == "mergemany") {
    ak::ContentPtrVec others;
    for (auto& x : need(st, "others").GetArray()) others.push_back(S.get(x.GetString()));
    return src->mergemany(others);
  }
  if (op == "concat0") {
    // ak.concatenate(axis=0) of src/awkward/operations/structure.py, on the C++ API it calls
    ak::ContentPtrVec contents;
    contents.push_back(src);
    for (auto& x : need(st, "others").GetArray()) contents.push_back(S.get(x.GetString()));
    ak::ContentPtrVec batch; batch.push_back(contents[0]);
    for (size_t i = 1; i < contents.size(); i++) {
      if (batch.back()->mergeable(contents[i], false)) batch.push_back(contents[i]);
      else {
        ak::ContentPtr collapsed = batch[0]->mergemany(ak::ContentPtrVec(batch.begin() + 1, batch.end()));
        batch.clear(); batch.push_back(collapsed->merge_as_union(contents[i]));
      }
    }
    ak::ContentPtr out = batch[0]->mergemany(ak::ContentPtrVec(batch.begin() + 1, batch.end()));
    if (const ak::UnionArray8_32* u = dynamic_cast<const ak::UnionArray8_32*>(out.get())) return u->simplify_uniontype(true, false);
    if (const ak::UnionArray8_U32* u = dynamic_cast<const ak::UnionArray8_U32*>(out.get())) return u->simplify_uniontype(true, false);
    if (const ak::UnionArray8_64* u = dynamic_cast<const ak::UnionArray8_64*>(out.get())) return u->simplify_uniontype(true, false);
    return out;
  }
  if (op == "simplify") return src->shallow_simplify();
  if (op == "numbers_to_type") return src->numbers_to_type(gets(st, "name", "float64"));
  if (op == "deep_copy") return src->deep_copy(true, true, true);
  if (op == "is_unique") { extra = ",\"bool\":" + std::string(src->is_unique() ? "1" : "0"); return src; }
  if (op == "unique") return src->unique();
  if (op == "validityerror") { extra = ",\"validity\":" + jstr(firstline(src->validityerror("layout"))); return src; }
  if (op == "setitem_field") {
    ak::ContentPtr what = S.get(gets(st, "what", ""));
    std::string where = gets(st, "where", "");
    if (TRYCAST(ak::RecordArray, r)) {
      if (st.HasMember("wherei")) return r->setitem_field(geti(st, "wherei", 0), what);
      return r->setitem_field(where, what);
    }
    throw HarnessError("setitem_field on non-record");
  }
  // ---- class-specific conversions
  if (op == "toListOffsetArray64") {
    bool z = geti(st, "start_at_zero", 1) != 0;
#define CV(T) if (TRYCAST(T, a)) return a->toListOffsetArray64(z);
    CV(ak::ListOffsetArray32) CV(ak::ListOffsetArrayU32) CV(ak::ListOffsetArray64)
    CV(ak::ListArray32) CV(ak::ListArrayU32) CV(ak::ListArray64) CV(ak::RegularArray)
#undef CV
    throw HarnessError("toListOffsetArray64: not a list");
  }
  if (op == "compact_offsets64") {
    bool z = geti(st, "start_at_zero", 1) != 0;
#define CV(T) if (TRYCAST(T, a)) { extra = ",\"index\":" + jindex(a->compact_offsets64(z)); return src; }
    CV(ak::ListOffsetArray32) CV(ak::ListOffsetArrayU32) CV(ak::ListOffsetArray64)
    CV(ak::ListArray32) CV(ak::ListArrayU32) CV(ak::ListArray64) CV(ak::RegularArray)
#undef CV
    throw HarnessError("compact_offsets64: not a list");
  }
  if (op == "broadcast_tooffsets64") {
    ak::Index64 offs = mkindex<int64_t>(need(st, "offsets"));
#define CV(T) if (TRYCAST(T, a)) return a->broadcast_tooffsets64(offs);
    CV(ak::ListOffsetArray32) CV(ak::ListOffsetArrayU32) CV(ak::ListOffsetArray64)
    CV(ak::ListArray32) CV(ak::ListArrayU32) CV(ak::ListArray64) CV(ak::RegularArray)
#undef CV
    throw HarnessError("broadcast_tooffsets64: not a list");
  }
  if (op == "toRegularArray") {
#define CV(T) if (TRYCAST(T, a)) return a->toRegularArray();
    CV(ak::ListOffsetArray32) CV(ak::ListOffsetArrayU32) CV(ak::ListOffsetArray64)
    CV(ak::ListArray32) CV(ak::ListArrayU32) CV(ak::ListArray64) CV(ak::RegularArray) CV(ak::NumpyArray)
#undef CV
    throw HarnessError("toRegularArray: not a list");
  }
#define OPTCLASSES(M) M(ak::IndexedOptionArray32) M(ak::IndexedOptionArray64) M(ak::ByteMaskedArray) M(ak::BitMaskedArray) M(ak::UnmaskedArray)
  if (op == "project") {
    if (st.HasMember("mask") || st.HasMember("mask_alt")) {
      // mask_alt: a mask of the array's own length that marks every second position as missing (1 = missing)
      ak::Index8 m = st.HasMember("mask") ? mkindex<int8_t>(st["mask"]) : ak::Index8(src->length());
      if (!st.HasMember("mask")) for (int64_t i = 0; i < src->length(); i++) m.setitem_at_nowrap(i, (int8_t)((i + geti(st, "mask_alt", 1)) % 2));
#define CVM(T) if (TRYCAST(T, a)) return a->project(m);
      OPTCLASSES(CVM) CVM(ak::IndexedArray32) CVM(ak::IndexedArrayU32) CVM(ak::IndexedArray64)
#undef CVM
    }
#define CV(T) if (TRYCAST(T, a)) return a->project();
    OPTCLASSES(CV) CV(ak::IndexedArray32) CV(ak::IndexedArrayU32) CV(ak::IndexedArray64)
#undef CV
    throw HarnessError("project: not an option/indexed");
  }
  if (op == "bytemask") {
#define CV(T) if (TRYCAST(T, a)) { extra = ",\"index\":" + jindex(a->bytemask()); return src; }
    OPTCLASSES(CV) CV(ak::IndexedArray32) CV(ak::IndexedArrayU32) CV(ak::IndexedArray64)
#undef CV
    throw HarnessError("bytemask: not an option/indexed");
  }
  if (op == "simplify_optiontype") {
#define CV(T) if (TRYCAST(T, a)) return a->simplify_optiontype();
    OPTCLASSES(CV) CV(ak::IndexedArray32) CV(ak::IndexedArrayU32) CV(ak::IndexedArray64)
#undef CV
    throw HarnessError("simplify_optiontype: not an option/indexed");
  }
  if (op == "toIndexedOptionArray64") {
    if (TRYCAST(ak::ByteMaskedArray, a)) return a->toIndexedOptionArray64();
    if (TRYCAST(ak::BitMaskedArray, b)) return b->toIndexedOptionArray64();
    if (TRYCAST(ak::UnmaskedArray, u)) return u->toIndexedOptionArray64();
    throw HarnessError("toIndexedOptionArray64: wrong class");
  }
  if (op == "toByteMaskedArray") {
    if (TRYCAST(ak::BitMaskedArray, b)) return b->toByteMaskedArray();
    throw HarnessError("toByteMaskedArray: wrong class");
  }
  if (op == "simplify_uniontype") {
    bool merge = geti(st, "merge", 1) != 0, mergebool = geti(st, "mergebool", 0) != 0;
    if (TRYCAST(ak::UnionArray8_32, a)) return a->simplify_uniontype(merge, mergebool);
    if (TRYCAST(ak::UnionArray8_U32, b)) return b->simplify_uniontype(merge, mergebool);
    if (TRYCAST(ak::UnionArray8_64, c)) return c->simplify_uniontype(merge, mergebool);
    throw HarnessError("simplify_uniontype: not a union");
  }
  if (op == "contiguous") { if (TRYCAST(ak::NumpyArray, a)) return std::make_shared<ak::NumpyArray>(a->contiguous()); throw HarnessError("contiguous: not numpy"); }
  if (op == "form_roundtrip") {
    ak::FormPtr f = src->form(true);
    std::string j1 = f->tojson(false, true);
    ak::FormPtr g = ak::Form::fromjson(j1);
    std::string j2 = g->tojson(false, true);
    bool eq = f->equal(g, true, true, true, false);
    std::string tf = f->type(default_typestrs())->tostring();
    std::string tl = src->type(default_typestrs())->tostring();
    auto fq = [](const ak::FormPtr& x) -> std::string {
      std::pair<int64_t, int64_t> mm = x->minmax_depth();
      std::pair<bool, int64_t> bd = x->branch_depth();
      std::string out = jint(x->purelist_depth()) + "," + jint(mm.first) + "," + jint(mm.second) + "," + (bd.first ? "1" : "0") + ","
                      + jint(bd.second) + "," + (x->purelist_isregular() ? "1" : "0") + "," + jint(x->numfields());
      for (auto& k : x->keys()) out += "," + k;
      return out;
    };
    auto cq = [](const ak::ContentPtr& x) -> std::string {
      std::pair<int64_t, int64_t> mm = x->minmax_depth();
      std::pair<bool, int64_t> bd = x->branch_depth();
      std::string out = jint(x->purelist_depth()) + "," + jint(mm.first) + "," + jint(mm.second) + "," + (bd.first ? "1" : "0") + ","
                      + jint(bd.second) + "," + (x->purelist_isregular() ? "1" : "0") + "," + jint(x->numfields());
      for (auto& k : x->keys()) out += "," + k;
      return out;
    };
    extra = ",\"q_content\":" + jstr(cq(src)) + ",\"q_form\":" + jstr(fq(f)) + ",\"q_form2\":" + jstr(fq(g));
    extra += ",\"form1\":" + jstr(j1) + ",\"form2\":" + jstr(j2) + ",\"formequal\":" + (eq ? "1" : "0")
          + ",\"type_from_form\":" + jstr(tf) + ",\"type_from_layout\":" + jstr(tl);
    return src;
  }
  handled = false;
  return ak::ContentPtr(nullptr);
}

// ------------------------------------------------------------------ main loop
ak::ContentPtr Session::get(const std::string& name) {
  auto it = regs.find(name);
  if (it == regs.end()) throw HarnessError("no register '" + name + "'");
  return it->second;
}

static std::string run_step(const JV& st, Session& S) {
  std::string op = gets(st, "op", "");
  try {
    if (op == "drop") { S.regs.erase(gets(st, "src", "")); return "{\"ok\":1}"; }
    if (op == "digest") { return "{\"ok\":1,\"digest\":" + jstr(digest(S.get(gets(st, "src", "")))) + "}"; }
    std::string other;
    if (other_ops(op, st, S, other)) return other;
#ifdef AKWORKER_SHARED
    if (l2_ops(op, st, S, other)) return other;
#endif
    bool handled = false; std::string extra;
    ak::ContentPtr out = op_content(op, st, S, handled, extra);
    if (!handled) throw HarnessError("unknown op '" + op + "'");
    std::string dst = gets(st, "dst", "");
    // a scalar result becomes a Python object in the bindings: it is never available as an array operand again
    // nor is a result that fails the validity check ever used as an operand (it is reported, not operated on)
    if (!dst.empty()) {
      bool keep = !out->isscalar();
      if (keep && geti(st, "keep_only_valid", 0) != 0) {
        try { keep = out->validityerror("layout").empty(); } catch (std::exception&) { keep = false; }
      }
      if (keep) S.regs[dst] = out; else S.regs.erase(dst);
    }
    return "{" + project(out, st) + extra + "}";
  }
  catch (HarnessError& e) { return "{\"ok\":-1,\"harness\":" + jstr(e.what()) + "}"; }
  catch (std::invalid_argument& e) { return "{\"ok\":0,\"exc\":\"ValueError\",\"msg\":" + jstr(firstline(e.what())) + "}"; }
  catch (std::runtime_error& e) { return "{\"ok\":0,\"exc\":\"RuntimeError\",\"msg\":" + jstr(firstline(e.what())) + "}"; }
  catch (std::bad_alloc& e) { return "{\"ok\":0,\"exc\":\"MemoryError\",\"msg\":\"bad_alloc\"}"; }
  catch (std::exception& e) { return "{\"ok\":0,\"exc\":\"Exception\",\"msg\":" + jstr(firstline(e.what())) + "}"; }
}

std::string process_line(const std::string& line) {
  rj::Document doc;
  doc.Parse<rj::kParseNanAndInfFlag>(line.c_str());
  if (doc.HasParseError() || !doc.IsObject()) return "{\"id\":null,\"harness\":\"bad case json\"}";
  Session S;
  std::string out = "{\"id\":";
  const JV& id = doc["id"];
  if (id.IsString()) out += jstr(id.GetString()); else if (id.IsNumber()) out += jint(id.GetInt64()); else out += "null";
  out += ",\"res\":[";
  bool first = true;
  bool stop_on_error = geti(doc, "stop_on_error", 0) != 0;
  for (auto& st : need(doc, "steps").GetArray()) {
    std::string r = run_step(st, S);
    out += (first ? "" : ",") + r; first = false;
    if (stop_on_error && r.compare(0, 7, "{\"ok\":1") != 0) break;
  }
  out += "]}";
  return out;
}

#ifndef AKWORKER_SHARED
int main(int argc, char** argv) {
  std::ios::sync_with_stdio(false);
  std::string line;
  while (std::getline(std::cin, line)) {
    if (line.empty()) continue;
    std::cout << process_line(line) << "\n" << std::flush;
  }
  return 0;
}
#endif
