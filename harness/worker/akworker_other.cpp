#include "akworker.h"
bool other_ops(const std::string& op, const rapidjson::Value& st, Session& S, std::string& out) { return false; }
