// akworker — stateful components: ArrayBuilder, JSON reader/writer, AwkwardForth, VirtualArray, partitions.
#include <cstdio>
#include <cstring>
#include <cmath>
#include <sstream>
#include <vector>
#include <set>
#include <unistd.h>

#include "akworker.h"
#include "awkward/type/Type.h"
#include "awkward/builder/ArrayBuilder.h"
#include "awkward/builder/ArrayBuilderOptions.h"
#include "awkward/layoutbuilder/LayoutBuilder.h"
#include "awkward/array/RecordArray.h"
#include "awkward/io/json.h"
#include "awkward/forth/ForthMachine.h"
#include "awkward/forth/ForthInputBuffer.h"
#include "awkward/forth/ForthOutputBuffer.h"
#include "awkward/array/NumpyArray.h"
#include "awkward/array/VirtualArray.h"
#include "awkward/array/ListOffsetArray.h"
#include "awkward/virtual/ArrayGenerator.h"
#include "awkward/virtual/ArrayCache.h"
#include "awkward/Reducer.h"
#include "awkward/partition/IrregularlyPartitionedArray.h"

namespace ak = awkward;
namespace rj = rapidjson;
typedef rj::Value JV;

static std::string first_line(const std::string& m) {
  size_t p = m.find('\n');
  std::string s = p == std::string::npos ? m : m.substr(0, p);
  size_t q = s.find("(https://");
  if (q != std::string::npos) s = s.substr(0, q);
  if (s.size() > 160) s = s.substr(0, 160);
  return s;
}
static std::string excjson(const std::exception& e, const char* cls) {
  return std::string("{\"ok\":0,\"exc\":\"") + cls + "\",\"msg\":" + jstr(first_line(e.what())) + "}";
}
#define CATCH_ALL(outvar) \
  catch (HarnessError& e) { outvar = "{\"ok\":-1,\"harness\":" + jstr(e.what()) + "}"; } \
  catch (std::invalid_argument& e) { outvar = excjson(e, "ValueError"); } \
  catch (std::runtime_error& e) { outvar = excjson(e, "RuntimeError"); } \
  catch (std::bad_alloc& e) { outvar = "{\"ok\":0,\"exc\":\"MemoryError\",\"msg\":\"bad_alloc\"}"; } \
  catch (std::exception& e) { outvar = excjson(e, "Exception"); }

static std::string snapjson(const ak::ContentPtr& c) {
  return c->tojson(false, -1, "nan", "inf", "-inf", "re", "im");
}

// ------------------------------------------------------------------ ArrayBuilder
// one command: {"c":"null"|"bool"|"int"|"real"|"str"|"bytes"|"beginlist"|"endlist"|"begintuple"|"index"|"endtuple"|
//               "beginrecord"|"field"|"endrecord"|"clear"|"snapshot", "x":..., "name":..., "check":0/1}
// the arrays "append" commands take elements from (Builder.tla: SrcVals)
static ak::ContentPtr builder_source(const std::string& name) {
  static std::map<std::string, ak::ContentPtr> made;
  auto it = made.find(name);
  if (it != made.end()) return it->second;
  const char* text =
      name == "idx64" ? "{\"c\":\"Indexed\",\"w\":\"64\",\"i\":[2,0,1],\"x\":{\"c\":\"Numpy\",\"dt\":\"i64\",\"d\":[10,20,30]}}" :
      name == "idx32" ? "{\"c\":\"Indexed\",\"w\":\"32\",\"i\":[2,0,1],\"x\":{\"c\":\"Numpy\",\"dt\":\"i64\",\"d\":[10,20,30]}}" :
      name == "opt" ? "{\"c\":\"IndexedOption\",\"w\":\"64\",\"i\":[-1,1,0],\"x\":{\"c\":\"Numpy\",\"dt\":\"i64\",\"d\":[5,6]}}" :
      name == "lists" ? "{\"c\":\"ListOffset\",\"w\":\"64\",\"o\":[1,2,2,4],\"x\":{\"c\":\"Numpy\",\"dt\":\"i64\",\"d\":[1,2,3,4]}}" : nullptr;
  if (text == nullptr) throw HarnessError("builder source " + name);
  rj::Document d;
  d.Parse(text);
  Session S;
  ak::ContentPtr out = mklayout(d, S);
  made[name] = out;
  return out;
}

static void builder_cmd(ak::ArrayBuilder& b, const JV& c, bool capi) {
  std::string k = gets(c, "c", "");
  void* vb = reinterpret_cast<void*>(&b);
  if (k == "append") {                 // (no extern "C" counterpart takes an array: always the C++ method)
    b.append(builder_source(gets(c, "src", "")), geti(c, "at", 0));
    return;
  }
  if (capi) {
    // the extern "C" surface used by the Numba lowering (returns 1 on failure)
    uint8_t err = 0;
    if (k == "null") err = awkward_ArrayBuilder_null(vb);
    else if (k == "bool") err = awkward_ArrayBuilder_boolean(vb, geti(c, "x", 0) != 0);
    else if (k == "int") err = awkward_ArrayBuilder_integer(vb, geti(c, "x", 0));
    else if (k == "real") err = awkward_ArrayBuilder_real(vb, (double)geti(c, "n", 0) / (double)geti(c, "d", 1));
    else if (k == "str") err = awkward_ArrayBuilder_string(vb, gets(c, "x", "").c_str());
    else if (k == "bytes") err = awkward_ArrayBuilder_bytestring(vb, gets(c, "x", "").c_str());
    else if (k == "beginlist") err = awkward_ArrayBuilder_beginlist(vb);
    else if (k == "endlist") err = awkward_ArrayBuilder_endlist(vb);
    else if (k == "begintuple") err = awkward_ArrayBuilder_begintuple(vb, geti(c, "n", 0));
    else if (k == "index") err = awkward_ArrayBuilder_index(vb, geti(c, "i", 0));
    else if (k == "endtuple") err = awkward_ArrayBuilder_endtuple(vb);
    else if (k == "beginrecord") {
      std::string name = gets(c, "name", "");
      if (name.empty()) err = awkward_ArrayBuilder_beginrecord(vb);
      else err = awkward_ArrayBuilder_beginrecord_check(vb, name.c_str());
    }
    else if (k == "field") err = awkward_ArrayBuilder_field_check(vb, gets(c, "key", "").c_str());
    else if (k == "endrecord") err = awkward_ArrayBuilder_endrecord(vb);
    else if (k == "clear") err = awkward_ArrayBuilder_clear(vb);
    else throw HarnessError("builder command " + k);
    if (err != 0) throw std::invalid_argument("awkward_ArrayBuilder_* reported failure");
    return;
  }
  if (k == "null") b.null();
  else if (k == "bool") b.boolean(geti(c, "x", 0) != 0);
  else if (k == "int") b.integer(geti(c, "x", 0));
  else if (k == "real") b.real((double)geti(c, "n", 0) / (double)geti(c, "d", 1));
  else if (k == "str") b.string(gets(c, "x", ""));
  else if (k == "bytes") b.bytestring(gets(c, "x", ""));
  else if (k == "beginlist") b.beginlist();
  else if (k == "endlist") b.endlist();
  else if (k == "begintuple") b.begintuple(geti(c, "n", 0));
  else if (k == "index") b.index(geti(c, "i", 0));
  else if (k == "endtuple") b.endtuple();
  else if (k == "beginrecord") {
    std::string name = gets(c, "name", "");
    if (name.empty()) b.beginrecord(); else b.beginrecord_check(name);
  }
  else if (k == "field") b.field_check(gets(c, "key", ""));
  else if (k == "endrecord") b.endrecord();
  else if (k == "clear") b.clear();
  else throw HarnessError("builder command " + k);
}

static std::string builder_run(const JV& st) {
  int64_t initial = geti(st, "initial", 1024);
  double resize = (double)geti(st, "resize_num", 3) / (double)geti(st, "resize_den", 2);
  bool capi = geti(st, "capi", 0) != 0;
  ak::ArrayBuilder b(ak::ArrayBuilderOptions(initial, resize));
  std::vector<ak::ContentPtr> snaps;
  std::vector<std::string> snaptext;
  std::string out = "{\"ok\":1,\"steps\":[";
  bool first = true;
  for (auto& c : need(st, "cmds").GetArray()) {
    std::string r;
    try {
      if (gets(c, "c", "") != "snapshot") builder_cmd(b, c, capi);
      ak::ContentPtr s = b.snapshot();
      std::string js = snapjson(s);
      snaps.push_back(s); snaptext.push_back(js);
      r = "{\"ok\":1,\"len\":" + std::to_string((long long)b.length()) + ",\"json\":" + jstr(js)
        + ",\"type\":" + jstr(s->type(default_typestrs())->tostring())
        + ",\"valid\":" + jstr(first_line(s->validityerror("layout"))) + "}";
    }
    CATCH_ALL(r)
    out += (first ? "" : ",") + r; first = false;
    if (r.compare(0, 7, "{\"ok\":1") != 0) break;       // the builder's state after an error is unspecified
  }
  out += "],\"immutable\":";
  bool same = true; std::string diff;
  for (size_t i = 0; i < snaps.size(); i++) {
    std::string again;
    try { again = snapjson(snaps[i]); } catch (std::exception& e) { again = std::string("EXC ") + e.what(); }
    if (again != snaptext[i]) { same = false; diff = "snapshot " + std::to_string(i) + " was " + snaptext[i] + " now " + again; break; }
  }
  out += same ? "1" : "0";
  if (!same) out += ",\"diff\":" + jstr(diff);
  return out + "}";
}

// ------------------------------------------------------------------ LayoutBuilder (Form-driven; C14)
static std::string layoutbuilder_run(const JV& st) {
  ak::FormPtr form = ak::Form::fromjson(gets(st, "form", ""));
  int64_t initial = geti(st, "initial", 1024);
  ak::LayoutBuilder b(form, ak::ArrayBuilderOptions(initial, 1.5), true);
  std::vector<ak::ContentPtr> snaps;
  std::vector<std::string> snaptext;
  std::string out = "{\"ok\":1,\"steps\":[";
  bool first = true;
  for (auto& c : need(st, "cmds").GetArray()) {
    std::string r;
    try {
      std::string k = gets(c, "c", "");
      if (k == "null") b.null();
      else if (k == "bool") b.boolean(geti(c, "x", 0) != 0);
      else if (k == "int") b.int64(geti(c, "x", 0));
      else if (k == "real") b.float64((double)geti(c, "n", 0) / (double)geti(c, "d", 1));
      else if (k == "str") b.string(gets(c, "x", ""));
      else if (k == "bytes") b.bytestring(gets(c, "x", ""));
      else if (k == "beginlist") b.begin_list();
      else if (k == "endlist") b.end_list();
      else if (k == "tag") b.tag((int8_t)geti(c, "i", 0));
      else if (k == "index") b.index(geti(c, "i", 0));
      else if (k != "snapshot") throw HarnessError("layoutbuilder command " + k);
      ak::ContentPtr s = b.snapshot();
      std::string v = first_line(s->validityerror("layout"));
      std::string js = v.empty() ? snapjson(s) : std::string("null");
      snaps.push_back(s); snaptext.push_back(js);
      r = "{\"ok\":1,\"len\":" + std::to_string((long long)s->length()) + ",\"json\":" + jstr(js)
        + ",\"type\":" + jstr(s->type(default_typestrs())->tostring())
        + ",\"formsame\":" + std::string(b.form()->equal(form, true, true, true, true) ? "1" : "0")
        + ",\"valid\":" + jstr(v) + "}";
    }
    CATCH_ALL(r)
    out += (first ? "" : ",") + r; first = false;
    if (r.compare(0, 7, "{\"ok\":1") != 0) break;
  }
  out += "],\"immutable\":";
  bool same = true; std::string diff;
  for (size_t i = 0; i < snaps.size(); i++) {
    if (snaptext[i] == "null") continue;
    std::string again;
    try { again = snapjson(snaps[i]); } catch (std::exception& e) { again = std::string("EXC ") + e.what(); }
    if (again != snaptext[i]) { same = false; diff = "snapshot " + std::to_string(i) + " was " + snaptext[i] + " now " + again; break; }
  }
  out += same ? "1" : "0";
  if (!same) out += ",\"diff\":" + jstr(diff);
  return out + "}";
}

// ------------------------------------------------------------------ JSON
static std::string json_parse(const JV& st, Session& S) {
  std::string text = gets(st, "text", "");
  int64_t initial = geti(st, "initial", 1024);
  bool markers = geti(st, "markers", 1) != 0;
  const char* nan_s = markers ? "nan" : nullptr;
  const char* inf_s = markers ? "inf" : nullptr;
  const char* minf_s = markers ? "-inf" : nullptr;
  std::string h1, h2, h3;
  if (st.HasMember("nan_string") || st.HasMember("infinity_string") || st.HasMember("minus_infinity_string") || st.HasMember("path")) {
    // L2: exactly the strings the caller of ak.from_json chose (none by default)
    nan_s = inf_s = minf_s = nullptr;
    if (st.HasMember("nan_string")) { h1 = gets(st, "nan_string", ""); nan_s = h1.c_str(); }
    if (st.HasMember("infinity_string")) { h2 = gets(st, "infinity_string", ""); inf_s = h2.c_str(); }
    if (st.HasMember("minus_infinity_string")) { h3 = gets(st, "minus_infinity_string", ""); minf_s = h3.c_str(); }
  }
  double resize = st.HasMember("resize_num") ? (double)geti(st, "resize_num", 3) / (double)geti(st, "resize_den", 2) : 1.5;
  ak::ContentPtr c;
  if (st.HasMember("path")) {
    FILE* f = fopen(gets(st, "path", "").c_str(), "rb");
    if (f == nullptr) throw std::invalid_argument("file \"" + gets(st, "path", "") + "\" could not be opened for reading");
    try { c = ak::FromJsonFile(f, ak::ArrayBuilderOptions(initial, resize), geti(st, "buffersize", 65536), nan_s, inf_s, minf_s); }
    catch (...) { fclose(f); throw; }
    fclose(f);
  }
  else if (geti(st, "file", 0) != 0) {
    FILE* f = tmpfile();
    if (f == nullptr) throw HarnessError("tmpfile failed");
    fwrite(text.data(), 1, text.size(), f);
    rewind(f);
    try { c = ak::FromJsonFile(f, ak::ArrayBuilderOptions(initial, 1.5), geti(st, "buffersize", 65536), nan_s, inf_s, minf_s); }
    catch (...) { fclose(f); throw; }
    fclose(f);
  }
  else {
    c = ak::FromJsonString(text.c_str(), ak::ArrayBuilderOptions(initial, 1.5), nan_s, inf_s, minf_s);
  }
  std::string dst = gets(st, "dst", "");
  if (!dst.empty()) S.regs[dst] = c;
  return "{" + project(c, st) + "}";
}

static std::string json_write(const JV& st, Session& S) {
  ak::ContentPtr c = S.get(gets(st, "src", ""));
  bool pretty = geti(st, "pretty", 0) != 0;
  int64_t maxdecimals = geti(st, "maxdecimals", -1);
  bool markers = geti(st, "markers", 1) != 0;
  const char* nan_s = markers ? "NaN!" : nullptr;
  const char* inf_s = markers ? "Inf!" : nullptr;
  const char* minf_s = markers ? "-Inf!" : nullptr;
  std::string text;
  if (geti(st, "file", 0) != 0) {
    FILE* f = tmpfile();
    if (f == nullptr) throw HarnessError("tmpfile failed");
    try { c->tojson(f, pretty, maxdecimals, geti(st, "buffersize", 65536), nan_s, inf_s, minf_s, "re", "im"); }
    catch (...) { fclose(f); throw; }
    fflush(f);
    long n = ftell(f);
    rewind(f);
    text.resize((size_t)n);
    if (n > 0 && fread(&text[0], 1, (size_t)n, f) != (size_t)n) { fclose(f); throw HarnessError("short read"); }
    fclose(f);
  }
  else {
    text = c->tojson(pretty, maxdecimals, nan_s, inf_s, minf_s, "re", "im");
  }
  return "{\"ok\":1,\"text\":" + jstr(text) + "}";
}


// ------------------------------------------------------------------ VirtualArray with a harness-owned generator and cache (C18)
namespace {
struct GenState {
  ak::ContentPtr eager, alt;       // what a well-behaved / misbehaving generator returns
  std::string mode;                // ok | short | wrongform | raises | raise_first
  int64_t calls = 0;
};
class TestGenerator : public ak::ArrayGenerator {
public:
  TestGenerator(const ak::FormPtr& form, int64_t length, const std::shared_ptr<GenState>& st)
      : ak::ArrayGenerator(form, length), st_(st) {}
  const ak::ContentPtr generate() const override {
    st_->calls++;
    if (st_->mode == "raises") throw std::invalid_argument("generator failed (harness)");
    if (st_->mode == "raise_first" && st_->calls == 1) throw std::invalid_argument("generator failed once (harness)");
    if (st_->mode == "short" || st_->mode == "wrongform") return st_->alt;
    if (st_->mode == "bad_first" && st_->calls == 1) return st_->alt;      // too short AND of another form, once
    return st_->eager;
  }
  void caches(std::vector<ak::ArrayCachePtr>& out) const override {}
  const std::string tostring_part(const std::string& indent, const std::string& pre, const std::string& post) const override {
    return indent + pre + "<TestGenerator/>" + post;
  }
  const std::shared_ptr<ak::ArrayGenerator> shallow_copy() const override { return std::make_shared<TestGenerator>(form_, length_, st_); }
  const std::shared_ptr<ak::ArrayGenerator> with_form(const ak::FormPtr& form) const override { return std::make_shared<TestGenerator>(form, length_, st_); }
  const std::shared_ptr<ak::ArrayGenerator> with_length(int64_t length) const override { return std::make_shared<TestGenerator>(form_, length, st_); }
  bool referentially_equal(const ak::ArrayGeneratorPtr& other) const override { return other.get() == this; }
private:
  std::shared_ptr<GenState> st_;
};
class TestCache : public ak::ArrayCache {
public:
  explicit TestCache(const std::string& kind) : kind_(kind) {}
  ak::ContentPtr get(const std::string& key) const override {
    gets_++;
    auto it = map_.find(key);
    return it == map_.end() ? ak::ContentPtr(nullptr) : it->second;
  }
  void set(const std::string& key, const ak::ContentPtr& value) override {
    sets_++;
    if (kind_ == "keep") map_[key] = value;        // "evict_always": forgets at once
  }
  bool is_broken() const override { return false; }
  const std::string tostring_part(const std::string& indent, const std::string& pre, const std::string& post) const override {
    return indent + pre + "<TestCache/>" + post;
  }
  void evict() { map_.clear(); }
  size_t held() const { return map_.size(); }
  mutable int64_t gets_ = 0; int64_t sets_ = 0;
private:
  std::string kind_;
  std::map<std::string, ak::ContentPtr> map_;
};
}

// one observation of an array (or scalar) as JSON text
static std::string observe(const ak::ContentPtr& c) {
  return c->tojson(false, -1, "nan", "inf", "-inf", "re", "im");
}

static std::string virtual_op(const ak::ContentPtr& arr, const JV& o) {
  std::string k = gets(o, "op", "");
  if (k == "length") return "{\"ok\":1,\"int\":" + std::to_string((long long)arr->length()) + "}";
  if (k == "form") return "{\"ok\":1,\"text\":" + jstr(arr->form(false)->type(default_typestrs())->tostring()) + "}";
  if (k == "type") return "{\"ok\":1,\"text\":" + jstr(arr->type(default_typestrs())->tostring()) + "}";
  if (k == "tojson") return "{\"ok\":1,\"text\":" + jstr(observe(arr)) + "}";
  if (k == "at") return "{\"ok\":1,\"text\":" + jstr(observe(arr->getitem_at(geti(o, "i", 0)))) + "}";
  if (k == "range") return "{\"ok\":1,\"text\":" + jstr(observe(arr->getitem_range(geti(o, "a", 0), geti(o, "b", 0)))) + "}";
  if (k == "range_lazy") {          // the slice itself, observed only through its length (must not need the data)
    ak::ContentPtr r = arr->getitem_range(geti(o, "a", 0), geti(o, "b", 0));
    return "{\"ok\":1,\"int\":" + std::to_string((long long)r->length()) + "}";
  }
  if (k == "num") return "{\"ok\":1,\"text\":" + jstr(observe(arr->num(geti(o, "axis", 1), 0))) + "}";
  if (k == "carry") { ak::Index64 ix = mkindex64(need(o, "index")); return "{\"ok\":1,\"text\":" + jstr(observe(arr->carry(ix, false))) + "}"; }
  if (k == "validity") return "{\"ok\":1,\"text\":" + jstr(first_line(arr->validityerror("layout"))) + "}";
  if (k == "slice_json") {            // x[(a:b,)] through getitem(Slice): bounds may be negative or absent (99999 = absent)
    int64_t a = geti(o, "a", 99999), b = geti(o, "b", 99999);
    ak::Slice sl;
    sl.append(std::make_shared<ak::SliceRange>(a == 99999 ? ak::Slice::none() : a, b == 99999 ? ak::Slice::none() : b, 1));
    sl.become_sealed();
    return "{\"ok\":1,\"text\":" + jstr(observe(arr->getitem(sl))) + "}";
  }
  if (k == "depths" || k == "slice_depths" || k == "slice_sum") {
    ak::ContentPtr r = arr;
    if (k != "depths") {              // one-item slices that a VirtualArray answers with a lazier VirtualArray
      std::string sk = gets(o, "sk", "newaxis");
      ak::Slice sl;
      if (sk == "newaxis") sl.append(std::make_shared<ak::SliceNewAxis>());
      else if (sk == "ellipsis") sl.append(std::make_shared<ak::SliceEllipsis>());
      else sl.append(std::make_shared<ak::SliceRange>(geti(o, "a", 0), geti(o, "b", 2), 1));
      sl.become_sealed();
      r = arr->getitem(sl);
    }
    if (k == "slice_sum") {
      ak::ReducerSum red;
      return "{\"ok\":1,\"text\":" + jstr(observe(r->reduce(red, geti(o, "axis", 0), false, false))) + "}";
    }
    auto mm = r->minmax_depth();
    auto br = r->branch_depth();
    return "{\"ok\":1,\"text\":" + jstr(std::to_string((long long)r->purelist_depth()) + " " + std::to_string((long long)mm.first) + " "
           + std::to_string((long long)mm.second) + " " + (br.first ? "1" : "0") + " " + std::to_string((long long)br.second)) + "}";
  }
  throw HarnessError("virtual op " + k);
}

static std::string virtual_run(const JV& st, Session& S) {
  std::shared_ptr<GenState> gs = std::make_shared<GenState>();
  gs->eager = mklayout(need(st, "eager"), S);
  gs->mode = gets(st, "mode", "ok");
  if (gs->mode == "short") gs->alt = gs->eager->getitem_range_nowrap(0, gs->eager->length() > 0 ? gs->eager->length() - 1 : 0);
  if (gs->mode == "wrongform" || gs->mode == "bad_first") gs->alt = mklayout(need(st, "alt"), S);
  bool dlen = geti(st, "declare_length", 0) != 0, dform = geti(st, "declare_form", 0) != 0;
  ak::FormPtr form = dform ? gs->eager->form(true) : ak::FormPtr(nullptr);
  int64_t length = dlen ? gs->eager->length() : -1;
  std::string ckind = gets(st, "cache", "none");
  std::shared_ptr<TestCache> cache = ckind == "none" ? std::shared_ptr<TestCache>(nullptr) : std::make_shared<TestCache>(ckind);
  ak::ArrayGeneratorPtr gen = std::make_shared<TestGenerator>(form, length, gs);
  ak::ContentPtr virt = std::make_shared<ak::VirtualArray>(ak::Identities::none(), ak::util::Parameters(), gen, cache, "key0");
  ak::ContentPtr subject = virt, reference = gs->eager;
  if (st.HasMember("wrap_offsets")) {       // the virtual node below a list node
    ak::Index64 offs = mkindex64(st["wrap_offsets"]);
    subject = std::make_shared<ak::ListOffsetArray64>(ak::Identities::none(), ak::util::Parameters(), offs, virt);
    reference = std::make_shared<ak::ListOffsetArray64>(ak::Identities::none(), ak::util::Parameters(), offs, gs->eager);
  }
  std::string out = "{\"ok\":1,\"steps\":[";
  bool first = true;
  for (auto& o : need(st, "schedule").GetArray()) {
    std::string r, ev;
    std::string k = gets(o, "op", "");
    if (k == "evict") { if (cache) cache->evict(); r = "{\"ok\":1}"; ev = r; }
    else {
      try { r = virtual_op(subject, o); } CATCH_ALL(r)
      try { ev = virtual_op(reference, o); } CATCH_ALL(ev)
    }
    out += (first ? "" : ","); first = false;
    out += "{\"virt\":" + r + ",\"eager\":" + ev + ",\"calls\":" + std::to_string((long long)gs->calls)
         + ",\"held\":" + std::to_string((long long)(cache ? cache->held() : 0)) + "}";
  }
  return out + "]}";
}

// ------------------------------------------------------------------ IrregularlyPartitionedArray (C18)
static std::string partition_run(const JV& st, Session& S) {
  ak::ContentPtr whole = mklayout(need(st, "eager"), S);
  std::vector<int64_t> stops;
  ak::ContentPtrVec parts;
  int64_t last = 0;
  for (auto& x : need(st, "stops").GetArray()) {
    int64_t s = x.GetInt64();
    parts.push_back(whole->getitem_range_nowrap(last, s));
    stops.push_back(s);
    last = s;
  }
  ak::PartitionedArrayPtr p = std::make_shared<ak::IrregularlyPartitionedArray>(parts, stops);
  std::string out = "{\"ok\":1,\"steps\":[";
  bool first = true;
  for (auto& o : need(st, "schedule").GetArray()) {
    std::string r, ev;
    std::string k = gets(o, "op", "");
    try {
      if (k == "length") r = "{\"ok\":1,\"int\":" + std::to_string((long long)p->length()) + "}";
      else if (k == "tojson") r = "{\"ok\":1,\"text\":" + jstr(p->tojson(false, -1)) + "}";
      else if (k == "at") r = "{\"ok\":1,\"text\":" + jstr(observe(p->getitem_at(geti(o, "i", 0)))) + "}";
      else if (k == "range") r = "{\"ok\":1,\"text\":" + jstr(p->getitem_range(geti(o, "a", 0), geti(o, "b", 0), geti(o, "s", 1))->tojson(false, -1)) + "}";
      else if (k == "repartition") {
        std::vector<int64_t> ns;
        for (auto& x : need(o, "stops").GetArray()) ns.push_back(x.GetInt64());
        p = p->repartition(ns);
        std::string lens = "[";
        for (int64_t i = 0; i < p->numpartitions(); i++) lens += (i ? "," : "") + std::to_string((long long)p->partition(i)->length());
        r = "{\"ok\":1,\"text\":" + jstr(p->tojson(false, -1)) + ",\"lens\":" + lens + "]}";
      }
      else throw HarnessError("partition op " + k);
    } CATCH_ALL(r)
    try {
      if (k == "length") ev = "{\"ok\":1,\"int\":" + std::to_string((long long)whole->length()) + "}";
      else if (k == "tojson" || k == "repartition") ev = "{\"ok\":1,\"text\":" + jstr(observe(whole)) + "}";
      else if (k == "at") ev = "{\"ok\":1,\"text\":" + jstr(observe(whole->getitem_at(geti(o, "i", 0)))) + "}";
      else if (k == "range") {
        ak::Slice sl; sl.append(std::make_shared<ak::SliceRange>(geti(o, "a", 0), geti(o, "b", 0), geti(o, "s", 1))); sl.become_sealed();
        ev = "{\"ok\":1,\"text\":" + jstr(observe(whole->getitem(sl))) + "}";
      }
    } CATCH_ALL(ev)
    out += (first ? "" : ","); first = false;
    out += "{\"virt\":" + r + ",\"eager\":" + ev + "}";
  }
  return out + "]}";
}

// ------------------------------------------------------------------ AwkwardForth
template <typename T, typename I>
static std::string forth_state(ak::ForthMachineOf<T, I>& vm, const std::vector<std::string>& innames) {
  std::string out = "\"stack\":[";
  std::vector<T> st = vm.stack();
  for (size_t i = 0; i < st.size(); i++) out += (i ? "," : "") + std::to_string((long long)st[i]);
  out += "],\"vars\":{";
  std::map<std::string, T> vars = vm.variables();
  bool first = true;
  for (auto& kv : vars) { out += (first ? "" : ","); first = false; out += jstr(kv.first) + ":" + std::to_string((long long)kv.second); }
  out += "},\"outs\":{";
  first = true;
  if (vm.is_ready()) {
    std::map<std::string, std::shared_ptr<ak::ForthOutputBuffer>> outs = vm.outputs();
    for (auto& kv : outs) {
      out += (first ? "" : ","); first = false;
      ak::ContentPtr arr = vm.output_NumpyArray_at(kv.first);
      out += jstr(kv.first) + ":" + jstr(arr->tojson(false, -1, "nan", "inf", "-inf", "re", "im"));
    }
  }
  out += "},\"inpos\":{";
  first = true;
  if (vm.is_ready()) {
    for (auto& n : innames) { out += (first ? "" : ","); first = false; out += jstr(n) + ":" + std::to_string((long long)vm.input_position_at(n)); }
  }
  out += "},\"ready\":" + std::string(vm.is_ready() ? "1" : "0");
  out += ",\"done\":" + std::string(vm.is_ready() && vm.is_done() ? "1" : "0");
  return out;
}
static const char* fortherr(ak::util::ForthError e) {
  using ak::util::ForthError;
  switch (e) {
    case ForthError::none: return "none"; case ForthError::not_ready: return "not_ready";
    case ForthError::is_done: return "is_done"; case ForthError::user_halt: return "user_halt";
    case ForthError::recursion_depth_exceeded: return "recursion_depth_exceeded";
    case ForthError::stack_underflow: return "stack_underflow"; case ForthError::stack_overflow: return "stack_overflow";
    case ForthError::read_beyond: return "read_beyond"; case ForthError::seek_beyond: return "seek_beyond";
    case ForthError::skip_beyond: return "skip_beyond"; case ForthError::rewind_beyond: return "rewind_beyond";
    case ForthError::division_by_zero: return "division_by_zero"; case ForthError::varint_too_big: return "varint_too_big";
    default: return "other";
  }
}
template <typename T, typename I>
static std::string forth_run_T(const JV& st) {
  std::string source = gets(st, "source", "");
  std::string result = "{\"ok\":1";
  std::shared_ptr<ak::ForthMachineOf<T, I>> vm;
  try {
    vm = std::make_shared<ak::ForthMachineOf<T, I>>(source, geti(st, "stack_max", 1024), geti(st, "recursion_max", 1024),
                                                    geti(st, "out_initial", 1024),
                                                    (double)geti(st, "out_resize_num", 3) / (double)geti(st, "out_resize_den", 2));
  }
  catch (std::invalid_argument& e) { return "{\"ok\":0,\"exc\":\"ValueError\",\"phase\":\"compile\",\"msg\":" + jstr(first_line(e.what())) + "}"; }
  catch (std::exception& e) { return "{\"ok\":0,\"exc\":\"Exception\",\"phase\":\"compile\",\"msg\":" + jstr(first_line(e.what())) + "}"; }
  // inputs: {"name": [bytes...]}
  std::map<std::string, std::shared_ptr<ak::ForthInputBuffer>> inputs;
  std::vector<std::string> innames;
  if (st.HasMember("inputs")) {
    for (auto& m : st["inputs"].GetObject()) {
      int64_t n = (int64_t)m.value.Size();
      std::shared_ptr<void> ptr(new uint8_t[(size_t)(n == 0 ? 1 : n)], std::default_delete<uint8_t[]>());
      for (int64_t i = 0; i < n; i++) reinterpret_cast<uint8_t*>(ptr.get())[i] = (uint8_t)m.value[(rj::SizeType)i].GetInt64();
      inputs[m.name.GetString()] = std::make_shared<ak::ForthInputBuffer>(ptr, 0, n);
      innames.push_back(m.name.GetString());
    }
  }
  result += ",\"decompiled\":" + jstr(vm->decompiled());
  result += ",\"steps\":[";
  bool first = true;
  // schedule: sequence of "run" | "begin" | "step" | "resume" | "call:<word>" | "reset"
  for (auto& a : need(st, "schedule").GetArray()) {
    std::string act = a.GetString();
    std::string r = "{\"act\":" + jstr(act);
    try {
      ak::util::ForthError err = ak::util::ForthError::none;
      if (!first && (act == "run" || act == "begin" || act == "stepall" || act == "runall") && st.HasMember("inputs")) {
        // a ForthInputBuffer carries its read position: every new run gets fresh buffers over the same bytes (what the
        // Python binding does when it wraps the caller's arrays for each run)
        for (auto& m : st["inputs"].GetObject()) {
          int64_t n = (int64_t)m.value.Size();
          std::shared_ptr<void> ptr(new uint8_t[(size_t)(n == 0 ? 1 : n)], std::default_delete<uint8_t[]>());
          for (int64_t i = 0; i < n; i++) reinterpret_cast<uint8_t*>(ptr.get())[i] = (uint8_t)m.value[(rj::SizeType)i].GetInt64();
          inputs[m.name.GetString()] = std::make_shared<ak::ForthInputBuffer>(ptr, 0, n);
        }
      }
      if (act == "run") err = vm->run(inputs);
      else if (act == "begin") vm->begin(inputs);
      else if (act == "step") err = vm->step();
      else if (act == "stepall") {       // begin + single steps until the program is done (bounded)
        vm->begin(inputs);
        int64_t guard = 0;
        while (vm->is_ready() && !vm->is_done() && err == ak::util::ForthError::none && guard++ < 100000) err = vm->step();
      }
      else if (act == "runall") {        // run, then resume after every pause until done (bounded)
        err = vm->run(inputs);
        int64_t guard = 0;
        while (vm->is_ready() && !vm->is_done() && err == ak::util::ForthError::none && guard++ < 100000) err = vm->resume();
      }
      else if (act == "resume") err = vm->resume();
      else if (act == "reset") vm->reset();
      else if (act.compare(0, 5, "call:") == 0) err = vm->call(act.substr(5));
      else throw HarnessError("forth act " + act);
      r += ",\"err\":" + jstr(fortherr(err)) + "," + forth_state(*vm, innames) + "}";
    }
    catch (HarnessError& e) { r += ",\"harness\":" + jstr(e.what()) + "}"; }
    catch (std::invalid_argument& e) { r += ",\"exc\":\"ValueError\",\"msg\":" + jstr(first_line(e.what())) + "}"; }
    catch (std::runtime_error& e) { r += ",\"exc\":\"RuntimeError\",\"msg\":" + jstr(first_line(e.what())) + "}"; }
    catch (std::exception& e) { r += ",\"exc\":\"Exception\",\"msg\":" + jstr(first_line(e.what())) + "}"; }
    result += (first ? "" : ",") + r; first = false;
  }
  result += "]";
  if (geti(st, "rerun_decompiled", 0) != 0) {
    // the decompiled program must behave identically (C19): compile it again and run it on the same input
    std::string r = "{";
    try {
      ak::ForthMachineOf<T, I> vm2(vm->decompiled(), geti(st, "stack_max", 1024), geti(st, "recursion_max", 1024),
                                   geti(st, "out_initial", 1024), 1.5);
      std::map<std::string, std::shared_ptr<ak::ForthInputBuffer>> inputs2;
      if (st.HasMember("inputs")) {
        for (auto& m : st["inputs"].GetObject()) {
          int64_t n = (int64_t)m.value.Size();
          std::shared_ptr<void> ptr(new uint8_t[(size_t)(n == 0 ? 1 : n)], std::default_delete<uint8_t[]>());
          for (int64_t i = 0; i < n; i++) reinterpret_cast<uint8_t*>(ptr.get())[i] = (uint8_t)m.value[(rj::SizeType)i].GetInt64();
          inputs2[m.name.GetString()] = std::make_shared<ak::ForthInputBuffer>(ptr, 0, n);
        }
      }
      ak::util::ForthError err = vm2.run(inputs2);
      r += "\"err\":" + jstr(fortherr(err)) + "," + forth_state(vm2, innames) + "}";
    }
    catch (std::exception& e) { r += "\"exc\":\"Exception\",\"msg\":" + jstr(first_line(e.what())) + "}"; }
    result += ",\"dec\":" + r;
  }
  return result + "}";
}

// ------------------------------------------------------------------ dispatch
bool other_ops(const std::string& op, const JV& st, Session& S, std::string& out) {
  try {
    if (op == "builder_run") { out = builder_run(st); return true; }
    if (op == "layoutbuilder_run") { out = layoutbuilder_run(st); return true; }
    if (op == "json_parse") { out = json_parse(st, S); return true; }
    if (op == "json_write") { out = json_write(st, S); return true; }
    if (op == "virtual_run") { out = virtual_run(st, S); return true; }
    if (op == "partition_run") { out = partition_run(st, S); return true; }
    if (op == "forth_run") {
      if (geti(st, "bits", 32) == 64) out = forth_run_T<int64_t, int32_t>(st);
      else out = forth_run_T<int32_t, int32_t>(st);
      return true;
    }
  }
  CATCH_ALL(out)
  if (!out.empty()) return true;
  return false;
}
