// shared declarations of the harness worker
#ifndef AKWORKER_H_
#define AKWORKER_H_
#include <map>
#include <string>
#include <memory>
#include <stdexcept>
#include "rapidjson/document.h"
#include "awkward/Content.h"
#include "awkward/Index.h"

struct HarnessError : public std::exception {
  std::string m;
  HarnessError(const std::string& s) : m(s) {}
  ~HarnessError() throw() {}
  const char* what() const throw() { return m.c_str(); }
};

struct StatefulObject { virtual ~StatefulObject() {} };

struct Session {
  std::map<std::string, awkward::ContentPtr> regs;
  std::map<std::string, std::shared_ptr<StatefulObject>> objs;
  awkward::ContentPtr get(const std::string& name);
};

std::string jstr(const std::string& s);
// the __typestr__ entries ak.behaviors.string registers (src/awkward/behaviors/string.py)
inline awkward::util::TypeStrs default_typestrs() {
  awkward::util::TypeStrs t;
  t["byte"] = "byte"; t["char"] = "char"; t["bytestring"] = "bytes"; t["string"] = "string";
  return t;
}
const rapidjson::Value& need(const rapidjson::Value& o, const char* k);
int64_t geti(const rapidjson::Value& o, const char* k, int64_t dflt);
std::string gets(const rapidjson::Value& o, const char* k, const std::string& dflt);
awkward::ContentPtr mklayout(const rapidjson::Value& L, Session& S);
awkward::Index64 mkindex64(const rapidjson::Value& arr);
std::string dumplayout(const awkward::ContentPtr& c);
std::string digest(const awkward::ContentPtr& c);
std::string project(const awkward::ContentPtr& c, const rapidjson::Value& step);

// builder / json / forth / virtual / partition ops; returns true when handled (out = result JSON)
bool l2_ops(const std::string& op, const rapidjson::Value& st, Session& S, std::string& out);
bool other_ops(const std::string& op, const rapidjson::Value& st, Session& S, std::string& out);
#endif
