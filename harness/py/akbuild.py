#!/usr/bin/env python3
"""Incremental, content-hash keyed build of /repo's C++ (kernels + libawkward) plus the
harness worker, from /repo's *current working tree*.

Variants:
  opt   g++   -O1                     (value / conformance checks)
  asan  clang -O1 -fsanitize=address,undefined   (C12 / C13 memory-safety observers)

Objects are cached under /verif/.build/obj/<variant>/<sha>.o where sha covers the source
text, the compile flags and a digest of every header that can be included (all of
/repo/include and the harness headers), so an edit of any source or header under /repo is
picked up by the next check and nothing stale is ever linked.
"""
import hashlib
import os
import subprocess
import sys
import time
from concurrent.futures import ThreadPoolExecutor

REPO = os.environ.get("VERIF_REPO", "/repo")
VERIF = os.path.dirname(os.path.dirname(os.path.dirname(os.path.abspath(__file__))))
BUILD = os.environ.get("VERIF_BUILD", os.path.join(VERIF, ".build"))
HARNESS = os.path.join(VERIF, "harness")
JOBS = int(os.environ.get("VERIF_JOBS", "16"))

VARIANTS = {
    "opt": dict(cxx="g++", flags=["-O1", "-g0"], ldflags=[]),
    "asan": dict(
        cxx="clang++-14",
        flags=["-O1", "-g", "-fno-omit-frame-pointer",
               "-fsanitize=address,undefined",
               "-fno-sanitize=vptr,function,nonnull-attribute,pointer-overflow",
               "-fno-sanitize-recover=undefined"],
        ldflags=["-fsanitize=address,undefined"],
    ),
}
COMMON = ["-std=c++11", "-fPIC", "-w", '-DVERSION_INFO="1.4.0"',
          "-DLIBAWKWARD_EXPORT_SYMBOL=EXPORT_SYMBOL"]


def _sha(*chunks):
    h = hashlib.sha256()
    for c in chunks:
        if isinstance(c, str):
            c = c.encode()
        h.update(c)
        h.update(b"\0")
    return h.hexdigest()[:24]


def _walk(root, exts):
    out = []
    for d, _, fs in os.walk(root):
        for f in fs:
            if f.endswith(exts):
                out.append(os.path.join(d, f))
    return sorted(out)


def _read(p):
    with open(p, "rb") as f:
        return f.read()


def header_digest():
    hs = _walk(os.path.join(REPO, "include"), (".h",)) + _walk(HARNESS, (".h",))
    return _sha(*[p + "\n" + hashlib.sha256(_read(p)).hexdigest() for p in hs])


def ensure_kernels_h(log):
    """kernels.h is an untracked generated file of the repository; regenerate it into the
    build directory (never into /repo) if it is missing."""
    kh = os.path.join(REPO, "include", "awkward", "kernels.h")
    if os.path.exists(kh):
        return []
    gen = os.path.join(BUILD, "gen")
    dst = os.path.join(gen, "include", "awkward", "kernels.h")
    if not os.path.exists(dst):
        scratch = os.path.join(gen, "scratch")
        subprocess.check_call(["rm", "-rf", scratch])
        os.makedirs(os.path.join(scratch, "dev"))
        os.makedirs(os.path.join(scratch, "include", "awkward"))
        os.makedirs(os.path.join(scratch, "src", "awkward"))
        for f in ("dev/generate-kernel-signatures.py", "kernel-specification.yml"):
            subprocess.check_call(["cp", os.path.join(REPO, f), os.path.join(scratch, f)])
        subprocess.check_call(["/venv/bin/python", "dev/generate-kernel-signatures.py"], cwd=scratch)
        os.makedirs(os.path.dirname(dst), exist_ok=True)
        subprocess.check_call(["cp", os.path.join(scratch, "include/awkward/kernels.h"), dst])
        log("regenerated kernels.h into build dir")
    return ["-I" + os.path.join(gen, "include")]


def ensure_kernel_signatures(log):
    """src/awkward/_kernel_signatures.py is an untracked generated file too (needed to import the Python layer)"""
    ks = os.path.join(REPO, "src", "awkward", "_kernel_signatures.py")
    if os.path.exists(ks):
        return ks
    gen = os.path.join(BUILD, "gen")
    dst = os.path.join(gen, "scratch", "src", "awkward", "_kernel_signatures.py")
    if not os.path.exists(dst):
        scratch = os.path.join(gen, "scratch")
        subprocess.check_call(["rm", "-rf", scratch])
        os.makedirs(os.path.join(scratch, "dev"))
        os.makedirs(os.path.join(scratch, "include", "awkward"))
        os.makedirs(os.path.join(scratch, "src", "awkward"))
        for f in ("dev/generate-kernel-signatures.py", "kernel-specification.yml"):
            subprocess.check_call(["cp", os.path.join(REPO, f), os.path.join(scratch, f)])
        subprocess.check_call(["/venv/bin/python", "dev/generate-kernel-signatures.py"], cwd=scratch,
                              stdout=subprocess.DEVNULL)
        log("regenerated _kernel_signatures.py into build dir")
    return dst


def _compile_all(variant, srcs, extra_inc, hdig, log):
    v = VARIANTS[variant]
    objdir = os.path.join(BUILD, "obj", variant)
    os.makedirs(objdir, exist_ok=True)
    flags = COMMON + v["flags"] + ["-I" + os.path.join(REPO, "include"),
                                   "-I" + os.path.join(HARNESS, "rj"),
                                   "-I" + os.path.join(HARNESS, "worker")] + extra_inc
    jobs = []
    objs = []
    for s in srcs:
        fl = flags
        if variant == "asan" and os.path.basename(s) == "ForthMachine.cpp":
            # wrap-around at the machine width is AwkwardForth's documented arithmetic (DESIGN.md Appendix D)
            fl = flags + ["-fno-sanitize=signed-integer-overflow,shift"]
        if variant == "asan" and os.path.basename(s) in ("awkward_reduce_prod.cpp", "awkward_reduce_sum.cpp", "awkward_reduce_sum_int64_bool_64.cpp",
                                                         "awkward_reduce_sum_int32_bool_64.cpp", "awkward_reduce_prod_bool.cpp"):
            # sums and products that leave int64 wrap around, as NumPy's do: no memory is touched, nothing the properties speak about
            fl = flags + ["-fno-sanitize=signed-integer-overflow"]
        key = _sha(_read(s), " ".join(fl), v["cxx"], hdig, os.path.relpath(s, "/"))
        o = os.path.join(objdir, key + ".o")
        objs.append(o)
        if not os.path.exists(o):
            jobs.append((s, o, fl))

    def run(job):
        s, o, fl = job
        tmp = o + ".%d.tmp" % os.getpid()
        p = subprocess.run([v["cxx"]] + fl + ["-c", s, "-o", tmp],
                           stdout=subprocess.PIPE, stderr=subprocess.STDOUT)
        if p.returncode != 0:
            return (s, p.stdout.decode(errors="replace"))
        os.replace(tmp, o)
        return None

    if jobs:
        log("compiling %d/%d objects (%s)" % (len(jobs), len(srcs), variant))
        with ThreadPoolExecutor(JOBS) as ex:
            errs = [e for e in ex.map(run, jobs) if e]
        if errs:
            for s, msg in errs[:3]:
                sys.stderr.write("BUILD ERROR in %s:\n%s\n" % (s, msg[-3000:]))
            raise SystemExit(2)
    return objs


def _link(variant, name, objs, extra, log, shared=True):
    v = VARIANTS[variant]
    outdir = os.path.join(BUILD, "lib", variant)
    os.makedirs(outdir, exist_ok=True)
    key = _sha(*objs, " ".join(extra), name)
    out = os.path.join(outdir, name)
    stamp = out + ".key"
    if os.path.exists(out) and os.path.exists(stamp) and _read(stamp).decode() == key:
        return out
    tmp = out + ".%d.tmp" % os.getpid()
    cmd = [v["cxx"]] + (["-shared"] if shared else []) + ["-o", tmp] + objs + extra + v["ldflags"]
    p = subprocess.run(cmd, stdout=subprocess.PIPE, stderr=subprocess.STDOUT)
    if p.returncode != 0:
        sys.stderr.write("LINK ERROR %s:\n%s\n" % (name, p.stdout.decode(errors="replace")[-4000:]))
        raise SystemExit(2)
    os.replace(tmp, out)
    with open(stamp, "w") as f:
        f.write(key)
    log("linked %s (%s)" % (name, variant))
    return out


def build(variant="opt", quiet=False, targets=("kernels", "libawkward", "worker")):
    t0 = time.time()

    def log(m):
        if not quiet:
            sys.stderr.write("[build %s] %s\n" % (variant, m))

    os.makedirs(BUILD, exist_ok=True)
    import fcntl
    lock = open(os.path.join(BUILD, ".lock-" + variant), "w")
    fcntl.flock(lock, fcntl.LOCK_EX)
    try:
        hdig = header_digest()
        extra_inc = ensure_kernels_h(log)
        out = {}
        ksrcs = _walk(os.path.join(REPO, "src", "cpu-kernels"), (".cpp",))
        kobjs = _compile_all(variant, ksrcs, extra_inc, hdig, log)
        out["kernels"] = _link(variant, "libawkward-cpu-kernels.so", kobjs, [], log)
        if "libawkward" in targets or "worker" in targets:
            lsrcs = _walk(os.path.join(REPO, "src", "libawkward"), (".cpp",))
            lobjs = _compile_all(variant, lsrcs, extra_inc, hdig, log)
            libdir = os.path.dirname(out["kernels"])
            out["libawkward"] = _link(
                variant, "libawkward.so", lobjs,
                ["-L" + libdir, "-lawkward-cpu-kernels", "-ldl", "-Wl,-rpath," + libdir], log)
        if "worker" in targets:
            wsrcs = _walk(os.path.join(HARNESS, "worker"), (".cpp",))
            wobjs = _compile_all(variant, wsrcs, extra_inc, hdig, log)
            libdir = os.path.dirname(out["kernels"])
            out["worker"] = _link(
                variant, "akworker", wobjs,
                ["-L" + libdir, "-lawkward", "-lawkward-cpu-kernels", "-ldl", "-lpthread",
                 "-Wl,-rpath," + libdir], log, shared=False)
        log("ready in %.1fs" % (time.time() - t0))
        return out
    finally:
        fcntl.flock(lock, fcntl.LOCK_UN)
        lock.close()


def build_l2(variant="opt", quiet=False):
    """L2: libakworker.so (the worker's operations as an in-process library) and a staged `awkward` package whose
    Python files are /repo/src/awkward's own (symlinks) with harness/l2/_ext.py standing in for the pybind11 extension."""
    base = build(variant, quiet=quiet, targets=("kernels", "libawkward"))

    def log(m):
        if not quiet:
            sys.stderr.write("[build l2] %s\n" % m)

    import fcntl
    lock = open(os.path.join(BUILD, ".lock-l2-" + variant), "w")
    fcntl.flock(lock, fcntl.LOCK_EX)
    try:
        hdig = header_digest()
        extra_inc = ensure_kernels_h(log)
        srcs = _walk(os.path.join(HARNESS, "worker"), (".cpp",)) + _walk(os.path.join(HARNESS, "l2"), (".cpp",))
        global COMMON
        saved = COMMON
        COMMON = COMMON + ["-DAKWORKER_SHARED"]
        try:
            objs = _compile_all(variant, srcs, extra_inc, hdig, log)
        finally:
            COMMON = saved
        libdir = os.path.dirname(base["kernels"])
        lib = _link(variant, "libakworker.so", objs,
                    ["-L" + libdir, "-lawkward", "-lawkward-cpu-kernels", "-ldl", "-lpthread", "-Wl,-rpath," + libdir], log)
        # ---- stage the package
        pkgroot = os.path.join(BUILD, "l2", variant)
        pkg = os.path.join(pkgroot, "awkward")
        src = os.path.join(REPO, "src", "awkward")
        stamp = _sha(lib, _read(lib + ".key") if os.path.exists(lib + ".key") else b"", src,
                     *sorted(os.listdir(src)), _read(os.path.join(HARNESS, "l2", "_ext.py")))
        stampf = os.path.join(pkgroot, ".stamp")
        if not (os.path.exists(stampf) and _read(stampf).decode() == stamp):
            subprocess.check_call(["rm", "-rf", pkgroot])
            os.makedirs(pkg)
            for name in os.listdir(src):
                if name.startswith("_ext") or name == "__pycache__":
                    continue
                os.symlink(os.path.join(src, name), os.path.join(pkg, name))
            os.symlink(os.path.join(HARNESS, "l2", "_ext.py"), os.path.join(pkg, "_ext.py"))
            if not os.path.exists(os.path.join(pkg, "_kernel_signatures.py")):
                os.symlink(ensure_kernel_signatures(log), os.path.join(pkg, "_kernel_signatures.py"))
            for f in (lib, base["libawkward"], base["kernels"]):
                os.symlink(f, os.path.join(pkg, os.path.basename(f)))
            with open(os.path.join(pkgroot, "pkg_resources.py"), "w") as f:
                f.write("import os, sys\n\n\ndef resource_filename(pkg, name):\n"
                        "    for p in sys.path:\n        f = os.path.join(p, pkg, name)\n"
                        "        if os.path.exists(f) or name == '':\n            return f\n"
                        "    raise FileNotFoundError(name)\n\n\n"
                        "def iter_entry_points(*a, **k):\n    return []\n")
            with open(stampf, "w") as f:
                f.write(stamp)
            log("staged package at " + pkg)
        out = dict(base)
        out["akworker_lib"] = lib
        out["l2_path"] = pkgroot
        return out
    finally:
        fcntl.flock(lock, fcntl.LOCK_UN)
        lock.close()


if __name__ == "__main__":
    vs = sys.argv[1:] or ["opt"]
    for v in vs:
        if v == "l2":
            print(build_l2("opt"))
        else:
            print(build(v))
