"""C18 at L1: behaviours of Virtual.tla / Partition.tla replayed against the C++ VirtualArray (with a harness-owned
ArrayGenerator and ArrayCache) and IrregularlyPartitionedArray; every observation is compared with the same operation
on the eager / whole array, generator call counts with the specification."""
import json

EAGERS = [
    {"c": "ListOffset", "w": "64", "o": [0, 2, 2, 5], "x": {"c": "Numpy", "dt": "i64", "d": [1, 2, 3, 4, 5]}},
    # a view into the middle of a longer buffer (what big[2:6] is): positions counted from the buffer's origin show
    {"c": "Numpy", "dt": "i64", "d": [100, 101, 102, 103, 104, 105, 106, 107], "shape": [4], "off": 2},
    {"c": "Numpy", "dt": "f64", "d": [1, 2, 3]},
    {"c": "IndexedOption", "w": "64", "i": [1, -1, 0], "x": {"c": "Numpy", "dt": "i64", "d": [10, 20]}},
    {"c": "Record", "tuple": 0, "names": ["x", "y"], "n": 3,
     "xs": [{"c": "Numpy", "dt": "i64", "d": [1, 2, 3]},
            {"c": "ListOffset", "w": "64", "o": [0, 1, 1, 3], "x": {"c": "Numpy", "dt": "f64", "d": [1, 2, 3]}}]},
    {"c": "ListOffset", "w": "32", "o": [1, 3, 4, 4], "x": {"c": "ListOffset", "w": "64", "o": [0, 1, 1, 2, 4, 4], "x": {"c": "Numpy", "dt": "i64", "d": [1, 2, 3, 4]}}},
    {"c": "Regular", "size": 2, "zl": 0, "x": {"c": "Numpy", "dt": "i64", "d": [1, 2, 3, 4, 5, 6]}},
]
WRONG = {"c": "Numpy", "dt": "b", "d": [1, 0, 1]}


def _op(o, n):
    k = o["op"]
    if k == "at":
        return {"op": "at", "i": o["i"]}
    if k in ("range", "range_lazy"):
        return {"op": k, "a": o["a"], "b": o["b"]}
    if k == "num":
        return {"op": "num", "axis": o["axis"]}
    if k in ("slice_depths", "slice_sum", "slice_json"):
        return dict(o)
    if k == "carry":
        return {"op": "carry", "index": [n - 1, 0] if n > 0 else []}
    return {"op": k}


def steps_virtual(case, pick):
    cfg = case["cfg"]
    eager = pick(EAGERS)
    n = {"ListOffset": lambda e: len(e["o"]) - 1, "Numpy": lambda e: (e["shape"][0] if "shape" in e else len(e["d"])), "IndexedOption": lambda e: len(e["i"]),
         "Record": lambda e: e["n"], "Regular": lambda e: len(e["x"]["d"]) // e["size"]}[eager["c"]](eager)
    st = {"op": "virtual_run", "eager": eager, "mode": cfg["mode"], "declare_length": cfg["len"], "declare_form": cfg["form"],
          "cache": cfg["cache"], "schedule": [_op(h["o"], n) for h in case["steps"]]}
    if cfg["mode"] == "wrongform":
        st["alt"] = WRONG
    if cfg["mode"] == "bad_first":
        st["alt"] = {"c": "Numpy", "dt": "b", "d": [1]}
    # (the slices of the depth questions are answered lazily by the VirtualArray itself, not by a list node above it)
    if pick([0, 0, 1]) == 1 and not any(h["o"]["op"] in ("slice_depths", "slice_sum", "depths", "slice_json") for h in case["steps"]):
        st["wrap_offsets"] = [0, n] if pick([0, 1]) else [0, 0, n]
    return [st]


def judge_virtual(case, res, wsteps):
    if not res or res[0].get("ok") != 1:
        return "virtual_run failed: %r" % ((res or [{}])[0].get("harness") or (res or [{}])[0].get("msg"))
    steps = res[0]["steps"]
    # below a list node fewer operations need the virtual node's data than the model (which describes the node itself)
    # assumes: only transparency, "no call without need" and the cache rules are judged there
    wrapped = "wrap_offsets" in wsteps[0]
    prev = 0
    for i, (h, s) in enumerate(zip(case["steps"], steps)):
        v, e = s["virt"], s["eager"]
        name = h["o"]["op"]
        delta = s["calls"] - prev
        prev = s["calls"]
        if v.get("ok") == -1:
            return "step %d (%s): harness: %s" % (i, name, v.get("harness"))
        if e.get("ok") != 1:
            # the operation is refused on the eager array too (e.g. index out of range): the virtual one must refuse as well
            if v.get("ok") == 1:
                return "step %d (%s): raises on the eager array but returned %s on the virtual one" % (i, name, json.dumps(v)[:120])
            if name == "slice_sum":
                # the reduction itself is refused (an axis the records' branching does not allow): whether the refusal comes
                # before or after the data are generated is nobody's promise, so the model's bookkeeping ends here
                return None
            continue
        if wrapped and v.get("ok") != 1 and case["cfg"]["mode"] != "ok":
            if v.get("exc") not in ("ValueError", "RuntimeError"):
                return "step %d (%s): not an ordinary exception: %s" % (i, name, v.get("exc"))
        elif wrapped and h["exp"] == "error" and v.get("ok") == 1:
            if v != e:
                return "step %d (%s): virtual %s differs from eager %s" % (i, name, json.dumps(v)[:160], json.dumps(e)[:160])
        elif h["exp"] == "error":
            if v.get("ok") == 1:
                return "step %d (%s): a failing / non-conforming generation must raise, got %s" % (i, name, json.dumps(v)[:160])
            if v.get("exc") not in ("ValueError", "RuntimeError"):
                return "step %d (%s): not an ordinary exception: %s" % (i, name, v.get("exc"))
        else:
            if v.get("ok") != 1:
                return "step %d (%s): raised %s: %s but the eager array answers %s" % (i, name, v.get("exc"), v.get("msg"), json.dumps(e)[:120])
            if v != e:
                return "step %d (%s): virtual %s differs from eager %s" % (i, name, json.dumps(v)[:160], json.dumps(e)[:160])
        both = case["cfg"]["len"] == 1 and case["cfg"]["form"] == 1
        if h["needs"] == 0 and delta != 0 and (not wrapped or both):
            return "step %d (%s): the generator was invoked (%d calls) although length/form are declared and no data are needed" % (i, name, delta)
        if h["needs"] == 1 and not wrapped:
            if h["exact"] == 1 and delta != h["delta"]:
                return "step %d (%s): %d generator calls, the specification says exactly %d" % (i, name, delta, h["delta"])
            if h["exact"] == 0 and delta < h["delta"]:
                return "step %d (%s): %d generator calls, at least %d needed" % (i, name, delta, h["delta"])
        if case["cfg"]["cache"] != "keep" and s.get("held", 0) != 0:
            return "step %d: a cache that keeps nothing holds %d entries" % (i, s["held"])
        if h["exp"] == "error" and case["cfg"]["mode"] in ("raises", "short", "wrongform") and s.get("held", 0) != 0:
            return "step %d: a failed generation left a value in the cache" % i
    return None


PART_EAGERS = [lambda n: {"c": "Numpy", "dt": "i64", "d": list(range(10, 10 + n))},
               lambda n: {"c": "ListOffset", "w": "64", "o": list(range(0, 2 * n + 1, 2)), "x": {"c": "Numpy", "dt": "i64", "d": list(range(2 * n))}},
               lambda n: {"c": "IndexedOption", "w": "64", "i": [(-1 if k % 2 else k // 2) for k in range(n)], "x": {"c": "Numpy", "dt": "f64", "d": list(range(n))}}]


def steps_partition(case, pick):
    n = case["stops"][-1]
    sched = []
    for h in case["steps"]:
        o = {k: v for k, v in h.items() if k != "exp"}
        sched.append(o)
    return [{"op": "partition_run", "eager": pick(PART_EAGERS)(n), "stops": case["stops"], "schedule": sched}]


def judge_partition(case, res):
    if not res or res[0].get("ok") != 1:
        return "partition_run failed: %r" % ((res or [{}])[0].get("harness") or (res or [{}])[0].get("msg"))
    for i, (h, s) in enumerate(zip(case["steps"], res[0]["steps"])):
        v, e = s["virt"], s["eager"]
        if v.get("ok") == -1:
            return "step %d: harness: %s" % (i, v.get("harness"))
        if h["exp"] == "error" or e.get("ok") != 1:
            if v.get("ok") == 1:
                return "step %d (%s): must raise, returned %s" % (i, h["op"], json.dumps(v)[:120])
            continue
        if v.get("ok") != 1:
            return "step %d (%s): raised %s: %s; the whole array answers %s" % (i, h["op"], v.get("exc"), v.get("msg"), json.dumps(e)[:120])
        if json.loads(v["text"]) != json.loads(e["text"]) if "text" in v else v.get("int") != e.get("int"):
            return "step %d (%s): partitioned %s differs from whole %s" % (i, h["op"], json.dumps(v)[:160], json.dumps(e)[:160])
        if h["op"] == "repartition":
            want = [b - a for a, b in zip([0] + h["stops"][:-1], h["stops"])]
            if v.get("lens") != want:
                return "step %d: repartition to stops %s gave partition lengths %s" % (i, h["stops"], v.get("lens"))
    return None


judge_virtual.wants_steps = True
