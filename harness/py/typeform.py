"""C17 at L1: type / form / queries of every layout against the specification (Session!TypeFormOp)."""
import json

import replay


# parameter values a user may attach to any node ("parameters with arbitrary JSON values"), as JSON text
PARAM_MENU = ["1", "-7", "1.5", "\"x\"", "[1, 2]", "{\"a\": null}", "true", "12345678901234", "2147483648", "-0.25", "[1.5, {\"b\": [3000000000]}]"]


def steps_typeform(case, pick):
    n = case["len"]
    L = replay.instantiate(case["from"], pick)
    if pick([0, 1, 2]) == 0 and L.get("c") not in ("Numpy",) and "p" not in L:
        # one to three custom parameters on the top node: each must survive Form -> JSON -> Form on its own
        L["p"] = {"k": pick(PARAM_MENU)}
        for key in ("m", "z")[:pick([0, 1, 2])]:
            L["p"][key] = pick(PARAM_MENU)
    steps = [{"op": "build", "dst": "a", "layout": L, "want": ["json", "type", "valid", "depth", "form"]},
             {"op": "form_roundtrip", "src": "a", "want": []},
             {"op": "getitem_range", "src": "a", "a": 0, "b": n, "want": ["type"], "tag": "range"},
             {"op": "getitem_range", "src": "a", "a": min(1, n), "b": n, "want": ["type"], "tag": "range"},
             {"op": "getitem", "src": "a", "slice": [{"k": "range", "a": None, "b": None, "s": -1}], "pydispatch": 0, "want": ["type"], "tag": "range"}]
    for i in range(n):
        steps.append({"op": "getitem_at", "src": "a", "i": i, "want": ["type", "json"], "tag": "elem"})
    return steps


def judge_typeform(case, res, steps):
    exp = case["exp"]
    if not res or len(res) != len(steps):
        return "missing answers"
    b = res[0]
    if b.get("ok") != 1:
        return "build failed: %s" % (b.get("msg") or b.get("harness"))
    custom = steps[0]["layout"].get("p", {}).get("k")
    if custom is None and b.get("type") != case["fromty"]:
        return "type of layout: spec %r, library %r" % (case["fromty"], b.get("type"))
    if "type_exc" in b or "form_exc" in b:
        return "type()/form() raised with parameter k=%s: %s" % (custom, b.get("type_exc") or b.get("form_exc"))
    if custom is not None:
        for key, text in steps[0]["layout"]["p"].items():
            try:
                got = json.loads(b["form"]).get("parameters", {}).get(key, "ABSENT")
            except Exception as e:
                return "form JSON not parseable: %s" % e
            if got != json.loads(text) or type(got) is not type(json.loads(text)):
                return "parameter %s=%s reads back as %r from the form's JSON" % (key, text, got)
    if "depth_exc" in b:
        return "depth queries raised: " + b["depth_exc"]
    # (for a union whose members differ in depth purelist_depth is "undefined" = -1; minmax_depth is still checked)
    if not exp["hasunion"] and b.get("purelist_depth") != exp["pd"]:
        return "purelist_depth: spec %s, library %s" % (exp["pd"], b.get("purelist_depth"))
    if (b.get("mindepth"), b.get("maxdepth")) != (exp["mind"], exp["maxd"]):
        return "minmax_depth: spec %s, library %s" % ((exp["mind"], exp["maxd"]), (b.get("mindepth"), b.get("maxdepth")))
    # branch_depth = (do the fields / union members reach different depths?, the minimal depth)
    if (bool(b.get("branch")), b.get("branchdepth")) != (bool(exp["branch"]), exp["mind"]):
        return "branch_depth: spec %s, library %s" % ((bool(exp["branch"]), exp["mind"]), (bool(b.get("branch")), b.get("branchdepth")))
    if bool(b.get("isregular")) != bool(exp["isreg"]):
        return "purelist_isregular: spec %s, library %s" % (bool(exp["isreg"]), bool(b.get("isregular")))
    if list(b.get("keys", [])) != list(exp["keys"]):
        return "keys: spec %s, library %s" % (exp["keys"], b.get("keys"))
    r = res[1]
    if r.get("ok") != 1:
        return "form round trip raised: %s" % (r.get("msg") or r.get("harness"))
    if r.get("type_from_form") != r.get("type_from_layout"):
        return "type from the form %r differs from type from the array %r" % (r.get("type_from_form"), r.get("type_from_layout"))
    if not (r.get("q_content") == r.get("q_form") == r.get("q_form2")):
        return "depth / branch / regularity / keys queries disagree between the array (%s), its form (%s) and the re-read form (%s)" % (
            r.get("q_content"), r.get("q_form"), r.get("q_form2"))
    if r.get("form1") != r.get("form2") or r.get("formequal") != 1:
        return "Form -> JSON -> Form changed the form: %s -> %s (equal=%s)" % (r.get("form1"), r.get("form2"), r.get("formequal"))
    for st, x in zip(steps[2:], res[2:]):
        if st.get("tag") == "range":
            if x.get("ok") != 1:
                return "range slice raised: %s" % x.get("msg")
            if x.get("type") != b.get("type"):
                return "range-slicing changed the item type: %r -> %r" % (case["fromty"], x.get("type"))
        elif st.get("tag") == "elem":
            if x.get("ok") != 1:
                return "element %d unreadable: %s" % (st["i"], x.get("msg"))
            if exp["elemty"] and not x.get("scalar") and x.get("cls") != "None":
                if x.get("type") != exp["elemty"]:
                    return "element %d has type %r, the array's type promises %r" % (st["i"], x.get("type"), exp["elemty"])
    return None


judge_typeform.wants_steps = True
