"""Per-property check definitions (what TLC explores, what is replayed, which bounds per tier)."""
import akcheck

ALL_CLASSES = '{"ListOffset","List","Regular","Indexed","IndexedOption","ByteMasked","BitMasked","Unmasked"}'
LIST_CLASSES = '{"ListOffset","List","Regular"}'


def leafset(maxleaf, dt="int64"):
    return '{Numpy("%s", [k \\in 1..n |-> k]) : n \\in 0..%d}' % (dt, maxleaf)


def session_consts(**kw):
    c = dict(LeafSet=leafset(3), MaxLen="2", MaxDepth="2", Classes=ALL_CLASSES, OpSet="{}", ValidOnly="TRUE",
             SliceItems="{}", SliceTuples="{}", Axes="{-3,-2,-1,0,1,2,3}", Targets="{0,1,2,3}", CombNs="{0,1,2,3}",
             EmitOn="TRUE")
    c.update(kw)
    return c


# ------------------------------------------------------------------ C05
def run_C05(ctx):
    ctx.build("opt")
    if ctx.quick():
        consts = session_consts(OpSet='{"tolist","num","flatten","localindex"}', LeafSet=leafset(2),
                                Classes='{"ListOffset","List","Regular","IndexedOption","ByteMasked"}')
    else:
        consts = session_consts(OpSet='{"tolist","num","flatten","localindex"}')
    ctx.tlc_phase("structure", "Session", consts, invariants=["Refines", "Closed"],
                  require_actions=["NumOp", "FlattenOp", "LocalIndexOp", "WrapListOffset", "WrapList"])
    return ctx.finish(assumptions=["leaf values are the positions 1..n (distinct), so any misplaced element is visible"])


RUNNERS = {"C05": run_C05}
