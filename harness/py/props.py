"""Per-property check definitions (what TLC explores, what is replayed, which bounds per tier)."""
import akcheck

L2_TRUSTED = "harness/l2/_ext.py + harness/l2/akworker_l2.cpp (stand-in for the pybind11 extension src/python/*.cpp, which cannot be compiled here)"
ALL_CLASSES = '{"ListOffset","List","Regular","Indexed","IndexedOption","ByteMasked","BitMasked","Unmasked"}'
LIST_CLASSES = '{"ListOffset","List","Regular"}'


def leafset(maxleaf, dt="int64"):
    return '{Numpy("%s", [k \\in 1..n |-> k]) : n \\in 0..%d}' % (dt, maxleaf)


def session_consts(**kw):
    c = dict(LeafSet=leafset(3), MaxLen="2", MaxDepth="2", Classes=ALL_CLASSES, OpSet="{}", ValidOnly="TRUE",
             SliceItems="{}", SliceTuples="{}", Axes="{-3,-2,-1,0,1,2,3}", Targets="{0,1,2,3}", CombNs="{0,1,2,3}",
             ReduceArgs="AllReduceArgs", SortArgs="AllSortArgs", MaxNodes="99", EmitOn="TRUE")
    c.update(kw)
    return c


# ------------------------------------------------------------------ C05
def run_C05(ctx):
    ctx.build("opt")
    if ctx.quick():
        consts = session_consts(OpSet='{"tolist","num","flatten","localindex"}', LeafSet=leafset(2),
                                Classes='{"ListOffset","List","Regular","IndexedOption","ByteMasked"}')
    else:
        consts = session_consts(OpSet='{"tolist","num","flatten","localindex"}')
    r1 = ctx.tlc_phase("structure", "Session", consts, invariants=["Refines", "Closed"],
                       require_actions=["NumOp", "FlattenOp", "LocalIndexOp", "WrapListOffset", "WrapList"])
    # the same laws through ak.num / ak.flatten / ak.local_index of the repository's Python layer (L2)
    consts = session_consts(OpSet='{"num","flatten","localindex"}', LeafSet=leafset(2), Classes='{"ListOffset","List","Regular","IndexedOption","ByteMasked"}')
    ctx.l2_phase("structure-python-layer", "Session", consts, ("l2replay", "h_generic"), invariants=["Closed"],
                 require_actions=["NumOp", "FlattenOp", "LocalIndexOp"], sample_cases=(12000 if ctx.quick() else 200000), timeout=900,
                 reuse=(r1 if ctx.quick() else None))
    ctx.chain_phase("chains-code-to-spec", (4000 if ctx.quick() else 60000), 5, ops={"num", "localindex", "flatten"})
    ctx.pychain_phase("python-chains-code-to-spec", (4000 if ctx.quick() else 60000), 5, ops={"num", "localindex", "flatten", "unflatten"})
    return ctx.finish(assumptions=["leaf values are the positions 1..n (distinct), so any misplaced element is visible"])


RUNNERS = {"C05": run_C05}


# ------------------------------------------------------------------ slice alphabets (TLA+ set expressions)
def slice_alphabet(level):
    """level 0: small (quick), 1: larger."""
    if level == 0:
        ats = "{At(i) : i \\in {-3,-1,0,1,2}}"
        rng = "{Range(a,b,s) : a \\in {NoBound,-1,1}, b \\in {NoBound,-1,2}, s \\in {1,-1,2}} \\cup {Range(NoBound,NoBound,0), Range(0,NoBound,-2), Range(3,0,-1), Range(-3,3,1)}"
        arrs = "{Arr(s) : s \\in {<<>>, <<0>>, <<1,0>>, <<-1,0,0>>, <<2>>, <<-3>>}}"
        miss = "{Missing(s) : s \\in {<<NoBound>>, <<0,NoBound>>, <<NoBound,1,-1>>}}"
        jag = "{Jagged(s) : s \\in {<<>>, << <<>> >>, << <<0>> >>, << <<0>>, <<>> >>, << <<-1,0>>, <<0>> >>, << <<1>>, <<NoBound,0>> >>, << <<>>, <<>>, <<>> >>}}"
    else:
        ats = "{At(i) : i \\in -4..3}"
        rng = "{Range(a,b,s) : a \\in {NoBound,-4,-2,-1,0,1,3}, b \\in {NoBound,-4,-1,0,2,3}, s \\in {1,-1,2,-2,3,0}}"
        arrs = "{Arr(s) : s \\in UNION {[1..k -> -3..2] : k \\in 0..2}} \\cup {Arr(<<0,0,0>>), Arr(<<1,0,1>>), Arr(<<-1,-2,0>>)}"
        miss = "{Missing(s) : s \\in UNION {[1..k -> {NoBound,0,1,-1}] : k \\in 1..2}} \\cup {Missing(<<NoBound,1,-1>>)}"
        jag = ("{Jagged(s) : s \\in UNION {[1..k -> {<<>>, <<0>>, <<-1,0>>, <<1>>, <<NoBound,0>>, <<0,0,0>>}] : k \\in 0..2}}")
    basic = "(%s \\cup %s \\cup {NewAxis, Ellipsis})" % (ats, rng)
    adv = "(%s \\cup %s \\cup %s)" % (arrs, miss, jag)
    return basic, adv, ats, rng, arrs


def slice_tuples(level):
    basic, adv, ats, rng, arrs = slice_alphabet(level)
    allitems = "(%s \\cup %s)" % (basic, adv)
    one = "{<<a>> : a \\in %s}" % allitems
    two = "{<<a, b>> : a \\in %s, b \\in %s}" % (allitems, "(%s \\cup %s)" % (basic, arrs))
    if level == 0:
        three = "{<<a, b, c>> : a \\in {At(0), Range(NoBound,NoBound,1), Arr(<<1,0>>)}, b \\in {At(-1), Range(NoBound,NoBound,-1), Arr(<<0>>), Ellipsis}, c \\in {At(0), Range(1,NoBound,1), Arr(<<0,0>>), NewAxis}}"
    else:
        small = "{At(0), At(-1), At(2), Range(NoBound,NoBound,1), Range(NoBound,NoBound,-1), Range(1,NoBound,2), Arr(<<1,0>>), Arr(<<0>>), Arr(<<0,0>>), NewAxis, Ellipsis}"
        three = "{<<a, b, c>> : a \\in %s, b \\in %s, c \\in %s}" % (small, small, small)
    return "(%s \\cup %s \\cup %s)" % (one, two, three)


# ------------------------------------------------------------------ C01
def run_C01(ctx):
    ctx.build("opt")
    # the subset of tuples is drawn anew for every layout, which costs time proportional to the alphabet: the wide alphabet
    # (level 1) made 2 400 states/min and never finished on depth-2 layouts; it now runs on depth-1 layouts in its own phase
    nsub = 25 if ctx.quick() else 80
    consts = session_consts(OpSet='{"slice"}', LeafSet=leafset(2),
                            SliceTuples="RandomSubset(%d, %s)" % (nsub, slice_tuples(0)))
    ctx.tlc_phase("slice-lists-options", "Session", consts, invariants=["Refines", "Closed"],
                  require_actions=["SliceOp", "WrapListOffset", "WrapList", "WrapRegular", "WrapIndexedOption"],
                  seed_tlc=True, timeout=3000)
    if not ctx.quick():
        consts = session_consts(OpSet='{"slice"}', LeafSet=leafset(3), MaxDepth="1",
                                SliceTuples="RandomSubset(200, %s)" % slice_tuples(1))
        ctx.tlc_phase("slice-wide-alphabet", "Session", consts, invariants=["Refines", "Closed"],
                      require_actions=["SliceOp", "WrapListOffset", "WrapList"], seed_tlc=True, timeout=3000)
    # multi-dimensional (rectilinear) data and 2-d index arrays of every small shape
    arr2 = ("{Arr2(p[1], p[2]) : p \\in {q \\in {<<0, 1, 2, 2, -1, 0>>, <<1, 0, 0, 1, 1, 0>>, <<0, 0, 1, 0, 2, 1, 1, 2, 0, -1, -2, 0>>, "
            "<<2, 1>>, <<0, -3, 1, 5>>} \\X {1, 2, 3} : Len(q[1]) % q[2] = 0}}")
    rng = "{Range(NoBound, NoBound, 1), Range(1, NoBound, 1), Range(NoBound, NoBound, -1), Range(NoBound, 2, 2)}"
    tuples = ("({<<a>> : a \\in %s} \\cup {<<r, a>> : r \\in %s, a \\in %s} \\cup {<<a, r>> : r \\in %s, a \\in %s} "
              "\\cup {<<r, q, a>> : r \\in %s, q \\in %s, a \\in %s})" % (arr2, rng, arr2, rng, arr2, rng, rng, arr2))
    consts = session_consts(OpSet='{"slice"}', LeafSet='{Numpy("int64", [k \\in 1..n |-> k * 10]) : n \\in {6, 12}}',
                            Classes='{"Regular"}', MaxDepth="2", MaxLen="12",
                            SliceTuples="RandomSubset(%d, %s)" % (150 if ctx.quick() else 600, tuples))
    ctx.tlc_phase("slice-2d-index-arrays", "Session", consts, invariants=["Refines", "Closed"],
                  require_actions=["SliceOp", "WrapRegular"], seed_tlc=True, sample_cases=(150000 if ctx.quick() else None), timeout=400)
    consts = session_consts(OpSet='{"slice"}', LeafSet=leafset(2), SliceTuples="RandomSubset(12, %s)" % slice_tuples(0))
    ctx.l2_phase("slice-python-layer", "Session", consts, ("l2replay", "h_generic"), invariants=["Closed"], seed_tlc=True,
                 require_actions=["SliceOp"], sample_cases=(12000 if ctx.quick() else 200000), timeout=900)
    ctx.chain_phase("chains-code-to-spec", (4000 if ctx.quick() else 60000), 5, ops={"slice"})
    ctx.pychain_phase("python-chains-code-to-spec", (4000 if ctx.quick() else 60000), 5, ops={"filter", "slice", "sortbyarg"})
    return ctx.finish(assumptions=["slice tuples are a seeded random subset (per layout) of the tier's tuple alphabet"])


RUNNERS["C01"] = run_C01


# ------------------------------------------------------------------ C09 (missing values: pad / option encodings)
OPTION_CLASSES = '{"ListOffset","List","Regular","IndexedOption","ByteMasked","BitMasked","Unmasked","Indexed"}'


def run_C09(ctx):
    ctx.build("opt")
    consts = session_consts(OpSet='{"tolist","pad","isnone"}', LeafSet=leafset(2 if ctx.quick() else 3), Classes=OPTION_CLASSES,
                            Axes="{-3,-2,-1,0,1,2,3}" if not ctx.quick() else "{-2,-1,0,1,2}",
                            Targets="{0,1,2,3}" if not ctx.quick() else "{0,1,3}")
    r1 = ctx.tlc_phase("pad-all-encodings", "Session", consts, invariants=["Refines", "Closed"],
                       require_actions=["PadOp", "IsNoneOp", "WrapByteMasked", "WrapBitMasked", "WrapIndexedOption", "WrapUnmasked"])
    consts = session_consts(OpSet='{"pad","isnone"}', LeafSet=leafset(2), Classes=OPTION_CLASSES, Axes="{-2,-1,0,1,2}", Targets="{0,1,3}")
    ctx.l2_phase("pad-isnone-python-layer", "Session", consts, ("l2replay", "h_generic"), invariants=["Closed"],
                 require_actions=["PadOp", "IsNoneOp"], sample_cases=(12000 if ctx.quick() else 200000), timeout=900,
                 reuse=(r1 if ctx.quick() else None))
    ctx.chain_phase("chains-code-to-spec", (4000 if ctx.quick() else 60000), 5, ops={"pad", "same"})
    ctx.pychain_phase("python-chains-code-to-spec", (4000 if ctx.quick() else 60000), 5, ops={"pad", "fillnone", "isnone", "mask", "singletons", "firsts"})
    return ctx.finish()


# ------------------------------------------------------------------ C07 (combinations)
def run_C07(ctx):
    ctx.build("opt")
    consts = session_consts(OpSet='{"comb"}', LeafSet=leafset(3 if ctx.quick() else 4),
                            Classes='{"ListOffset","List","Regular","IndexedOption","ByteMasked","Indexed"}',
                            MaxLen="2", Axes="{-2,-1,0,1,2,3}", CombNs="{0,1,2,3}" if ctx.quick() else "{0,1,2,3,4}")
    ctx.tlc_phase("combinations", "Session", consts, invariants=["Refines", "Closed"],
                  require_actions=["CombOp", "WrapListOffset", "WrapList", "WrapRegular"])
    # the Python half: ak.cartesian / ak.argcartesian (src/awkward/operations/structure.py) on pairs of arrays (L2)
    consts = session_consts(OpSet='{"cartesian","aux"}', LeafSet=leafset(3), MaxDepth="1", MaxLen="2",
                            Classes='{"ListOffset","List","Regular"}')
    ctx.l2_phase("cartesian-python-layer", "Session", consts, ("l2replay", "h_c07_cartesian"), invariants=["Closed"],
                 require_actions=["CartesianOp", "StoreAux"], sample_cases=(15000 if ctx.quick() else 200000), timeout=900)
    ctx.chain_phase("chains-code-to-spec", (4000 if ctx.quick() else 60000), 5, ops={"comb"})
    ctx.pychain_phase("python-chains-code-to-spec", (4000 if ctx.quick() else 60000), 5, ops={"comb", "argcomb", "cartesian"})
    return ctx.finish(assumptions=["ak.cartesian is checked for two operands, axis 0 / 1 / -1, list and dict forms; option-type and "
                                   "deeper operands are outside this model (Unspec)", L2_TRUSTED])


# ------------------------------------------------------------------ C11 (validity exact + closed)
def run_C11(ctx):
    ctx.build("opt")
    # (1) exactness: every layout, valid or not (constructors unguarded), against the documented rules
    consts = session_consts(OpSet='{"validity"}', ValidOnly="FALSE", LeafSet=leafset(2), MaxDepth="2", Classes=ALL_CLASSES)
    ctx.tlc_phase("exactness", "Session", consts, invariants=["Refines"],
                  require_actions=["Validity", "WrapListOffset", "WrapList", "WrapIndexed", "WrapIndexedOption",
                                   "WrapByteMasked", "WrapBitMasked"],
                  max_cases=300000 if ctx.quick() else None)
    # (2) closure: results of operations on valid layouts are valid again
    q = ctx.quick()
    consts = session_consts(OpSet='{"concat","samevalue","aux"}', LeafSet=MIXED_LEAVES, MaxDepth="1", Classes=ALL_CLASSES)
    ctx.tlc_phase("closure-binary", "Session", consts, invariants=["Closed"], judge_fn=("replay", "judge_closure"),
                  require_actions=["ConcatOp", "SameValueOp"], max_cases=400000 if q else None)
    consts = session_consts(OpSet='{"slice","num","flatten","localindex","pad","comb","reduce","samevalue"}',
                            LeafSet=leafset(2), Classes=ALL_CLASSES, Axes="{-2,-1,0,1,2}", Targets="{0,2}", CombNs="{1,2}",
                            SliceTuples="RandomSubset(%d, %s)" % (6 if q else 30, slice_tuples(0)),
                            ReduceArgs="RandomSubset(%d, AllReduceArgs)" % (2 if q else 8))
    ctx.tlc_phase("closure-unary", "Session", consts, invariants=["Closed"], judge_fn=("replay", "judge_closure"),
                  seed_tlc=True, require_actions=["SliceOp", "PadOp", "CombOp", "ReduceOp", "FlattenOp"],
                  max_cases=300000 if q else None)
    ctx.chain_phase("chains-code-to-spec", (4000 if ctx.quick() else 60000), 6, kinds=("validity",))
    ctx.pychain_phase("python-chains-code-to-spec", (4000 if ctx.quick() else 60000), 6, kinds=("validity",))
    return ctx.finish(assumptions=["closure is additionally checked on every case of every other property's check"])


RUNNERS.update({"C09": run_C09, "C07": run_C07, "C11": run_C11})


# ------------------------------------------------------------------ C03 (reducers)
REDUCE_LEAVES = '{Numpy("int64", d) : d \\in {<<>>, <<1>>, <<0,2>>, <<2,1>>, <<1,1,0>>}}'


def run_C03(ctx):
    ctx.build("opt")
    consts = session_consts(OpSet='{"reduce"}', LeafSet=REDUCE_LEAVES,
                            Classes='{"ListOffset","List","Regular","IndexedOption","ByteMasked","BitMasked","Unmasked","Indexed"}',
                            Axes="{-3,-2,-1,0,1,2}",
                            ReduceArgs="RandomSubset(%d, AllReduceArgs)" % (4 if ctx.quick() else 16))
    r1 = ctx.tlc_phase("reduce", "Session", consts, invariants=["Refines", "Closed"], seed_tlc=True,
                       require_actions=["ReduceOp", "WrapListOffset", "WrapList", "WrapRegular", "WrapIndexedOption",
                                        "WrapByteMasked"])
    consts = session_consts(OpSet='{"reduce"}', LeafSet=REDUCE_LEAVES, Classes='{"ListOffset","List","Regular","IndexedOption","ByteMasked"}',
                            Axes="{-2,-1,0,1}", ReduceArgs="RandomSubset(4, AllReduceArgs)")
    ctx.l2_phase("reduce-python-layer", "Session", consts, ("l2replay", "h_generic"), invariants=["Closed"], seed_tlc=True,
                 require_actions=["ReduceOp"], sample_cases=(12000 if ctx.quick() else 200000), timeout=900,
                 reuse=(r1 if ctx.quick() else None))
    # every reducer on every leaf dtype (values 0 and 1 fit all of them): identities of empty groups per dtype, bools, floats
    consts = session_consts(OpSet='{"reduce"}', Classes='{"ListOffset","IndexedOption","Regular"}', MaxDepth="1", Axes="{-1,0,1}",
                            LeafSet='{Numpy(dt, d) : dt \\in {"float64", "float32", "int32", "int16", "int8", "uint8", "uint32", "bool"}, '
                                    'd \\in {<<>>, <<1>>, <<0, 1>>, <<1, 1, 0>>}}', ReduceArgs="AllReduceArgs")
    ctx.tlc_phase("reduce-dtypes", "Session", consts, invariants=["Refines", "Closed"],
                  require_actions=["ReduceOp", "WrapListOffset"], sample_cases=(150000 if ctx.quick() else None))
    ctx.chain_phase("chains-code-to-spec", (4000 if ctx.quick() else 60000), 5, ops={"reduce"})
    ctx.pychain_phase("python-chains-code-to-spec", (4000 if ctx.quick() else 60000), 5, ops={"reduce"})
    return ctx.finish(assumptions=["leaf values are small integers incl. ties and zeros; float accuracy is out of scope",
                                   "records/unions are not reduced by this model (VReduce returns Unspec)"])


RUNNERS["C03"] = run_C03


# ------------------------------------------------------------------ C08 (concatenate / merge / simplify / astype)
MIXED_LEAVES = ('{Numpy("int64", [k \\in 1..n |-> k]) : n \\in 0..2} \\cup '
                '{Numpy("float64", <<1,2>>), Numpy("bool", <<1,0>>), Numpy("int32", <<3>>), Numpy("uint8", <<7,8>>), EmptyL}')


def run_C08(ctx):
    ctx.build("opt")
    consts = session_consts(OpSet='{"concat","samevalue","aux"}', LeafSet=MIXED_LEAVES, MaxDepth="1", MaxLen="2", Classes=ALL_CLASSES)
    ctx.tlc_phase("concat-pairs", "Session", consts, invariants=["Refines", "Closed"],
                  require_actions=["ConcatOp", "SameValueOp", "StoreAux"])
    # fixed-size lists of fixed-size lists over leaves of 2, 4 and 6 numbers: shapes (1,2,3), (1,3,2), (2,2,1), ... which this
    # phase's instantiation (replay.steps_for_nd) turns, more than half of the time, into ONE three-dimensional NumpyArray with unequal inner dimensions
    c3 = session_consts(OpSet='{"concat","samevalue","aux"}', MaxDepth="2", MaxLen="3", Classes='{"Regular"}',
                        LeafSet='{Numpy("int64", [k \\in 1..n |-> k]) : n \\in {2, 4, 6}} \\cup {Numpy("float64", <<1, 2, 3, 4, 5, 6>>)}')
    ctx.tlc_phase("concat-3d-leaves", "Session", c3, invariants=["Refines", "Closed"], require_actions=["ConcatOp", "WrapRegular", "StoreAux"],
                  translate=("replay", "steps_for_nd"), sample_cases=(120000 if ctx.quick() else None))
    if not ctx.quick():
        # pairs of depth-2 layouts are too many to enumerate (the exhaustive run did not finish in 25 min): random behaviours
        consts = dict(consts, MaxDepth="2")
        ctx.tlc_phase("concat-pairs-deep-simulate", "Session", consts, invariants=["Refines", "Closed"],
                      simulate="num=100000", depth=12, view=None, timeout=2400)
    ctx.chain_phase("chains-code-to-spec", (4000 if ctx.quick() else 60000), 5, ops={"concatself", "same"})
    ctx.pychain_phase("python-chains-code-to-spec", (4000 if ctx.quick() else 60000), 5, ops={"concat0", "concat1", "concat2", "concat3", "concatperm", "same", "maysame"})
    return ctx.finish(assumptions=["ak.concatenate(axis=0) is replayed as its C++ call sequence mergeable/mergemany/merge_as_union/simplify_uniontype",
                                   "leaf values are small integers representable in every dtype used"])


RUNNERS["C08"] = run_C08


# ------------------------------------------------------------------ C06 (sort / argsort)
SORT_LEAVES = ('{Numpy("int64", d) : d \\in {<<>>, <<1>>, <<2,1>>, <<1,1,0>>}} \\cup '
               '{Numpy("float64", d) : d \\in {<<2,-777,1>>, <<-777,3>>, <<1,-777>>}}')


# strings: "" a ab b z \xc3\xa9 (e-acute: bytes >= 0x80) \xc3\xa9a, over offset origins 0 and 1
STR_LEAVES = ('({StrL(o, <<122, 195, 169, 97, 98, 97>>, bs) : bs \\in {0, 1}, o \\in {<<0, 1, 3, 5, 6>>, <<1, 3, 4>>, <<0, 0, 1>>, '
              '<<3, 5, 6, 6>>, <<0>>}} \\cup {StrL(<<0, 3, 5, 6>>, <<195, 169, 97, 195, 169, 98>>, 0)})')


def run_C06(ctx):
    ctx.build("opt")
    consts = session_consts(OpSet='{"sort"}', LeafSet=STR_LEAVES, Classes='{"ListOffset","List","Regular","IndexedOption","Indexed"}',
                            Axes="{-2,-1,0,1}", SortArgs="AllSortArgs", MaxDepth="1" if ctx.quick() else "2")
    ctx.tlc_phase("sort-strings", "Session", consts, invariants=["Refines", "Closed"],
                  require_actions=["SortOp", "WrapListOffset", "WrapList", "WrapRegular", "WrapIndexedOption"])
    consts = session_consts(OpSet='{"sort"}', LeafSet=SORT_LEAVES,
                            Classes='{"ListOffset","List","Regular","IndexedOption","ByteMasked","Indexed"}',
                            Axes="{-3,-2,-1,0,1,2}", SortArgs="RandomSubset(%d, AllSortArgs)" % (3 if ctx.quick() else 8))
    r1 = ctx.tlc_phase("sort", "Session", consts, invariants=["Refines", "Closed"], seed_tlc=True,
                       require_actions=["SortOp", "WrapListOffset", "WrapList", "WrapRegular", "WrapIndexedOption"])
    consts = session_consts(OpSet='{"sort"}', LeafSet=SORT_LEAVES, Classes='{"ListOffset","List","Regular","IndexedOption"}',
                            Axes="{-2,-1,0,1}", SortArgs="RandomSubset(3, AllSortArgs)")
    ctx.l2_phase("sort-python-layer", "Session", consts, ("l2replay", "h_generic"), invariants=["Closed"], seed_tlc=True,
                 require_actions=["SortOp"], sample_cases=(12000 if ctx.quick() else 200000), timeout=900,
                 reuse=(r1 if ctx.quick() else None))
    # sort / argsort on every leaf dtype (values 0, 1, 2 fit all of them; NaN for the float types)
    consts = session_consts(OpSet='{"sort"}', Classes='{"ListOffset","IndexedOption","Regular"}', MaxDepth="1", Axes="{-1,0,1}",
                            LeafSet='{Numpy(dt, d) : dt \\in {"float32", "int32", "int16", "int8", "uint8", "uint32", "bool"}, '
                                    'd \\in {<<>>, <<1>>, <<1, 0>>, <<0, 1, 1>>}} \\cup {Numpy("float32", <<1, -777, 0>>), Numpy("uint8", <<2, 0, 1>>)}',
                            SortArgs="AllSortArgs")
    ctx.tlc_phase("sort-dtypes", "Session", consts, invariants=["Refines", "Closed"],
                  require_actions=["SortOp", "WrapListOffset"], sample_cases=(100000 if ctx.quick() else None))
    ctx.chain_phase("chains-code-to-spec", (4000 if ctx.quick() else 60000), 5, ops={"sort", "argsort", "sortbyarg"})
    ctx.pychain_phase("python-chains-code-to-spec", (4000 if ctx.quick() else 60000), 5, ops={"sort", "argsort", "sortbyarg"})
    return ctx.finish(assumptions=["float leaves hold small integers and NaN only; strings are not modelled yet",
                                   "non-innermost sort with missing lists inside a group is Unspec in the model"])


RUNNERS["C06"] = run_C06


# ------------------------------------------------------------------ C14 (ArrayBuilder)
BUILDER_ALPHABET = '''{[c |-> "null"], [c |-> "int", x |-> 1], [c |-> "int", x |-> 2], [c |-> "real", n |-> 5, d |-> 2], [c |-> "bool", x |-> 1],
 [c |-> "str", b |-> <<97>>], [c |-> "beginlist"], [c |-> "endlist"], [c |-> "beginrecord", name |-> ""], [c |-> "beginrecord", name |-> "P"],
 [c |-> "field", key |-> "x"], [c |-> "field", key |-> "y"], [c |-> "endrecord"], [c |-> "begintuple", n |-> 2], [c |-> "index", i |-> 0],
 [c |-> "index", i |-> 1], [c |-> "index", i |-> 2], [c |-> "endtuple"], [c |-> "clear"]}'''


RECORD_ALPHABET = ('{[c |-> "beginrecord", name |-> ""], [c |-> "field", key |-> "x"], [c |-> "field", key |-> "y"], [c |-> "field", key |-> "z"], '
                   '[c |-> "int", x |-> 1], [c |-> "endrecord"]}')
RECORD_GRAMMAR = ('IF h = <<>> THEN c.c = "beginrecord" ELSE LET l == h[Len(h)].c IN CASE l = "beginrecord" -> c.c = "field" [] l = "field" -> c.c = "int" '
                  '[] l = "int" -> c.c \\in {"field", "endrecord"} [] l = "endrecord" -> c.c = "beginrecord" [] OTHER -> TRUE')


APPEND_ALPHABET = ('{[c |-> "append", src |-> s, at |-> i] : s \\in {"idx64", "idx32", "opt", "lists"}, i \\in {0, 1, 2, 3}} \\cup '
                   '{[c |-> "null"], [c |-> "int", x |-> 1], [c |-> "beginlist"], [c |-> "endlist"], [c |-> "clear"]}')

# Form-driven LayoutBuilder: forms (LayoutBuilder.tla constructors) and the flat command alphabet
_LBI, _LBR, _LBB = 'FNum("int64")', 'FNum("float64")', 'FNum("bool")'
_LBXY = 'FRec(<<"x", "y">>, <<%s, %s>>)' % (_LBI, _LBR)
_LBU = 'FUnion(<<%s, %s>>)' % (_LBR, _LBB)
LB_FORMS = "{" + ", ".join([
    _LBI, _LBR, _LBB, "FStr", "FList(%s)" % _LBI, "FList(%s)" % _LBR, "FList(FList(%s))" % _LBI, "FReg(%s, 2)" % _LBI, "FReg(%s, 3)" % _LBI,
    "FOpt(%s)" % _LBI, "FOpt(FList(%s))" % _LBI, "FList(FOpt(%s))" % _LBI,
    'FWrap("indexed", %s)' % _LBI, 'FWrap("bytemasked", %s)' % _LBI, 'FWrap("bitmasked", %s)' % _LBI, 'FWrap("unmasked", %s)' % _LBR,
    _LBXY, 'FRec(<<"x", "y">>, <<%s, FList(%s)>>)' % (_LBI, _LBI), 'FRec(<<"x", "y">>, <<FList(%s), %s>>)' % (_LBI, _LBI),
    'FRec(<<"x", "y">>, <<FList(%s), FList(%s)>>)' % (_LBI, _LBR), 'FRec(<<"x", "y", "z">>, <<%s, %s, %s>>)' % (_LBI, _LBR, _LBI),
    "FList(%s)" % _LBXY, "FOpt(%s)" % _LBXY, 'FRec(<<"x", "y">>, <<FOpt(%s), %s>>)' % (_LBI, _LBR),
    'FRec(<<"a", "b">>, <<%s, %s>>)' % (_LBXY, _LBI), 'FList(FRec(<<"x", "y">>, <<%s, FList(%s)>>))' % (_LBI, _LBI),
    _LBU, 'FUnion(<<%s, %s>>)' % (_LBR, _LBI), "FList(%s)" % _LBU, "FOpt(%s)" % _LBU, 'FUnion(<<%s, %s>>)' % (_LBXY, _LBR),
    'FRec(<<"x", "u">>, <<%s, %s>>)' % (_LBI, _LBU), "FList(FStr)", 'FRec(<<"s", "x">>, <<FStr, %s>>)' % _LBI, "FReg(FReg(%s, 2), 2)" % _LBI,
    # the families of the recorded findings F91 / F92 (kept in the domain so that a different failure on them is still reported)
    "FList(FReg(%s, 2))" % _LBI, "FReg(FList(%s), 2)" % _LBI, 'FWrap("indexed", FList(%s))' % _LBI, 'FWrap("bytemasked", FList(%s))' % _LBI,
    'FWrap("unmasked", FList(%s))' % _LBI, 'FUnion(<<%s, FList(%s)>>)' % (_LBR, _LBI)]) + "}"
LB_ALPHABET = ('{[c |-> "int", x |-> 1], [c |-> "int", x |-> 2], [c |-> "real", n |-> 5, d |-> 2], [c |-> "bool", x |-> 1], [c |-> "null"], '
               '[c |-> "beginlist"], [c |-> "endlist"], [c |-> "tag", i |-> 0], [c |-> "tag", i |-> 1], [c |-> "tag", i |-> 2], '
               '[c |-> "str", b |-> <<97, 98>>], [c |-> "str", b |-> <<>>]}')


def run_C14(ctx):
    ctx.build("opt")
    n = 5 if ctx.quick() else 6
    ctx.tlc_phase("builder-exhaustive", "Builder", dict(Alphabet=BUILDER_ALPHABET, MaxCmds=str(n), MaxOpen="99", WellNestedOnly="FALSE", EmitOn="TRUE", **{"Allowed(h, c)": "TRUE"}),
                  invariants=["SnapshotLength", "UnifyKeepsValues"], properties=["ErrorsLeaveState"],
                  init="BInit", next_="BNext", view="BView", action_constraints=["BEmit"],
                  translate=("replay", "steps_builder"), judge_fn=("replay", "judge_builder"))
    # append(array, at): elements of existing arrays (IndexedArray64/32 with a permuting index, IndexedOptionArray64, lists with
    # an offset origin) placed as values, between nulls, integers and list brackets
    ctx.tlc_phase("append-from-arrays", "Builder", dict(Alphabet=APPEND_ALPHABET, MaxCmds=str(4 if ctx.quick() else 5), MaxOpen="99", WellNestedOnly="FALSE",
                                                        EmitOn="TRUE", **{"Allowed(h, c)": "TRUE"}),
                  invariants=["SnapshotLength", "UnifyKeepsValues"], properties=["ErrorsLeaveState"],
                  init="BInit", next_="BNext", view="BView", action_constraints=["BEmit"],
                  translate=("replay", "steps_builder_cpp"), judge_fn=("replay", "judge_builder"))
    # directed: ALL sequences of flat records over three keys in every order / subset (field lookup is stateful: nexttotry_)
    ctx.tlc_phase("records-key-orders", "Builder",
                  dict(Alphabet=RECORD_ALPHABET, MaxCmds=str(14 if ctx.quick() else 18), MaxOpen="1", WellNestedOnly="TRUE", EmitOn="TRUE",
                       **{"Allowed(h, c)": RECORD_GRAMMAR}),
                  invariants=["SnapshotLength", "UnifyKeepsValues"], init="BInit", next_="BNext", view="BView", action_constraints=["BEmit"],
                  translate=("replay", "steps_builder"), judge_fn=("replay", "judge_builder"))
    # deeper behaviours, sampled uniformly at random from the same machine
    ctx.tlc_phase("builder-simulate", "Builder", dict(Alphabet=BUILDER_ALPHABET, MaxCmds="12", MaxOpen="99", WellNestedOnly="FALSE", EmitOn="TRUE", **{"Allowed(h, c)": "TRUE"}),
                  invariants=["SnapshotLength", "UnifyKeepsValues"],
                  init="BInit", next_="BNext", view=None, action_constraints=["BEmit"],
                  simulate="num=%d" % (20000 if ctx.quick() else 300000), depth=13,
                  translate=("replay", "steps_builder"), judge_fn=("replay", "judge_builder"))
    # the Form-driven LayoutBuilder: every command sequence that the Form's grammar allows (and the first that it does not),
    # for every Form of LB_FORMS; the snapshot after every command is compared, all snapshots are re-read at the end
    ctx.tlc_phase("layoutbuilder-exhaustive", "LayoutBuilder", dict(Forms=LB_FORMS, Alphabet=LB_ALPHABET, MaxCmds=str(6 if ctx.quick() else 8), EmitOn="TRUE"),
                  invariants=["Monotone", "OnlySentences", "NothingLost"], init="LBInit", next_="LBNext", view="LBView", action_constraints=["LBEmit"],
                  translate=("replay", "steps_layoutbuilder"), judge_fn=("replay", "judge_layoutbuilder"), require_actions=["LBStep"])
    ctx.tlc_phase("layoutbuilder-simulate", "LayoutBuilder", dict(Forms=LB_FORMS, Alphabet=LB_ALPHABET, MaxCmds="16", EmitOn="TRUE"),
                  invariants=["Monotone", "OnlySentences", "NothingLost"], init="LBInit", next_="LBNext", view=None, action_constraints=["LBEmit"],
                  simulate="num=%d" % (20000 if ctx.quick() else 300000), depth=17,
                  translate=("replay", "steps_layoutbuilder"), judge_fn=("replay", "judge_layoutbuilder"))
    # code -> spec: long random sessions recorded from the real builder, validated against Builder.tla (TraceBuilder.tla)
    ctx.builder_trace_phase("builder-traces-code-to-spec", 600 if ctx.quick() else 8000, 60)
    ctx.pychain_phase("python-chains-code-to-spec", (4000 if ctx.quick() else 60000), 5, ops={"rt_iter"})
    return ctx.finish(rule="one case = one maximal command sequence (all sequences up to the bound; sampled beyond it); the "
                           "expected snapshot after EVERY command is compared, and all snapshots are re-read at the end",
                      assumptions=["the builder's state after an error and clear() with open containers are unspecified",
                                   "datetime/complex/bytestring/extend commands are not in the alphabet yet",
                                   "LayoutBuilder: a snapshot taken while a top-level element is half-filled is not judged; commands that do not fit the Form's "
                                   "grammar are unspecified except a datum of another primitive type where a number is due (must raise)"])


RUNNERS["C14"] = run_C14


# ------------------------------------------------------------------ C19 (AwkwardForth)
def _forth_phase(ctx, name, prims, ctrl, maxlen, stackmax=4, recmax=1024, fuel=60, inp="<<1, 255, 128, 7>>", simulate=None):
    consts = dict(Prims=prims, Ctrl=ctrl, MaxLen=str(maxlen), StackMax=str(stackmax), RecMax=str(recmax),
                  Input=inp, Fuel=str(fuel), EmitOn="TRUE")
    ctx.tlc_phase(name, "Forth", consts, invariants=["RunBalanced", "PosInRange"], init="FInit", next_="FNext",
                  view=(None if simulate else "FView"), action_constraints=["FEmit"], translate=("replay", "steps_forth"),
                  judge_fn=("replay", "judge_forth"), require_actions=([] if simulate else ["AppendPrim", "Execute"]),
                  simulate=("num=%d" % simulate if simulate else None), depth=(maxlen * 2 + 4 if simulate else None),
                  java_opts=["-Xss512m"])


def run_C19(ctx):
    ctx.build("opt")
    q = ctx.quick()
    _forth_phase(ctx, "stack-arith",
                 '{Lit(0), Lit(1), Lit(3), Lit(-2), W("dup"), W("drop"), W("swap"), W("over"), W("rot"), W("nip"), W("tuck"), '
                 'W("+"), W("-"), W("*"), W("/"), W("mod"), W("/mod"), W("negate"), W("abs"), W("min"), W("max"), W("="), W("<"), '
                 'W(">="), W("0="), W("invert"), W("and"), W("or"), W("xor"), W("true")}', "{}", 3 if q else 4, stackmax=3)
    _forth_phase(ctx, "control",
                 '{Lit(0), Lit(1), Lit(3), W("dup"), W("+"), W("1-"), W("i"), W("j"), W("0="), [k |-> "get"], [k |-> "inc"], '
                 '[k |-> "put"], [k |-> "write"], W("halt")}',
                 '{"if", "ifelse", "do", "+do", "until", "while", "def"}', 4 if q else 5)
    _forth_phase(ctx, "input-output",
                 '{Lit(0), Lit(1), Lit(-1), Lit(5), W("dup"), W("drop"), W("+"), [k |-> "read", ty |-> "b"], [k |-> "read", ty |-> "B"], '
                 '[k |-> "read", ty |-> "h"], [k |-> "read", ty |-> "!h"], [k |-> "read", ty |-> "H"], [k |-> "read", ty |-> "!H"], '
                 '[k |-> "in", w |-> "len"], [k |-> "in", w |-> "pos"], [k |-> "in", w |-> "end"], [k |-> "in", w |-> "seek"], '
                 '[k |-> "in", w |-> "skip"], [k |-> "write"], [k |-> "writeadd"], [k |-> "outlen"]}',
                 '{"until"}', 3 if q else 4, stackmax=3)
    _forth_phase(ctx, "recursion-limit",
                 '{Lit(0), Lit(1), W("dup"), W("1-"), [k |-> "call"], [k |-> "inc"]}', '{"def", "if", "do", "until"}',
                 4 if q else 5, recmax=3, fuel=80, inp="<<1>>")
    # variable-length integers: up to five bytes, values at the edge of 32 bits (the two machine widths must agree)
    for tag, inp in (("a", "<<254, 255, 255, 255, 15, 5>>"), ("b", "<<255, 255, 255, 255, 15, 128, 1>>"), ("c", "<<255, 255, 255, 255, 7, 172, 2, 255>>")):
        _forth_phase(ctx, "varint-zigzag-" + tag,
                     '{[k |-> "read", ty |-> "varint"], [k |-> "read", ty |-> "zigzag"], [k |-> "read", ty |-> "B"], [k |-> "in", w |-> "pos"], '
                     'W("dup"), [k |-> "write"]}', "{}", 3 if q else 4, stackmax=4, inp=inp)
    # `exit`: leaving the user-defined word from inside its ifs and loops, called from inside the caller's loops
    _forth_phase(ctx, "exit-from-words", '{Lit(0), Lit(1), Lit(2), W("i"), W("exit")}', '{"if", "do", "while", "until", "def"}', 6 if q else 7, stackmax=8, fuel=80, inp="<<1>>")
    # nested loops, exhaustively over a tiny vocabulary
    _forth_phase(ctx, "nested-loops", '{Lit(0), Lit(2), W("i")}', '{"do", "+do"}', 7 if q else 8, stackmax=6, fuel=80, inp="<<1>>")
    # deeper, nested control flow: behaviours sampled at random from the same machine (TLC -simulate)
    _forth_phase(ctx, "nested-control-simulate",
                 '{Lit(0), Lit(1), Lit(2), Lit(4), W("i"), W("j"), W("+"), W("dup"), [k |-> "write"], [k |-> "inc"]}',
                 '{"if", "ifelse", "do", "+do", "until", "def"}', 11, stackmax=8, fuel=150, simulate=(20000 if q else 400000))
    return ctx.finish(rule="one case = one program (all programs over the phase's vocabulary up to the size bound that terminate within "
                           "the fuel); each is executed under run / begin+step* on the other machine width with minimal output "
                           "buffers / with a pause inserted and resume* / after decompilation, and all four must reach the documented state",
                      assumptions=["values stay small: wrap-around at the machine width is exercised only implicitly",
                                   "varint/zigzag/nbit/float reads, strings, and case/ofs words are not in the vocabulary yet"])


RUNNERS["C19"] = run_C19


# ------------------------------------------------------------------ C15 (JSON)
def _s(text):
    return '[t |-> "str", b |-> <<%s>>, s |-> "%s"]' % (", ".join(str(b) for b in text.encode()), text)


JSON_TOKENS = ('{[t |-> "["], [t |-> "]"], [t |-> "{"], [t |-> "}"], [t |-> ","], [t |-> ":"], [t |-> "null"], [t |-> "true"], '
               '[t |-> "int", x |-> 1], [t |-> "real", n |-> 5, d |-> 2], %s, %s, [t |-> "garbage", text |-> "tru"]}' % (_s("a"), _s("b")))
JSON_TOKENS_MARKERS = ('{[t |-> "["], [t |-> "]"], [t |-> ","], [t |-> "int", x |-> 1], %s}'
                       % ", ".join(_s(x) for x in ("nan", "nano", "na", "", "inf", "info", "-inf", "-infra", "-", "a")))    # longer than / proper prefixes of the markers
# strings that hold U+0000 (written \\u0000 in the text): the value has the NUL and what follows it (s is only the model's name for them)
JSON_TOKENS_MARKERS = JSON_TOKENS_MARKERS[:-1] + ', [t |-> "str", b |-> <<97, 0, 98>>, s |-> "a-NUL-b"], [t |-> "str", b |-> <<0>>, s |-> "NUL"]}'


JSON_TOKENS_BIG = ('{[t |-> "["], [t |-> "]"], [t |-> ","], [t |-> "{"], [t |-> "}"], [t |-> ":"], %s, [t |-> "int", x |-> -1], [t |-> "real", n |-> 5, d |-> 2]} \\cup '
                   '{[t |-> "bigint", s |-> d] : d \\in {"2147483647", "2147483648", "4294967295", "4294967296", "-2147483648", "-2147483649", '
                   '"9007199254740993", "9223372036854775807", "-9223372036854775808"}}' % _s("a"))


def run_C15(ctx):
    ctx.build("opt")
    q = ctx.quick()
    kw = dict(init="JInit", next_="JNext", view="JView", action_constraints=["JEmit"],
              translate=("replay", "steps_json"), judge_fn=("replay", "judge_json"))
    ctx.tlc_phase("all-token-sequences", "JsonIO", dict(TokAlphabet=JSON_TOKENS, MaxToks=str(5 if q else 6), EmitOn="TRUE"),
                  invariants=["NoPartial", "DocsOnlyWhenClosed"], **kw)
    ctx.tlc_phase("marker-strings", "JsonIO", dict(TokAlphabet=JSON_TOKENS_MARKERS, MaxToks=str(5 if q else 6), EmitOn="TRUE"),
                  invariants=["NoPartial"], **kw)
    ctx.tlc_phase("integer-widths", "JsonIO", dict(TokAlphabet=JSON_TOKENS_BIG, MaxToks=str(4 if q else 5), EmitOn="TRUE"),
                  invariants=["NoPartial"], **kw)
    kw["view"] = None
    ctx.tlc_phase("long-texts-simulate", "JsonIO", dict(TokAlphabet=JSON_TOKENS, MaxToks="14", EmitOn="TRUE"),
                  invariants=["NoPartial"], simulate="num=%d" % (3000 if q else 100000), depth=15, **kw)
    # the writer: to_json of every layout (all node classes and encodings, NumPy leaves of one and two dimensions, contiguous
    # or views into a wider buffer) parsed by Python's json equals the value
    consts = session_consts(OpSet='{"tolist"}', LeafSet=MIXED_LEAVES + ' \\cup {Numpy("int64", <<1, 2, 3, 4, 5, 6>>), Numpy("complex128", <<1, 2>>)}', MaxDepth="2",
                            MaxLen="2" if q else "3", Classes='{"Regular","ListOffset","List","IndexedOption","ByteMasked","Unmasked"}')
    ctx.tlc_phase("to-json-every-layout", "Session", consts, invariants=["Refines", "Closed"],
                  require_actions=["ToListOp", "WrapRegular", "WrapListOffset", "WrapIndexedOption"],
                  sample_cases=(150000 if q else 1500000), timeout=600)
    ctx.pychain_phase("python-chains-code-to-spec", (4000 if ctx.quick() else 60000), 5, ops={"rt_json"})
    return ctx.finish(rule="one case = one JSON text (a token sequence rendered with a seeded choice of whitespace, string/file input and "
                           "read-buffer size 1..64k); all token sequences up to the bound, i.e. every truncation and single-token corruption",
                      assumptions=["the character-level lexer/number formatter is the rapidjson stand-in (rapidjson is absent from the repository)",
                                   "objects with duplicate keys are outside the property's quantifier (Unspec)"])


RUNNERS["C15"] = run_C15


# ------------------------------------------------------------------ C10 (record fields)
FIELD_TUPLES = ('{<<Field("x")>>, <<Field("y")>>, <<Field("z")>>, <<Field("0")>>, <<Field("1")>>, <<Fields(<<"x">>)>>, '
                '<<Fields(<<"y","x">>)>>, <<Fields(<<"x","y">>)>>, <<Fields(<<"0">>)>>, <<Fields(<<"1","0">>)>>, <<Fields(<<"x","q">>)>>} \\cup '
                '{<<a, b>> : a \\in {Field("x"), Field("y"), Fields(<<"y","x">>), Field("1")}, '
                'b \\in {At(0), At(-1), At(2), Range(1,NoBound,1), Range(NoBound,NoBound,-1), Arr(<<1,0>>)}} \\cup '
                '{<<b, a>> : a \\in {Field("x"), Field("y"), Fields(<<"y","x">>), Field("1")}, '
                'b \\in {At(0), At(-1), At(2), Range(1,NoBound,1), Range(NoBound,NoBound,-1), Arr(<<1,0>>)}} \\cup '
                '{<<b, a, c>> : a \\in {Field("x"), Field("y")}, b \\in {At(0), Range(NoBound,NoBound,1)}, c \\in {At(0), Range(NoBound,1,1)}}')


def run_C10(ctx):
    ctx.build("opt")
    q = ctx.quick()
    consts = session_consts(OpSet='{"slice","setfield","aux","tolist"}', LeafSet='{Numpy("int64", [k \\in 1..n |-> k]) : n \\in 2..3}',
                            Classes='{"ListOffset","IndexedOption","Record","Indexed"}' if q else
                                    '{"ListOffset","IndexedOption","Record","Indexed","ByteMasked","Regular"}',
                            MaxLen="2", MaxDepth="3", MaxNodes="4",
                            SliceTuples="RandomSubset(%d, %s)" % (6 if q else 20, FIELD_TUPLES))
    ctx.tlc_phase("fields", "Session", consts, invariants=["Refines", "Closed"], constraint="SmallEnough", seed_tlc=True,
                  require_actions=["SliceOp", "SetFieldOp", "WrapRecord", "ToListOp"])
    ctx.pychain_phase("python-chains-code-to-spec", (4000 if ctx.quick() else 60000), 5, ops={"zip", "unzip", "field", "withfield", "withfield_b", "withslot"})
    return ctx.finish(assumptions=["ak.zip/unzip/with_field broadcasting are Python-layer functions (L2); here the C++ API below them: "
                                   "getitem_field(s), field projections inside slices, setitem_field",
                                   "index-like keys ('0') on named records and projections through unions are Unspec"])


RUNNERS["C10"] = run_C10


# ------------------------------------------------------------------ C13 (kernels = their Python definitions)
def run_C13(ctx):
    import json as _json
    import kernels
    built = ctx.build("opt")
    q = ctx.quick()
    r = ctx.tlc_phase("contract-instances", "KernelContract", dict(MaxN="4" if q else "5", MaxContent="3" if q else "4", EmitOn="TRUE"),
                      invariants=["RoleInvariant"], init="KInit", next_="KNext", view="KView", action_constraints=["KEmit"],
                      replay_cases=False)
    inst = [_json.loads(l) for l in open(r.cases_path)]
    res = kernels.run_all(built["kernels"], inst, ctx.seed, 120 if q else 1500, os.path.join(ctx.workdir, "kernels"),
                          per_kernel_timeout=40 if q else 400)
    compared = [x for x in res if x["comparisons"] > 0]
    nospec = sorted(x["kernel"] for x in res if x.get("skipped"))
    ncmp = sum(x["comparisons"] for x in res)
    for x in res:
        if x.get("crashed") or x.get("timeout"):
            ctx.report({"act": "kernel", "kernel": x["kernel"], "args": (x.get("last") or {}).get("args"),
                        "specialization": (x.get("last") or {}).get("kernel")}, None, None,
                       "CRASH: %s in %s (access outside the extents given to the kernel, or it does not return)" %
                       (x.get("crashed") or x.get("timeout"), (x.get("last") or {}).get("kernel")), phase="kernels")
        for m in x["mismatches"]:
            ctx.report({"act": "kernel", "kernel": x["kernel"], "specialization": m["specialization"], "args": m["args"]}, None, None,
                       "kernel %s differs from its Python definition: %s" % (m["specialization"], m["why"]), phase="kernels")
    ctx.replayed += ncmp
    ctx.samples = [x["samples"][0] | {"kernel": x["kernel"]} for x in compared if x["samples"]][:4]
    nprog = sum(x["specializations"] for x in compared)
    return ctx.finish(level="translation_validation",
                      extra={"programs": nprog, "disagreements_checked": ncmp,
                             "kernels_compared": len(compared), "kernels_total": len(res),
                             "accepted_argument_tuples": sum(x["accepted"] for x in res),
                             "kernels_without_executable_definition_or_not_driven": nospec,
                             "kernels_with_zero_accepted_tuples": sorted(x["kernel"] for x in res if not x.get("skipped") and x["accepted"] == 0)},
                      rule="program = one kernel specialisation; case = (specialisation, argument tuple) with the tuple assembled from the role "
                           "instances enumerated by TLC from KernelContract.tla and accepted by the Python definition running on "
                           "index-recording proxies; outputs compared over the indices the definition writes, error status compared, "
                           "guard page flush after every buffer",
                      assumptions=["a tuple is inside a kernel's contract iff the role predicates hold and its Python definition runs to "
                                   "completion without touching an index outside the given extents",
                                   "30 kernels have no Python definition in kernel-specification.yml (placeholders) and 2 take "
                                   "pointer-to-pointer arguments: they are listed, not compared"])


import os  # noqa: E402
RUNNERS["C13"] = run_C13


# ------------------------------------------------------------------ C02 (results depend on the logical value only)
def _c02_groups(ctx, cases_path, phase):
    import glob
    import json as _json
    import replay as _replay
    groups = {}
    n = 0
    for f in glob.glob(cases_path + ".obs.*"):
        with open(f) as fh:
            for line in fh:
                rec = _json.loads(line)
                n += 1
                if rec["key"] is None:
                    continue
                groups.setdefault(_json.dumps(rec["key"]), []).append(rec)
        os.unlink(f)
    npairs = 0
    multi = 0
    import akcheck as _ak
    for key, members in groups.items():
        if len(members) < 2:
            continue
        multi += 1
        # the outcome shared by most encodings is the reference; the deviating encodings are reported
        outs = []
        for mth in members:
            for o in outs:
                a, b = o[0], mth["out"]
                if a[0] == b[0] and (a[0] != "ok" or _replay.values_equal(a[1], b[1])):
                    o[1].append(mth)
                    break
            else:
                outs.append([mth["out"], [mth]])
        npairs += len(members) - 1
        if len(outs) == 1:
            continue
        outs.sort(key=lambda o: -len(o[1]))
        k = _json.loads(key)
        ref_out, ref_members = outs[0]
        for out, devs in outs[1:]:
            for mth in devs:
                why = "value differs: two encodings of %s give %s vs %s" % (k[3][:80], _json.dumps(out)[:120], _json.dumps(ref_out)[:120])
                case = {"act": k[0], "args": _json.loads(k[1]), "from": mth["from"], "aux": mth.get("aux"), "fromty": k[2],
                        "other_from": ref_members[0]["from"], "value": k[3], "exp": {"ok": mth.get("expok")}, "len": None}
                if _ak.match_finding(ctx.findings, case, why) is None:
                    # the recorded defect may sit in the encodings of the larger group
                    for other in ref_members[:8]:
                        alt = dict(case, **{"from": other["from"], "other_from": mth["from"]})
                        if _ak.match_finding(ctx.findings, alt, why) is not None:
                            case = alt
                            break
                ctx.report(case, None, None, why, phase=phase)
    ctx.notes.append("%s: %d observations, %d groups with >=2 encodings of the same (type, value, operation), %d pairs compared"
                     % (phase, n, multi, npairs))
    return npairs


def run_C02(ctx):
    ctx.build("opt")
    q = ctx.quick()
    pairs = 0
    consts = session_consts(OpSet='{"slice","num","flatten","localindex","pad","comb","samevalue"}',
                            LeafSet=leafset(2 if q else 3), Classes=ALL_CLASSES, Axes="{-1,0,1}" if q else "{-2,-1,0,1,2}", Targets="{0,2}",
                            CombNs="{2}", SliceTuples="RandomSubset(%d, %s)" % (3 if q else 16, slice_tuples(0)))
    r = ctx.tlc_phase("structure-ops-all-encodings", "Session", consts, invariants=["Closed"], seed_tlc=False,
                      judge_fn=("replay", "judge_none"), record=("replay", "record_c02"),
                      require_actions=["SliceOp", "PadOp", "FlattenOp", "WrapByteMasked", "WrapBitMasked", "WrapIndexed"])
    pairs += _c02_groups(ctx, r.cases_path, "structure-ops-all-encodings")
    consts = session_consts(OpSet='{"reduce","sort"}', LeafSet=REDUCE_LEAVES,
                            Classes='{"ListOffset","List","IndexedOption","ByteMasked","BitMasked","Indexed"}' if q else ALL_CLASSES,
                            Axes="{-2,-1,0}" if q else "{-3,-2,-1,0,1,2}",
                            ReduceArgs="{[r |-> rr, mask |-> 0, kd |-> 0] : rr \\in {\"sum\", \"argmax\", \"count\"}}"
                            if q else "AllReduceArgs",
                            SortArgs="{[asc |-> 1, stable |-> 1, arg |-> 0], [asc |-> 0, stable |-> 1, arg |-> 1]}")
    r = ctx.tlc_phase("reduce-sort-all-encodings", "Session", consts, invariants=["Closed"], seed_tlc=False,
                      judge_fn=("replay", "judge_none"), record=("replay", "record_c02"),
                      require_actions=["ReduceOp", "SortOp", "WrapByteMasked", "WrapBitMasked", "WrapIndexed", "WrapIndexedOption"])
    pairs += _c02_groups(ctx, r.cases_path, "reduce-sort-all-encodings")
    consts = session_consts(OpSet='{"concat","aux"}', LeafSet=MIXED_LEAVES, MaxDepth="1", Classes=ALL_CLASSES)
    r = ctx.tlc_phase("concat-all-encodings", "Session", consts, invariants=["Closed"],
                      judge_fn=("replay", "judge_none"), record=("replay", "record_c02"), require_actions=["ConcatOp"],
                      max_cases=350000 if q else None)
    pairs += _c02_groups(ctx, r.cases_path, "concat-all-encodings")
    ctx.chain_phase("chains-code-to-spec", (8000 if ctx.quick() else 120000), 6)
    ctx.pychain_phase("python-chains-code-to-spec", (6000 if ctx.quick() else 100000), 6)
    return ctx.finish(extra={"encoding_pairs_compared": pairs},
                      rule="case = (layout, operation, arguments); cases are grouped by the library's own (type, to_list) of the input and "
                           "every pair of distinct encodings in a group must give equal values and the same success-or-error outcome",
                      assumptions=["index widths are rotated per case by the seed; SliceTuples sampling is NOT seeded per layout here "
                                   "(same tuples for every layout, so that groups are comparable)"])


RUNNERS["C02"] = run_C02


# ------------------------------------------------------------------ C12 (no crash / hang / foreign memory / input mutation)
ASAN_ENV = {"ASAN_OPTIONS": "detect_leaks=0:abort_on_error=1:allocator_may_return_null=1", "UBSAN_OPTIONS": "print_stacktrace=1"}
ALL_UNARY_OPS = '{"slice","num","flatten","localindex","pad","comb","reduce","sort","samevalue","tolist"}'


def run_C12(ctx):
    import os as _os
    env = dict(_os.environ)
    env.update(ASAN_ENV)
    ctx.build("asan")
    q = ctx.quick()
    rob = dict(translate=("robust", "steps_robust"), judge_fn=("robust", "judge_robust"), variant="asan", worker_env=env)
    # (1) every operation family on every valid layout of the bound, boundary arguments (zero-length arrays and
    #     buffers, size-0/size-1 regular lists, n > length, target 0): crash / sanitizer / purity / result-after-drop
    consts = session_consts(OpSet=ALL_UNARY_OPS, LeafSet=leafset(2), Classes=ALL_CLASSES, Axes="{-2,-1,0,1,2}",
                            Targets="{0,1,3}", CombNs="{0,1,2,4}",
                            SliceTuples="RandomSubset(%d, %s)" % (6 if q else 24, slice_tuples(0)),
                            ReduceArgs="RandomSubset(%d, AllReduceArgs)" % (3 if q else 12),
                            SortArgs="RandomSubset(%d, AllSortArgs)" % (2 if q else 8))
    ctx.tlc_phase("boundary-ops-asan", "Session", consts, invariants=["Closed"], seed_tlc=True,
                  require_actions=["SliceOp", "PadOp", "CombOp", "ReduceOp", "SortOp", "FlattenOp", "NumOp", "SameValueOp",
                                   "WrapRegular", "WrapBitMasked", "WrapList"],
                  sample_cases=(60000 if q else 1500000), **rob)
    consts = session_consts(OpSet='{"concat","aux"}', LeafSet=MIXED_LEAVES, MaxDepth="1", Classes=ALL_CLASSES)
    ctx.tlc_phase("binary-ops-asan", "Session", consts, invariants=["Closed"], require_actions=["ConcatOp"], timeout=900,
                  sample_cases=(30000 if q else 600000), **rob)
    # (2) arbitrary layouts, valid or not, through the check / print / convert entry points
    consts = session_consts(OpSet='{"validity"}', ValidOnly="FALSE", LeafSet=leafset(2), MaxDepth="2", Classes=ALL_CLASSES)
    ctx.tlc_phase("any-layout-check-print-convert-asan", "Session", consts, invariants=["Refines"],
                  require_actions=["Validity", "WrapListOffset", "WrapList", "WrapIndexed", "WrapIndexedOption", "WrapByteMasked",
                                   "WrapBitMasked", "WrapRegular"],
                  translate=("robust", "steps_anylayout"), judge_fn=("robust", "judge_anylayout"), variant="asan", worker_env=env,
                  sample_cases=(60000 if q else 1200000))
    # (3) histories: every interleaving of derive / drop / re-read over a small register file (Purity.tla)
    pc = dict(Regs='{"a","b","c"}', Root='"a"', Kinds='{"view","wrap","fresh"}', MaxSteps=str(4 if q else 5), EmitOn="TRUE")
    ctx.tlc_phase("histories-exhaustive", "Purity", pc, invariants=["NoDangling", "Unchanged", "NoLeak"], properties=["Immutable"],
                  init="PInit", next_="PNext", view="PView", action_constraints=["PEmit"],
                  translate=("robust", "steps_history"), judge_fn=("robust", "judge_history"), variant="asan", worker_env=env,
                  sample_cases=(40000 if q else None))
    pc["MaxSteps"] = "9"
    pc["Regs"] = '{"a","b","c","d"}'
    ctx.tlc_phase("histories-simulate", "Purity", pc, invariants=["NoDangling", "Unchanged", "NoLeak"],
                  init="PInit", next_="PNext", view=None, action_constraints=["PEmit"],
                  simulate="num=%d" % (4000 if q else 150000), depth=11,
                  translate=("robust", "steps_history"), judge_fn=("robust", "judge_history"), variant="asan", worker_env=env)
    # (4) the stateful components under the sanitizers: builder commands, JSON texts, Forth programs
    ctx.tlc_phase("builder-asan", "Builder", dict(Alphabet=BUILDER_ALPHABET, MaxCmds=str(4 if q else 5), MaxOpen="99", WellNestedOnly="FALSE", EmitOn="TRUE", **{"Allowed(h, c)": "TRUE"}),
                  invariants=["SnapshotLength"], init="BInit", next_="BNext", view="BView", action_constraints=["BEmit"],
                  translate=("replay", "steps_builder"), judge_fn=("robust", "judge_nocrash"), variant="asan", worker_env=env,
                  sample_cases=(30000 if q else 400000))
    kw = dict(init="JInit", next_="JNext", view="JView", action_constraints=["JEmit"],
              translate=("replay", "steps_json"), judge_fn=("robust", "judge_nocrash"), variant="asan", worker_env=env)
    ctx.tlc_phase("json-asan", "JsonIO", dict(TokAlphabet=JSON_TOKENS, MaxToks=str(4 if q else 5), EmitOn="TRUE"),
                  invariants=["NoPartial"], sample_cases=(30000 if q else 400000), **kw)
    ctx.chain_phase("chains-code-to-spec", (4000 if ctx.quick() else 60000), 6, kinds=("crash", "exception"))
    ctx.pychain_phase("python-chains-code-to-spec", (4000 if ctx.quick() else 60000), 6, kinds=("crash", "exception", "purity"))
    return ctx.finish(rule="case = one operation on one layout (or one history / command sequence / text) executed in a worker process built "
                           "with -fsanitize=address,undefined; non-trivial = reaches the library (every case does); verdict on exit "
                           "status, sanitizer report, timeout, exception class, operand digests, and results re-read after drops",
                      assumptions=["memory safety is observed on the executed behaviours only (the spec contributes the exhaustive "
                                   "boundary enumeration, AddressSanitizer/UBSan are the oracle)",
                                   "UBSan's signed-overflow/shift checks are disabled for ForthMachine.cpp, where wrap-around is the documented meaning"])


RUNNERS["C12"] = run_C12


# ------------------------------------------------------------------ C04 (ufuncs / broadcasting) -- Python layer (L2)
L2_TRUSTED = "harness/l2/_ext.py + harness/l2/akworker_l2.cpp (stand-in for the pybind11 extension src/python/*.cpp, which cannot be compiled here)"


def run_C04(ctx):
    ctx.build_l2()
    q = ctx.quick()
    consts = session_consts(OpSet='{"ufunc","aux"}', LeafSet=leafset(2), MaxDepth="1", MaxLen="2" if q else "3",
                            Classes='{"ListOffset","List","Regular","IndexedOption","ByteMasked","Indexed","Unmasked"}')
    ctx.l2_phase("ufunc-broadcast-pairs", "Session", consts, ("l2replay", "h_c04"), invariants=["Closed"],
                 require_actions=["UfuncOp", "StoreAux", "WrapRegular", "WrapListOffset", "WrapIndexedOption"],
                 sample_cases=(40000 if q else 600000), timeout=2400)
    if not q:
        # pairs of depth-2 layouts cannot be enumerated (no end after 20 min): random behaviours instead
        consts = dict(consts, MaxDepth="2", MaxLen="2")
        ctx.l2_phase("ufunc-broadcast-pairs-deep-simulate", "Session", consts, ("l2replay", "h_c04"), invariants=["Closed"],
                     simulate="num=100000", depth=12, view=None, timeout=2400)
    consts = session_consts(OpSet='{"ufunc"}', LeafSet=leafset(2), MaxDepth="2", MaxLen="2" if q else "3",
                            Classes='{"ListOffset","List","Regular","IndexedOption","ByteMasked","BitMasked","Indexed","Unmasked"}')
    ctx.l2_phase("ufunc-scalars-deep", "Session", consts, ("l2replay", "h_c04"), invariants=["Closed"],
                 require_actions=["UfuncOp", "WrapRegular", "WrapListOffset", "WrapList", "WrapBitMasked"],
                 sample_cases=(30000 if q else 400000), timeout=1200)
    # ListArrays with four lists over four distinct leaves: permuted, repeated and skipped lists (carried contents)
    consts = session_consts(OpSet='{"ufunc"}', LeafSet='{Numpy("int64", <<1, 2, 3, 4>>)}', MaxDepth="1", MaxLen="4", Classes='{"List"}')
    ctx.l2_phase("ufunc-listarray-orderings", "Session", consts, ("l2replay", "h_c04"), invariants=["Closed"],
                 require_actions=["UfuncOp", "WrapList"], sample_cases=(25000 if q else 250000), timeout=1200)
    ctx.pychain_phase("python-chains-code-to-spec", (4000 if ctx.quick() else 60000), 5, ops={"ufunc", "addmasked", "filter", "bcperm", "like", "nantonum"})
    return ctx.finish(rule="case = (one or two layouts, scalar, ufunc/operator/broadcast_arrays form); executed through numpy ufuncs / Python "
                           "operators / ak.broadcast_arrays of /repo's Python layer; rectilinear pairs are additionally compared with NumPy itself",
                      assumptions=[L2_TRUSTED, "unions and records under ufuncs are outside this model (Unspec / must raise)",
                                   "leaf values are small integers; dtype promotion is not judged"])


RUNNERS["C04"] = run_C04


# ------------------------------------------------------------------ C16 (buffers / pickle / NumPy / Arrow) -- Python layer (L2)
def run_C16(ctx):
    ctx.build_l2()
    q = ctx.quick()
    consts = session_consts(OpSet='{"buffers"}', LeafSet=MIXED_LEAVES, MaxDepth="2", MaxLen="2", Classes=ALL_CLASSES)
    ctx.l2_phase("converters-all-encodings", "Session", consts, ("l2replay", "h_c16"), invariants=["Closed", "BuffersInv"],
                 require_actions=["BuffersOp", "WrapRegular", "WrapListOffset", "WrapList", "WrapBitMasked", "WrapByteMasked", "WrapIndexed"],
                 sample_cases=(6000 if q else 150000), timeout=1500)
    consts = session_consts(OpSet='{"buffers","aux"}', LeafSet=leafset(2), MaxDepth="2", MaxLen="2", MaxNodes="4",
                            Classes='{"ListOffset","IndexedOption","Record","Union","Regular"}')
    ctx.l2_phase("converters-records-unions", "Session", consts, ("l2replay", "h_c16"), invariants=["Closed", "BuffersInv"],
                 constraint="SmallEnough", require_actions=["BuffersOp", "WrapRecord", "WrapUnion"],
                 sample_cases=(4000 if q else 100000), timeout=1500)
    consts = session_consts(OpSet='{"buffers"}', LeafSet=STR_LEAVES, MaxDepth="1", MaxLen="2",
                            Classes='{"ListOffset","List","IndexedOption","Indexed","Regular"}')
    ctx.l2_phase("converters-strings", "Session", consts, ("l2replay", "h_c16"), invariants=["Closed", "BuffersInv"],
                 require_actions=["BuffersOp"], sample_cases=(2000 if q else 50000), timeout=1500)
    # two-dimensional NumPy leaves of 2 x 3 / 3 x 2 / 2 x 2 elements, C-ordered or (one time in three) Fortran-ordered buffers
    consts = session_consts(OpSet='{"buffers"}', LeafSet='{Numpy("int64", <<1, 2, 3, 4, 5, 6>>), Numpy("float64", <<1, 2, 3, 4>>)}',
                            MaxDepth="2", MaxLen="3", Classes='{"Regular","ListOffset"}')
    ctx.l2_phase("converters-2d-leaves", "Session", consts, ("l2replay", "h_c16"), invariants=["Closed", "BuffersInv"],
                 require_actions=["BuffersOp", "WrapRegular"], sample_cases=(5000 if q else 100000), timeout=900)
    ctx.pychain_phase("python-chains-code-to-spec", (4000 if ctx.quick() else 60000), 5, ops={"rt_buffers", "rt_pickle", "rt_arrow"})
    return ctx.finish(rule="case = one layout; on it: to_buffers/from_buffers (dict, bytes-only and custom-key containers), pickle, a "
                           "2-way partitioning through buffers and pickle, to_numpy/from_numpy when rectilinear, to_arrow/from_arrow with "
                           "seeded list_to32/string_to32 and pyarrow's own to_pylist",
                      assumptions=[L2_TRUSTED, "pyarrow 25 / NumPy 2.x are newer than the 2021 code base (environment drift is reported, not hidden)",
                                   "virtual arrays: the C++ VirtualArray is exercised at L1 only; datetime/complex leaves not in this model",
                                   "Arrow conversion of UNION types is executed nowhere (the model's unions have members of the same type, which "
                                   "to_arrow/from_arrow of this version and pyarrow 25 do not round-trip; not triaged), and pickled unions are compared by value only"])


RUNNERS["C16"] = run_C16


# ------------------------------------------------------------------ C17 (types and forms)
TF_PARAMS_Q = '{<<>>, << <<"a", "1">> >>, << <<"__categorical__", "true">> >>}'
TF_PARAMS_T = ('{<<>>, << <<"a", "1">> >>, << <<"__categorical__", "true">> >>, << <<"a", "[1, 2]">>, <<"b", "\\"x\\"">> >>, '
               '<< <<"__categorical__", "true">>, <<"a", "{\\"k\\": null}">> >>, << <<"a", "1.5">> >>}')


def run_C17(ctx):
    ctx.build_l2()
    q = ctx.quick()
    # (exhaustive depth 2 does not finish in half an hour even with the narrow alphabets, nor does depth 1 with the wide
    #  parameter alphabet: depth 1 is exhaustive, the thorough tier adds a second leaf dtype, and deeper trees are sampled by
    #  TLC's simulation mode)
    consts = dict(MaxDepth="1", ParamSets=TF_PARAMS_Q,
                  TypeStrsSet='{"", "mytype"}', RecNames='{"", "Point", "int"}', Dtypes='{"int64"}' if q else '{"int64", "bool"}',
                  EmitOn="TRUE")
    ctx.l2_phase("type-printer-parser", "TypesForms", consts, ("l2replay", "h_c17_types"), invariants=["PrintsSomething"],
                 init="TFInit", next_="TFNext", view="TFView", action_constraints=["TFEmit"],
                 require_actions=["Leaf", "WrapList", "WrapReg", "WrapOpt", "WrapUnion", "WrapRec"],
                 sample_cases=(20000 if q else 400000), timeout=1500)
    consts = dict(consts, MaxDepth="3", ParamSets=TF_PARAMS_Q, Dtypes='{"int64"}')
    ctx.l2_phase("type-printer-parser-deep-simulate", "TypesForms", consts, ("l2replay", "h_c17_types"), invariants=["PrintsSomething"],
                 init="TFInit", next_="TFNext", view=None, action_constraints=["TFEmit"],
                 simulate="num=%d" % (4000 if q else 150000), depth=14, timeout=900)
    # layouts: type = type of form; form survives JSON; depth / keys / regularity queries; range slices; elements
    consts = session_consts(OpSet='{"typeform"}', LeafSet=MIXED_LEAVES, MaxDepth="2", MaxLen="2", Classes=ALL_CLASSES)
    ctx.tlc_phase("layouts-type-form-queries", "Session", consts, invariants=["Closed"], translate=("typeform", "steps_typeform"),
                  judge_fn=("typeform", "judge_typeform"), require_actions=["TypeFormOp", "WrapRegular", "WrapListOffset", "WrapBitMasked"],
                  sample_cases=(150000 if q else None), timeout=1500)
    # (five nodes: a union of a two-field record with something else needs leaf, leaf, record, leaf, union)
    consts = session_consts(OpSet='{"typeform","aux"}', LeafSet=leafset(1) if q else leafset(2), MaxDepth="2", MaxLen="1" if q else "2", MaxNodes="5",
                            Classes='{"ListOffset","IndexedOption","Record","Union","Regular"}')
    ctx.tlc_phase("records-unions-type-form-queries", "Session", consts, invariants=["Closed"], constraint="SmallEnough",
                  translate=("typeform", "steps_typeform"), judge_fn=("typeform", "judge_typeform"),
                  require_actions=["TypeFormOp", "WrapRecord", "WrapUnion"], sample_cases=(100000 if q else None), timeout=1500)
    consts = session_consts(OpSet='{"typeform"}', LeafSet=STR_LEAVES, MaxDepth="1", MaxLen="2",
                            Classes='{"ListOffset","List","IndexedOption","Indexed","Regular"}')
    ctx.tlc_phase("strings-type-form-queries", "Session", consts, invariants=["Closed"], translate=("typeform", "steps_typeform"),
                  judge_fn=("typeform", "judge_typeform"), require_actions=["TypeFormOp"], timeout=600)
    return ctx.finish(rule="case = one type tree (node grammar x parameters x record names x categorical x custom typestr); printed by the C++ "
                           "Type::tostring (compared with TypesForms!TStr), parsed by ak.types.from_datashape, printed again and compared with Type::equal",
                      assumptions=[L2_TRUSTED, "custom typestrs are free text: only their printing is checked, not re-parsing"])


RUNNERS["C17"] = run_C17


# ------------------------------------------------------------------ C18 (virtual and partitioned arrays)
VIRT_OPS = ('{[op |-> "length"], [op |-> "type"], [op |-> "tojson"], [op |-> "at", i |-> 0], [op |-> "at", i |-> -1], '
            '[op |-> "range", a |-> 1, b |-> 3], [op |-> "range_lazy", a |-> 0, b |-> 2], [op |-> "num", axis |-> 0], [op |-> "carry"], [op |-> "validity"]}')
# depth questions and reductions of lazily sliced virtual arrays (records of one shape per set: TLC compares records of a set)
VIRT_OPS_DEPTH = ('{[op |-> "depths", sk |-> "", a |-> 0, b |-> 0, axis |-> 0], [op |-> "tojson", sk |-> "", a |-> 0, b |-> 0, axis |-> 0]} \\cup '
                  '{[op |-> "slice_depths", sk |-> k, a |-> 0, b |-> 2, axis |-> 0] : k \\in {"newaxis", "ellipsis", "range"}} \\cup '
                  '{[op |-> "slice_sum", sk |-> "newaxis", a |-> 0, b |-> 0, axis |-> x] : x \\in {0, 1, -1}} \\cup '
                  '{[op |-> "slice_json", sk |-> "range", a |-> p[1], b |-> p[2], axis |-> 0] : p \\in {<<-2, 99999>>, <<99999, -1>>, <<1, 99>>, <<-9, 2>>}}')


PART_HLOPS = ('{"flatten0", "flatten1", "num0", "num1", "is_none", "fill_none", "count", "sum_none", "sum0", "ufunc", "mask", "local_index", '
              '"pad_none", "firsts", "sort", "concat_self", "values_astype", "zip_self", "field", "packed"}')


def run_C18(ctx):
    ctx.build("opt")
    q = ctx.quick()
    vc = dict(CacheKinds='{"none", "keep", "evict_always"}', GenModes='{"ok", "short", "wrongform", "raises", "raise_first", "bad_first"}',
              Decls='{[len |-> 0, form |-> 0], [len |-> 1, form |-> 0], [len |-> 0, form |-> 1], [len |-> 1, form |-> 1]}',
              Ops=VIRT_OPS, MaxSteps=str(3 if q else 4), EmitOn="TRUE")
    kw = dict(init="VInit", next_="VNext", view="VView", action_constraints=["VEmit"],
              translate=("virtual", "steps_virtual"), judge_fn=("virtual", "judge_virtual"))
    ctx.tlc_phase("virtual-interleavings", "Virtual", vc, invariants=["LazyUntilNeeded", "KeepGeneratesOnce", "NoStale", "HeldOnlyIfKeep"],
                  properties=["ErrorKeepsCache"], require_actions=["Choose", "Do", "Evict"],
                  sample_cases=(120000 if q else None), **kw)
    # depth questions and reductions of the lazier VirtualArrays that one-item slices (newaxis, ellipsis, range) return
    vd = dict(vc, Ops=VIRT_OPS_DEPTH, MaxSteps=str(3 if q else 4))
    ctx.tlc_phase("virtual-lazy-slices", "Virtual", vd, invariants=["LazyUntilNeeded", "KeepGeneratesOnce", "NoStale", "HeldOnlyIfKeep"],
                  properties=["ErrorKeepsCache"], require_actions=["Choose", "Do", "Evict"],
                  sample_cases=(60000 if q else None), **kw)
    vc["MaxSteps"] = "9"
    kw["view"] = None
    ctx.tlc_phase("virtual-simulate", "Virtual", vc, invariants=["LazyUntilNeeded", "KeepGeneratesOnce", "NoStale", "HeldOnlyIfKeep"],
                  simulate="num=%d" % (5000 if q else 200000), depth=12, **kw)
    ctx.virtual_trace_phase("virtual-sessions-code-to-spec", 3000 if q else 60000)
    pc = dict(PartN=str(3 if q else 4), PartMax="3", MaxSteps=str(2 if q else 3), EmitOn="TRUE", HLOps="{}",
              RangeSteps="{1, 2, 3, -1, -2}" if q else "{1, 2, -1}")
    pkw = dict(invariants=["LocateInRange", "Tiling"], init="PInit", next_="PNext",
               view="PView", action_constraints=["PEmit"], translate=("virtual", "steps_partition"),
               judge_fn=("virtual", "judge_partition"), require_actions=["ChooseSplit", "At", "Range", "Repartition"])
    rp = ctx.tlc_phase("partitions-all-splittings", "Partition", pc, sample_cases=(150000 if q else None), **pkw)
    # the same behaviours through ak.partitioned / ak.repartition of the repository's Python layer (src/awkward/partition.py)
    ctx.l2_phase("partitions-python-layer", "Partition", pc, ("l2replay", "h_c18_partition"), reuse=rp,
                 sample_cases=(20000 if q else 300000), **{k: v for k, v in pkw.items() if k not in ("translate", "judge_fn")})
    # the library's high-level functions on a partitioned array (every splitting of 4 elements incl. empty partitions x one or two
    # of them, the second one on the first one's partitioning after a repartition): same value as on the whole array, and a result
    # that is consistent with itself (len, every item by position, is_valid)
    ph = dict(PartN="4", PartMax="3", MaxSteps=str(2 if q else 3), EmitOn="TRUE", HLOps=PART_HLOPS, RangeSteps="{1}")
    ctx.l2_phase("partitions-highlevel-functions", "Partition", ph, ("l2replay", "h_c18_partition"),
                 sample_cases=(20000 if q else 300000), invariants=["LocateInRange", "Tiling"], init="PInit", next_="PNext", view="PView",
                 action_constraints=["PEmit"], require_actions=["ChooseSplit", "HighLevel"])
    if not q:
        # longer arrays and larger strides: the phase (offset) a strided range carries from one partition into the next
        pc = dict(PartN="6", PartMax="3", MaxSteps="2", EmitOn="TRUE", HLOps="{}", RangeSteps="{1, 3, 4, 5, -2, -3}")
        ctx.tlc_phase("partitions-strided-ranges", "Partition", pc, **pkw)
    return ctx.finish(rule="case = one behaviour: (cache kind, generator behaviour, declarations) + an interleaving of operations and evictions on "
                           "a VirtualArray (alone or as the content of a list node), or one splitting + operations/repartitionings of an "
                           "IrregularlyPartitionedArray; every observation is compared with the eager / whole array and generator calls with the spec",
                      assumptions=["the Python bindings of the cache and generator (src/python/virtual.cpp) cannot be compiled; the C++ classes are "
                                   "driven with harness-owned ArrayGenerator / ArrayCache subclasses",
                                   "a generator returning MORE than the declared length is not modelled (accepted by design: contents may be longer)",
                                   "phase partitions-python-layer runs src/awkward/partition.py, ak.partitioned and ak.repartition over the stand-in's "
                                   "own partition container (the C++ PartitionedArray is the one driven in partitions-all-splittings)"])


RUNNERS["C18"] = run_C18


# ------------------------------------------------------------------ C20 (Numba)
NB_BUILDER_ALPHABET = '''{[c |-> "null"], [c |-> "int", x |-> 1], [c |-> "int", x |-> 2], [c |-> "real", n |-> 5, d |-> 2], [c |-> "bool", x |-> 1],
 [c |-> "beginlist"], [c |-> "endlist"], [c |-> "beginrecord", name |-> ""], [c |-> "beginrecord", name |-> "P"],
 [c |-> "field", key |-> "x"], [c |-> "field", key |-> "y"], [c |-> "endrecord"], [c |-> "begintuple", n |-> 2], [c |-> "index", i |-> 0],
 [c |-> "index", i |-> 1], [c |-> "index", i |-> 2], [c |-> "endtuple"]}'''


def run_C20(ctx):
    ctx.build_l2()
    q = ctx.quick()
    consts = session_consts(OpSet='{"numba"}', LeafSet=MIXED_LEAVES if not q else leafset(2) + ' \\cup {Numpy("float64", <<1, 2>>)}',
                            MaxDepth="2", MaxLen="2", Classes=ALL_CLASSES)
    ctx.numba_phase("numba-programs-lists-options", "Session", consts, invariants=["Closed"],
                    require_actions=["NumbaOp", "WrapListOffset", "WrapRegular", "WrapIndexedOption", "WrapBitMasked"],
                    max_forms=(40 if q else 400), max_cases_per_form=(300 if q else 3000), timeout=1500)
    consts = session_consts(OpSet='{"numba","aux"}', LeafSet=leafset(2), MaxDepth="2", MaxLen="2", MaxNodes="4",
                            Classes='{"ListOffset","IndexedOption","Record"}')
    ctx.numba_phase("numba-programs-records", "Session", consts, invariants=["Closed"], constraint="SmallEnough",
                    require_actions=["NumbaOp", "WrapRecord"], max_forms=(16 if q else 150), max_cases_per_form=(300 if q else 3000), timeout=1500)
    # views with a non-zero start over fixed-size lists of size 2 and 3: ranges then items, items of lists of regular lists
    consts = session_consts(OpSet='{"numba"}', LeafSet='{Numpy("int64", <<1, 2, 3, 4, 5, 6>>)}', MaxDepth="2", MaxLen="3",
                            Classes='{"Regular","ListOffset"}')
    ctx.numba_phase("numba-regular-views", "Session", consts, invariants=["Closed"],
                    require_actions=["NumbaOp", "WrapRegular", "WrapListOffset"],
                    max_forms=(24 if q else 400), max_cases_per_form=(300 if q else 3000), timeout=1500)
    # ArrayBuilder calls inside compiled code: every Builder.tla behaviour over the numeric / list / record / tuple commands, each
    # command one call of a Numba-compiled interpreter on the same builder (extern "C" awkward_ArrayBuilder_* through the lowering)
    ctx.l2_phase("numba-arraybuilder", "Builder", dict(Alphabet=NB_BUILDER_ALPHABET, MaxCmds=str(4 if q else 5), MaxOpen="99", WellNestedOnly="FALSE",
                                                       EmitOn="TRUE", **{"Allowed(h, c)": "TRUE"}),
                 ("l2numba", "h_builder_numba"), invariants=["SnapshotLength", "UnifyKeepsValues"], properties=["ErrorsLeaveState"],
                 init="BInit", next_="BNext", view="BView", action_constraints=["BEmit"], sample_cases=(40000 if q else 600000))
    # partitioned and virtual arrays inside compiled code: Partition.tla behaviours (every splitting incl. empty partitions x at /
    # ranges / length / whole-array sum / repartition), every observation made by Numba-compiled code, on ak.partitioned(...) and on
    # a VirtualArray of the same data
    pc = dict(PartN="3", PartMax="3", MaxSteps="2", EmitOn="TRUE", HLOps="{}", RangeSteps="{1}")
    ctx.l2_phase("numba-partitioned-virtual", "Partition", pc, ("l2numba", "h_partition_numba"), invariants=["LocateInRange", "Tiling"],
                 init="PInit", next_="PNext", view="PView", action_constraints=["PEmit"], require_actions=["ChooseSplit", "At", "Range"],
                 sample_cases=(12000 if q else 200000))
    return ctx.finish(rule="case = (layout, access program, run-time indexes); the program is compiled by Numba through /repo's lowering once per "
                           "array form and run on every layout of that form; results boxed back and compared with AkNumba!NbExpect; "
                           "reference counts of the layout before/after 20 calls on every 25th case",
                      assumptions=[L2_TRUSTED, "numba 0.6x: numba.core.cgutils.pointer_add is adapted in the harness (integer base addresses), an "
                                   "environment adaptation recorded in DESIGN.md; nothing in /repo changes",
                                   "unions inside compiled code are not in this model yet; virtual and partitioned arrays are read by len / x[i] / x[a:b] / iteration only"])


RUNNERS["C20"] = run_C20
