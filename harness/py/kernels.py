"""C13: every compiled CPU kernel specialisation against its Python definition in
kernel-specification.yml (translation validation), on argument tuples assembled from the role
instances enumerated by KernelContract.tla.  The compiled symbol runs on buffers that end flush
against a PROT_NONE guard page, so an access beyond the extent given to it kills the worker
process and is reported for that kernel and tuple."""
import ctypes
import json
import math
import mmap
import os
import random
import sys
import traceback

import yaml

REPO = os.environ.get("VERIF_REPO", "/repo")
PAGE = mmap.PAGESIZE

CT = {"bool": ctypes.c_bool, "int8_t": ctypes.c_int8, "uint8_t": ctypes.c_uint8, "int16_t": ctypes.c_int16,
      "uint16_t": ctypes.c_uint16, "int32_t": ctypes.c_int32, "uint32_t": ctypes.c_uint32, "int64_t": ctypes.c_int64,
      "uint64_t": ctypes.c_uint64, "float": ctypes.c_float, "double": ctypes.c_double}
RANGE = {"bool": (0, 1), "int8_t": (-128, 127), "uint8_t": (0, 255), "int16_t": (-2 ** 15, 2 ** 15 - 1),
         "uint16_t": (0, 2 ** 16 - 1), "int32_t": (-2 ** 31, 2 ** 31 - 1), "uint32_t": (0, 2 ** 32 - 1),
         "int64_t": (-2 ** 63, 2 ** 63 - 1), "uint64_t": (0, 2 ** 64 - 1)}


class Error(ctypes.Structure):
    _fields_ = [("str", ctypes.c_char_p), ("filename", ctypes.c_char_p), ("identity", ctypes.c_int64),
                ("attempt", ctypes.c_int64), ("pass_through", ctypes.c_bool)]


class OutOfContract(Exception):
    pass


class InList(object):
    """input array proxy: any access outside [0, len) is outside the kernel's contract"""

    def __init__(self, values):
        self.v = list(values)

    def __len__(self):
        return len(self.v)

    def __getitem__(self, i):
        if isinstance(i, slice):
            raise OutOfContract("slice of input")
        i = int(i)
        if i < 0 or i >= len(self.v):
            raise OutOfContract("read of input at %d (len %d)" % (i, len(self.v)))
        return self.v[i]

    def __setitem__(self, i, x):
        raise OutOfContract("write to input")


class OutList(object):
    """output array proxy: records every index written; unwritten entries read as 0"""

    def __init__(self):
        self.w = {}
        self.maxread = -1

    def __getitem__(self, i):
        i = int(i)
        if i < 0:
            raise OutOfContract("negative output index")
        self.maxread = max(self.maxread, i)
        return self.w.get(i, 0)

    def __setitem__(self, i, x):
        i = int(i)
        if i < 0:
            raise OutOfContract("negative output index")
        if i > 100000:
            raise OutOfContract("huge output index")
        self.w[i] = x

    def extent(self):
        return max([self.maxread] + list(self.w.keys())) + 1 if (self.w or self.maxread >= 0) else 0


def parse_type(t):
    const = t.startswith("Const[")
    if const:
        t = t[6:-1]
    depth = 0
    while t.startswith("List["):
        t = t[5:-1]
        depth += 1
    return t, depth


def load_spec():
    with open(os.path.join(REPO, "kernel-specification.yml")) as f:
        return yaml.safe_load(f)["kernels"]


PRELUDE = """
from numpy import uint8
kMaxInt64  = 9223372036854775806
kSliceNone = kMaxInt64 + 1
"""


def compile_definition(kernel):
    d = kernel.get("definition") or ""
    if "def " not in d:
        return None, "no Python definition"
    env = {}
    try:
        exec(PRELUDE + d, env)
    except Exception as e:
        return None, "definition does not compile: %s" % e
    fn = env.get(kernel["name"])
    if fn is None:
        return None, "definition does not define %s" % kernel["name"]
    return fn, None


# ------------------------------------------------------------------ guarded buffers
class Guarded(object):
    """a ctypes array of n elements whose END is flush against a PROT_NONE page"""
    libc = ctypes.CDLL(None, use_errno=True)

    def __init__(self, ctype, values):
        n = len(values)
        size = max(n * ctypes.sizeof(ctype), 1)
        npages = (size + PAGE - 1) // PAGE
        self.mm = mmap.mmap(-1, (npages + 1) * PAGE)
        base = ctypes.addressof(ctypes.c_char.from_buffer(self.mm))
        guard = base + npages * PAGE
        if Guarded.libc.mprotect(ctypes.c_void_p(guard), ctypes.c_size_t(PAGE), 0) != 0:
            raise OSError("mprotect failed")
        start = guard - n * ctypes.sizeof(ctype)
        self.arr = (ctype * n).from_address(start) if n else None
        self.ptr = ctypes.cast(ctypes.c_void_p(start), ctypes.POINTER(ctype))
        for i, x in enumerate(values):
            self.arr[i] = x
        self.n = n

    def values(self):
        return [self.arr[i] for i in range(self.n)]


# ------------------------------------------------------------------ argument generation
class Pools(object):
    def __init__(self, instances, rng):
        self.by = {}
        for ins in instances:
            self.by.setdefault(ins["role"], []).append(ins)
        self.rng = rng

    def pick(self, role):
        lst = self.by.get(role)
        return self.rng.choice(lst) if lst else {"a": [], "b": [], "m": 0}


def make_tuple(args, pools, rng):
    """-> dict name -> python value (lists for arrays); None marks outputs"""
    groups = {}
    vals = {}
    lens = [0, 1, 2, 3]
    arrlens = []

    def inst(group, base):
        if group not in groups:
            role = {"ListArray": "ListArray", "ListOffsetArray": "ListOffsetArray", "IndexedArray": rng.choice(["IndexedArray", "IndexedOptionArray"]),
                    "ByteMaskedArray": "ByteMaskedArray", "BitMaskedArray": "BitMaskedArray", "UnionArray": "UnionArray",
                    "reducer": "reducer", "NumpyArray": "NumpyArray", "Identities": "NumpyArray", "rangesr": "ListOffsetArray"}.get(base, "NumpyArray")
            groups[group] = pools.pick(role)
        return groups[group]

    for a in args:
        if a["dir"] != "in":
            continue
        base_t, depth = parse_type(a["type"])
        role = a.get("role", "default")
        group = role.split("-")[0] if "-" in role else None
        base = group.rstrip("0123456789") if group else None
        what = role.split("-", 1)[1] if "-" in role else None
        if depth == 1:
            if group and base in ("ListArray",) and what in ("starts", "stops"):
                ins = inst(group, base)
                v = ins["a"] if what == "starts" else ins["b"]
            elif group and base == "UnionArray" and what in ("tags", "index"):
                ins = inst(group, base)
                v = ins["a"] if what == "tags" else ins["b"]
            elif group and what in ("offsets", "index", "mask", "parents", "ptr", "array", "fromptr"):
                if what == "fromptr":
                    ins = pools.pick("NumpyArray")
                else:
                    ins = inst(group, base)
                v = ins["a"]
            else:
                ins = pools.pick(rng.choice(["carry", "NumpyArray", "ListOffsetArray", "IndexedOptionArray", "reducer"]))
                v = ins["a"]
            v = list(v)
            if base_t == "bool":
                v = [1 if x else 0 for x in v]
            vals[a["name"]] = v
            arrlens.append(len(v))
            lens += [len(v), max(len(v) - 1, 0), ins.get("m", 0)]
        elif depth >= 2:
            vals[a["name"]] = "UNSUPPORTED"
    for a in args:
        if a["dir"] != "in":
            continue
        base_t, depth = parse_type(a["type"])
        if depth != 0:
            continue
        if base_t == "bool":
            vals[a["name"]] = rng.choice([False, True])
        elif base_t in ("float", "double"):
            vals[a["name"]] = float(rng.choice([0, 1, 2, -1]))
        else:
            nm = a["name"].lower()
            if arrlens and ("length" in nm or nm.startswith("len") or nm in ("n", "size")) and rng.random() < 0.8:
                # length-like scalars are tied to the extents of the arrays they bound (as every caller does);
                # the remaining 20% (and the guard pages) probe the boundary
                vals[a["name"]] = rng.choice(arrlens + [max(x - 1, 0) for x in arrlens])
            elif "length" in nm or nm.startswith("len"):
                # a length is never negative (precondition of every kernel; C and Python division differ below zero)
                vals[a["name"]] = rng.choice(lens) if rng.random() < 0.85 else rng.choice([4, 5, 7])
            else:
                vals[a["name"]] = rng.choice(lens) if rng.random() < 0.85 else rng.choice([-1, 4, 5, 7])
    return vals


# ------------------------------------------------------------------ running one kernel
def run_python(fn, args, vals):
    call = {}
    outs = {}
    for a in args:
        base_t, depth = parse_type(a["type"])
        if a["dir"] == "in":
            v = vals[a["name"]]
            call[a["name"]] = InList(v) if depth == 1 else v
        else:
            if depth != 1:
                raise OutOfContract("unsupported output kind")
            outs[a["name"]] = call[a["name"]] = OutList()
    import signal

    def _alarm(signum, frame):
        raise OutOfContract("definition does not terminate on this tuple")
    signal.signal(signal.SIGALRM, _alarm)
    signal.setitimer(signal.ITIMER_REAL, 1.0)
    try:
        try:
            fn(**call)
        finally:
            signal.setitimer(signal.ITIMER_REAL, 0)
        err = False
    except ValueError as e:
        # the definitions signal a kernel error with `raise ValueError("...")`; Python's own ValueErrors
        # (range() step 0, ...) mean that the tuple is outside the contract
        if "range()" in str(e) or "must not be zero" in str(e) or "math domain" in str(e):
            raise OutOfContract(str(e))
        err = True
    except OutOfContract:
        raise
    except (IndexError, KeyError, ZeroDivisionError, TypeError, OverflowError, AttributeError, NameError) as e:
        raise OutOfContract("definition faulted: %s: %s" % (type(e).__name__, e))
    return err, outs


def wrap_to(ctype_name, x):
    if ctype_name in ("float", "double"):
        return float(x)
    if ctype_name == "bool":
        return 1 if x else 0
    lo, hi = RANGE[ctype_name]
    x = int(x)
    span = hi - lo + 1
    return (x - lo) % span + lo


def run_compiled(lib, spec, vals, outs_py):
    """returns (error flag, {outname: [values over the python extent]}) or raises Skip"""
    fn = getattr(lib, spec["name"])
    fn.restype = Error
    cargs = []
    keep = []
    outbufs = {}
    for a in spec["args"]:
        base_t, depth = parse_type(a["type"])
        ct = CT[base_t]
        if a["dir"] == "in":
            v = vals[a["name"]]
            if depth == 1:
                if base_t in RANGE:
                    lo, hi = RANGE[base_t]
                    if any(int(x) < lo or int(x) > hi for x in v):
                        return None       # tuple not representable in this specialisation
                g = Guarded(ct, [ct(x).value if base_t not in ("float", "double") else float(x) for x in v])
                keep.append(g)
                cargs.append(g.ptr)
            else:
                if base_t in RANGE:
                    lo, hi = RANGE[base_t]
                    if int(v) < lo or int(v) > hi:
                        return None
                cargs.append(ct(v))
        else:
            n = outs_py[a["name"]].extent()
            g = Guarded(ct, [0] * n)
            keep.append(g)
            outbufs[a["name"]] = (g, base_t)
            cargs.append(g.ptr)
    res = fn(*cargs)
    err = res.str is not None
    return err, {k: g.values() for k, (g, t) in outbufs.items()}, {k: t for k, (g, t) in outbufs.items()}


def same(a, b):
    if isinstance(a, float) or isinstance(b, float):
        return (math.isnan(a) and math.isnan(b)) or a == b
    return int(a) == int(b)


def check_kernel(kernel, libpath, instances, seed, ntuples, journal):
    """runs in a worker process; returns a dict of stats and mismatches"""
    rng = random.Random(seed * 7919 + hash(kernel["name"]) % 100003)
    pools = Pools(instances, rng)
    out = {"kernel": kernel["name"], "specializations": len(kernel["specializations"]), "accepted": 0, "attempts": 0,
           "comparisons": 0, "mismatches": [], "skipped": None, "samples": []}
    fn, why = compile_definition(kernel)
    if fn is None:
        out["skipped"] = why
        return out
    lib = ctypes.CDLL(libpath)
    args0 = kernel["specializations"][0]["args"]
    if any(parse_type(a["type"])[1] >= 2 for a in args0):
        out["skipped"] = "pointer-to-pointer argument (not driven)"
        return out
    attempts = 0
    while out["accepted"] < ntuples and attempts < ntuples * 40:
        attempts += 1
        vals = make_tuple(args0, pools, rng)
        try:
            err_py, outs_py = run_python(fn, args0, vals)
        except OutOfContract:
            continue
        except Exception as e:
            out["skipped"] = "definition raised %s: %s" % (type(e).__name__, e)
            break
        out["accepted"] += 1
        if len(out["samples"]) < 1:
            out["samples"].append({"args": vals, "error": err_py})
        for spec in kernel["specializations"]:
            with open(journal, "w") as jf:
                json.dump({"kernel": spec["name"], "args": vals}, jf)
            r = run_compiled(lib, spec, vals, outs_py)
            if r is None:
                continue
            err_c, outs_c, types = r
            out["comparisons"] += 1
            bad = None
            if err_c != err_py:
                bad = "error status: compiled %s, definition %s" % (err_c, err_py)
            elif not err_py:
                for name, ol in outs_py.items():
                    for i, x in ol.w.items():
                        want = wrap_to(types[name], x)
                        got = outs_c[name][i]
                        if not same(got, want):
                            bad = "%s[%d]: compiled %r, definition %r" % (name, i, got, want)
                            break
                    if bad:
                        break
            if bad and len(out["mismatches"]) < 5:
                out["mismatches"].append({"specialization": spec["name"], "args": vals, "why": bad})
        # the reducers' floating-point specialisations additionally see NaN and +-infinity among the items (the Python
        # definition says what an unordered comparison does to the running result)
        fspecs = [sp for sp in kernel["specializations"]
                  if any(a["name"] == "fromptr" and a["dir"] == "in" and parse_type(a["type"])[0] in ("float", "double") for a in sp["args"])]
        if kernel["name"].startswith("awkward_reduce_") and fspecs and vals.get("fromptr") and out["accepted"] % 2 == 0:
            vals2 = dict(vals)
            data = [float(x) for x in vals["fromptr"]]
            for _ in range(rng.randint(1, 2)):
                data[rng.randrange(len(data))] = rng.choice([float("nan"), float("nan"), float("inf"), float("-inf")])
            vals2["fromptr"] = data
            try:
                err_py2, outs_py2 = run_python(fn, fspecs[0]["args"], vals2)
            except Exception:
                continue
            for spec in fspecs:
                r = run_compiled(lib, spec, vals2, outs_py2)
                if r is None:
                    continue
                err_c, outs_c, types = r
                out["comparisons"] += 1
                bad = None
                if err_c != err_py2:
                    bad = "error status: compiled %s, definition %s" % (err_c, err_py2)
                elif not err_py2:
                    for name, ol in outs_py2.items():
                        for i, x in ol.w.items():
                            want = wrap_to(types[name], x)
                            got = outs_c[name][i]
                            if not same(got, want):
                                bad = "%s[%d]: compiled %r, definition %r" % (name, i, got, want)
                                break
                        if bad:
                            break
                if bad and len(out["mismatches"]) < 5:
                    out["mismatches"].append({"specialization": spec["name"], "args": {k: (repr(v) if k == "fromptr" else v) for k, v in vals2.items()}, "why": bad})
    out["attempts"] = attempts
    return out


def _worker(job):
    kernel, libpath, instances, seed, ntuples, journal = job
    try:
        return check_kernel(kernel, libpath, instances, seed, ntuples, journal)
    except Exception:
        return {"kernel": kernel["name"], "skipped": "harness exception: " + traceback.format_exc()[-400:], "accepted": 0,
                "comparisons": 0, "mismatches": [], "specializations": len(kernel["specializations"]), "attempts": 0, "samples": []}


def run_all(libpath, instances, seed, ntuples, workdir, jobs=16, only=None, per_kernel_timeout=25):
    """each kernel in its own process (a guard-page hit kills only that process)"""
    import multiprocessing as mp
    import time
    kernels = [k for k in load_spec() if only is None or k["name"] in only]
    results = []
    ctx = mp.get_context("fork")
    pending = list(kernels)
    running = []
    os.makedirs(workdir, exist_ok=True)

    def start(k):
        journal = os.path.join(workdir, k["name"] + ".journal")
        rd, wr = ctx.Pipe(False)

        def target(conn, job):
            conn.send(_worker(job))
            conn.close()
        p = ctx.Process(target=target, args=(wr, (k, libpath, instances, seed, ntuples, journal)))
        p.start()
        return (k, p, rd, journal, time.time())

    import time
    while pending or running:
        while pending and len(running) < jobs:
            running.append(start(pending.pop()))
        still = []
        for k, p, rd, journal, t_start in running:
            got = None
            if time.time() - t_start > per_kernel_timeout and p.is_alive():
                p.kill()
                p.join(1)
                last = None
                try:
                    with open(journal) as jf:
                        last = json.load(jf)
                except Exception:
                    pass
                results.append({"kernel": k["name"], "timeout": "no result within %ds" % per_kernel_timeout, "last": last, "accepted": 0,
                                "comparisons": 0, "mismatches": [], "specializations": len(k["specializations"]), "skipped": None,
                                "attempts": 0, "samples": []})
                continue
            dead = False
            if rd.poll(0.01):
                try:
                    got = rd.recv()
                except EOFError:
                    dead = True
            if got is not None:
                results.append(got)
                p.join()
            elif dead or not p.is_alive():
                try:
                    got = rd.recv() if (not dead and rd.poll(0.05)) else None
                except EOFError:
                    got = None
                if got is not None:
                    results.append(got)
                else:
                    p.join(1)
                    last = None
                    try:
                        with open(journal) as jf:
                            last = json.load(jf)
                    except Exception:
                        pass
                    results.append({"kernel": k["name"], "crashed": "process died with exit code %s (guard page / crash)" % p.exitcode,
                                    "last": last, "accepted": 0, "comparisons": 0, "mismatches": [], "specializations": len(k["specializations"]),
                                    "skipped": None, "attempts": 0, "samples": []})
                p.join()
            else:
                still.append((k, p, rd, journal, t_start))
        running = still
        if os.environ.get("KERNELS_DEBUG"):
            sys.stderr.write("pending %d running %d done %d: %s\n" % (len(pending), len(running), len(results), [x[0]["name"][-30:] for x in running][:4]))
        time.sleep(0.01)
    return results
