"""Run TLC on a spec of /verif/spec with generated MC wrapper module + cfg; collect stats,
coverage and the JSON cases exported by the ACTION_CONSTRAINT Emit."""
import json
import os
import re
import shutil
import subprocess
import time

VERIF = os.path.dirname(os.path.dirname(os.path.dirname(os.path.abspath(__file__))))
SPEC = os.path.join(VERIF, "spec")
JAR = "/opt/veriftools/tla/tla2tools.jar"
CM = "/opt/veriftools/tla/CommunityModules-deps.jar"


def _classpath():
    jars = [JAR]
    d = os.path.dirname(JAR)
    for f in sorted(os.listdir(d)):
        if f.endswith(".jar") and os.path.join(d, f) != JAR:
            jars.append(os.path.join(d, f))
    return ":".join(jars)


class TLCResult(object):
    def __init__(self):
        self.ok = False
        self.states = 0
        self.distinct = 0
        self.transitions = 0
        self.depth = 0
        self.wall = 0.0
        self.cases_path = None
        self.ncases = 0
        self.violation = None      # text of an invariant violation / error
        self.coverage = {}         # action name -> (distinct, total)
        self.log = ""
        self.cmd = ""


def tla_set(pyset):
    return "{" + ", ".join(pyset) + "}"


def tla_str(s):
    return '"' + s + '"'


def tla_seq(items):
    return "<<" + ", ".join(items) + ">>"


def run_tlc(module, constants, workdir, invariants=(), properties=(), action_constraints=("Emit",),
            constraint=None, view="View", init="Init", next_="Next", spec=None, workers=16,
            simulate=None, depth=None, seed=None, timeout=1800, coverage=True,
            cases_name="cases.ndjson", extra_defs="", postcondition=None, deadlock=False,
            java_opts=(), env_extra=None, heap="8g"):
    """constants: dict name -> TLA+ expression text (defined in the MC module as operators)."""
    os.makedirs(workdir, exist_ok=True)
    mc = "MC_" + module
    lines = ["---- MODULE %s ----" % mc, "EXTENDS %s, TLC, Randomization" % module]
    cfg = []
    if spec:
        cfg.append("SPECIFICATION %s" % spec)
    else:
        cfg.append("INIT %s" % init)
        cfg.append("NEXT %s" % next_)
    cfg.append("CONSTANTS")
    for k, v in constants.items():
        lines.append("mc_%s == %s" % (k, v))          # k may carry parameters: "Allowed(h, c)"
        base = k.split("(")[0]
        cfg.append("  %s <- mc_%s" % (base, base))
    if extra_defs:
        lines.append(extra_defs)
    lines.append("====")
    for inv in invariants:
        cfg.append("INVARIANT %s" % inv)
    for p in properties:
        cfg.append("PROPERTY %s" % p)
    for a in action_constraints:
        cfg.append("ACTION_CONSTRAINT %s" % a)
    if constraint:
        cfg.append("CONSTRAINT %s" % constraint)
    if view:
        cfg.append("VIEW %s" % view)
    if postcondition:
        cfg.append("POSTCONDITION %s" % postcondition)
    cfg.append("CHECK_DEADLOCK %s" % ("TRUE" if deadlock else "FALSE"))
    # copy spec modules next to the MC module (TLC resolves EXTENDS relative to it)
    for f in os.listdir(SPEC):
        if f.endswith(".tla"):
            shutil.copy(os.path.join(SPEC, f), os.path.join(workdir, f))
    with open(os.path.join(workdir, mc + ".tla"), "w") as f:
        f.write("\n".join(lines) + "\n")
    with open(os.path.join(workdir, mc + ".cfg"), "w") as f:
        f.write("\n".join(cfg) + "\n")
    meta = os.path.join(workdir, "meta")
    shutil.rmtree(meta, ignore_errors=True)
    cmd = ["java", "-Xmx" + heap, "-Xss512m", "-XX:+UseParallelGC"] + list(java_opts) + [
        "-cp", _classpath(), "tlc2.TLC", "-workers", str(workers), "-metadir", meta,
        "-noGenerateSpecTE", "-config", mc + ".cfg"]
    if coverage and not simulate:
        cmd += ["-coverage", "1"]
    if simulate:
        cmd += ["-simulate", simulate]
    if depth:
        cmd += ["-depth", str(depth)]
    if seed is not None:
        cmd += ["-seed", str(seed)]
    cmd.append(mc + ".tla")
    res = TLCResult()
    res.cmd = " ".join(cmd)
    t0 = time.time()
    logp = os.path.join(workdir, "tlc.log")
    casesp = os.path.join(workdir, cases_name)
    env = dict(os.environ)
    if env_extra:
        env.update(env_extra)
    ncases = 0
    with open(logp, "w") as logf, open(casesp, "w") as casef:
        p = subprocess.Popen(cmd, cwd=workdir, stdout=subprocess.PIPE, stderr=subprocess.STDOUT,
                             env=env, text=True, errors="replace")
        try:
            buf = []
            for line in p.stdout:
                if line.startswith('<<"CASE", '):
                    # PrintT of <<"CASE", "json...">>: the JSON is a TLA+ string literal
                    ncases += _emit_case(line, casef)
                else:
                    logf.write(line)
                    buf.append(line)
                    if len(buf) > 20000:
                        buf = buf[-10000:]
                if time.time() - t0 > timeout:
                    p.kill()
                    buf.append("TIMEOUT after %ds\n" % timeout)
                    break
            p.wait()
        finally:
            if p.poll() is None:
                p.kill()
    res.wall = time.time() - t0
    res.log = "".join(buf)
    res.ncases = ncases
    res.cases_path = casesp
    _parse(res, p.returncode)
    shutil.rmtree(meta, ignore_errors=True)
    return res


def _emit_case(line, casef):
    # line looks like: <<"CASE", "{\"act\":...}">>
    m = re.match(r'^<<"CASE", "(.*)">>\s*$', line)
    if not m:
        return 0
    s = m.group(1)
    # un-escape the TLA+ string literal (backslash-escapes for quote and backslash)
    s = s.replace('\\"', '"').replace("\\\\", "\\")
    casef.write(s + "\n")
    return 1


def _parse(res, rc):
    log = res.log
    m = re.search(r"(\d+) states generated, (\d+) distinct states found", log)
    if m:
        res.states = int(m.group(1))
        res.distinct = int(m.group(2))
        res.transitions = int(m.group(1))
    m = re.search(r"The depth of the complete state graph search is (\d+)", log)
    if m:
        res.depth = int(m.group(1))
    for m in re.finditer(r"<(\w+) line \d+, col \d+ to line \d+, col \d+ of module (\w+)>: (\d+):(\d+)", log):
        res.coverage[m.group(1)] = (int(m.group(3)), int(m.group(4)))
    bad = None
    for pat in (r"Error: Invariant (\w+) is violated", r"Error: Action property (\w+) is violated",
                r"Error: Temporal properties were violated", r"Error: Evaluating",
                r"Error: The invariant of \w+ is equal to FALSE", r"Error: TLC threw", r"Error: Deadlock reached",
                r"Error: Assumption .* is false", r"Error: The following behavior constitutes a counter-example",
                r"Error: Postcondition", r"Parsing or semantic analysis failed", r"TIMEOUT after",
                r"Error: "):
        m = re.search(pat, log)
        if m:
            i = m.start()
            bad = log[i:i + 3000]
            break
    res.violation = bad
    finished = "Model checking completed. No error has been found." in log or \
        (rc == 0 and bad is None)
    res.ok = finished and bad is None
    return res


def load_cases(path):
    with open(path) as f:
        for line in f:
            line = line.strip()
            if line:
                yield json.loads(line)
