"""Common driver for the per-property checks: build, TLC design run + emission, replay into the
real library, trace validation, known-findings handling, evidence writing, verdict lines."""
import hashlib
import json
import os
import sys
import time
import traceback

HERE = os.path.dirname(os.path.abspath(__file__))
VERIF = os.path.dirname(os.path.dirname(HERE))
sys.path.insert(0, HERE)

import akbuild  # noqa: E402
import tlc      # noqa: E402
import replay   # noqa: E402

TRUSTED_BASE = [
    "TLC 1.8 + CommunityModules (Json)",
    "harness/worker/akworker*.cpp (marshalling veneer over the public C++ API)",
    "harness/rj/rapidjson (stand-in for the absent rapidjson submodule; only JSON parameters/forms/json io)",
    "g++ 12 / clang 14, Python 3 json module",
]


class MachineryError(Exception):
    pass


class Ctx(object):
    def __init__(self, prop, tier, seed, clean_replays=False):
        self.prop = prop
        self.tier = tier
        self.seed = seed
        self.t0 = time.time()
        self.workdir = os.path.join(akbuild.BUILD, "run", prop)
        os.makedirs(self.workdir, exist_ok=True)
        self.outroot = os.environ.get("VERIF_OUT", VERIF)      # mutant runs write evidence/replays elsewhere
        self.replaydir = os.path.join(self.outroot, "replays")
        os.makedirs(self.replaydir, exist_ok=True)
        if clean_replays:
            for f in os.listdir(self.replaydir):
                if f.startswith(prop + "-"):
                    os.unlink(os.path.join(self.replaydir, f))
        self.states = 0
        self.distinct_states = 0
        self.transitions = 0
        self.replayed = 0
        self.traces = 0
        self.trace_events = 0
        self.samples = []
        self.violations = []      # (replay path, summary)
        self.known_hits = {}      # finding id -> count
        self.phases = []
        self.coverage_actions = {}
        self.notes = []
        self.findings = load_findings(prop)
        self._built = {}

    def quick(self):
        return self.tier == "quick"

    # ---------------------------------------------------------------- build
    def build(self, variant="opt"):
        if variant not in self._built:
            self._built[variant] = akbuild.build(variant, quiet=False)
        return self._built[variant]

    # ---------------------------------------------------------------- TLC + replay
    def tlc_phase(self, name, module, consts, invariants=(), properties=(), replay_cases=True,
                  translate=("replay", "steps_for"), judge_fn=("replay", "judge"), variant="opt",
                  require_actions=(), timeout=1500, simulate=None, depth=None, worker_env=None,
                  max_cases=None, seed_tlc=False, record=None, sample_cases=None, **kw):
        only = os.environ.get("VERIF_ONLY_PHASES")          # development aid: run a subset of the phases
        if only and name not in only.split(","):
            return None
        wd = os.path.join(self.workdir, name)
        r = tlc.run_tlc(module, consts, wd, invariants=invariants, properties=properties,
                        timeout=timeout, simulate=simulate, depth=depth,
                        seed=(self.seed if (simulate or seed_tlc) else None), **kw)
        ph = {"phase": name, "module": module, "states": r.states, "distinct": r.distinct, "cases": r.ncases,
              "tlc_wall_s": round(r.wall, 1), "invariants": list(invariants), "properties": list(properties)}
        self.phases.append(ph)
        if not r.ok:
            sys.stderr.write(r.log[-4000:] + "\n")
            raise MachineryError("TLC phase %s failed: %s" % (name, (r.violation or "no completion")[:600]))
        for act in require_actions:
            if r.coverage.get(act, (0, 0))[1] == 0:
                raise MachineryError("vacuous: action %s never taken in phase %s" % (act, name))
        self.states += r.distinct
        self.transitions += r.states
        for k, v in r.coverage.items():
            self.coverage_actions[name + "." + k] = v[1]
        if r.ncases and getattr(r, "cases_path", None) and os.path.exists(r.cases_path):
            # TLC's 16 workers print the cases in a run-dependent order; everything downstream that depends on a case's
            # position (seeded choices of index widths / encodings, evenly spaced sampling) must not: canonical order
            import subprocess as _sp
            env = dict(os.environ, LC_ALL="C")
            rc = _sp.call(["sort", "-S", "3G", "--parallel=8", "-o", r.cases_path, r.cases_path], env=env)
            if rc != 0:
                raise MachineryError("could not sort the exported cases of phase %s" % name)
            ph["cases_sorted"] = True
        if replay_cases and r.ncases:
            built = self.build(variant)
            stats, fails = replay.replay_cases(built["worker"], r.cases_path, seed=self.seed, env=worker_env,
                                               translate=translate, judge_fn=judge_fn, max_cases=max_cases, sample_cases=sample_cases,
                                               record=(record + (r.cases_path,) if record else None))
            ph["replayed"] = stats["n"]
            ph["replay_ok"] = stats["ok"]
            ph["expected_errors"] = stats.get("err_expected", 0)
            self.replayed += stats["n"]
            self._take_samples(r.cases_path)
            for idx, case, wcase, res, why in fails:
                self.report(case, wcase, res, why, phase=name)
        return r

    def build_l2(self):
        if "l2" not in self._built:
            self._built["l2"] = akbuild.build_l2("opt", quiet=False)
        return self._built["l2"]

    def l2_phase(self, name, module, consts, handler, sample_cases=None, max_cases=None, reuse=None, **kw):
        """TLC exploration as in tlc_phase, but the cases are executed against the repository's Python layer (L2).
        `reuse`: the result of an earlier tlc_phase of this check whose exported cases (same case format, a superset of what
        this phase would enumerate) are replayed instead of running TLC a second time."""
        import l2replay
        only = os.environ.get("VERIF_ONLY_PHASES")
        if reuse is not None and reuse.ncases and not (only and name not in only.split(",")):
            r = reuse
            self.phases.append({"phase": name, "module": module, "cases": r.ncases, "cases_reused_from_phase": os.path.basename(os.path.dirname(r.cases_path))})
        else:
            r = self.tlc_phase(name, module, consts, replay_cases=False, **kw)
        if r is None or not r.ncases:
            return r
        built = self.build_l2()
        stats, fails = l2replay.replay_l2(built["l2_path"], r.cases_path, handler, seed=self.seed,
                                          sample_cases=sample_cases, max_cases=max_cases)
        ph = self.phases[-1]
        ph["replayed_l2"] = stats["n"]
        ph["replay_ok"] = stats["ok"]
        ph["unspecified_skipped"] = stats.get("unspec", 0)
        ph["expected_errors"] = stats.get("err_expected", 0)
        ph["numpy_cross_checked"] = stats.get("numpy_checked", 0)
        self.replayed += stats["n"]
        self._take_samples(r.cases_path)
        for idx, case, wcase, res, why in fails:
            self.report(case, wcase, res, why, phase=name)
        return r

    def numba_phase(self, name, module, consts, max_forms=None, max_cases_per_form=None, **kw):
        import l2numba
        r = self.tlc_phase(name, module, consts, replay_cases=False, **kw)
        if r is None or not r.ncases:
            return r
        built = self.build_l2()
        stats, fails = l2numba.replay_numba(built["l2_path"], r.cases_path, seed=self.seed, max_forms=max_forms,
                                            max_cases_per_form=max_cases_per_form)
        ph = self.phases[-1]
        ph.update({"replayed_l2_numba": stats["n"], "replay_ok": stats["ok"], "forms_compiled": stats["compiled_forms"],
                   "forms_total": stats["forms_total"], "refcount_checked": stats["refcount_checked"], "setitem_histories_checked": stats.get("setitem_checked", 0),
                   "expected_errors": stats["err_expected"], "unspecified_skipped": stats["unspec"]})
        self.replayed += stats["n"]
        self._take_samples(r.cases_path)
        for idx, case, wcase, res, why in fails:
            self.report(case, wcase, res, why, phase=name)
        return r

    def builder_trace_phase(self, name, ntraces, maxlen):
        """code -> spec: traces recorded from the real ArrayBuilder (seeded random driver) validated by TraceBuilder.tla,
        preceded by a binding self-test (a corrupted and a truncated trace must be rejected)."""
        import copy
        import traces as trmod
        only = os.environ.get("VERIF_ONLY_PHASES")
        if only and name not in only.split(","):
            return
        built = self.build("opt")
        trs, problems = trmod.record_builder_traces(built["worker"], self.seed * 7919 + 13, ntraces, maxlen)
        wd = os.path.join(self.workdir, name)
        # ---- binding self-test
        probe = [t for t in trs if len(t) >= 6 and all(e["ok"] == 1 for e in t[:6]) and any(e["cmd"]["c"] in ("int", "real", "null", "bool", "str") for e in t[:6])][:2]
        if len(probe) == 2:
            bad1 = copy.deepcopy(probe[0])
            k = max(i for i, e in enumerate(bad1[:6]) if e["cmd"]["c"] in ("int", "real", "null", "bool", "str"))
            bad1[k]["cmd"] = {"c": "int", "x": 424242}           # the log claims another value was appended
            bad2 = copy.deepcopy(probe[1])
            k2 = max(i for i, e in enumerate(bad2[:6]) if e["cmd"]["c"] in ("int", "real", "null", "bool", "str"))
            del bad2[k2]                                          # one call is missing from the log
            r, summary, rej = trmod.validate_builder_traces([bad1, bad2], os.path.join(wd, "selftest"))
            if not summary or summary[1] < 1:
                raise MachineryError("trace validation self-test: corrupted traces were accepted (%r)" % (summary,))
            self.notes.append("%s: binding self-test: %d of 2 corrupted traces rejected" % (name, summary[1]))
        r, summary, rej = trmod.validate_builder_traces(trs, wd)
        if not summary:
            sys.stderr.write(r.log[-3000:] + "\n")
            raise MachineryError("trace validation did not complete")
        self.traces += summary[0]
        self.trace_events += sum(len(t) for t in trs)
        self.phases.append({"phase": name, "module": "TraceBuilder", "traces": summary[0], "events": sum(len(t) for t in trs),
                            "rejected": summary[1], "tlc_wall_s": round(r.wall, 1)})
        if trs:
            self.samples.append({"trace_events": trs[0][:4]})
        for t, why in problems:
            self.report({"act": "builder-trace", "trace": t}, None, None, why, phase=name)
        for tid, line, why, detail in rej:
            self.report({"act": "builder-trace", "trace": trs[int(tid) - 1][:int(line)]}, None, None,
                        "trace rejected by Builder.tla at event %s: %s %s" % (line, why, detail[:200]), phase=name)

    def chain_phase(self, name, ntraces, maxops, variant="asan", ops=None, kinds=("value", "validity", "crash", "exception")):
        """code -> spec for the value operations: chains of real calls on real by-product layouts, every event validated
        by TraceSession.tla (AkValue's operators applied to the logged operand), preceded by a binding self-test.
        `ops`: the operations this property speaks about (events of other operations are recorded and validated all the same --
        they make the operands -- but a disagreement there belongs to another property's check); `kinds`: which kinds of
        disagreement this property speaks about."""
        import copy
        import traces as trmod
        only = os.environ.get("VERIF_ONLY_PHASES")
        if only and name not in only.split(","):
            return
        built = self.build(variant)
        trs, metas, problems = trmod.record_chains(built["worker"], self.seed * 104729 + sum(map(ord, self.prop)), ntraces, maxops,
                                                           leaf3d=(self.prop == "C08"))

        def mine(m, why):
            if ops is not None and m.get("act") not in ops and m.get("act") != "chain":
                return False
            kind = ("crash" if why.startswith("CRASH") else
                    "validity" if (why.startswith("result fails validity") or why.startswith("tojson raised")) else
                    "exception" if why.startswith("not an ordinary exception") else "value")
            return kind in kinds or why.startswith("harness")
        wd = os.path.join(self.workdir, name)
        # ---- binding self-test: a changed result and a dropped event must be rejected
        self._chain_selftest(name, trs, lambda bad, d: trmod.validate_chains(bad, d), os.path.join(wd, "selftest"))
        r, summary, rej = trmod.validate_chains(trs, wd)
        if not summary:
            sys.stderr.write(r.log[-3000:] + "\n")
            raise MachineryError("chain validation did not complete")
        nev = sum(len(t) for t in trs)
        self.traces += summary[0]
        self.trace_events += nev
        opcount = {}
        for t in trs:
            for e in t:
                opcount[e["op"]] = opcount.get(e["op"], 0) + 1
        self.phases.append({"phase": name, "module": "TraceSession", "traces": summary[0], "events": nev, "events_by_op": opcount, "reported_ops": sorted(ops) if ops else "all", "reported_kinds": list(kinds),
                            "rejected": summary[1], "problems_seen_without_spec": len(problems), "tlc_wall_s": round(r.wall, 1)})
        if trs:
            self.samples.append({"chain_events": [{"op": e["op"], "args": e["args"], "ok": e["ok"]} for e in trs[0][:4]]})
        # a chain in which the specification already rejected an earlier call is not examined any further: what follows
        # operates on a value the specification does not have
        first_rejected = {}
        for tid, line, why, detail in rej:
            m0 = metas[int(tid) - 1][int(line) - 1]
            if "_t" in m0:
                first_rejected[m0["_t"]] = min(first_rejected.get(m0["_t"], 10 ** 9), m0.get("_step", int(line)))
        for m, why in problems:
            if "_t" in m and first_rejected.get(m["_t"], 10 ** 9) < m.get("_step", 0):
                continue
            if mine(m, why):
                self.report(m, m.get("worker_case"), None, why, phase=name)
        for tid, line, why, detail in rej:
            m = metas[int(tid) - 1][int(line) - 1]
            ev = trs[int(tid) - 1][int(line) - 1]
            try:
                spec = json.loads(detail.replace('\\"', '"'))["spec"]
            except Exception:
                spec = {"ok": "?"}
            if why.startswith("events not linked"):
                text = "harness: " + why
            elif spec.get("ok") == 0:
                text = "spec: must raise; library returned %s" % m.get("lib")
            elif ev["ok"] == 0:
                text = "spec: value expected; library raised %s" % m.get("lib")
            else:
                text = "value differs: library %s" % m.get("lib")
            m = dict(m, spec=spec)
            if mine(m, text):
                self.report(m, None, None, text, phase=name)

    def _chain_selftest(self, name, trs, validate, workdir):
        """binding self-test of a chain phase: recorded traces are corrupted in two ways -- a logged result gets one more
        element; one call is deleted from the log -- and TLC must reject at least one of each kind (an operation the
        specification leaves unspecified accepts any result, so several candidates are corrupted)."""
        import copy
        probe = [t for t in trs if len(t) >= 3 and t[0]["ok"] == 1 and t[0]["out"].get("t") == "list"
                 and t[1]["ok"] == 1 and t[1]["out"] != t[1]["v"]][:8]
        if len(probe) < 2:
            self.notes.append("%s: binding self-test skipped (too few suitable traces)" % name)
            return
        bads = []
        for t in probe:
            b = copy.deepcopy(t[:1])
            b[0]["out"]["xs"] = b[0]["out"]["xs"] + [{"t": "int", "x": 424242}]       # the log claims one more element
            bads.append(b)
        for t in probe:
            b = copy.deepcopy(t)
            del b[1]                                                              # one call is missing from the log
            bads.append(b)
        r, summary, rej = validate(bads, workdir)
        tids = {int(x[0]) for x in rej}
        k1 = len([t for t in tids if t <= len(probe)])
        k2 = len([t for t in tids if t > len(probe)])
        if not summary or k1 < 1 or k2 < 1:
            raise MachineryError("%s: binding self-test: corrupted traces were accepted (%r; changed results rejected %d/%d, "
                                 "dropped calls rejected %d/%d)" % (name, summary, k1, len(probe), k2, len(probe)))
        self.notes.append("%s: binding self-test: %d/%d traces with a changed result and %d/%d traces with a dropped call rejected"
                          % (name, k1, len(probe), k2, len(probe)))

    def virtual_trace_phase(self, name, ntraces, maxlen=40):
        """code -> spec for C18: long random sessions on the C++ VirtualArray validated against the actions of Virtual.tla"""
        import copy
        import traces as trmod
        only = os.environ.get("VERIF_ONLY_PHASES")
        if only and name not in only.split(","):
            return
        built = self.build("opt")
        trs, problems = trmod.record_virtual_traces(built["worker"], self.seed * 611953 + 5, ntraces, maxlen)
        wd = os.path.join(self.workdir, name)
        # ---- binding self-test: one more generator call than happened / an answer that differed / a held entry that was not
        probe = [t for t in trs if len(t["events"]) >= 4][:6]
        bads = []
        for k, t in enumerate(probe):
            b = copy.deepcopy(t)
            ev = b["events"][min(2, len(b["events"]) - 1)]
            if k % 3 == 0:
                ev["delta"] += 1 if ev["o"]["op"] != "evict" else 0
                ev["held"] = 1 - ev["held"] if ev["o"]["op"] == "evict" else ev["held"]
            elif k % 3 == 1:
                ev["same"], ev["raised"] = 1 - ev["same"], 1 - ev["raised"]
            else:
                ev["held"] = 1 - ev["held"]
            bads.append(b)
        if bads:
            # one TLC run per corrupted session: a session is NOT accepted when TLC prints TRACE-REJECTED for it or cannot consume it
            # to its end (no TRACES-CHECKED line although the run completed: no step of TraceVirtual matches the corrupted event)
            nrej = 0
            for k, b in enumerate(bads):
                r, summary, rej = trmod.validate_virtual_traces([b], os.path.join(wd, "selftest"))
                if (summary and summary[1] >= 1) or (not summary and "Model checking completed" in r.log):
                    nrej += 1
            if nrej < max(1, len(bads) - 2):
                raise MachineryError("%s: binding self-test: corrupted sessions were accepted (%d of %d rejected)" % (name, nrej, len(bads)))
            self.notes.append("%s: binding self-test: %d of %d corrupted sessions rejected" % (name, nrej, len(bads)))
        r, summary, rej = trmod.validate_virtual_traces(trs, wd)
        if not summary:
            sys.stderr.write(r.log[-3000:] + "\n")
            raise MachineryError("virtual trace validation did not complete")
        nev = sum(len(t["events"]) for t in trs)
        self.traces += summary[0]
        self.trace_events += nev
        self.phases.append({"phase": name, "module": "TraceVirtual", "traces": summary[0], "events": nev, "rejected": summary[1],
                            "problems_seen_without_spec": len(problems), "tlc_wall_s": round(r.wall, 1)})
        if trs:
            self.samples.append({"virtual_session": {"cfg": trs[0]["cfg"], "events": trs[0]["events"][:4]}})
        for m, why in problems:
            self.report(m, m.get("worker_case"), None, why, phase=name)
        for tid, line, why, detail in rej:
            t = trs[int(tid) - 1]
            self.report({"act": "virtual-trace", "cfg": t["cfg"], "events": t["events"][:int(line)]}, None, None,
                        "session rejected by Virtual.tla at call %s (%s): %s" % (line, json.dumps(t["events"][int(line) - 1]), why), phase=name)

    def pychain_phase(self, name, ntraces, maxops, ops=None, kinds=("value", "validity", "crash", "exception")):
        """code -> spec for the repository's Python layer (L2): chains of high-level ak.* calls validated by TracePy.tla"""
        import copy
        import shutil
        import l2replay
        import l2chains
        only = os.environ.get("VERIF_ONLY_PHASES")
        if only and name not in only.split(","):
            return
        built = self.build_l2()
        wd = os.path.join(self.workdir, name)
        outdir = os.path.join(wd, "events")
        shutil.rmtree(outdir, ignore_errors=True)
        os.makedirs(outdir)
        cases = l2chains.gen_cases(self.seed * 15485863 + sum(map(ord, self.prop)), ntraces, maxops, outdir, focus=ops)
        cpath = os.path.join(wd, "pychain-cases.ndjson")
        with open(cpath, "w") as f:
            for c in cases:
                f.write(json.dumps(c) + "\n")
        stats, fails = l2replay.replay_l2(built["l2_path"], cpath, ("l2chains", "h_chain"), seed=self.seed, chunk=100)
        recs = l2chains.collect(outdir)
        trs = [r["events"] for r in recs if r["events"]]
        metas = [r["metas"] for r in recs if r["events"]]
        problems = [(m, why) for r in recs for m, why in r["problems"]]
        for idx, case, wcase, res, why in fails:           # harness exceptions and dead processes
            problems.append(({"act": "chain", "py": 1, "worker_case": case}, why))

        def mine(m, why):
            if ops is not None and m.get("act") not in ops and m.get("act") != "chain":
                return False
            kind = ("crash" if why.startswith("CRASH") else
                    "validity" if (why.startswith("result fails validity") or why.startswith("tojson raised")) else
                    "exception" if why.startswith("not an ordinary exception") else
                    "purity" if why.startswith("input modified") else "value")
            return kind in kinds or (kind == "purity" and "value" in kinds) or why.startswith("harness") or why.startswith("HARNESS")
        self._chain_selftest(name, trs, lambda bad, d: l2chains.validate(bad, d), os.path.join(wd, "selftest"))
        r, summary, rej = l2chains.validate(trs, wd)
        if not summary:
            sys.stderr.write(r.log[-3000:] + "\n")
            raise MachineryError("python-chain validation did not complete")
        nev = sum(len(t) for t in trs)
        self.traces += summary[0]
        self.trace_events += nev
        opcount = {}
        for t in trs:
            for e in t:
                opcount[e["op"]] = opcount.get(e["op"], 0) + 1
        self.phases.append({"phase": name, "module": "TracePy", "traces": summary[0], "events": nev, "events_by_op": opcount,
                            "reported_ops": sorted(ops) if ops else "all", "reported_kinds": list(kinds),
                            "rejected": summary[1], "problems_seen_without_spec": len(problems), "tlc_wall_s": round(r.wall, 1)})
        if trs:
            self.samples.append({"pychain_events": [{"op": e["op"], "args": e["args"], "ok": e["ok"]} for e in trs[0][:4]]})
        for m, why in problems:
            if mine(m, why):
                self.report(m, m.get("worker_case"), None, why, phase=name)
        for tid, line, why, detail in rej:
            m = metas[int(tid) - 1][int(line) - 1]
            ev = trs[int(tid) - 1][int(line) - 1]
            try:
                spec = json.loads(detail.replace('\\"', '"'))["spec"]
            except Exception:
                spec = {"ok": "?"}
            if why.startswith("events not linked"):
                text = "harness: " + why
            elif spec.get("ok") == 0:
                text = "spec: must raise; library returned %s" % m.get("lib")
            elif ev["ok"] == 0:
                text = "spec: value expected; library raised %s" % m.get("lib")
            else:
                text = "value differs: library %s" % m.get("lib")
            m = dict(m, spec=spec)
            if mine(m, text):
                self.report(m, None, None, text, phase=name)

    def _take_samples(self, path, k=2):
        if len(self.samples) >= 6:
            return
        with open(path) as f:
            for i, line in enumerate(f):
                if i in (0, 1000):
                    try:
                        self.samples.append(json.loads(line))
                    except Exception:
                        pass
                if i > 1000:
                    break

    # ---------------------------------------------------------------- verdict bookkeeping
    def report(self, case, wcase, res, why, phase=""):
        import re as _re
        m = _re.match(r"^\w+ via the Python layer: (.*)$", why, _re.S)
        mcase = dict(case, _wcase=wcase) if (wcase and isinstance(case, dict)) else case     # matchers may look at the physical encoding used
        fid = match_finding(self.findings, mcase, m.group(1) if m else why)
        if fid is not None:
            self.known_hits[fid] = self.known_hits.get(fid, 0) + 1
            return
        if len(self.violations) >= 50:
            self.violations.append((None, why))
            return
        blob = {"property": self.prop, "phase": phase, "why": why, "case": case, "worker_case": wcase,
                "observed": res, "seed": self.seed}
        h = hashlib.sha256(json.dumps(case, sort_keys=True).encode()).hexdigest()[:12]
        path = os.path.join(self.replaydir, "%s-%s.json" % (self.prop, h))
        with open(path, "w") as f:
            json.dump(blob, f, indent=1)
        self.violations.append((path, why))

    # ---------------------------------------------------------------- finish
    def finish(self, level="model_checking", rule="", assumptions=(), extra=None):
        wall = time.time() - self.t0
        nviol = len(self.violations)
        cov = {
            "states": max(self.distinct_states or self.states, 1),
            "transitions": max(self.transitions, 1),
            "traces_validated_against_impl": self.replayed + self.traces,
            "samples": self.samples[:6] or [{"note": "no cases exported"}],
            "evaluations": self.replayed + self.trace_events,
            "distinct_nontrivial": self.replayed + self.trace_events,
            "rule": rule or "every transition TLC explored is one distinct case (distinct (layout, action, arguments)); "
                            "all are non-trivial in that each exercises one public call on one layout",
            "spec_to_code_cases_replayed": self.replayed,
            "code_to_spec_traces": self.traces,
            "code_to_spec_events": self.trace_events,
            "phases": self.phases,
            "action_counts": self.coverage_actions,
            "known_findings_hit": self.known_hits,
            "trusted_base": TRUSTED_BASE,
            "notes": self.notes,
        }
        if extra:
            cov.update(extra)
        ev = {"property_id": self.prop, "tier": self.tier, "seed": self.seed, "level": level, "coverage": cov,
              "assumptions": list(assumptions) + ["small-scope hypothesis: bounds listed per phase",
                                                   "libawkward built from /repo's working tree with the rapidjson stand-in"],
              "wall_s": round(wall, 1), "violations": nviol}
        os.makedirs(os.path.join(self.outroot, "evidence"), exist_ok=True)
        with open(os.path.join(self.outroot, "evidence", self.prop + ".json"), "w") as f:
            json.dump(ev, f, indent=1)
        for f_ in self.findings:
            if f_.get("status") == "known" and self.known_hits.get(f_["id"], 0) > 0:
                print("KNOWN-FINDING: property=%s %s (%d cases)" % (self.prop, f_["what"], self.known_hits[f_["id"]]))
        if nviol:
            shown = 0
            for path, why in self.violations:
                if path and shown < 10:
                    print("VIOLATION property=%s replay=%s" % (self.prop, path))
                    print("  " + why[:300])
                    shown += 1
            print("%s: %d violation(s) in %.0fs" % (self.prop, nviol, wall))
            return 1
        print("%s: OK tier=%s states=%d transitions=%d replayed=%d traces=%d wall=%.0fs" % (
            self.prop, self.tier, self.states, self.transitions, self.replayed, self.traces, wall))
        return 0


def _take(it, n):
    for i, x in enumerate(it):
        if i >= n:
            return
        yield x


# ------------------------------------------------------------------ known findings
def load_findings(prop):
    p = os.path.join(VERIF, "known_findings.json")
    if not os.path.exists(p):
        return []
    with open(p) as f:
        allf = json.load(f)
    # development aid only (never set by a registered command): look at what a matcher hides, e.g. when testing a fix
    off = set(filter(None, os.environ.get("VERIF_DEV_WITHOUT_FINDINGS", "").split(",")))
    return [x for x in allf.get("findings", []) if prop in x.get("properties", [x.get("property")]) and x["id"] not in off]


def match_finding(findings, case, why):
    import findings as fmod
    for f in findings:
        if f.get("status") != "known":
            continue
        pred = getattr(fmod, f["matcher"], None)
        if pred is not None and pred(case, why):
            return f["id"]
    return None


def main(prop, run):
    import argparse
    ap = argparse.ArgumentParser()
    ap.add_argument("--tier", default=os.environ.get("VERIF_TIER", "quick"))
    ap.add_argument("--replay", default=None)
    args = ap.parse_args(sys.argv[2:] if len(sys.argv) > 1 and sys.argv[1] == prop else None)
    seed = int(os.environ.get("VERIF_SEED", "0") or 0)
    ctx = Ctx(prop, args.tier if args.tier in ("quick", "thorough") else "quick", seed, clean_replays=not args.replay)
    try:
        if args.replay:
            return replay_one(ctx, args.replay)
        rc = run(ctx)
        return rc
    except MachineryError as e:
        print("MACHINERY-FAILURE property=%s %s" % (prop, e))
        return 2
    except SystemExit:
        raise
    except Exception:
        traceback.print_exc()
        print("MACHINERY-FAILURE property=%s unexpected exception" % prop)
        return 2


def replay_chain_event(ctx, blob, path):
    """re-executes ONE recorded call of a code->spec chain (operand layout, operation, arguments) and validates it with TLC"""
    import traces as trmod
    case = blob["case"]
    wd = os.path.join(ctx.workdir, "replay-one")
    if case.get("py"):
        import l2replay
        import l2chains
        built = ctx.build_l2()
        outdir = os.path.join(wd, "events")
        import shutil
        shutil.rmtree(outdir, ignore_errors=True)
        os.makedirs(outdir)
        a = dict(case.get("args") or {})
        if case["act"] == "concat2":
            print("this call appended another random array that the replay file does not carry; rerun the check with the same VERIF_SEED")
            return 2
        c = {"act": "pychain", "id": 0, "layout": case["from"], "ops": [[case["act"], a]], "outdir": outdir}
        cpath = os.path.join(wd, "one.ndjson")
        with open(cpath, "w") as f:
            f.write(json.dumps(c) + "\n")
        stats, fails = l2replay.replay_l2(built["l2_path"], cpath, ("l2chains", "h_chain"), seed=ctx.seed, chunk=1)
        recs = l2chains.collect(outdir)
        for idx, cs, w, r, why in fails:
            print("VIOLATION property=%s replay=%s\n  %s" % (ctx.prop, path, why))
            return 1
        if recs and recs[0]["problems"]:
            print("VIOLATION property=%s replay=%s\n  %s" % (ctx.prop, path, recs[0]["problems"][0][1]))
            return 1
        trs = [r["events"] for r in recs if r["events"]]
        r, summary, rej = l2chains.validate(trs, wd)
    else:
        built = ctx.build("asan")
        st = trmod._worker_step(case["act"], case["args"])
        st.update({"src": "cur", "dst": "cur", "want": ["json", "type", "valid", "layout"]})
        steps = [{"op": "build", "dst": "cur", "layout": case["from"], "want": ["json", "type", "valid", "layout"]}, st]
        answers, crashes = replay.run_worker(built["worker"], [{"id": 0, "steps": steps}])
        if crashes:
            print("VIOLATION property=%s replay=%s\n  CRASH: %s" % (ctx.prop, path, crashes[0][1][:500]))
            return 1
        b, r0 = answers[0][0], answers[0][1]
        print(json.dumps(r0)[:1500])
        ev = {"op": case["act"], "args": case["args"], "v": trmod._tag(json.loads(b["json"])), "T": trmod.parse_type(b["type"])}
        if r0.get("ok") == 1:
            if r0.get("json_skipped"):
                print("VIOLATION property=%s replay=%s\n  result fails validity: %r" % (ctx.prop, path, r0.get("valid")))
                return 1
            ev.update(ok=1, out=trmod._tag(json.loads(r0["json"])))
        else:
            ev.update(ok=0, out={"t": "none"})
        r, summary, rej = trmod.validate_chains([[ev]], wd)
    if not summary:
        print("MACHINERY-FAILURE property=%s trace validation did not complete" % ctx.prop)
        return 2
    if rej:
        print("VIOLATION property=%s replay=%s\n  the call is rejected by the specification: %s" % (ctx.prop, path, rej[0][3][:600]))
        return 1
    print("replay conforms")
    return 0


def replay_one(ctx, path):
    with open(path) as f:
        blob = json.load(f)
    if isinstance(blob.get("case"), dict) and "chain" in blob["case"] and not (blob.get("worker_case") or {}).get("steps"):
        return replay_chain_event(ctx, blob, path)
    built = ctx.build("opt")
    answers, crashes = replay.run_worker(built["worker"], [blob["worker_case"]])
    print(json.dumps({"answers": answers, "crashes": crashes}, indent=1)[:6000])
    res = answers.get(blob["worker_case"]["id"])
    why = "CRASH" if crashes else replay.judge(blob["case"], res)
    if why:
        print("VIOLATION property=%s replay=%s" % (ctx.prop, path))
        print("  " + why)
        return 1
    print("replay conforms")
    return 0
