"""Code -> spec for the repository's PYTHON layer: seeded random chains of high-level calls (ak.*) executed over the
stand-in for awkward._ext, every call logged at its return (on the error path too) and validated by spec/TracePy.tla.
The handler runs inside l2replay's pool processes (crash isolation included); events go to a per-process side file."""
import json
import os
import random
import re

import replay
import tlc
import traces as trmod

AXIS_NONE = 77777
ORDINARY = (ValueError, TypeError, IndexError, KeyError, NotImplementedError, RuntimeError, AttributeError)
# (hist records the calls made)


# ------------------------------------------------------------------ generation (parent process)
_WEIGHTS = [("cartesian", 2), ("argcomb", 2), ("field", 2), ("withfield", 2), ("withfield_b", 3), ("rt", 5), ("ufunc", 3), ("addmasked", 4), ("filter", 3), ("num", 3),
            ("flatten", 5), ("localindex", 5), ("pad", 8), ("fillnone", 10), ("isnone", 8), ("mask", 7), ("singletons", 3), ("firsts", 3),
            ("comb", 3), ("reduce", 6), ("sort", 4), ("concatperm", 3), ("bcperm", 3), ("slice", 8), ("sortbyarg", 3), ("concat3", 4), ("like", 3), ("nantonum", 2), ("concat0", 2), ("concat2", 5), ("concat1", 3), ("zip", 3), ("unflatten", 3),
            ("same", 2), ("maysame", 2)]
_OPS = [name for name, w in _WEIGHTS for _ in range(w)]


_FOCUS_ONLY = {"withslot", "unzip"}        # drawn only by the checks that name them (the other checks' chains stay what they were)
_KIND_OF = {"argsort": "sort", "rt_buffers": "rt", "rt_pickle": "rt", "rt_arrow": "rt", "rt_json": "rt", "rt_iter": "rt"}


def _rand_op(rng, focus=None):
    kind = rng.choice(_OPS)
    if focus and rng.random() < 0.5:
        kind = rng.choice(focus)                    # the operations the calling check reports on, half of the time
    ax = rng.choice([-3, -2, -1, 0, 1, 2])
    if kind == "slice":
        nb = 99999

        def item():
            r = rng.random()
            if r < 0.25:
                return {"k": "at", "i": rng.randint(-3, 3)}
            if r < 0.7:
                return {"k": "range", "a": rng.choice([nb, -2, 0, 1, 2]), "b": rng.choice([nb, -1, 2, 4]), "s": rng.choice([nb, 1, 2, -1])}
            if r < 0.85:
                return {"k": "arr", "is": [rng.randint(-2, 2) for _ in range(rng.randint(0, 3))]}
            if r < 0.92:
                return {"k": "newaxis"}
            return {"k": "ellipsis"}
        # how an integer array is handed to __getitem__: NumPy array, Python list or ak.Array (three routes through the Python layer)
        return "slice", {"items": [item() for _ in range(rng.randint(1, 2))], "_how": rng.choice(["np", "list", "ak"])}
    if kind == "like":
        return "like", {"c": rng.choice([0, 1, 7])}
    if kind == "cartesian":
        return "cartesian", {"axis": 1}
    if kind == "argcomb":
        return "argcomb", {"axis": abs(ax), "n": rng.randint(1, 2), "repl": rng.randint(0, 1)}   # (documented: non-negative axis only)
    if kind == "field":
        return "field", {"key": rng.choice(["x", "y", "a", "b", "0", "1"])}
    if kind == "withfield":
        return "withfield", {"key": rng.choice(["x", "y", "a", "b"]), "new": rng.choice(["z", "x", "a"])}
    if kind == "withslot":
        return "withslot", {"slot": rng.choice([0, 0, 1, 1, 2]), "vals": [rng.randint(-2, 9) for _ in range(12)]}
    if kind == "withfield_b":
        return "withfield_b", {"new": rng.choice(["z", "x", "y"]), "vals": [rng.randint(-2, 9) for _ in range(12)]}
    if kind == "rt":
        return rng.choice(["rt_buffers", "rt_pickle", "rt_arrow", "rt_json", "rt_iter"]), {}
    if kind == "ufunc":
        return "ufunc", {"mul": rng.randint(0, 1)}
    if kind == "addmasked":
        return "addmasked", {"m": [rng.randint(0, 1) for _ in range(12)], "vw": rng.randint(0, 1)}
    if kind == "filter":
        return "filter", {"k": rng.choice([-1, 0, 2, 4])}
    if kind in ("num", "localindex", "isnone"):
        return kind, {"axis": ax}
    if kind == "flatten":
        return "flatten", {"axis": rng.choice([ax, ax, AXIS_NONE])}
    if kind == "pad":
        return "pad", {"axis": ax, "target": rng.randint(0, 3), "clip": rng.randint(0, 1)}
    if kind == "fillnone":
        return "fillnone", {"axis": rng.choice([ax, ax, AXIS_NONE]), "val": 0}        # val is chosen at run time from the leaf type
    if kind == "mask":
        return "mask", {"m": [rng.randint(0, 1) for _ in range(12)], "vw": rng.randint(0, 1)}    # cut to the length at run time
    if kind == "comb":
        return "comb", {"axis": ax, "n": rng.randint(1, 2), "repl": rng.randint(0, 1)}
    if kind == "reduce":
        return "reduce", {"reducer": rng.choice(["count", "sum", "any", "all", "min", "max", "argmin", "argmax", "count_nonzero"]),
                          "axis": rng.choice([ax, ax, ax, AXIS_NONE]), "mask": 1, "keepdims": rng.randint(0, 1)}
    if kind == "sort":
        return rng.choice(["sort", "argsort"]), {"axis": ax, "asc": rng.randint(0, 1), "stable": 1}
    if kind == "same":
        return "same", {"o": rng.choice(["packed", "copy", "astype_f8", "layout", "getall"])}
    if kind == "maysame":
        return "maysame", {"o": rng.choice(["to_regular", "from_regular"])}
    if kind == "concat3":
        # [x, other, x]: three operands in ONE mergemany; the middle one is, half of the time, fixed-size lists over a content
        # that is longer than length * size (unreachable tail)
        if rng.random() < 0.5:
            size = rng.choice([2, 3])
            n = rng.choice([k for k in range(2, 10) if k % size])
            other = {"c": "Regular", "size": size, "zl": 0, "x": trmod._rand_leaf(rng, n)}
        else:
            other, _n = trmod._rand_layout(rng, rng.randint(0, 2), allow_union=False)
        return "concat3", {"other": other}
    if kind == "concat2":
        other, _n = trmod._rand_layout(rng, rng.randint(0, 2), allow_union=False)
        return "concat2", {"other": other}
    return kind, {}                     # singletons, firsts, concatperm, bcperm, concat0, concat1, zip, unflatten


def _slots_by_name(e):
    if isinstance(e, tuple):
        return {str(i): x for i, x in enumerate(e)}
    if isinstance(e, dict):
        return {k: e[k] for k in sorted(e)}
    return e


def _maxabs(x):
    if isinstance(x, (list, tuple)):
        return max([_maxabs(e) for e in x] or [0])
    if isinstance(x, dict):
        return max([_maxabs(e) for e in x.values()] or [0])
    if isinstance(x, (int, float)) and not isinstance(x, bool) and x == x and abs(x) != float("inf"):
        return abs(int(x))
    return 0


def gen_cases(seed, n, maxops, outdir, focus=None):
    rng = random.Random(seed)
    known = set(name for name, w in _WEIGHTS) | _FOCUS_ONLY
    focus = sorted(set(_KIND_OF.get(o, o) for o in (focus or ())) & known)
    records = bool(set(focus) & {"field", "withfield", "withfield_b", "zip", "bcperm", "concatperm"})
    structural = bool(set(focus) & {"num", "flatten", "localindex"})
    cases = []
    for t in range(n):
        if structural and rng.random() < 0.15:
            L, _n = trmod._rand_overlong_record_layout(rng)      # every field longer than the record array, lists of lists inside
        elif records and rng.random() < 0.5:
            L, _n = trmod._rand_record_layout(rng, 2, True)      # records in the middle: lists, fixed-size lists, options above
        else:
            L, _n = trmod._rand_layout(rng, rng.randint(1, 3), allow_union=True)
        ops = [_rand_op(rng, focus) for _ in range(rng.randint(2, maxops))]
        cases.append({"act": "pychain", "id": t, "layout": L, "ops": ops, "outdir": outdir})
    return cases


# ------------------------------------------------------------------ execution (pool process)
def _fix(n):
    if n.get("c") == "Numpy" and "shape" not in n:
        n["shape"] = [len(n["d"])]
    if "x" in n:
        _fix(n["x"])
    for x in n.get("xs", []):
        _fix(x)
    return n


def _elem_type(ak, arr):
    s = str(ak.type(arr))
    m = re.match(r"^\d+ \* (.*)$", s, re.S)
    return m.group(1) if m else None


# operations that only move values around: integers beyond TLC's 32 bits travel through them as opaque tokens
MOVE_OPS = {"concat0", "concat2", "concat3", "concatperm", "same", "rt_buffers", "rt_pickle", "rt_arrow", "rt_json", "rt_iter", "bcperm"}


def _rekey(w, T):
    """records of the appended array written in the field order of the first array's records when both have the same
    field names: the merged array keeps the FIRST operand's order; which order it is, is not part of any property"""
    order = []

    def find(U):
        if isinstance(U, dict):
            if U.get("k") == "rec" and not order:
                order.extend(U.get("ks", []))
            for v in U.values():
                find(v)
        elif isinstance(U, list):
            for v in U:
                find(v)
    find(T)

    def go(e):
        if e.get("t") == "list":
            return {"t": "list", "xs": [go(x) for x in e["xs"]]}
        if e.get("t") == "rec":
            vs = [go(x) for x in e["vs"]]
            if order and sorted(order) == sorted(e["ks"]) and list(order) != list(e["ks"]):
                pos = {k: i for i, k in enumerate(e["ks"])}
                return {"t": "rec", "ks": list(order), "vs": [vs[pos[k]] for k in order]}
            return {"t": "rec", "ks": e["ks"], "vs": vs}
        return e
    return go(w) if order else w


def _leaf_is_bool(T):
    while T.get("k") in ("var", "reg", "opt"):
        T = T["x"]
    return T.get("k") == "num" and T.get("dt") == "bool"


def _call(ak, np, op, a, A):
    if op == "slice":
        nb = 99999

        def conv(it):
            if it["k"] == "at":
                return it["i"]
            if it["k"] == "range":
                return slice(*[None if it[q] == nb else it[q] for q in ("a", "b", "s")])
            if it["k"] == "arr":
                arr = np.array(it["is"], dtype=np.int64)
                if a.get("_how") == "list" and len(it["is"]):
                    return list(it["is"])
                return ak.Array(arr) if a.get("_how") == "ak" else arr
            return np.newaxis if it["k"] == "newaxis" else Ellipsis
        items = [conv(it) for it in a["items"]]
        return A[items[0]] if len(items) == 1 else A[tuple(items)]
    if op == "like":
        return {0: ak.zeros_like, 1: ak.ones_like}[a["c"]](A) if a["c"] in (0, 1) else ak.full_like(A, a["c"])
    if op == "nantonum":
        return ak.nan_to_num(A)
    if op == "sortbyarg":
        return A[ak.argsort(A, axis=1)]
    if op == "num":
        return ak.num(A, axis=a["axis"])
    if op == "flatten":
        return ak.flatten(A, axis=None if a["axis"] == AXIS_NONE else a["axis"])
    if op == "localindex":
        return ak.local_index(A, axis=a["axis"])
    if op == "pad":
        return ak.pad_none(A, a["target"], axis=a["axis"], clip=bool(a["clip"]))
    if op == "fillnone":
        v = a["val"]["x"]
        return ak.fill_none(A, bool(v) if a.get("_bool") else v, axis=None if a["axis"] == AXIS_NONE else a["axis"])
    if op == "isnone":
        return ak.is_none(A, axis=a["axis"])
    if op == "mask":
        return ak.mask(A, np.array(a["m"], dtype=np.bool_), valid_when=bool(a["vw"]))
    if op == "singletons":
        return ak.singletons(A)
    if op == "firsts":
        return ak.firsts(A, axis=1)
    if op == "comb":
        return ak.combinations(A, a["n"], replacement=bool(a["repl"]), axis=a["axis"])
    if op == "reduce":
        f = {"count": ak.count, "count_nonzero": ak.count_nonzero, "sum": ak.sum, "prod": ak.prod, "any": ak.any, "all": ak.all,
             "min": ak.min, "max": ak.max, "argmin": ak.argmin, "argmax": ak.argmax}[a["reducer"]]
        if a["axis"] == AXIS_NONE:
            return f(A, axis=None)
        return f(A, axis=a["axis"], keepdims=bool(a["keepdims"]), mask_identity=bool(a["mask"]))
    if op in ("sort", "argsort"):
        f = ak.sort if op == "sort" else ak.argsort
        return f(A, axis=a["axis"], ascending=bool(a["asc"]), stable=bool(a["stable"]))
    if op == "concat2":
        return ak.concatenate([A, a["_B"]], axis=0)
    if op == "concat3":
        return ak.concatenate([A, a["_B"], A], axis=0)
    if op == "concatperm":
        keys = ak.fields(A)
        return ak.concatenate([A, A[keys[::-1]]], axis=0)
    if op == "bcperm":
        # the same records with the fields declared in the opposite order: broadcasting pairs fields by NAME
        keys = ak.fields(A)
        return ak.broadcast_arrays(A, A[keys[::-1]])[1][keys]
    if op == "concat0":
        return ak.concatenate([A, A], axis=0)
    if op == "concat1":
        return ak.concatenate([A, A], axis=1)
    if op == "zip":
        return ak.zip({"a": A, "b": A})
    if op == "unflatten":
        return ak.unflatten(ak.flatten(A, axis=1), ak.num(A, axis=1))
    if op == "cartesian":
        return ak.cartesian([A, A], axis=1)
    if op == "argcomb":
        return ak.argcombinations(A, a["n"], replacement=bool(a["repl"]), axis=a["axis"])
    if op == "field":
        return A[a["key"]]
    if op == "withfield_b":
        return ak.with_field(A, ak.Array(a["vals"]) if len(a["vals"]) else ak.Array(np.array([], dtype=np.int64)), a["new"])
    if op == "withfield":
        return ak.with_field(A, A[a["key"]], a["new"])
    if op == "unzip":
        # unzip(zip(fields)) returns the original fields (both fields are x itself: equal structure)
        fa, fb = ak.unzip(ak.zip({"a": A, "b": A}))
        return [ak.to_list(fa), ak.to_list(fb)]
    if op == "withslot":
        # overwrite an EXISTING slot of a tuple: 3-tuples (x, x, x) per element, slot `slot` := vals[i]
        Z = ak.zip((A, A, A), depth_limit=1)
        V = ak.Array(a["vals"]) if len(a["vals"]) else ak.Array(np.array([], dtype=np.int64))
        return ak.with_field(Z, V, str(a["slot"]))
    if op == "ufunc":
        return (A * 2 + 1) if a["mul"] else (A + A)
    if op == "addmasked":
        return A + ak.mask(A, np.array(a["m"], dtype=np.bool_), valid_when=bool(a["vw"]))
    if op == "filter":
        return A[A > a["k"]]
    if op == "rt_buffers":
        form, length, container = ak.to_buffers(A)
        return ak.from_buffers(form, length, container)
    if op == "rt_pickle":
        import pickle
        return pickle.loads(pickle.dumps(A, protocol=pickle.HIGHEST_PROTOCOL))
    if op == "rt_arrow":
        return ak.from_arrow(ak.to_arrow(A, allow_tensor=False))      # (pyarrow.Tensor's API drifted away from this version)
    if op == "rt_json":
        return ak.from_json(ak.to_json(A))
    if op == "rt_iter":
        return ak.from_iter(ak.to_list(A))
    if op == "same":
        return {"packed": ak.packed, "copy": ak.copy, "astype_f8": lambda x: ak.values_astype(x, np.float64),
                "layout": lambda x: ak.Array(ak.to_layout(x)), "getall": lambda x: x[:]}[a["o"]](A)
    if op == "maysame":
        return (ak.to_regular if a["o"] == "to_regular" else ak.from_regular)(A, axis=1)
    raise KeyError(op)


def h_chain(case, pick, st, stats):
    """executes one chain; appends {"id", "events", "metas", "problems"} to the side file; never judges by itself"""
    ak, np, ext = st["ak"], st["np"], st["ext"]
    rec = {"id": case["id"], "events": [], "metas": [], "problems": []}
    try:
        A = ak.Array(ext._box(_fix(json.loads(json.dumps(case["layout"])))))
        if not ak.is_valid(A):
            rec["problems"].append([{"act": "pychain"}, "harness: driver built an invalid layout: %s" % ak.validity_error(A)])
            A = None
    except Exception as e:
        rec["problems"].append([{"act": "pychain"}, "harness: layout not built: %r" % (e,)])
        A = None
    hist = []
    for op, a in (case["ops"] if A is not None else []):
        a = dict(a)
        hist.append(op)
        try:
            cur_list = ak.to_list(A)
            ty = _elem_type(ak, A)
        except Exception as e:
            if rec["metas"]:
                rec["problems"].append([rec["metas"][-1], "tojson raised: reading the result: %s" % (str(e).split("\n")[0][:200],)])
            break
        if ty is None or "unknown" in ty or len(ty) > 1200:
            break                                    # (a union of dozens of record types, from zipping unions repeatedly, is beyond the int8 tags: the chain stops)
        try:
            big_ok = op in MOVE_OPS
            ev = {"op": op, "v": trmod._tag(cur_list, big_ok), "T": trmod.parse_type(ty)}
        except (ValueError, TypeError, AssertionError, AttributeError):
            break                                    # outside the model's domain (strings, unions, big numbers): the chain stops
        if op in ("field", "withfield") and ('"%s":' % a["key"] not in ty and not (a["key"].isdigit() and "(" in ty)):
            continue                                 # no such field anywhere in the type: a different question (KeyError)
        if op == "sortbyarg" and not re.match(r"^var \* [a-z0-9]+$", ty):
            continue                                 # the law is stated for lists of numbers only
        if op == "like" and a["c"] == 7 and "bool" in ty:
            continue                                 # full_like(x, 7) of booleans is True: not the constant the law names
        if op == "bcperm" and not (len(ak.fields(A)) >= 2 and not ak.fields(A)[0].isdigit()):
            continue                                 # needs named records with two or more fields somewhere below the top
        if op == "concatperm" and not (ty.startswith("{") and len(ak.fields(A)) >= 2):
            continue                                 # needs named records with two or more fields at the top
        if op == "rt_arrow" and "union" in ty:
            continue                                 # Arrow unions: pyarrow's union API drifted away from this version (not judged, as in C16's own phases)
        if op in ("concat2", "concat3"):
            try:
                B = ak.Array(ext._box(_fix(json.loads(json.dumps(a.pop("other"))))))
                if not ak.is_valid(B):
                    continue
                a["w"] = trmod._tag(ak.to_list(B), True)
                if _rekey(a["w"], ev["T"]) != a["w"]:
                    continue                         # same field names in another order: which order the result shows is nobody's promise (concatperm asks the by-name question)
                a["_B"] = B
            except (ValueError, TypeError):
                continue
        if op == "withfield_b":
            if '"x":' not in ty and '"a":' not in ty:
                continue                             # no named records anywhere: a different question
            a["vals"] = (a["vals"] * 4)[:len(cur_list)]
        if op == "withslot":
            a["vals"] = (a["vals"] * 4)[:len(cur_list)]
        if op in ("mask", "addmasked"):
            a["m"] = (a["m"] * 3)[:len(cur_list)]
        if op == "fillnone":
            isb = _leaf_is_bool(ev["T"])
            a["val"] = {"t": "int", "x": 1 if isb else 77}
            a["_bool"] = 1 if isb else 0
        if op == "reduce" and a["reducer"] in ("sum", "prod") and trmod._magnitude(cur_list) >= 2 ** 30:
            break
        if op in ("ufunc", "addmasked"):
            # the model's arithmetic is exact: 2*x+1 / x+x must neither leave TLC's 32-bit integers nor wrap at the leaf's own width
            small = 63 if re.search(r"\bu?int8\b", ty) else (16000 if re.search(r"\bu?int16\b", ty) else 2 ** 29)
            if _maxabs(cur_list) > small:
                break
        ev["args"] = {k: v for k, v in a.items() if not k.startswith("_")}
        meta = {"act": op, "args": ev["args"], "from": A.layout._ljson(), "fromty": ty, "chain": list(hist), "py": 1}
        def impure():
            try:
                return ak.to_list(A) != cur_list
            except Exception:
                return True
        try:
            out = _call(ak, np, op, a, A)
        except ORDINARY as e:
            if impure():
                rec["problems"].append([meta, "input modified by the operation: the operand reads %s afterwards" % json.dumps(ak.to_list(A))[:200]])
                break
            ev.update(ok=0, out={"t": "none"})
            meta["lib"] = "%s: %s" % (type(e).__name__, str(e).split("\n")[0][:200])
            rec["events"].append(ev)
            rec["metas"].append(meta)
            continue
        except OverflowError as e:
            if "int8" in str(e):
                break            # more than 127 members in a union (zipping unions repeatedly): beyond the int8 tags; the chain stops
            rec["problems"].append([meta, "not an ordinary exception: %s: %s" % (type(e).__name__, str(e)[:200])])
            break
        except Exception as e:
            rec["problems"].append([meta, "not an ordinary exception: %s: %s" % (type(e).__name__, str(e)[:200])])
            break
        if impure():
            rec["problems"].append([meta, "input modified by the operation: the operand reads %s afterwards" % json.dumps(ak.to_list(A))[:200]])
            break
        if isinstance(out, ak.Array):
            try:
                verr = ak.validity_error(out)
            except Exception as e:
                verr = "validity_error raised %r" % (e,)
            if verr:
                rec["problems"].append([meta, "result fails validity: %r" % (verr,)])
                break
            try:
                outl = ak.to_list(out)
            except Exception as e:
                rec["problems"].append([meta, "tojson raised: to_list: %r" % (e,)])
                break
        elif isinstance(out, ak.Record):
            try:
                outl = ak.to_list(out)
            except Exception as e:
                rec["problems"].append([meta, "tojson raised: to_list: %r" % (e,)])
                break
        elif isinstance(out, np.ndarray):
            outl = out.tolist()
        elif isinstance(out, (np.generic,)):
            outl = out.item()
        else:
            outl = out
        try:
            if len(json.dumps(outl)) > trmod.MAX_VALUE_JSON:
                break                                    # combinatorial blow-up: the chain stops before TLC's JSON reader does
            if op == "withslot":
                outl = [_slots_by_name(e) for e in outl]   # a tuple or a record whose fields are named by slot number, in slot order
            ev.update(ok=1, out=trmod._tag(outl, op in MOVE_OPS))
        except (ValueError, TypeError):
            break
        meta["lib"] = json.dumps(outl)[:400]
        rec["events"].append(ev)
        rec["metas"].append(meta)
        if not isinstance(out, ak.Array) or len(out) > 40 or op == "withslot":
            break
        A = out
    with open(os.path.join(case["outdir"], "ev-%d.ndjson" % os.getpid()), "a") as f:
        f.write(json.dumps(rec) + "\n")
    stats["ok"] += 0
    return None


# ------------------------------------------------------------------ validation (parent process)
def collect(outdir):
    recs = {}
    for fn in os.listdir(outdir):
        if fn.startswith("ev-"):
            with open(os.path.join(outdir, fn)) as f:
                for line in f:
                    try:
                        r = json.loads(line)
                    except ValueError:
                        continue          # a process that died mid-write; its chain is re-run (and reported) by the isolation
                    recs[r["id"]] = r
    return [recs[k] for k in sorted(recs)]


def validate(trs, workdir, timeout=1500):
    return trmod.validate_batched("TracePy", {}, "PInit", "PNext", trs, workdir, "pychains.ndjson", timeout=timeout)
