"""C20: access programs of AkNumba.tla compiled by Numba (through /repo's _connect/_numba lowering, running over the L2
stand-in) against the specification's values.  Cases are grouped by FORM (node classes, widths, dtypes): Numba compiles
each program once per array type, so one pool task handles all cases of one form."""
import json
import os
import sys
import traceback
import zlib
from concurrent.futures import ProcessPoolExecutor
from concurrent.futures.process import BrokenProcessPool

import replay
import l2replay

_NB = {}


def _init(l2_path):
    l2replay._init(l2_path)
    _adapt()


def _adapt():
    import warnings
    warnings.filterwarnings("ignore")
    import numba
    import numba.core.cgutils as cg
    from llvmlite import ir
    orig = cg.pointer_add

    def pointer_add(builder, ptr, offset, return_type=None):
        # environment adaptation (DESIGN.md 5/C20): the 2021 lowering passes INTEGER base addresses; since the opaque-pointer
        # transition numba's pointer_add bitcasts instead of add + inttoptr
        if isinstance(ptr.type, ir.IntType):
            if isinstance(offset, int):
                offset = ptr.type(offset)
            elif offset.type != ptr.type:
                offset = builder.sext(offset, ptr.type) if offset.type.width < ptr.type.width else builder.trunc(offset, ptr.type)
            return builder.inttoptr(builder.add(ptr, offset), return_type or cg.voidptr_t)
        return orig(builder, ptr, offset, return_type)
    cg.pointer_add = pointer_add
    import llvmlite
    if not hasattr(llvmlite, "llvmpy"):
        # environment adaptation: the 2021 lowering of ArrayBuilder.field("x") / begin_record("name") spells the i8* type through
        # llvmlite.llvmpy.core, which llvmlite has since dropped; the same two constructors over llvmlite.ir
        import types as _types
        llvmlite.llvmpy = _types.SimpleNamespace(core=_types.SimpleNamespace(Type=_types.SimpleNamespace(
            pointer=lambda t: ir.PointerType(t), int=lambda n=32: ir.IntType(n))))
    ak = l2replay._STATE["ak"]
    ak._connect._numba.register_and_check()
    np = l2replay._STATE["np"]
    njit = numba.njit

    @njit
    def p_len(x):
        return len(x)

    @njit
    def p_at(x, i):
        return x[i]

    @njit
    def p_range(x, i, j):
        return x[i:j]

    @njit
    def p_range_open(x, i):
        return x[i:]

    @njit
    def p_range_at(x, i, j):
        return x[i:][j]

    @njit
    def p_iter_count(x):
        n = 0
        for e in x:
            n += 1
        return n

    @njit
    def p_at_at(x, i, j):
        return x[i][j]

    @njit
    def p_at_len(x, i):
        return len(x[i])

    @njit
    def p_at_range(x, i, j):
        return x[i][j:]

    @njit
    def p_sum1(x):
        out = 0
        for v in x:
            out += v
        return out

    @njit
    def p_sum1opt(x):
        out = 0
        for v in x:
            if v is not None:
                out += v
        return out

    @njit
    def p_sum2(x):
        out = 0
        for sub in x:
            for v in sub:
                out += v
        return out

    @njit
    def p_sum2opt(x):
        out = 0
        for sub in x:
            for v in sub:
                if v is not None:
                    out += v
        return out

    @njit
    def p_asarray(x):
        return np.asarray(x)

    @njit
    def p_field_x(x):
        return x.x

    @njit
    def p_at_field_x(x, i):
        return x[i].x

    @njit
    def p_field_x_at(x, i):
        return x.x[i]

    @njit
    def p_builder_cmds(b, codes, args):
        # the ArrayBuilder command alphabet of Builder.tla, interpreted inside compiled code
        for k in range(len(codes)):
            c = codes[k]
            if c == 0:
                b.null()
            elif c == 1:
                b.integer(args[k])
            elif c == 2:
                b.real(args[k] / 2.0)
            elif c == 3:
                b.boolean(args[k] != 0)
            elif c == 4:
                b.begin_list()
            elif c == 5:
                b.end_list()
            elif c == 6:
                b.begin_tuple(args[k])
            elif c == 7:
                b.index(args[k])
            elif c == 8:
                b.end_tuple()
            elif c == 9:
                b.begin_record()
            elif c == 10:
                b.field("x")
            elif c == 11:
                b.field("y")
            elif c == 12:
                b.end_record()
            elif c == 13:
                b.begin_record("P")
        return len(b)

    _NB.update(locals())


def form_key(L):
    c = L["c"]
    if c == "Numpy":
        return "N(%s)" % L.get("dt")
    if c == "Empty":
        return "E"
    if c == "Str":
        return "S%d" % L.get("bs", 0)
    if c == "Regular":
        return "R%d(%s)" % (L["size"], form_key(L["x"]))
    if c in ("Record", "Union"):
        return "%s%s[%s]" % (c[0:3], ",".join(L.get("names", [])), ";".join(form_key(x) for x in L["xs"]))
    extra = ""
    if c == "ByteMasked":
        extra = str(L["vw"])
    if c == "BitMasked":
        extra = "%d%d" % (L["vw"], L["lsb"])
    return "%s%s(%s)" % (c, extra, form_key(L["x"]))


def _group_task(args):
    path, offsets, seed, fkey = args
    ak, np = l2replay._STATE["ak"], l2replay._STATE["np"]
    stats = {"n": 0, "ok": 0, "unspec": 0, "err_expected": 0, "compiled_forms": 1, "refcount_checked": 0}
    fails = []
    pick_seed = zlib.crc32(fkey.encode()) + seed
    with open(path, "rb") as f:
        for off, idx in offsets:
            f.seek(off)
            case = json.loads(f.readline())
            stats["n"] += 1
            try:
                why = _run_case(case, replay.Picker(pick_seed), ak, np, stats)     # same widths for every case of the form
            except Exception:
                why = "HARNESS: " + traceback.format_exc()[-1200:]
            if why is None:
                stats["ok"] += 1
            else:
                fails.append((idx, case, None, None, why))
    return stats, fails


def _run_case(case, pick, ak, np, stats):
    a = case["args"]
    prog, i, j, kinds = a["prog"], a["i"], a["j"], a["kinds"]
    lay = l2replay.to_ext_layout(case["from"], pick)
    arr = ak.Array(lay)
    F = _NB
    if prog == "sum_leaves":
        if kinds in (["num"],):
            fn, args = F["p_sum1"], (arr,)
        elif kinds == ["opt", "num"]:
            fn, args = F["p_sum1opt"], (arr,)
        elif kinds in (["var", "num"], ["reg", "num"]):
            fn, args = F["p_sum2"], (arr,)
        elif kinds in (["var", "opt", "num"], ["reg", "opt", "num"]):
            fn, args = F["p_sum2opt"], (arr,)
        else:
            stats["unspec"] += 1
            return None
    elif prog == "asarray" and case["from"].get("c") != "Numpy":
        # np.asarray inside compiled code is typed for NumpyArray views only (an IndexedArray of numbers has the same
        # element type but another view type): not one of the program shapes of this form
        stats["unspec"] += 1
        return None
    elif prog == "range":
        fn, args = F["p_range"], (arr, i, j)
    elif prog in ("len", "iter_count", "asarray", "field_x"):
        fn, args = F["p_" + prog], (arr,)
    elif prog in ("at", "at_len", "at_field_x", "field_x_at"):
        fn, args = F["p_" + prog], (arr, i)
    else:
        fn, args = F["p_" + prog], (arr, i, j)

    def run():
        return fn(*args)

    def val(out):
        if isinstance(out, np.ndarray):
            return out.tolist()
        if isinstance(out, (ak.Array, ak.Record)):
            return ak.to_list(out)
        return out
    why = l2replay.expect(case, run, l2replay._STATE, stats, to_value=val)
    if why:
        return "%s(i=%s, j=%s): %s" % (prog, i, j, why)
    # a history on ONE ak.Array object: used in compiled code, then a field assigned in place (arr["x"] = ..., the only mutation the
    # high-level Array offers), then used again: compiled code must see what the interpreter sees now, not the view it cached
    if case["from"].get("c") == "Record" and "x" in case["from"].get("names", []) and len(arr) > 1 and stats["n"] % 3 == 0:
        fx = F["p_field_x"]
        arr2 = ak.Array(lay)
        try:
            fx(arr2)
            arr2["x"] = arr2.x[::-1]
            want = ak.to_list(arr2.x)
        except (ValueError, TypeError, IndexError, KeyError, AttributeError):
            want = None
        if want is not None:
            try:
                got = val(fx(arr2))
            except Exception as e:
                return "field_x after arr['x'] = arr.x[::-1] on an array already seen by compiled code: %s: %s" % (type(e).__name__, str(e)[:200])
            stats["setitem_checked"] = stats.get("setitem_checked", 0) + 1
            _nz = lambda o: json.dumps(o, default=lambda z: z.item() if hasattr(z, "item") else list(z))
            if _nz(got) != _nz(want):
                return ("field_x after arr['x'] = arr.x[::-1] on an array already seen by compiled code: compiled code reads %s, the interpreter %s"
                        % (_nz(got)[:120], _nz(want)[:120]))
    # the interpreter gives the same answer for the same expression (on the same stand-in array)
    if stats["n"] % 25 == 0 and case["exp"]["ok"] == 1:
        import sys as _sys
        import gc
        gc.collect()
        r0 = _sys.getrefcount(lay)
        for _ in range(20):
            out = fn(*args)
            del out
        gc.collect()
        r1 = _sys.getrefcount(lay)
        stats["refcount_checked"] += 1
        if r1 != r0:
            return "%s: reference count of the layout changed from %d to %d over 20 calls (leak or premature release)" % (prog, r0, r1)
    return None


def replay_numba(l2_path, cases_path, seed=0, jobs=16, max_forms=None, max_cases_per_form=None):
    groups = {}
    with open(cases_path, "rb") as f:
        off = 0
        idx = 0
        for line in f:
            if line.strip():
                case = json.loads(line)
                groups.setdefault(form_key(case["from"]), []).append((off, idx))
                idx += 1
            off += len(line)
    keys = sorted(groups)
    if max_forms and len(keys) > max_forms:
        step = len(keys) / float(max_forms)
        keys = [keys[int((k + (seed % 5) / 5.0) * step) % len(keys)] for k in range(max_forms)]
    tasks = []
    for k in keys:
        offs = groups[k]
        if max_cases_per_form and len(offs) > max_cases_per_form:
            stride = len(offs) / float(max_cases_per_form)
            offs = [offs[int(q * stride)] for q in range(max_cases_per_form)]
        tasks.append((cases_path, offs, seed, k))
    total = {"n": 0, "ok": 0, "unspec": 0, "err_expected": 0, "compiled_forms": 0, "refcount_checked": 0, "setitem_checked": 0, "forms_total": len(groups)}
    fails = []
    try:
        with ProcessPoolExecutor(jobs, initializer=_init, initargs=(l2_path,)) as ex:
            for stats, fl in ex.map(_group_task, tasks):
                for k in stats:
                    total[k] = total.get(k, 0) + stats[k]
                fails.extend(fl)
    except BrokenProcessPool:
        fails.append((-1, {"act": "numba", "note": "a pool process died"}, None, None,
                      "CRASH: a process running Numba-compiled code died (segfault in generated code / libawkward)"))
    total["failed"] = len(fails)
    return total, fails


# ------------------------------------------------------------------ Builder.tla behaviours through Numba-compiled code (C20)
def _nb_code(c):
    k = c["c"]
    if k == "null":
        return 0, 0
    if k == "int":
        return 1, c["x"]
    if k == "real":
        return (2, c["n"]) if c["d"] == 2 else None
    if k == "bool":
        return 3, c["x"]
    if k == "beginlist":
        return 4, 0
    if k == "endlist":
        return 5, 0
    if k == "begintuple":
        return 6, c["n"]
    if k == "index":
        return 7, c["i"]
    if k == "endtuple":
        return 8, 0
    if k == "beginrecord":
        return {"": (9, 0), "P": (13, 0)}.get(c["name"])
    if k == "field":
        return {"x": (10, 0), "y": (11, 0)}.get(c["key"])
    if k == "endrecord":
        return 12, 0
    return None


def h_builder_numba(case, pick, st, stats):
    """one Builder.tla behaviour: every command is ONE call of a Numba-compiled interpreter of the command alphabet on the same
    ak.ArrayBuilder (unboxed and boxed back every time); the interpreter's snapshot after every command is judged exactly like
    the C++ builder's (replay.judge_builder), errors must arrive as ordinary exceptions, all snapshots are re-read at the end;
    every 4th case also runs the whole sequence in ONE compiled call"""
    if not _NB:
        _adapt()
    ak, np = st["ak"], st["np"]
    coded = [_nb_code(c) for c in case["cmds"]]
    if any(x is None for x in coded):
        stats["unspec"] += 1
        return None
    fn = _NB["p_builder_cmds"]
    b = ak.ArrayBuilder(initial=pick([1, 2, 8, 1024]))
    steps, snaps = [], []
    for (code, arg) in coded:
        try:
            n = fn(b, np.array([code], dtype=np.int64), np.array([arg], dtype=np.int64))
            s = b.snapshot()
            js = ak.to_json(s)
            if n != len(b) or n != len(s):
                return "len(builder) inside compiled code is %d, outside %d, snapshot %d" % (n, len(b), len(s))
            steps.append({"ok": 1, "len": len(b), "json": js, "valid": ak.validity_error(s) or ""})
            snaps.append((s, js))
        except (ValueError, RuntimeError) as e:
            steps.append({"ok": 0, "exc": type(e).__name__, "msg": str(e)[:120]})
            break
        except Exception as e:
            steps.append({"ok": 0, "exc": type(e).__name__, "msg": str(e)[:200]})
            break
    same, diff = 1, ""
    for k, (s, js) in enumerate(snaps):
        again = ak.to_json(s)
        if again != js:
            same, diff = 0, "snapshot %d was %s now %s" % (k, js, again)
            break
    why = replay.judge_builder(case, [{"ok": 1, "steps": steps, "immutable": same, "diff": diff}])
    if why:
        return "compiled: " + why
    if stats["n"] % 4 == 0 and all(o["ok"] == 1 for o in case["obs"]):
        b2 = ak.ArrayBuilder()
        fn(b2, np.array([c for c, a in coded], dtype=np.int64), np.array([a for c, a in coded], dtype=np.int64))
        if ak.to_json(b2.snapshot()) != steps[-1]["json"]:
            return "compiled: the whole sequence in one call gives %s, command by command %s" % (ak.to_json(b2.snapshot()), steps[-1]["json"])
    return None


# ------------------------------------------------------------------ partitioned and virtual arrays inside compiled code (C20 + C18)
def h_partition_numba(case, pick, st, stats):
    """one Partition.tla behaviour, every observation made INSIDE Numba-compiled code on the partitioned array (len, x[i], x[a:b],
    sum over all leaves by iteration) and on a VirtualArray of the same data (alone and as the content of a list node): each equals
    what the interpreter gives for the whole, eager array"""
    if not _NB:
        _adapt()
    import virtual as vmod
    ak, np, ext = st["ak"], st["np"], st["ext"]
    n = case["stops"][-1]
    k = pick([0, 1, 2])
    whole = ak.Array(ext._box(l2replay._fix_shape(vmod.PART_EAGERS[k](n))))
    stops = list(case["stops"])
    P = ak.partitioned([whole[a:b] for a, b in zip([0] + stops[:-1], stops)])
    lay = whole.layout
    gen = ak.layout.ArrayGenerator(lambda: lay, form=lay.form, length=len(lay))
    V = ak.Array(ak.layout.VirtualArray(gen))
    subjects = [("partitioned", P), ("virtual", V)]
    F = _NB
    sumprog = [F["p_sum1"], F["p_sum2"], F["p_sum1opt"]][k]

    def val(out):
        if isinstance(out, np.ndarray):
            return out.tolist()
        if isinstance(out, (ak.Array, ak.Record)):
            return ak.to_list(out)
        return out.item() if hasattr(out, "item") else out

    def norm(o):
        return json.dumps(o, default=lambda z: z.item() if hasattr(z, "item") else list(z))
    for i, h in enumerate(case["steps"]):
        op = h["op"]
        if op == "repartition":
            # NOT driven here (DESIGN 6): on the stand-in, partitions that ak.repartition re-assembles (ListArray64 made by a carry)
            # read wrongly or crash inside compiled code, and whether that is the library or the stand-in's buffer lifetimes is open
            stats["unspec"] += 1
            break
        if op == "at":
            prog, args, interp = F["p_at"], (h["i"],), (lambda x: x[h["i"]])
        elif op == "range":
            if h["s"] != 1:
                stats["unspec"] += 1
                continue                      # ranges with a step are not typed inside compiled code
            prog, args, interp = F["p_range"], (h["a"], h["b"]), (lambda x: x[h["a"]:h["b"]])
        elif op == "length":
            prog, args, interp = F["p_len"], (), (lambda x: len(x))
        else:
            prog, args, interp = sumprog, (), None
        try:
            want = (1, val(interp(whole))) if interp is not None else (1, val(sumprog(whole)))
        except (ValueError, IndexError):
            want = (0, None)
        for name, X in subjects:
            try:
                got = (1, val(prog(X, *args)))
            except (ValueError, IndexError):
                got = (0, None)
            except Exception as e:
                return "step %d (%s) on the %s array inside compiled code: %s: %s" % (i, op, name, type(e).__name__, str(e)[:160])
            if h.get("exp") == "error" or want[0] == 0:
                if got[0] == 1:
                    return "step %d (%s %s) on the %s array inside compiled code: must raise, returned %s" % (i, op, args, name, norm(got[1])[:120])
                stats["err_expected"] += 1
                continue
            if got[0] != 1:
                return "step %d (%s %s) on the %s array inside compiled code raised; the interpreter answers %s" % (i, op, args, name, norm(want[1])[:120])
            if norm(got[1]) != norm(want[1]):
                return ("step %d (%s %s) on the %s array: compiled code sees %s, the interpreter (whole array) %s"
                        % (i, op, args, name, norm(got[1])[:160], norm(want[1])[:160]))
    # the array passed through compiled code comes back unchanged
    for name, X in subjects:
        try:
            back = _NB["p_range_open"](X, 0)
        except Exception as e:
            return "x[0:] of the %s array inside compiled code: %s: %s" % (name, type(e).__name__, str(e)[:160])
        if norm(ak.to_list(back)) != norm(ak.to_list(whole)):
            return "the %s array returned from compiled code reads %s, not %s" % (name, norm(ak.to_list(back))[:160], norm(ak.to_list(whole))[:160])
    return None
