"""L2 replay: cases exported by TLC are executed against the repository's PYTHON layer (src/awkward/**/*.py, unmodified)
running over the stand-in for awkward._ext (harness/l2/_ext.py), which forwards every computation to libawkward built
from /repo.  Each pool process imports the staged package once; the parent never imports awkward."""
import importlib
import json
import os
import sys
import traceback
from concurrent.futures import ProcessPoolExecutor
from concurrent.futures.process import BrokenProcessPool

import replay

_STATE = {}


def _init(l2_path):
    os.environ["PYTHONDONTWRITEBYTECODE"] = "1"
    sys.dont_write_bytecode = True
    if l2_path not in sys.path:
        sys.path.insert(0, l2_path)
    import warnings
    warnings.filterwarnings("ignore")
    import numpy
    import awkward
    assert os.path.realpath(awkward.__file__).startswith("/repo/src/awkward") or "l2" in awkward.__file__, awkward.__file__
    _STATE["ak"] = awkward
    _STATE["np"] = numpy
    _STATE["ext"] = importlib.import_module("awkward._ext")


def to_ext_layout(L, pick):
    """abstract TLA+ layout -> stand-in layout object (index widths chosen by `pick`)"""
    ext = _STATE["ext"]
    J = replay.instantiate(L, pick)

    def fix(n):
        if n.get("c") == "Numpy" and "shape" not in n:
            n["shape"] = [len(n["d"])]
        if n.get("c") == "Numpy" and len(n["shape"]) == 1 and n["shape"][0] >= 1 and "p" not in n and pick([0, 0, 0, 1]) == 1:
            n["view"] = "step2"                       # a non-contiguous one-dimensional leaf (x[1::2] of a wider NumPy array)
        if n.get("c") == "Numpy" and len(n["shape"]) >= 2 and min(n["shape"][:2]) > 1 and pick([0, 1, 2]) == 2:
            n["order"] = "F"                          # a column-major (Fortran-ordered) buffer holding the same values
        if "x" in n:
            fix(n["x"])
        for x in n.get("xs", []):
            fix(x)
        if n.get("c") == "Record" and "n" not in n:
            n["n"] = 0
    fix(J)
    return ext._box(J)


def _chunk(args):
    path, off, nbytes, first_idx, seed, handler = args
    mod, fn = handler
    h = getattr(importlib.import_module(mod), fn)
    with open(path, "rb") as f:
        f.seek(off)
        data = f.read(nbytes)
    fails = []
    stats = {"n": 0, "ok": 0, "unspec": 0, "err_expected": 0, "numpy_checked": 0}
    for k, line in enumerate(data.splitlines()):
        if not line.strip():
            continue
        case = json.loads(line)
        idx = first_idx + k
        pick = replay.Picker(seed * 1000003 + idx)
        stats["n"] += 1
        try:
            why = h(case, pick, _STATE, stats)
        except Exception:
            why = "HARNESS: " + traceback.format_exc()[-1500:]
        if why is None:
            stats["ok"] += 1
        else:
            fails.append((idx, case, None, None, why))
    return stats, fails


def _run_span(l2_path, path, lines, first_idx, seed, handler):
    """run the given case lines in ONE fresh process; returns (stats, fails) or None if the process died"""
    import tempfile
    tmp = tempfile.NamedTemporaryFile("wb", suffix=".ndjson", delete=False, dir=os.path.dirname(path))
    try:
        data = b"\n".join(lines) + b"\n"
        tmp.write(data)
        tmp.close()
        try:
            with ProcessPoolExecutor(1, initializer=_init, initargs=(l2_path,)) as ex:
                return ex.submit(_chunk, (tmp.name, 0, len(data), first_idx, seed, handler)).result()
        except BrokenProcessPool:
            return None
    finally:
        os.unlink(tmp.name)


def _isolate(l2_path, task):
    path, off, nbytes, first_idx, seed, handler = task
    with open(path, "rb") as f:
        f.seek(off)
        lines = [l for l in f.read(nbytes).splitlines() if l.strip()]
    stats = {"n": 0, "ok": 0, "unspec": 0, "err_expected": 0, "numpy_checked": 0}
    fails = []
    lo = 0
    while lo < len(lines):
        r = _run_span(l2_path, path, lines[lo:], first_idx + lo, seed, handler)
        if r is not None:
            for k in stats:
                stats[k] += r[0].get(k, 0)
            fails.extend(r[1])
            break
        # bisect for the first case that kills the process
        a, b = lo, len(lines)          # invariant: running lines[lo:b] dies
        while b - a > 1:
            mid = (a + b) // 2
            if _run_span(l2_path, path, lines[lo:mid], first_idx + lo, seed, handler) is None:
                b = mid
            else:
                a = mid
        culprit = a
        r = _run_span(l2_path, path, lines[lo:culprit], first_idx + lo, seed, handler) if culprit > lo else None
        if r is not None:
            for k in stats:
                stats[k] += r[0].get(k, 0)
            fails.extend(r[1])
        stats["n"] += 1
        fails.append((first_idx + culprit, json.loads(lines[culprit]), None, None,
                      "CRASH: the Python process died on this case (segfault/abort in libawkward under the Python layer)"))
        lo = culprit + 1
    return stats, fails


def replay_l2(l2_path, cases_path, handler, seed=0, jobs=16, chunk=400, sample_cases=None, max_cases=None):
    chunks = replay._file_chunks(cases_path, chunk, None)
    if max_cases:
        sample_cases = min(sample_cases, max_cases) if sample_cases else max_cases
    if sample_cases and len(chunks) * chunk > sample_cases:
        want = max(1, sample_cases // chunk)
        step = len(chunks) / float(want)
        phase = (seed % 7) / 7.0
        chunks = [chunks[min(len(chunks) - 1, int((k + phase) * step))] for k in range(want)]
    total = {"n": 0, "ok": 0, "unspec": 0, "err_expected": 0, "numpy_checked": 0}
    fails = []
    tasks = [(c[0], c[1], c[2], c[3], seed, handler) for c in chunks]
    results = [None] * len(tasks)
    try:
        with ProcessPoolExecutor(jobs, initializer=_init, initargs=(l2_path,)) as ex:
            futs = [ex.submit(_chunk, t) for t in tasks]
            for k, fu in enumerate(futs):
                try:
                    results[k] = fu.result()
                except BrokenProcessPool:
                    pass
    except BrokenProcessPool:
        pass
    for k, t in enumerate(tasks):
        if results[k] is None:
            results[k] = _isolate(l2_path, t)          # some process died: find the case(s) that kill it
    for stats, fl in results:
        for k in total:
            total[k] += stats.get(k, 0)
        fails.extend(fl)
    total["failed"] = len(fails)
    return total, fails


# ------------------------------------------------------------------ helpers for handlers
ORDINARY = (ValueError, TypeError, IndexError, RuntimeError, KeyError, NotImplementedError)


def expect(case, fn, st, stats, to_value=None):
    """run fn(); compare with case['exp'] under the verdict rules (value / must raise / may refuse / unspecified)"""
    ak = st["ak"]
    exp = case["exp"]
    if exp["ok"] == 3:
        stats["unspec"] += 1
        try:
            fn()
        except ORDINARY:
            pass
        return None
    try:
        out = fn()
    except ORDINARY as e:
        if exp["ok"] in (0, 2):
            if exp["ok"] == 0:
                stats["err_expected"] += 1
            return None
        return "spec: value expected; library raised %s: %s" % (type(e).__name__, str(e)[:200])
    if isinstance(out, ak.Array):
        try:
            verr = ak.validity_error(out)
        except ORDINARY as e:
            verr = "validity_error raised: %s" % e
        if verr is not None:
            return "result fails validity: %r" % (str(verr).split("\n")[0][:160],)
    try:
        got = to_value(out) if to_value else ak.to_list(out)
    except ORDINARY as e:
        return "tojson raised: %s" % (str(e).split("\n")[0][:160],)
    if exp["ok"] == 0:
        return "spec: must raise; library returned %s" % (json.dumps(_plain(got), default=str)[:200],)
    want = replay.vjson_to_py(exp["v"])
    if not replay.values_equal(_plain(got), want):
        return "value differs: library %s" % (json.dumps(_plain(got), default=str)[:300],)
    return None


def _plain(x):
    """to_list output -> json-like python (tuples -> dict with positional keys, numpy scalars -> python)"""
    if isinstance(x, tuple):
        return {str(i): _plain(v) for i, v in enumerate(x)}
    if isinstance(x, list):
        return [_plain(v) for v in x]
    if isinstance(x, dict):
        return {k: _plain(v) for k, v in x.items()}
    if isinstance(x, bytes):
        return x.decode("latin-1")             # strings cross the TLC boundary as byte sequences
    if isinstance(x, str):
        return x.encode("utf-8", "surrogateescape").decode("latin-1")
    if hasattr(x, "item") and not isinstance(x, (bytes, str)):
        try:
            return x.item()
        except Exception:
            return x
    if isinstance(x, float) and x != x:
        return "nan"
    return x


# ------------------------------------------------------------------ C04
def h_c04(case, pick, st, stats):
    ak, np = st["ak"], st["np"]
    a = case["args"]
    A = ak.Array(to_ext_layout(case["from"], pick))
    B = ak.Array(to_ext_layout(case["aux"], pick)) if case["aux"].get("c") != "NoLayout" else None
    f, form = a["f"], a["form"]
    use_operator = pick([0, 1])

    def run():
        if f == "neg":
            return -A if use_operator else np.negative(A)
        if f == "tuple":
            x, y = ak.broadcast_arrays(B, A)
            return ak.zip((x, y), depth_limit=None) if False else (x, y)
        if form == "aux_cur":
            return B + A if use_operator else np.add(B, A)
        if form == "cur_aux":
            return A + B if use_operator else np.add(A, B)
        if form == "aux_cur_sc":
            return (B + A) + 100 if use_operator else np.add(np.add(B, A), 100)
        if form == "cur_sc":
            return A + 10 if use_operator else np.add(A, 10)
        if form == "sc_cur":
            return 10 + A if use_operator else np.add(10, A)
        if form == "cur_cur":
            return A + A if use_operator else np.add(A, A)
        raise AssertionError(form)

    def tuple_value(out):
        x, y = out
        return _zip_lists(ak.to_list(x), ak.to_list(y))
    why = expect(case, run, st, stats, to_value=tuple_value if f == "tuple" else None)
    if why:
        return why
    # NumPy cross-oracle on rectilinear operands ("for rectilinear inputs the result equals NumPy's")
    regular_typed = "var" not in case.get("fromty", "") and "var" not in case.get("auxty", "")
    if f == "add" and B is not None and form in ("aux_cur", "cur_aux") and case["exp"]["ok"] in (0, 1) and regular_typed:
        na = np_from_abstract(case["from"], np)
        nb = np_from_abstract(case["aux"], np)
        if na is None or nb is None:
            return None
        stats["numpy_checked"] += 1
        try:
            ref = (nb + na) if form == "aux_cur" else (na + nb)
            ref_ok = True
        except ValueError:
            ref_ok = False
        try:
            out = run()
            got_ok = True
        except ORDINARY:
            got_ok = False
        if ref_ok != got_ok:
            return "NumPy %s these rectilinear operands but the library %s" % ("adds" if ref_ok else "refuses", "does" if got_ok else "raises")
        if ref_ok and ak.to_list(out) != ref.tolist():
            return "differs from NumPy: library %s, numpy %s" % (ak.to_list(out), ref.tolist())
    return None


def np_from_abstract(L, np):
    """the NumPy array a regular-typed abstract layout denotes (None if it is not Numpy / Regular all the way down)"""
    if L["c"] == "Numpy":
        return np.array(L["d"], dtype=np.int64)
    if L["c"] == "Regular":
        inner = np_from_abstract(L["x"], np)
        if inner is None:
            return None
        n = L["zl"] if L["size"] == 0 else len(inner) // L["size"]
        return inner[:n * L["size"]].reshape((n, L["size"]) + inner.shape[1:])
    return None


def _zip_lists(x, y):
    if x is None and y is None:
        return None
    if isinstance(x, list) and isinstance(y, list) and len(x) == len(y):
        return [_zip_lists(a, b) for a, b in zip(x, y)]
    return {"0": x, "1": y}


# ------------------------------------------------------------------ C16 (buffers / pickle / numpy / arrow)
def _same(ak, a, b, what, check_type=True):
    la, lb = ak.to_list(a), ak.to_list(b)
    if not replay.values_equal(_plain(la), _plain(lb)):
        return "%s: value %s differs from original %s" % (what, json.dumps(_plain(lb), default=str)[:200], json.dumps(_plain(la), default=str)[:200])
    if check_type and str(ak.type(a)) != str(ak.type(b)):
        return "%s: type %s differs from original %s" % (what, ak.type(b), ak.type(a))
    return None


def h_c16(case, pick, st, stats):
    ak, np = st["ak"], st["np"]
    import pickle
    lay = to_ext_layout(case["from"], pick)
    A = ak.Array(lay)
    want = replay.vjson_to_py(case["exp"]["v"])
    if not replay.values_equal(_plain(ak.to_list(A)), want):
        return "to_list of the layout differs from the specification: %s" % (json.dumps(_plain(ak.to_list(A)), default=str)[:200],)
    # ---- to_buffers / from_buffers with a dict container, custom keys, a bytes-only container
    form, length, container = ak.to_buffers(A)
    why = _same(ak, A, ak.from_buffers(form, length, container), "from_buffers(to_buffers)")
    if why:
        return why
    if str(ak.from_buffers(form, length, container).layout.form) != str(A.layout.form):
        return "from_buffers(to_buffers): form differs"
    raw = {k: bytes(np.asarray(v).tobytes()) for k, v in container.items()}
    why = _same(ak, A, ak.from_buffers(form, length, raw), "from_buffers with a bytes-only container")
    if why:
        return why
    form2, length2, cont2 = ak.to_buffers(A, form_key="n{id}", key_format="{form_key}:{attribute}:p{partition}")
    why = _same(ak, A, ak.from_buffers(form2, length2, cont2, key_format="{form_key}:{attribute}:p{partition}"), "custom form_key/key_format")
    if why:
        return why
    # ---- pickle
    # (pickling packs the array first, which merges the members of a union that have the same type: only the value is
    #  compared for union types)
    why = _same(ak, A, pickle.loads(pickle.dumps(A)), "pickle", check_type="union[" not in str(ak.type(A)))
    if why:
        return why
    # ---- partitioned
    # (to_buffers requires all partitions to have the same Form, so the two partitions are the same layout twice, and
    #  the layout with a zero-length one of the same class)
    P = ak.partitioned([A, A])
    f3, l3, c3 = ak.to_buffers(P)
    Q = ak.from_buffers(f3, l3, c3)
    AA = ak.to_list(A) + ak.to_list(A)
    if not replay.values_equal(_plain(ak.to_list(Q)), _plain(AA)):
        return "partitioned to_buffers/from_buffers: value %s" % (json.dumps(_plain(ak.to_list(Q)), default=str)[:200],)
    if not isinstance(Q.layout, ak.partition.PartitionedArray) or [len(x) for x in Q.layout.partitions] != [len(x) for x in P.layout.partitions]:
        return "partitioning not preserved by to_buffers/from_buffers: %r" % ([len(x) for x in getattr(Q.layout, "partitions", [])],)
    R = pickle.loads(pickle.dumps(P))
    if not replay.values_equal(_plain(ak.to_list(R)), _plain(AA)):
        return "pickle of a partitioned array: value %s" % (json.dumps(_plain(ak.to_list(R)), default=str)[:200],)
    if not isinstance(R.layout, ak.partition.PartitionedArray) or [len(x) for x in R.layout.partitions] != [len(x) for x in P.layout.partitions]:
        return "partitioning not preserved by pickle"
    # ---- numpy
    ty = case.get("fromty", "")
    # (NumPy masked arrays cannot say "this whole row is missing": option-of-list types are compared through Arrow only)
    rect = "option[" not in ty and "var" not in ty and "{" not in ty and "(" not in ty and "union" not in ty and "string" not in ty and "bytes" not in ty
    import re as _re
    # arrays of strings (possibly under fixed-size dimensions) are NumPy '<U' / 'S' arrays
    strrect = _re.match(r"^(\d+ \* )*(string|bytes)$", ty) is not None
    if rect or strrect:
        try:
            arr = ak.to_numpy(A, allow_missing=True)
        except ORDINARY as e:
            return "to_numpy refused a rectilinear array of type %s: %s" % (ty, str(e)[:120])
        got = arr.tolist() if not isinstance(arr, np.ma.MaskedArray) else arr.tolist()
        if not replay.values_equal(_plain(got), want):
            return "to_numpy(...).tolist() %s differs from to_list" % (json.dumps(_plain(got), default=str)[:200],)
        back = ak.from_numpy(arr, regulararray=pick([True, False]))
        if not replay.values_equal(_plain(ak.to_list(back)), want):
            return "from_numpy(to_numpy(a)) differs: %s" % (json.dumps(_plain(ak.to_list(back)), default=str)[:200],)
        stats["numpy_checked"] += 1
    # ---- arrow
    if "unknown" not in ty and "union[" not in ty:      # (unions through Arrow: not judged, see run_C16's assumptions)
        import pyarrow
        # allow_tensor=False: with the default (True) a multidimensional NumpyArray becomes a pyarrow.Tensor, which
        # from_arrow does not read and which cannot be nested in another Arrow array (observed; not judged here)
        opts = dict(list_to32=pick([False, True]), string_to32=pick([True, False]), allow_tensor=False)
        try:
            pa = ak.to_arrow(A, **opts)
        except ORDINARY as e:
            return "to_arrow raised %s: %s" % (type(e).__name__, str(e)[:160])
        try:
            pl = pa.to_pylist()
        except Exception:
            pl = None
        if pl is not None and not replay.values_equal(_plain(_arrow_pylist(pl)), want):
            return "pyarrow to_pylist %s differs from to_list (options %r)" % (json.dumps(_plain(pl), default=str)[:200], opts)
        try:
            back = ak.from_arrow(pa)
        except ORDINARY as e:
            return "from_arrow(to_arrow(a)) raised %s: %s (options %r)" % (type(e).__name__, str(e)[:120], opts)
        if not replay.values_equal(_plain(ak.to_list(back)), want):
            return "from_arrow(to_arrow(a)) differs: %s" % (json.dumps(_plain(ak.to_list(back)), default=str)[:200],)
        t0, t1 = str(ak.type(A)), str(ak.type(back))
        if _inner_optionness(t0) != _inner_optionness(t1):
            return "option-ness below the top level not preserved by Arrow: %s -> %s" % (t0, t1)
        # the same array read back LAZILY (from_buffers(lazy=True): VirtualArray nodes where the eager array has its contents,
        # e.g. the fields of a record) and sent through Arrow: same value, same option-ness
        # (only the VALUE and OPTION-NESS of a round trip that completes are judged here: lazy reading itself refuses tuple records
        # -- _wrap_record_with_virtual reads form["contents"].values() -- and some lazily read arrays cannot be sent to Arrow;
        # both observed on the unchanged tree, neither triaged: DESIGN 6)
        try:
            lazy = ak.from_buffers(form, length, container, lazy=True)
            if not replay.values_equal(_plain(ak.to_list(lazy)), want):
                raise ValueError("lazy reading differs")
            lback = ak.from_arrow(ak.to_arrow(lazy, **opts))
        except Exception:
            stats["lazy_arrow_skipped"] = stats.get("lazy_arrow_skipped", 0) + 1
            return None
        if not replay.values_equal(_plain(ak.to_list(lback)), want):
            return "from_arrow(to_arrow(lazily read array)) differs: %s" % (json.dumps(_plain(ak.to_list(lback)), default=str)[:200],)
        if _inner_optionness(t0) != _inner_optionness(str(ak.type(lback))):
            return "option-ness below the top level not preserved by Arrow for the lazily read array: %s -> %s" % (t0, ak.type(lback))
        stats["lazy_arrow_checked"] = stats.get("lazy_arrow_checked", 0) + 1
    return None


def _arrow_pylist(x):
    return x


def _inner_optionness(t):
    """positions of option markers below the top level of a type string, normalised"""
    body = t.split(" * ", 1)[1] if " * " in t else ""
    body = body.replace("option[", "?[")
    if body.startswith("?"):
        body = body[1:]
    return [i for i, ch in enumerate(body.replace(" ", "")) if ch == "?"].__len__()


# ------------------------------------------------------------------ C17 (types: printer bound to TypesForms.tla, parser round trip)
def _has_typestr(t):
    if t.get("ts"):
        return True
    return any(_has_typestr(x) for x in ([t["x"]] if "x" in t else []) + list(t.get("xs", [])))


def _tree_to_ext(t):
    p = {k: v for k, v in t.get("ps", [])}
    if t["k"] == "rec" and t.get("nm"):
        p["__record__"] = json.dumps(t["nm"])
    d = {"p": p}
    if t.get("ts"):
        d["typestr"] = t["ts"]
    k = t["k"]
    if k == "prim":
        d.update(c="PrimitiveType", dtype=t["dt"])
    elif k == "unknown":
        d.update(c="UnknownType")
    elif k == "list":
        d.update(c="ListType", x=_tree_to_ext(t["x"]))
    elif k == "reg":
        d.update(c="RegularType", x=_tree_to_ext(t["x"]), size=t["n"])
    elif k == "opt":
        d.update(c="OptionType", x=_tree_to_ext(t["x"]))
    elif k == "union":
        d.update(c="UnionType", xs=[_tree_to_ext(x) for x in t["xs"]])
    elif k == "rec":
        d.update(c="RecordType", xs=[_tree_to_ext(x) for x in t["xs"]])
        if not t["tup"]:
            d["keys"] = list(t["keys"])[:len(t["xs"])]
    return d


def h_c17_types(case, pick, st, stats):
    ak, ext = st["ak"], st["ext"]
    tree = case["tree"]
    typ = ext._type_from(_tree_to_ext(tree))
    printed = str(typ)
    if printed != case["str"]:
        return "Type::tostring prints %r, the specification (TypesForms!TStr) says %r" % (printed, case["str"])
    if _has_typestr(tree):
        stats["unspec"] += 1          # a custom typestr is free text: nothing promises that it can be parsed back
        return None
    # what a user sees and re-parses is the high-level type of an array: "<length> * <type>"
    full = ext.ArrayType(typ, 3)
    printed_full = str(full)
    if printed_full != "3 * " + printed:
        return "ArrayType prints %r, expected %r" % (printed_full, "3 * " + printed)
    try:
        back = ak.types.from_datashape(printed_full, True)
    except Exception as e:
        return "the printed type %r cannot be parsed back: %s: %s" % (printed_full, type(e).__name__, str(e)[:160])
    if not isinstance(back, ext.ArrayType):
        return "from_datashape(%r) returned %r, not an ArrayType" % (printed_full, type(back).__name__)
    again = str(back)
    if again != printed_full:
        return "type changed by printing and re-parsing: %r -> %r" % (printed_full, again)
    if not (back.type == typ) or back.length != 3:
        return "re-parsed type prints the same (%r) but is not equal to the original" % (printed_full,)
    return None


# ------------------------------------------------------------------ C07 (Python half): ak.cartesian / ak.argcartesian
def h_c07_cartesian(case, pick, st, stats):
    ak = st["ak"]
    A = ak.Array(to_ext_layout(case["from"], pick))
    B = ak.Array(to_ext_layout(case["aux"], pick))
    ax = case["args"]["axis"]
    form = pick(["list", "dict"])

    def run():
        if form == "dict":
            return ak.cartesian({"0": B, "1": A}, axis=ax)
        return ak.cartesian([B, A], axis=ax)
    why = expect(case, run, st, stats)
    if why:
        return "cartesian(%s, axis=%d): %s" % (form, ax, why)
    if case["exp"]["ok"] == 1 and ax >= 0:
        # argcartesian realises cartesian: indexing the operands with the positions gives the same pairs
        try:
            pos = ak.argcartesian([B, A], axis=ax)
            want = ak.to_list(ak.cartesian([B, A], axis=ax))
            got = ak.to_list(ak.zip((B[pos["0"]], A[pos["1"]]))) if ax == 0 else None
            if got is not None and _plain(got) != _plain(want):
                return "argcartesian does not realise cartesian: %s vs %s" % (json.dumps(_plain(got))[:150], json.dumps(_plain(want))[:150])
        except ORDINARY as e:
            return "argcartesian raised %s: %s" % (type(e).__name__, str(e)[:150])
    return None


# ------------------------------------------------------------------ the Python halves of C01/C03/C05/C06/C07/C09: the same cases
# through the high-level functions of /repo's Python layer (ak.num, ak.flatten, ak.local_index, ak.pad_none, reducers,
# ak.sort/argsort, ak.combinations, ak.Array.__getitem__, ak.is_none)
def _py_slice_item(it):
    nb = 99999
    k = it["k"]
    if k == "at":
        return it["i"]
    if k == "range":
        return slice(None if it["a"] == nb else it["a"], None if it["b"] == nb else it["b"], None if it["s"] == nb else it["s"])
    if k == "newaxis":
        return None
    if k == "ellipsis":
        return Ellipsis
    if k == "field":
        return it["key"]
    if k == "fields":
        return list(it["keys"])
    if k == "arr":
        return _STATE["np"].array(it["is"], dtype=_STATE["np"].int64)
    if k == "arr2":
        return _STATE["np"].array(it["is"], dtype=_STATE["np"].int64).reshape(-1, it["cols"])
    if k == "missing":
        return _STATE["ak"].Array([None if x == nb else x for x in it["is"]])
    if k == "jagged":
        return _STATE["ak"].Array([[None if x == nb else x for x in sub] for sub in it["js"]])
    raise ValueError(k)


def h_generic(case, pick, st, stats):
    ak, np = st["ak"], st["np"]
    act = case["act"]
    a = case.get("args", {})
    A = ak.Array(to_ext_layout(case["from"], pick))
    if act == "num":
        fn = lambda: ak.num(A, axis=a["axis"])
    elif act == "flatten":
        fn = lambda: ak.flatten(A, axis=a["axis"])
    elif act == "localindex":
        fn = lambda: ak.local_index(A, axis=a["axis"])
    elif act == "pad":
        fn = lambda: ak.pad_none(A, a["target"], axis=a["axis"], clip=bool(a["clip"]))
    elif act == "reduce":
        f = {"count": ak.count, "count_nonzero": ak.count_nonzero, "sum": ak.sum, "prod": ak.prod, "any": ak.any, "all": ak.all,
             "min": ak.min, "max": ak.max, "argmin": ak.argmin, "argmax": ak.argmax}[a["reducer"]]
        fn = lambda: f(A, axis=a["axis"], keepdims=bool(a["keepdims"]), mask_identity=bool(a["mask"]))
    elif act in ("sort", "argsort"):
        f = ak.sort if act == "sort" else ak.argsort
        fn = lambda: f(A, axis=a["axis"], ascending=bool(a["asc"]), stable=bool(a["stable"]))
    elif act == "comb":
        fn = lambda: ak.combinations(A, a["n"], replacement=bool(a["repl"]), axis=a["axis"])
    elif act == "isnone":
        fn = lambda: ak.is_none(A)
    elif act == "slice":
        if any(it["k"] == "jagged" and (len(it["js"]) == 0 or all(len(x) == 0 for x in it["js"])) for it in a["items"]) or \
           any(it["k"] == "missing" and all(x == 99999 for x in it["is"]) for it in a["items"]):
            stats["unspec"] += 1      # ak.Array([]) / ak.Array([[]]) / ak.Array([None]) have no integer type: not the same index
            return None
        items = [_py_slice_item(it) for it in a["items"]]
        where = items[0] if len(items) == 1 else tuple(items)
        fn = lambda: A[where]
    elif act == "tolist":
        fn = lambda: A
    else:
        stats["unspec"] += 1
        return None

    def val(out):
        if isinstance(out, (ak.Array, ak.Record)):
            v = ak.to_list(out)
        elif isinstance(out, np.ndarray):
            v = out.tolist()
        else:
            v = out
        if act == "isnone":
            v = [1 if x else 0 for x in v]
        return v
    if act == "flatten" and case["exp"]["ok"] == 0:
        # the C++ method refuses axis 0; ak.flatten documents its own meaning for it: "axis=0 ... only removes missing
        # values at the top level" -- either that value or an error conforms to the high-level function
        try:
            out = fn()
        except ORDINARY:
            stats["err_expected"] += 1
            return None
        want = [x for x in ak.to_list(A) if x is not None]
        if _plain(ak.to_list(out)) != _plain(want):
            return "flatten via the Python layer: axis %d normalises to 0, documented result %s, library %s" % (
                a["axis"], json.dumps(_plain(want))[:150], json.dumps(_plain(ak.to_list(out)))[:150])
        return None
    why = expect(case, fn, st, stats, to_value=val)
    return None if why is None else "%s via the Python layer: %s" % (act, why)


# ------------------------------------------------------------------ C18 (Python half): ak.partitioned / ak.repartition (src/awkward/partition.py)
def h_c18_partition(case, pick, st, stats):
    """one Partition.tla behaviour through the Python layer's IrregularlyPartitionedArray: every observation equals the same
    observation of the whole array"""
    import virtual as vmod
    ak, ext = st["ak"], st["ext"]
    n = case["stops"][-1]
    whole = ak.Array(ext._box(_fix_shape(pick(vmod.PART_EAGERS)(n))))
    stops = list(case["stops"])
    P = ak.partitioned([whole[a:b] for a, b in zip([0] + stops[:-1], stops)])

    def both(f):
        out = []
        for x in (P, whole):
            try:
                out.append((1, f(x)))
            except (ValueError, IndexError) as e:
                out.append((0, type(e).__name__))
            except Exception as e:
                return "not an ordinary exception: %s: %s" % (type(e).__name__, str(e)[:160]), None
        return None, out

    for i, h in enumerate(case["steps"]):
        op = h["op"]
        if op == "repartition":
            lens = [b - a for a, b in zip([0] + h["stops"][:-1], h["stops"])]
            P = ak.repartition(P, lens)
            got = [len(p) for p in P.layout.partitions] if hasattr(P.layout, "partitions") else [len(P)]
            if got != lens and not (len(lens) == 1 and got == [n]):
                return "step %d: repartition to lengths %s gave partitions of lengths %s" % (i, lens, got)
            if ak.to_list(P) != ak.to_list(whole):
                return "step %d: repartition changed the values: %s" % (i, json.dumps(ak.to_list(P))[:160])
            continue
        if op == "hl":
            f = lambda x, g=_PART_HL[h["f"]]: _part_observe(ak, g(ak, st["np"], x))
            err, out = both(f)
            if err:
                return "step %d (%s): %s" % (i, h["f"], err)
            (okp, vp), (okw, vw) = out
            if okw == 0:
                continue                     # not applicable to this data (e.g. no lists to flatten): not judged
            if okp != 1:
                return "step %d (%s): raised %s on the partitioned array; the whole array answers %s" % (i, h["f"], vp, json.dumps(vw)[:120])
            if vp != vw:
                return "step %d (%s): partitioned %s differs from whole %s" % (i, h["f"], json.dumps(vp)[:200], json.dumps(vw)[:200])
            stats["hl_judged"] = stats.get("hl_judged", 0) + 1
            continue
        f = {"at": lambda x: ak.to_list(x[h["i"]]),
             "range": lambda x: ak.to_list(x[h["a"]:h["b"]:h["s"]]),
             "length": lambda x: len(x),
             "tojson": lambda x: json.loads(ak.to_json(x))}[op]
        err, out = both(f)
        if err:
            return "step %d (%s): %s" % (i, op, err)
        (okp, vp), (okw, vw) = out
        if h["exp"] == "error" or okw == 0:
            if okp == 1:
                return "step %d (%s): must raise, returned %s" % (i, op, json.dumps(vp)[:120])
            stats["err_expected"] = stats.get("err_expected", 0) + 1
            continue
        if okp != 1:
            return "step %d (%s %s): raised %s; the whole array answers %s" % (i, op, json.dumps({k: v for k, v in h.items() if k not in ("op", "exp")}), vp, json.dumps(vw)[:120])
        if vp != vw:
            return "step %d (%s %s): partitioned %s differs from whole %s" % (i, op, json.dumps({k: v for k, v in h.items() if k not in ("op", "exp")}), json.dumps(vp)[:160], json.dumps(vw)[:160])
    return None


def _part_observe(ak, r):
    """what is compared between the partitioned and the whole array: the value, and the result's consistency with itself"""
    if isinstance(r, ak.Array):
        return {"list": ak.to_list(r), "len": len(r), "items": [ak.to_list(r[i]) for i in range(len(r))], "last": (ak.to_list(r[-1]) if len(r) else None),
                "valid": bool(ak.is_valid(r))}
    if isinstance(r, (list, tuple)):
        return [_part_observe(ak, x) for x in r]
    return ak.to_list(r) if isinstance(r, ak.Record) else (r.item() if hasattr(r, "item") else r)


_PART_HL = {
    "flatten0": lambda ak, np, x: ak.flatten(x, axis=0),
    "flatten1": lambda ak, np, x: ak.flatten(x, axis=1),
    "num0": lambda ak, np, x: ak.num(x, axis=0),
    "num1": lambda ak, np, x: ak.num(x, axis=1),
    "is_none": lambda ak, np, x: ak.is_none(x),
    "fill_none": lambda ak, np, x: ak.fill_none(x, 77, axis=0),
    "count": lambda ak, np, x: ak.count(x, axis=None),
    "sum_none": lambda ak, np, x: ak.sum(x, axis=None),
    "sum0": lambda ak, np, x: ak.sum(x, axis=-1),
    "ufunc": lambda ak, np, x: x * 2 + 1,
    "mask": lambda ak, np, x: ak.mask(x, x == x),
    "local_index": lambda ak, np, x: ak.local_index(x, axis=-1),
    "pad_none": lambda ak, np, x: ak.pad_none(x, 3, axis=-1),
    "firsts": lambda ak, np, x: ak.firsts(x, axis=1),
    "sort": lambda ak, np, x: ak.sort(x, axis=-1),
    "concat_self": lambda ak, np, x: ak.concatenate([x, x], axis=0),
    "values_astype": lambda ak, np, x: ak.values_astype(x, np.float32),
    "zip_self": lambda ak, np, x: ak.zip({"a": x, "b": x}),
    "field": lambda ak, np, x: ak.zip({"a": x, "b": x})["b"],
    "packed": lambda ak, np, x: ak.packed(x),
}


def _fix_shape(n):
    if n.get("c") == "Numpy" and "shape" not in n:
        n["shape"] = [len(n["d"])]
    if "x" in n:
        _fix_shape(n["x"])
    return n
