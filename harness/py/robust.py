"""C12: translations and verdicts for the robustness / purity replays (sanitizer build of the worker).

Observables (DESIGN.md section 5/C12): process exit / sanitizer report / timeout (reported by replay.run_worker as
CRASH), exception class (must be an ordinary exception), byte digests of every operand before/after, and the value of a
result re-read after its operands were dropped and after further results were derived from the same operands."""
import json

import replay

FULLWANT = ["json", "type", "valid", "digest", "tostring", "form", "depth"]
ORDINARY = ("ValueError", "RuntimeError")


# ------------------------------------------------------------------ boundary operations on valid layouts
def steps_robust(case, pick):
    steps = replay.steps_for(case, pick)
    act = case["act"]
    if act in ("validity", "tolist"):
        steps[0]["want"] = FULLWANT
        return steps
    if act == "slice":
        # an integer index array is itself an input of the operation (Python passes the caller's int64 array, which
        # NumpyArray::asslice wraps without copying): give it as a layout held in a register and digest it afterwards
        extra = []
        for k, it in enumerate(steps[1]["slice"]):
            if it.get("k") == "arr" and "shape" not in it and pick([0, 1]) == 1:
                reg = "ix%d" % k
                extra.append({"op": "build", "dst": reg, "layout": {"c": "Numpy", "dt": "i64", "d": it["data"]},
                              "want": ["digest"], "tag": "index"})
                steps[1]["slice"][k] = {"k": "content", "layout": reg}
        if extra:
            steps[1]["pydispatch"] = 0
            steps = [steps[0]] + extra + steps[1:] + [{"op": "digest", "src": e["dst"], "tag": "index-after:" + e["dst"]} for e in extra]
    for st in steps:
        if st.get("op") == "build" and st.get("tag") != "index":
            st["want"] = ["json", "type", "valid", "digest"]
        elif st.get("dst") == "r":
            st["want"] = ["json", "type", "valid", "tostring", "form", "digest"]
    # second result derived from the same operand, then the operands are dropped and the first result is re-read
    steps.append({"op": "getitem_range", "src": "a", "a": 0, "b": 1, "dst": "r2", "want": ["json"]})
    steps.append({"op": "deep_copy", "src": "a", "dst": "r3", "want": ["digest"]})
    steps.append({"op": "drop", "src": "a"})
    if act in ("concat", "setfield"):
        steps.append({"op": "drop", "src": "b"})
    steps.append({"op": "id", "src": "r", "want": ["json", "digest"]})
    return steps


def _ordinary(r):
    return r.get("ok") == 0 and r.get("exc") in ORDINARY


def judge_robust(case, res, steps=None):
    act = case["act"]
    if not res:
        return "no result"
    b = res[0]
    if b.get("ok") != 1:
        return "build failed: %s" % (b.get("msg") or b.get("harness"))
    for k in ("json_exc", "type_exc", "valid_exc", "form_exc", "depth_exc", "tostring_exc"):
        if k in b:
            return "%s on a valid layout: %s" % (k, b[k])
    if act in ("validity", "tolist"):
        return None
    opi = 2 if act in ("concat", "setfield") else 1
    if steps is not None:
        nidx = sum(1 for st in steps if st.get("tag") == "index")
        if nidx:
            before = {st["dst"]: res[k].get("digest") for k, st in enumerate(steps) if st.get("tag") == "index"}
            for k, st in enumerate(steps):
                if str(st.get("tag", "")).startswith("index-after:") and k < len(res):
                    if res[k].get("ok") == 1 and res[k].get("digest") != before.get(st["src"]):
                        return "the integer array used as an index was modified by the operation"
            # drop the index bookkeeping so that the positional logic below sees the usual shape
            keep = [k for k, st in enumerate(steps) if st.get("tag") != "index" and not str(st.get("tag", "")).startswith("index-after:")]
            res = [res[k] for k in keep if k < len(res)]
    if len(res) <= opi + 1:
        return "missing op result"
    r = res[opi]
    if r.get("ok") == -1:
        return None        # conversion not defined for this node class (harness-side refusal)
    if r.get("ok") == 0:
        if r.get("exc") not in ORDINARY:
            return "not an ordinary exception: %s %s" % (r.get("exc"), r.get("msg"))
    d = res[opi + 1]
    if d.get("ok") == 1 and d.get("digest") != b.get("digest"):
        return "input buffers modified by the operation"
    # deep copy of the operand taken AFTER the operation has the same bytes as the operand had before
    for x in res[opi + 2:]:
        if x.get("ok") == 0 and x.get("exc") not in ORDINARY:
            return "not an ordinary exception in follow-up: %s %s" % (x.get("exc"), x.get("msg"))
    if r.get("ok") == 1 and not r.get("scalar") and not r.get("json_skipped"):
        last = res[-1]
        if last.get("ok") != 1:
            return "result unreadable after its operands were dropped: %s" % (last.get("msg") or last.get("harness"))
        if last.get("json") != r.get("json") or last.get("digest") != r.get("digest"):
            return "result changed after its operands were dropped: %s -> %s" % (r.get("json"), last.get("json"))
    return None


# ------------------------------------------------------------------ arbitrary (possibly invalid) layouts x check/print/convert
def steps_anylayout(case, pick):
    L = replay.instantiate(case["from"], pick, True)
    return [{"op": "build", "dst": "a", "layout": L, "want": ["valid", "tostring", "form", "type", "depth", "json", "json_even_if_invalid"]}]


def judge_anylayout(case, res):
    if not res:
        return "no result"
    b = res[0]
    if b.get("ok") == -1:
        return "harness: " + b.get("harness", "")
    if b.get("ok") == 0 and b.get("exc") not in ORDINARY:
        return "not an ordinary exception: %s %s" % (b.get("exc"), b.get("msg"))
    return None      # any value / any ordinary refusal conforms; crashes are reported by the runner


# ------------------------------------------------------------------ histories (Purity.tla behaviours)
ROOTS = [
    {"c": "ListOffset", "w": "64", "o": [1, 3, 3, 4], "x": {"c": "Numpy", "dt": "i64", "d": [9, 1, 2, 3, 8]}},
    {"c": "List", "w": "32", "s": [3, 0, 0], "e": [5, 2, 0], "x": {"c": "Numpy", "dt": "f64", "d": [1, 2, 3, 4, 5]}},
    {"c": "IndexedOption", "w": "64", "i": [2, -1, 0, 0],
     "x": {"c": "ListOffset", "w": "64", "o": [0, 1, 1, 3], "x": {"c": "Numpy", "dt": "i32", "d": [1, 2, 3]}}},
    {"c": "ListOffset", "w": "U32", "o": [0, 2, 3],
     "x": {"c": "ByteMasked", "m": [1, 0, 1], "vw": 1, "x": {"c": "Numpy", "dt": "i64", "d": [1, 2, 3]}}},
    {"c": "Regular", "size": 2, "zl": 0, "x": {"c": "Numpy", "dt": "i64", "d": [1, 2, 3, 4, 5]}},
    {"c": "Regular", "size": 0, "zl": 2, "x": {"c": "Numpy", "dt": "i64", "d": []}},
    {"c": "Record", "tuple": 0, "names": ["x", "y"], "n": 2,
     "xs": [{"c": "Numpy", "dt": "i64", "d": [1, 2, 3]},
            {"c": "ListOffset", "w": "64", "o": [0, 1, 3], "x": {"c": "Numpy", "dt": "f64", "d": [1, 2, 3]}}]},
    {"c": "Union", "w": "64", "t": [0, 1, 0], "i": [0, 0, 1],
     "xs": [{"c": "Numpy", "dt": "i64", "d": [1, 2]},
            {"c": "ListOffset", "w": "64", "o": [0, 2], "x": {"c": "Numpy", "dt": "i64", "d": [3, 4]}}]},
    {"c": "ListOffset", "w": "64", "o": [0, 1, 2],
     "x": {"c": "ListOffset", "w": "64", "o": [1, 2, 4], "x": {"c": "Numpy", "dt": "i64", "d": [0, 1, 2, 3]}}},
    {"c": "BitMasked", "m": [5], "vw": 1, "lsb": 1, "n": 3, "x": {"c": "Numpy", "dt": "i64", "d": [1, 2, 3]}},
    {"c": "Numpy", "dt": "i64", "d": [3, 1, 2]},
    {"c": "ListOffset", "w": "64", "o": [0], "x": {"c": "Numpy", "dt": "i64", "d": []}},
    # numpy.ma / Arrow convention (1 = missing): bytemask() hands out the mask buffer itself
    {"c": "ByteMasked", "m": [0, 0, 1, 0], "vw": 0, "x": {"c": "Numpy", "dt": "i64", "d": [1, 2, 3, 4, 5]}},
    {"c": "ByteMasked", "m": [1, 0, 1], "vw": 1, "x": {"c": "ListOffset", "w": "64", "o": [0, 1, 1, 3], "x": {"c": "Numpy", "dt": "i64", "d": [1, 2, 3]}}},
]

VIEW_OPS = [
    lambda: {"op": "getitem_range", "a": 1, "b": 99},
    lambda: {"op": "getitem_range", "a": 0, "b": 0},
    lambda: {"op": "getitem", "slice": [{"k": "range", "a": None, "b": None, "s": 2}], "pydispatch": 0},
    lambda: {"op": "getitem", "slice": [{"k": "range", "a": None, "b": None, "s": -1}], "pydispatch": 0},
    lambda: {"op": "getitem", "slice": [{"k": "arr", "data": [-1]}], "pydispatch": 0},
    lambda: {"op": "getitem_field", "key": "y"},
    lambda: {"op": "id"},
]
WRAP_OPS = [
    lambda: {"op": "rpad", "target": 5, "axis": 0},
    lambda: {"op": "rpad_and_clip", "target": 1, "axis": 0},
    lambda: {"op": "toListOffsetArray64", "start_at_zero": 0},
    lambda: {"op": "simplify"},
    lambda: {"op": "getitem", "slice": [{"k": "newaxis"}], "pydispatch": 0},
    lambda: {"op": "getitem", "slice": [{"k": "arr", "data": [0, 0]}], "pydispatch": 0},
    lambda: {"op": "project"},
    lambda: {"op": "project", "mask_alt": 1},          # project(mask): the positions missing in EITHER mask go
    lambda: {"op": "project", "mask_alt": 2},
    lambda: {"op": "bytemask"},
]
FRESH_OPS = [
    lambda: {"op": "num", "axis": 1},
    lambda: {"op": "localindex", "axis": -1},
    lambda: {"op": "reduce", "reducer": "sum", "axis": -1, "mask": 0, "keepdims": 0},
    lambda: {"op": "reduce", "reducer": "argmax", "axis": 0, "mask": 1, "keepdims": 1},
    lambda: {"op": "sort", "axis": -1, "ascending": 0, "stable": 1},
    lambda: {"op": "argsort", "axis": -1, "ascending": 1, "stable": 1},
    lambda: {"op": "flatten", "axis": 1},
    lambda: {"op": "combinations", "n": 2, "axis": 1, "replacement": 1},
    lambda: {"op": "deep_copy"},
    lambda: {"op": "numbers_to_type", "name": "float32"},
    lambda: {"op": "rpad", "target": 3, "axis": 1},
    lambda: {"op": "toListOffsetArray64", "start_at_zero": 1},
]
MENU = {"view": VIEW_OPS, "wrap": WRAP_OPS, "fresh": FRESH_OPS}


def steps_history(case, pick):
    steps = [{"op": "build", "dst": "a", "layout": pick(ROOTS), "want": ["json", "digest", "valid", "type"], "tag": "create:a"}]
    for h in case["steps"]:
        a = h["a"]
        if a == "derive":
            op = pick(MENU[h["kind"]])()
            op.update({"src": h["src"], "dst": h["dst"], "keep_only_valid": 1, "want": ["json", "digest", "valid", "type"], "tag": "create:" + h["dst"]})
            steps.append(op)
        elif a == "derive2":
            steps.append({"op": pick(["merge", "concat0"]), "src": h["src"], "other": h["other"], "others": [h["other"]],
                          "dst": h["dst"], "keep_only_valid": 1, "want": ["json", "digest", "valid", "type"], "tag": "create:" + h["dst"]})
        elif a == "drop":
            steps.append({"op": "drop", "src": h["r"], "tag": "drop:" + h["r"]})
        elif a == "reread":
            steps.append({"op": "id", "src": h["r"], "want": ["json", "digest", "valid"], "tag": "reread:" + h["r"]})
    for r in ("a", "b", "c", "d"):
        steps.append({"op": "id", "src": r, "want": ["json", "digest", "valid"], "tag": "reread:" + r})
    return steps


def judge_history(case, res, steps):
    if not res or len(res) != len(steps):
        return "missing answers (%d of %d)" % (len(res or []), len(steps))
    created = {}
    types = {}
    for st, r in zip(steps, res):
        tag = st.get("tag", "")
        kind, _, reg = tag.partition(":")
        if r.get("ok") == 0 and r.get("exc") not in ORDINARY:
            return "not an ordinary exception at %s (%s): %s %s" % (tag, st.get("op"), r.get("exc"), r.get("msg"))
        if kind == "create":
            if r.get("ok") == 1 and r.get("scalar"):
                created.pop(reg, None)       # scalars leave the register file (they become Python objects)
            elif r.get("ok") == 1:
                created[reg] = (r.get("json"), r.get("digest"))
                types[reg] = r.get("type")
                if not r.get("scalar") and r.get("valid", "") != "":
                    return "result of %s fails validity: %r [root type: %s]" % (st.get("op"), r.get("valid"), types.get(st.get("src")))
            else:
                created.pop(reg, None)
        elif kind == "drop":
            created.pop(reg, None)
        elif kind == "reread":
            if reg in created:
                if r.get("ok") != 1:
                    return "array %s unreadable later: %s" % (reg, r.get("msg") or r.get("harness"))
                if (r.get("json"), r.get("digest")) != created[reg]:
                    return "array %s changed after later operations/drops: %s -> %s" % (reg, created[reg][0], r.get("json"))
    return None


judge_history.wants_steps = True
judge_robust.wants_steps = True


def judge_nocrash(case, res):
    """stateful components under the sanitizers: any answer conforms here (their values are judged by C14/C15/C19);
    only non-ordinary exceptions are flagged, crashes are reported by the runner."""
    def walk(x):
        if isinstance(x, dict):
            if x.get("ok") == 0 and x.get("exc") is not None and x.get("exc") not in ORDINARY:
                return "not an ordinary exception: %s %s" % (x.get("exc"), x.get("msg"))
            for v in x.values():
                w = walk(v)
                if w:
                    return w
        elif isinstance(x, list):
            for v in x:
                w = walk(v)
                if w:
                    return w
        return None
    return walk(res)
