import os, sys
sys.path.insert(0, os.path.dirname(os.path.abspath(__file__)))
import akcheck, props

def main():
    if len(sys.argv) < 2 or sys.argv[1] not in props.RUNNERS:
        print("usage: check <%s> [--tier quick|thorough] [--replay path]" % "|".join(sorted(props.RUNNERS)))
        return 2
    prop = sys.argv[1]
    return akcheck.main(prop, props.RUNNERS[prop])

if __name__ == "__main__":
    sys.exit(main())
