"""Spec -> code replay: every case exported by TLC is instantiated (index widths, dtypes),
run through the L1 worker (real libawkward built from /repo), and compared with the
specification's expectation under the verdict rules of DESIGN.md section 4."""
import hashlib
import copy
import json
import math
import os
import subprocess
import sys
import time
from concurrent.futures import ProcessPoolExecutor

WIDTHS = ["64", "32", "U32"]
OPTWIDTHS = ["64", "32"]

DT_ALIAS = {"int64": "i64", "int32": "i32", "int16": "i16", "int8": "i8", "uint8": "u8", "uint16": "u16",
            "uint32": "u32", "uint64": "u64", "float32": "f32", "float64": "f64", "bool": "b",
            "complex64": "c64", "complex128": "c128", "datetime64": "M8", "timedelta64": "m8"}


# ------------------------------------------------------------------ VJSON <-> python
def vjson_to_py(v):
    t = v["t"]
    if t == "int":
        return v["x"]
    if t == "big":
        return int(v["s"])
    if t == "nan":
        return "nan"
    if t == "none":
        return None
    if t == "ident":
        return Ident(v["r"])
    if t == "list":
        return [vjson_to_py(x) for x in v["xs"]]
    if t == "rec":
        return {k: vjson_to_py(x) for k, x in zip(v["ks"], v["vs"])}
    if t == "str":
        return bytes(v["b"]).decode("latin-1")
    if t == "real":
        return v["n"] / v["d"]
    if t == "inf":
        return "inf" if v["s"] > 0 else "-inf"
    raise ValueError("bad vjson " + repr(v))


class Ident(object):
    """identity of min/max for an empty group: the dtype's extreme (or +-inf for floats)"""
    EXTREMES = {"min": {2 ** 63 - 1, 2 ** 31 - 1, 2 ** 15 - 1, 127, 2 ** 64 - 1, 2 ** 32 - 1, 2 ** 16 - 1, 255, "inf", 1, True},
                "max": {-2 ** 63, -2 ** 31, -2 ** 15, -128, 0, "-inf", False}}

    def __init__(self, r):
        self.r = r

    def matches(self, x):
        if isinstance(x, float):
            return False
        return x in Ident.EXTREMES[self.r]

    def __repr__(self):
        return "Ident(%s)" % self.r


def py_to_vjson(x):
    if x is None:
        return {"t": "none"}
    if isinstance(x, bool):
        return {"t": "int", "x": 1 if x else 0}
    if isinstance(x, int):
        return {"t": "int", "x": x}
    if isinstance(x, float):
        if math.isnan(x):
            return {"t": "nan"}
        if x == int(x):
            return {"t": "int", "x": int(x)}
        raise ValueError("non-integral float cannot cross the TLC boundary: %r" % x)
    if isinstance(x, str):
        if x == "nan":
            return {"t": "nan"}
        return {"t": "str", "b": list(x.encode("latin-1"))}
    if isinstance(x, list):
        return {"t": "list", "xs": [py_to_vjson(e) for e in x]}
    if isinstance(x, dict):
        return {"t": "rec", "ks": list(x.keys()), "vs": [py_to_vjson(e) for e in x.values()]}
    raise ValueError("bad py value %r" % (x,))


def values_equal(a, b):
    """Logical equality of two python-side values (json.loads results / vjson_to_py results):
    numbers by numeric value (1 == 1.0 == True), records by key->value, NaN token equal to itself."""
    if a is None or b is None:
        return a is None and b is None
    if isinstance(b, Ident):
        return b.matches(a)
    if isinstance(a, Ident):
        return a.matches(b)
    if isinstance(a, int) and isinstance(b, int):
        return int(a) == int(b)             # exact: 2**53 + 1 must not be confused with 2**53
    if isinstance(a, (bool, int, float)) and isinstance(b, (bool, int, float)):
        return float(a) == float(b)
    if isinstance(a, str) or isinstance(b, str):
        return isinstance(a, str) and isinstance(b, str) and a == b
    if isinstance(a, list) and isinstance(b, list):
        return len(a) == len(b) and all(values_equal(x, y) for x, y in zip(a, b))
    if isinstance(a, dict) and isinstance(b, dict):
        return list(a.keys()) == list(b.keys()) and all(values_equal(a[k], b[k]) for k in a)
    return False


# ------------------------------------------------------------------ ToList of an abstract (TLA+) layout, in Python
def abstract_to_list(L):
    """the abstraction function of AkLayout.tla re-stated in Python (used by finding matchers and L2 oracles)"""
    c = L["c"]
    if c == "Numpy":
        return ["nan" if x == -777 else x for x in L["d"]]
    if c == "Empty":
        return []
    if c == "Str":
        return [bytes(L["d"][L["o"][k]:L["o"][k + 1]]).decode("latin-1") for k in range(len(L["o"]) - 1)]
    if c == "Record":
        cs = [abstract_to_list(x) for x in L["xs"]]
        ks = [str(j) for j in range(len(cs))] if L.get("tuple") else L["names"]
        return [{k: col[i] for k, col in zip(ks, cs)} for i in range(L["n"])]
    if c == "Union":
        cs = [abstract_to_list(x) for x in L["xs"]]
        return [cs[t][i] for t, i in zip(L["t"], L["i"])]
    x = abstract_to_list(L["x"])
    if c == "Regular":
        n = L["zl"] if L["size"] == 0 else len(x) // L["size"]
        return [x[k * L["size"]:(k + 1) * L["size"]] for k in range(n)]
    if c == "ListOffset":
        return [x[L["o"][k]:L["o"][k + 1]] for k in range(len(L["o"]) - 1)]
    if c == "List":
        return [x[a:b] for a, b in zip(L["s"], L["e"])]
    if c == "Indexed":
        return [x[i] for i in L["i"]]
    if c == "IndexedOption":
        return [None if i < 0 else x[i] for i in L["i"]]
    if c == "ByteMasked":
        return [x[k] if (m != 0) == (L["vw"] != 0) else None for k, m in enumerate(L["m"])]
    if c == "BitMasked":
        out = []
        for k in range(L["n"]):
            byte = L["m"][k // 8]
            sh = k % 8 if L["lsb"] else 7 - k % 8
            out.append(x[k] if (((byte >> sh) & 1) != 0) == (L["vw"] != 0) else None)
        return out
    if c == "Unmasked":
        return x
    raise ValueError("abstract_to_list: " + c)


# ------------------------------------------------------------------ layout instantiation
def _other_value(v, dt):
    if dt in ("b", "bool"):
        return 1 - v
    return (v + 50) if isinstance(v, (int, float)) and not isinstance(v, bool) else v


def instantiate(L, pick, strided=False):
    """abstract TLA+ layout record -> LJSON for the worker; `pick(options)` chooses index widths.
    strided: multidimensional NumpyArrays are, one time in three, views into a larger buffer (a column range of a wider
    array that does not start at its first element: rows not packed back to back)"""
    c = L["c"]
    out = dict(L)
    if c == "Numpy":
        out["dt"] = DT_ALIAS.get(L.get("dt", "int64"), L.get("dt", "int64"))
        if out["dt"] in ("f64", "f32"):
            out["d"] = ["nan" if x == -777 else x for x in L["d"]]
        if strided and "shape" not in L and "p" not in L and len(L["d"]) >= 1 and pick([0, 0, 0, 1]) == 1:
            # one time in four a one-dimensional leaf is every second element of a wider buffer (x[1::2] of a NumPy array)
            buf = []
            for v in out["d"]:
                buf += [_other_value(v, out["dt"]), v]
            out.update(d=buf, shape=[len(L["d"])], st=[2], off=1)
        return out
    if c == "Str":
        bs = L.get("bs", 0)
        return {"c": "ListOffset", "w": pick(WIDTHS), "o": L["o"], "p": {"__array__": '"bytestring"' if bs else '"string"'},
                "x": {"c": "Numpy", "dt": "u8", "d": L["d"], "p": {"__array__": '"byte"' if bs else '"char"'}}}
    if c in ("ListOffset", "List", "Indexed"):
        if "w" not in out:
            neg = any(x < 0 for k in ("o", "s", "e", "i") for x in L.get(k, []))
            out["w"] = pick(OPTWIDTHS if neg else WIDTHS)
    elif c == "IndexedOption":
        if "w" not in out:
            out["w"] = pick(OPTWIDTHS)
    elif c == "Union":
        if "w" not in out:
            neg = any(x < 0 for x in L.get("i", []))
            out["w"] = pick(OPTWIDTHS if neg else WIDTHS)
    if "x" in L:
        out["x"] = instantiate(L["x"], pick, strided)
        # a RegularArray over a NumpyArray that it covers exactly is, half of the time, given as ONE multidimensional
        # NumpyArray (same type, same value): NumpyArray's own strided getitem/reduce/... paths
        x = out["x"]
        if (c == "Regular" and x.get("c") == "Numpy" and "st" not in x and L["size"] > 0 and "p" not in x and not L.get("p")
                and pick([0, 1]) == 1):
            inner = x.get("shape", [len(x["d"])])
            if inner[0] % L["size"] == 0 and inner[0] > 0:
                rows, size = inner[0] // L["size"], L["size"]
                if strided and len(inner) == 1 and pick([0, 1, 2]) == 2:
                    def other(v):                      # a value that the view does not hold at that place
                        return (1 - v) if x["dt"] in ("b", "bool") else ((v + 50) if isinstance(v, (int, float)) else v)
                    buf = [other(x["d"][0])]          # one element before the view, one after every row
                    for r in range(rows):
                        row = x["d"][r * size:(r + 1) * size]
                        buf += row + [other(row[-1])]
                    return {"c": "Numpy", "dt": x["dt"], "d": buf, "shape": [rows, size], "st": [size + 1, 1], "off": 1}
                return {"c": "Numpy", "dt": x["dt"], "d": x["d"], "shape": [rows, size] + inner[1:]}
    if "xs" in L:
        out["xs"] = [instantiate(x, pick, strided) for x in L["xs"]]
    return out


class Picker(object):
    def __init__(self, seed):
        self.n = seed

    def __call__(self, options):
        self.n = (self.n * 6364136223846793005 + 1442695040888963407) & 0xFFFFFFFFFFFFFFFF
        return options[(self.n >> 33) % len(options)]


# ------------------------------------------------------------------ slice items
def slice_item(it):
    k = it["k"]
    nb = 99999
    if k == "at":
        return {"k": "at", "i": it["i"]}
    if k == "range":
        return {"k": "range", "a": None if it["a"] == nb else it["a"], "b": None if it["b"] == nb else it["b"],
                "s": None if it["s"] == nb else it["s"]}
    if k in ("newaxis", "ellipsis"):
        return {"k": k}
    if k == "field":
        return {"k": "field", "key": it["key"]}
    if k == "fields":
        return {"k": "fields", "keys": it["keys"]}
    if k == "arr":
        return {"k": "arr", "data": it["is"]}
    if k == "arr2":
        return {"k": "arr", "data": it["is"], "shape": [len(it["is"]) // it["cols"], it["cols"]]}
    if k == "missing":
        vals = [x for x in it["is"] if x != nb]
        idx = []
        n = 0
        for x in it["is"]:
            if x == nb:
                idx.append(-1)
            else:
                idx.append(n)
                n += 1
        return {"k": "content", "layout": {"c": "IndexedOption", "w": "64", "i": idx,
                                           "x": {"c": "Numpy", "dt": "i64", "d": vals}}}
    if k == "jagged":
        offs = [0]
        flat = []
        anynone = False
        for sub in it["js"]:
            for x in sub:
                flat.append(x)
                anynone = anynone or x == nb
            offs.append(len(flat))
        if anynone:
            vals = [x for x in flat if x != nb]
            idx = []
            n = 0
            for x in flat:
                if x == nb:
                    idx.append(-1)
                else:
                    idx.append(n)
                    n += 1
            content = {"c": "IndexedOption", "w": "64", "i": idx, "x": {"c": "Numpy", "dt": "i64", "d": vals}}
        else:
            content = {"c": "Numpy", "dt": "i64", "d": flat}
        return {"k": "content", "layout": {"c": "ListOffset", "w": "64", "o": offs, "x": content}}
    raise ValueError("slice item " + repr(it))


# ------------------------------------------------------------------ case -> worker steps
def _has_complex(L):
    if not isinstance(L, dict):
        return False
    if L.get("c") == "Numpy" and str(L.get("dt", "")).startswith(("complex", "c64", "c128")):
        return True
    return _has_complex(L.get("x")) or any(_has_complex(x) for x in L.get("xs", []))


def _as_complex_records(v):
    if isinstance(v, list):
        return [_as_complex_records(x) for x in v]
    if isinstance(v, bool) or v is None:
        return v
    if isinstance(v, (int, float)):
        return {"re": v, "im": 0}
    return v


def steps_for_nd(case, pick):
    """as steps_for, but every RegularArray over a NumpyArray that it covers exactly becomes ONE multidimensional NumpyArray
    (two nested ones a three-dimensional array) three times out of four instead of one time in two"""
    def pick_nd(options):
        v = pick(options)
        if options == [0, 1] and pick([0, 1]) == 1:
            return 1
        return v
    return steps_for(case, pick_nd)


def steps_for(case, pick):
    act = case["act"]
    a = case.get("args", {})
    build = {"op": "build", "dst": "a", "layout": instantiate(case["from"], pick, True),
             "want": ["json", "type", "valid", "digest"]}
    if act == "validity":
        build["want"] = ["valid"]
        return [build]
    if act == "tolist":
        build["want"] = build["want"] + ["json_writers"]
        return [build]
    if act == "slice":
        op = {"op": "getitem", "src": "a", "slice": [slice_item(it) for it in a["items"]],
              "pydispatch": pick([0, 1])}
    elif act == "num":
        op = {"op": "num", "src": "a", "axis": a["axis"]}
    elif act == "localindex":
        op = {"op": "localindex", "src": "a", "axis": a["axis"]}
    elif act == "isnone":
        op = {"op": "bytemask", "src": "a"}
    elif act == "flatten":
        op = {"op": "flatten", "src": "a", "axis": a["axis"]}
    elif act == "pad":
        op = {"op": "rpad_and_clip" if a["clip"] else "rpad", "src": "a", "axis": a["axis"], "target": a["target"]}
    elif act == "reduce":
        op = {"op": "reduce", "src": "a", "reducer": a["reducer"], "axis": a["axis"], "mask": a["mask"],
              "keepdims": a["keepdims"]}
    elif act == "concat":
        b2 = {"op": "build", "dst": "b", "layout": instantiate(case["aux"], pick, True), "want": ["json", "type", "valid", "digest"]}
        op = {"op": "concat0", "src": "b", "others": ["a"], "dst": "r", "want": ["json", "type", "valid"]}
        return [build, b2, op, {"op": "digest", "src": "a"}]
    elif act == "setfield":
        b2 = {"op": "build", "dst": "b", "layout": instantiate(case["aux"], pick, True), "want": ["json", "type", "valid", "digest"]}
        op = {"op": "setitem_field", "src": "b", "what": "a", "dst": "r", "want": ["json", "type", "valid"]}
        if "where" in a:
            op["wherei"] = a["where"]
        else:
            op["where"] = a["key"]
        return [build, b2, op, {"op": "digest", "src": "a"}]
    elif act == "samevalue":
        o = a["o"]
        if o == "simplify":
            op = {"op": "simplify", "src": "a"}
        elif o.startswith("astype_"):
            op = {"op": "numbers_to_type", "src": "a", "name": o[len("astype_"):]}
        elif o == "project_bytemask":
            op = {"op": "bytemask", "src": "a"}
        elif o == "toListOffsetArray64":
            op = {"op": "toListOffsetArray64", "src": "a", "start_at_zero": pick([0, 1])}
        else:
            op = {"op": o, "src": "a"}
    elif act in ("sort", "argsort"):
        op = {"op": act, "src": "a", "axis": a["axis"], "ascending": a["asc"], "stable": a["stable"]}
    elif act == "comb":
        op = {"op": "combinations", "src": "a", "axis": a["axis"], "n": a["n"], "replacement": a["repl"]}
    else:
        raise ValueError("no translation for act " + act)
    op["dst"] = "r"
    op["want"] = ["json", "type", "valid"]
    return [build, op, {"op": "digest", "src": "a"}]


# ------------------------------------------------------------------ verdicts
def judge(case, res):
    """returns None if the observation conforms, else a short reason string."""
    act = case["act"]
    if not res:
        return "no result"
    b = res[0]
    if b.get("ok") == -1:
        return "harness: " + b.get("harness", "")
    if act == "validity":
        want_valid = case["exp"]["v"]["x"] == 1
        if b.get("ok") != 1:
            # some rules are enforced by the constructors: a clean refusal of an invalid layout conforms
            if not want_valid and b.get("exc") in ("ValueError", "RuntimeError"):
                return None
            return "constructor raised on a valid layout: %s" % b.get("msg")
        if "valid_exc" in b:
            return "validityerror raised: " + b["valid_exc"]
        is_valid = b.get("valid", None) == ""
        if want_valid != is_valid:
            return "spec Valid=%s but validityerror=%r" % (want_valid, b.get("valid"))
        return None
    if b.get("ok") != 1:
        return "build failed: %s" % b.get("msg")
    if b.get("valid", "") != "":
        return "valid layout reported invalid: %r" % b.get("valid")
    if "fromty" in case and b.get("type") != case["fromty"]:
        return "type of layout: spec %r, library %r" % (case["fromty"], b.get("type"))
    if "len" in case and b.get("len") != case["len"]:
        return "length of layout: spec %r, library %r" % (case["len"], b.get("len"))
    if act == "tolist":
        try:
            got = json.loads(b["json"])
        except Exception as e:
            return "tojson not parseable: %s" % e
        want = vjson_to_py(case["exp"]["v"])
        if _has_complex(case["from"]):
            want = _as_complex_records(want)        # complex numbers are written as {"re": x, "im": y} (the chosen field names)
        if not values_equal(got, want):
            return "to_list differs: library %s" % b["json"]
        if "json_writers_exc" in b:
            return "a JSON writer raised: %s" % b["json_writers_exc"]
        for key in ("json_pretty", "json_file", "json_file_pretty"):
            if key in b:
                try:
                    other = json.loads(b[key])
                except Exception as e:
                    return "%s is not parseable: %s" % (key, e)
                if other != got:
                    return "%s parses to %s, the compact string writer to %s" % (key, json.dumps(other)[:160], json.dumps(got)[:160])
        return None
    opi = 2 if act in ("concat", "setfield") else 1
    if len(res) <= opi:
        return "missing op result"
    r = res[opi]
    if act in ("concat", "setfield"):
        b2 = res[1]
        if b2.get("ok") != 1 or b2.get("valid", "") != "":
            return "aux build failed/invalid: %r" % (b2.get("msg") or b2.get("valid"))
        if b2.get("type") != case.get("auxty"):
            return "type of aux layout: spec %r, library %r" % (case.get("auxty"), b2.get("type"))
    if r.get("ok") == -1:
        if act == "samevalue" and ("not a" in r.get("harness", "") or "wrong class" in r.get("harness", "") or "not an" in r.get("harness", "")):
            return None      # conversion not defined for this node class
        return "harness: " + r.get("harness", "")
    exp = case["exp"]
    if exp["ok"] == 3:
        # ill-formed request: only the universal obligations apply (clean outcome, valid result)
        if r.get("ok") == 1 and not r.get("scalar") and r.get("valid", "") != "":
            return "result fails validity: %r" % r.get("valid")
        if r.get("ok") == 1 and "json_exc" in r:
            return "tojson raised: " + r["json_exc"]
    elif exp["ok"] == 0:
        if r.get("ok") == 1:
            return "spec: must raise; library returned %s" % r.get("json")
        if r.get("exc") not in ("ValueError", "RuntimeError"):
            return "not an ordinary exception: %s" % r.get("exc")
    else:
        if r.get("ok") != 1:
            if exp["ok"] == 2:
                pass
            else:
                return "spec: value expected; library raised %s: %s" % (r.get("exc"), r.get("msg"))
        else:
            if "json_exc" in r:
                return "tojson raised: " + r["json_exc"]
            if r.get("json_skipped"):
                return "result fails validity: %r" % r.get("valid")
            if act == "isnone":
                got = [1 if x else 0 for x in r.get("index", [])]
                if not values_equal(got, vjson_to_py(exp["v"])):
                    return "value differs: library bytemask %s" % json.dumps(got)
                return None
            try:
                got = json.loads(r["json"])
            except Exception as e:
                return "tojson not parseable: %s" % e
            want = vjson_to_py(exp["v"])
            if not values_equal(got, want):
                return "value differs: library %s" % r["json"]
            if not r.get("scalar") and r.get("valid", "") != "":
                return "result fails validity: %r" % r.get("valid")
            if "ty" in exp and r.get("type") != exp["ty"]:
                return "result type: spec %r, library %r" % (exp["ty"], r.get("type"))
    if exp.get("sametype") == 1 and r.get("ok") == 1 and str(r.get("type", "")).startswith("union["):
        return "identical types must merge into one type, not a union: %r + %r -> %r" % (case.get("auxty"), case["fromty"], r.get("type"))
    if len(res) >= opi + 2 and res[opi + 1].get("ok") == 1 and "digest" in res[opi + 1]:
        if res[opi + 1]["digest"] != b.get("digest"):
            return "input buffers modified by the operation"
    return None


# ------------------------------------------------------------------ running a chunk through one worker
def run_worker(worker, wcases, timeout=120, env=None):
    """wcases: list of worker case dicts (with unique 'id').  Returns (answers by id, crashes) where
    crashes is a list of (id, description)."""
    answers = {}
    crashes = []
    pending = list(wcases)
    while pending:
        inp = "\n".join(json.dumps(c) for c in pending) + "\n"
        try:
            p = subprocess.run([worker], input=inp.encode(), stdout=subprocess.PIPE, stderr=subprocess.PIPE,
                               timeout=timeout, env=env)
            out, rc, err = p.stdout, p.returncode, p.stderr
            timed_out = False
        except subprocess.TimeoutExpired as e:
            out, rc, err = e.stdout or b"", -9, e.stderr or b""
            timed_out = True
        n = 0
        for line in out.decode(errors="replace").splitlines():
            line = line.strip()
            if not line:
                continue
            try:
                ans = json.loads(line)
            except Exception:
                break
            answers[ans["id"]] = ans["res"]
            n += 1
        if n >= len(pending):
            break
        # the case after the last answered one killed (or hung) the worker
        culprit = pending[n]
        tail = err.decode(errors="replace")[-1500:]
        if len(pending) - n > 1 and timed_out:
            # distinguish a real hang from an overall slow chunk: re-run the culprit alone
            try:
                q = subprocess.run([worker], input=(json.dumps(culprit) + "\n").encode(), stdout=subprocess.PIPE,
                                   stderr=subprocess.PIPE, timeout=20, env=env)
                if q.returncode == 0 and q.stdout.strip():
                    answers[culprit["id"]] = json.loads(q.stdout.decode().splitlines()[0])["res"]
                    pending = pending[n + 1:]
                    continue
                desc = "crash rc=%s %s" % (q.returncode, q.stderr.decode(errors="replace")[-800:])
            except subprocess.TimeoutExpired:
                desc = "hang (no answer within 20 s)"
        else:
            full = err.decode(errors="replace")
            summ = [ln for ln in full.splitlines() if ln.startswith("SUMMARY: ")]
            desc = ("hang (timeout)" if timed_out else "crash rc=%s" % rc) + " " + (summ[0] + " " if summ else "") + tail
        crashes.append((culprit["id"], desc))
        pending = pending[n + 1:]
        if "hang" in desc:
            # a change that makes programs loop forever hangs case after case: after the first hang the rest of the chunk gets
            # 30 s, after the third the chunk is abandoned (its unanswered cases are reported as such) -- the check must END
            hangs = sum(1 for _i, d in crashes if "hang" in d)
            timeout = 30
            if hangs >= 3:
                for c in pending:
                    crashes.append((c["id"], "not run: the worker hung three times in this chunk"))
                break
    return answers, crashes


def _chunk_task(args):
    worker, src, seed, env, translate, judge_fn = args[:6]
    record = args[6] if len(args) > 6 else None
    import importlib
    mod = importlib.import_module(translate[0])
    tr = getattr(mod, translate[1])
    jd = getattr(importlib.import_module(judge_fn[0]), judge_fn[1])
    if isinstance(src, tuple):
        path, off, nbytes, first_idx = src
        with open(path, "rb") as f:
            f.seek(off)
            data = f.read(nbytes)
        chunk = [(first_idx + k, json.loads(line)) for k, line in enumerate(data.splitlines()) if line.strip()]
    else:
        chunk = src
    wcases = []
    for idx, case in chunk:
        pick = Picker(seed * 1000003 + idx)
        wcases.append({"id": idx, "steps": tr(case, pick)})
    answers, crashes = run_worker(worker, wcases, env=env)
    fails = []
    stats = {"n": len(chunk), "ok": 0, "err_expected": 0, "value_cases": 0}
    crashed = dict(crashes)
    by_id = {c["id"]: c for c in wcases}
    for idx, case in chunk:
        if idx in crashed:
            fails.append((idx, case, by_id[idx], None, "CRASH: " + crashed[idx]))
            continue
        res = answers.get(idx)
        why = jd(case, res, by_id[idx]["steps"]) if getattr(jd, "wants_steps", False) else jd(case, res)
        if why is not None:
            fails.append((idx, case, by_id[idx], res, why))
        else:
            stats["ok"] += 1
            if case.get("exp", {}).get("ok") == 0:
                stats["err_expected"] += 1
    if record:
        rf = getattr(importlib.import_module(record[0]), record[1])
        first = chunk[0][0] if chunk else 0
        with open("%s.obs.%09d" % (record[2], first), "w") as f:
            for idx, case in chunk:
                if idx in crashed:
                    rec = rf(case, None, "CRASH")
                else:
                    rec = rf(case, answers.get(idx), None)
                if rec is not None:
                    f.write(json.dumps(rec) + "\n")
    return stats, fails


def _file_chunks(path, chunk, max_cases=None):
    """split an ndjson file into (path, offset, nbytes, first_index) pieces of `chunk` lines without parsing"""
    out = []
    with open(path, "rb") as f:
        off = 0
        start = 0
        n = 0
        first = 0
        for line in f:
            off += len(line)
            n += 1
            if max_cases and n >= max_cases:
                break
            if n - first >= chunk:
                out.append((path, start, off - start, first))
                start = off
                first = n
        if off > start:
            out.append((path, start, off - start, first))
    return out


def replay_cases(worker, cases, seed=0, jobs=16, chunk=1500, env=None,
                 translate=("replay", "steps_for"), judge_fn=("replay", "judge"), max_fail_keep=100000,
                 max_cases=None, record=None, sample_cases=None):
    """cases: path of an ndjson file (preferred: parsed in the worker processes) or an iterable of case dicts.
    Returns (stats, failures)."""
    if isinstance(cases, str):
        # (the file is in canonical -- sorted -- order: a cap on the number of cases must not mean "the first N",
        #  it is an evenly spaced sample like sample_cases)
        chunks = _file_chunks(cases, chunk, None)
        if max_cases:
            sample_cases = min(sample_cases, max_cases) if sample_cases else max_cases
    else:
        chunks = []
        cur = []
        for idx, case in enumerate(cases):
            if max_cases and idx >= max_cases:
                break
            cur.append((idx, case))
            if len(cur) >= chunk:
                chunks.append(cur)
                cur = []
        if cur:
            chunks.append(cur)
    if sample_cases and len(chunks) * chunk > sample_cases:
        # evenly spaced chunks (seeded phase), so that all BFS levels of the exploration are represented
        want = max(1, sample_cases // chunk)
        step = len(chunks) / float(want)
        phase = (seed % 7) / 7.0
        chunks = [chunks[min(len(chunks) - 1, int((k + phase) * step))] for k in range(want)]
    total = {"n": 0, "ok": 0, "err_expected": 0}
    fails = []
    nfail = 0
    sys.path.insert(0, os.path.dirname(os.path.abspath(__file__)))
    nhang = 0
    ex = ProcessPoolExecutor(jobs)
    try:
        for stats, fl in ex.map(_chunk_task, [(worker, c, seed, env, translate, judge_fn, record) for c in chunks]):
            for k in total:
                total[k] += stats.get(k, 0)
            nfail += len(fl)
            if len(fails) < max_fail_keep:
                fails.extend(fl[:max_fail_keep - len(fails)])
            nhang += sum(1 for f in fl if isinstance(f[4], str) and f[4].startswith("CRASH: hang"))
            if nhang >= 12:
                # a change under which case after case never returns: what has been seen is reported, the rest of the phase
                # is abandoned (each hanging chunk costs minutes) -- the check must end
                total["abandoned_after_hangs"] = nhang
                break
    finally:
        ex.shutdown(wait=True, cancel_futures=True)
    total["failed"] = nfail
    return total, fails


def judge_closure(case, res):
    """C11 closure: whatever the operation returns for a valid input must itself pass the validity check
    (value agreement is the business of the other properties and is not judged here)."""
    act = case["act"]
    if not res:
        return "no result"
    b = res[0]
    if b.get("ok") != 1:
        return "build failed: %s" % (b.get("msg") or b.get("harness"))
    if b.get("valid", "") != "":
        return "valid layout reported invalid: %r" % b.get("valid")
    opi = 2 if act in ("concat", "setfield") else 1
    if len(res) <= opi:
        return None
    r = res[opi]
    if r.get("ok") != 1:
        if r.get("ok") == 0 and r.get("exc") not in ("ValueError", "RuntimeError"):
            return "not an ordinary exception: %s" % r.get("exc")
        return None
    if not r.get("scalar") and r.get("valid", "") != "":
        return "result fails validity: %r" % r.get("valid")
    if "valid_exc" in r:
        return "validityerror raised on a result: " + r["valid_exc"]
    if "json_exc" in r:
        return "result cannot be read (tojson raised): " + r["json_exc"]
    return None


# ------------------------------------------------------------------ ArrayBuilder behaviours (Builder.tla)
def _bcmd(c):
    out = dict(c)
    if c["c"] == "str":
        out["x"] = bytes(c["b"]).decode("latin-1")
        del out["b"]
    return out


def steps_builder(case, pick):
    return [{"op": "builder_run", "cmds": [_bcmd(c) for c in case["cmds"]], "initial": pick([1, 2, 3, 1024]),
             "resize_num": pick([3, 4, 11]), "resize_den": 2, "capi": pick([0, 0, 1])}]


def steps_builder_cpp(case, pick):
    st = steps_builder(case, pick)
    st[0]["capi"] = 0            # append(array, at) exists on the C++ class only
    return st


def builder_values_equal(got, want):
    """as values_equal, but a record may already show fields that a record still being filled has
    introduced (the shared record type is updated when the field is named): such extra fields must be None"""
    if isinstance(got, dict) and isinstance(want, dict):
        gk = [k for k in got if k in want]
        if gk != list(want.keys()):
            return False
        if any(got[k] is not None for k in got if k not in want):
            return False
        return all(builder_values_equal(got[k], want[k]) for k in want)
    if isinstance(got, list) and isinstance(want, list):
        return len(got) == len(want) and all(builder_values_equal(x, y) for x, y in zip(got, want))
    return values_equal(got, want)


def judge_builder(case, res):
    if not res:
        return "no result"
    r = res[0]
    if r.get("ok") != 1:
        return "builder_run failed: %r" % (r.get("harness") or r.get("msg"))
    steps = r["steps"]
    obs = case["obs"]
    for i, exp in enumerate(obs):
        if i >= len(steps):
            return "command %d (%s): no observation" % (i, case["cmds"][i]["c"])
        got = steps[i]
        if exp["ok"] == 3:
            break            # unspecified from here on (only "no crash" applies)
        if exp["ok"] == 0:
            if got.get("ok") == 1:
                return "command %d (%s): ill-nested call accepted, snapshot %s" % (i, case["cmds"][i]["c"], got.get("json"))
            if got.get("exc") not in ("ValueError", "RuntimeError"):
                return "command %d: not an ordinary exception: %s" % (i, got.get("exc"))
            break
        if got.get("ok") != 1:
            return "command %d (%s): well-nested call raised %s: %s" % (i, case["cmds"][i]["c"], got.get("exc"), got.get("msg"))
        try:
            val = json.loads(got["json"])
        except Exception as e:
            return "command %d: snapshot json not parseable: %s" % (i, e)
        if not builder_values_equal(val, vjson_to_py(exp["v"])):
            return "command %d (%s): snapshot %s differs from appended values" % (i, case["cmds"][i]["c"], got["json"])
        if got.get("valid", "") != "":
            return "command %d: snapshot fails validity: %r" % (i, got.get("valid"))
    if r.get("immutable") != 1:
        return "an earlier snapshot changed: %s" % r.get("diff")
    return None


# ------------------------------------------------------------------ Form-driven LayoutBuilder (LayoutBuilder.tla)
_STRFORM = {"class": "ListOffsetArray64", "offsets": "i64", "parameters": {"__array__": "string"},
            "content": {"class": "NumpyArray", "primitive": "uint8", "parameters": {"__array__": "char"}}}


def lb_form_json(F, pick=None, counter=None):
    """model form -> Form JSON of /repo (every node gets its own form_key: the generated AwkwardForth names derive from it)"""
    counter = counter if counter is not None else [0]
    counter[0] += 1
    key = "n%d" % counter[0]
    f = F["f"]
    if f == "num":
        out = {"class": "NumpyArray", "primitive": F["dt"], "inner_shape": []}
    elif f == "str":
        out = json.loads(json.dumps(_STRFORM))
        out["content"]["form_key"] = key + "c"
    elif f == "list":
        out = {"class": "ListOffsetArray64", "offsets": "i64", "content": lb_form_json(F["c"], pick, counter)}
    elif f == "reg":
        out = {"class": "RegularArray", "size": F["n"], "content": lb_form_json(F["c"], pick, counter)}
    elif f == "opt":
        out = {"class": "IndexedOptionArray64", "index": "i64", "content": lb_form_json(F["c"], pick, counter)}
    elif f == "wrap":
        c = lb_form_json(F["c"], pick, counter)
        out = {"indexed": {"class": "IndexedArray64", "index": "i64", "content": c},
               "bytemasked": {"class": "ByteMaskedArray", "mask": "i8", "valid_when": True, "content": c},
               "bitmasked": {"class": "BitMaskedArray", "mask": "u8", "valid_when": True, "lsb_order": True, "content": c},
               "unmasked": {"class": "UnmaskedArray", "content": c}}[F["k"]]
    elif f == "rec":
        out = {"class": "RecordArray", "contents": {k: lb_form_json(c, pick, counter) for k, c in zip(F["ks"], F["cs"])}}
    elif f == "union":
        out = {"class": "UnionArray8_64", "tags": "i8", "index": "i64", "contents": [lb_form_json(c, pick, counter) for c in F["cs"]]}
    else:
        raise ValueError("form " + repr(F))
    out["form_key"] = key
    return out


def steps_layoutbuilder(case, pick):
    return [{"op": "layoutbuilder_run", "form": json.dumps(lb_form_json(case["form"])), "cmds": [_bcmd(c) for c in case["cmds"]],
             "initial": pick([8, 16, 1024])}]


def lb_features(F, above=None, out=None):
    """structural features of a model form that the known findings of the LayoutBuilder are keyed on"""
    out = out if out is not None else set()
    f = F["f"]
    if f in ("list", "str") and above in ("reg", "wrap", "union"):
        out.add("list-below-" + above)               # begin_list is not routed through these nodes
    if f == "str" and above == "rec":
        out.add("str-below-rec")                     # string() to a record field does not open the field's list
    if f == "reg" and above == "list":
        out.add("reg-below-list")                    # the list counts the leaves of a RegularArray below it, not its rows
    for c in ([F["c"]] if "c" in F else F.get("cs", [])):
        lb_features(c, f, out)
    return out


def judge_layoutbuilder(case, res):
    if not res:
        return "no result"
    r = res[0]
    if r.get("ok") != 1:
        if r.get("harness"):
            return "layoutbuilder_run failed: %r" % r.get("harness")
        if r.get("exc") in ("ValueError", "RuntimeError"):
            # the builder may refuse a Form at construction -- but not one whose first command it is specified to accept
            return None if case["obs"][0]["ok"] in (0, 3) else "construction refused: %s" % r.get("msg")
        return "construction: not an ordinary exception: %s %s" % (r.get("exc"), r.get("msg"))
    steps = r["steps"]
    for i, exp in enumerate(case["obs"]):
        cname = case["cmds"][i]["c"]
        if exp["ok"] == 3:
            break
        if i >= len(steps):
            return "command %d (%s): no observation" % (i, cname)
        got = steps[i]
        if exp["ok"] == 0:
            if got.get("ok") == 1:
                return "command %d (%s): a datum of the wrong primitive type was accepted, snapshot %s" % (i, cname, got.get("json"))
            if got.get("exc") not in ("ValueError", "RuntimeError"):
                return "command %d: not an ordinary exception: %s" % (i, got.get("exc"))
            break
        if got.get("ok") != 1:
            return "command %d (%s): a command that fits the Form raised %s: %s" % (i, cname, got.get("exc"), got.get("msg"))
        if got.get("formsame") != 1:
            return "command %d: the builder's form() is no longer the Form it was made from" % i
        if exp["ok"] == 4:
            continue                      # an element is half-filled: the snapshot is not judged
        if got.get("valid", "") != "":
            return "command %d (%s): snapshot fails validity: %r" % (i, cname, got.get("valid"))
        try:
            val = json.loads(got["json"])
        except Exception as e:
            return "command %d: snapshot json not parseable: %s" % (i, e)
        if not values_equal(val, vjson_to_py(exp["v"])):
            return "command %d (%s): snapshot %s differs from the appended values" % (i, cname, got["json"])
    if r.get("immutable") != 1:
        return "an earlier snapshot changed: %s" % r.get("diff")
    return None


# ------------------------------------------------------------------ AwkwardForth programs (Forth.tla)
def forth_src(p):
    out = []
    for h in p:
        k = h["k"]
        if k == "lit":
            out.append(str(h["x"]))
        elif k == "w":
            out.append(h["w"])
        elif k == "if":
            out.append("if " + forth_src(h["a"]) + (" else " + forth_src(h["b"]) if h["el"] else "") + " then")
        elif k == "do":
            out.append("do " + forth_src(h["body"]) + (" +loop" if h["st"] else " loop"))
        elif k == "until":
            out.append("begin " + forth_src(h["body"]) + " until")
        elif k == "while":
            out.append("begin " + forth_src(h["c"]) + " while " + forth_src(h["body"]) + " repeat")
        elif k == "get":
            out.append("x @")
        elif k == "put":
            out.append("x !")
        elif k == "inc":
            out.append("x +!")
        elif k == "call":
            out.append("f")
        elif k == "read":
            out.append("data %s-> stack" % h["ty"])
        elif k == "in":
            out.append("data " + h["w"])
        elif k == "write":
            out.append("y <- stack")
        elif k == "writeadd":
            out.append("y +<- stack")
        elif k == "outlen":
            out.append("y len")
        else:
            raise ValueError("forth instr " + repr(h))
    return " ".join(out)


def forth_program(case, main=None):
    src = "input data output y int32 variable x "
    if case["def"] or '"call"' in json.dumps(case["main"]):
        src += ": f " + forth_src(case["def"]) + " ; "
    return src + forth_src(case["main"] if main is None else main)


def steps_forth(case, pick):
    base = {"op": "forth_run", "stack_max": case["stackmax"], "recursion_max": case["recmax"],
            "inputs": {"data": case["input"]}}
    src = forth_program(case)
    main = case["main"]
    # a pause at any point of the program: between top-level instructions (two of three cases) or anywhere inside nested
    # bodies -- the end of a loop body, a branch of an if, the condition of a while loop
    paused_main = copy.deepcopy(main)
    seqs = [paused_main]

    def walk(seq):
        for h in seq:
            for key in ("a", "b", "body", "c"):
                if isinstance(h.get(key), list):
                    seqs.append(h[key])
                    walk(h[key])
    walk(paused_main)
    target = pick([paused_main, paused_main] + seqs)
    k = pick(list(range(len(target) + 1)))
    target.insert(k, {"k": "w", "w": "pause"})
    paused = forth_program(case, paused_main)
    bits = pick([32, 64])
    steps = [dict(base, source=src, bits=bits, schedule=["run"], rerun_decompiled=1),
             dict(base, source=src, bits=96 - bits, schedule=["stepall"], out_initial=1, out_resize_num=11, out_resize_den=10),
             dict(base, source=paused, bits=bits, schedule=["runall"], out_initial=2),
             # a second run on the SAME machine (run() begins afresh: the outcome is a function of source and input alone,
             # whatever the first run left behind -- loop frames of a run that failed inside a do-loop, stack, variables)
             dict(base, source=src, bits=bits, schedule=["run", "run"])]
    return steps


def _forth_final(r):
    if r.get("ok") != 1:
        return None, "compile/run failed: %s" % (r.get("msg") or r.get("harness"))
    st = r["steps"][-1]
    if "exc" in st or "harness" in st:
        return None, "raised %s: %s" % (st.get("exc"), st.get("msg") or st.get("harness"))
    return st, None


def judge_forth(case, res):
    if not res:
        return "no result"
    exp = case["exp"]
    names = ["run", "begin+step*", "pause+resume*", "run twice on one machine", "decompiled"]
    res = list(res)
    if res and res[0].get("ok") == 1 and "dec" in res[0]:
        d = res[0]["dec"]
        res.append({"ok": 1, "steps": [d]} if "err" in d else {"ok": 0, "msg": d.get("msg"), "phase": "compile", "exc": "ValueError"})
    for name, r in zip(names, res):
        if exp["err"] == "compile_error":
            if r.get("ok") == 0 and r.get("phase") == "compile" and r.get("exc") == "ValueError":
                continue
            return "%s: ill-formed program was accepted by the compiler" % name
        st, why = _forth_final(r)
        if why:
            return "%s: %s" % (name, why)
        if st["err"] != exp["err"]:
            return "%s: error status %s, documented semantics %s" % (name, st["err"], exp["err"])
        if exp["err"] == "none":
            if st["stack"] != exp["st"]:
                return "%s: stack %s, expected %s" % (name, st["stack"], exp["st"])
            if st["vars"].get("x") != exp["x"]:
                return "%s: variable x %s, expected %s" % (name, st["vars"].get("x"), exp["x"])
            if json.loads(st["outs"].get("y", "[]")) != exp["out"]:
                return "%s: output %s, expected %s" % (name, st["outs"].get("y"), exp["out"])
            if st["inpos"].get("data") != exp["pos"]:
                return "%s: input position %s, expected %s" % (name, st["inpos"].get("data"), exp["pos"])
    return None


# ------------------------------------------------------------------ JSON texts (JsonIO.tla)
def json_text(toks, pick):
    parts = []
    for t in toks:
        k = t["t"]
        if k in "[]{},:":
            parts.append(k)
        elif k == "null":
            parts.append("null")
        elif k == "true":
            parts.append("true")
        elif k == "int":
            parts.append(str(t["x"]))
        elif k == "bigint":
            parts.append(t["s"])
        elif k == "real":
            parts.append(repr(t["n"] / t["d"]))
        elif k == "str":
            parts.append(json.dumps(bytes(t["b"]).decode("latin-1")))
        else:
            parts.append(t.get("text", "tru"))
    sep = pick([" ", " ", "\n", "\t ", ""])
    if sep == "":
        out = ""
        for a, b in zip(parts, parts[1:] + [""]):
            out += a
            # no separator only where the two tokens cannot fuse lexically
            if b and not (a[-1] in "[]{},:" or b[0] in "[]{},:"):
                out += " "
        return out
    lead = pick(["", " ", "\n"])
    return lead + sep.join(parts) + pick(["", " ", "\n"])


def steps_json(case, pick):
    text = json_text(case["toks"], pick)
    mode = pick([0, 0, 1])
    st = {"op": "json_parse", "text": text, "initial": pick([1, 2, 1024]), "dst": "r", "want": ["json", "type", "valid", "json_even_if_invalid"]}
    if mode == 1:
        st["file"] = 1
        st["buffersize"] = pick([1, 2, 3, 7, 64, 65536])
    return [st, {"op": "json_write", "src": "r", "pretty": pick([0, 1]), "file": pick([0, 1]), "buffersize": pick([1, 5, 65536])}]


def judge_json(case, res):
    if not res:
        return "no result"
    r = res[0]
    exp = case["exp"]
    if r.get("ok") == -1:
        return "harness: " + r.get("harness", "")
    if exp["ok"] == 3:
        return None
    if exp["ok"] == 0:
        if r.get("ok") == 1:
            return "malformed/truncated JSON accepted, result %s" % r.get("json")
        if r.get("exc") not in ("ValueError", "RuntimeError"):
            return "not an ordinary exception: %s" % r.get("exc")
        return None
    if r.get("ok") != 1:
        return "valid JSON (%d documents) refused: %s" % (exp["n"], r.get("msg"))
    try:
        got = json.loads(r["json"])
    except Exception as e:
        return "tojson of the parsed array is not parseable: %s" % e
    if not builder_values_equal(got, vjson_to_py(exp["v"])):
        return "from_json value %s differs from from_iter(json.loads(text))" % r["json"]
    if not r.get("scalar") and r.get("valid", "") != "" and exp["v"].get("t") != "str":
        return "parsed array fails validity: %r" % r.get("valid")      # (a bare string document is returned as its characters)
    # to_json(from_json(text)) must be well-formed JSON with the same value (output half, round trip)
    if len(res) > 1:
        w = res[1]
        if w.get("ok") != 1:
            return "to_json of the parsed array raised: %s" % (w.get("msg") or w.get("harness"))
        try:
            back = json.loads(w["text"])
        except Exception as e:
            return "to_json output is not well-formed JSON: %s" % e
        def unmark(x):      # the writer was given its own marker strings for the non-finite numbers
            if isinstance(x, list):
                return [unmark(y) for y in x]
            if isinstance(x, dict):
                return {k: unmark(y) for k, y in x.items()}
            return {"NaN!": "nan", "Inf!": "inf", "-Inf!": "-inf"}.get(x, x) if isinstance(x, str) else x
        if not values_equal(unmark(back), got):
            return "to_json output %s does not parse back to the array's value" % w["text"][:200]
    return None


# ------------------------------------------------------------------ C02: outcomes must depend on the logical value only
def judge_none(case, res):
    return None


def record_c02(case, res, crash):
    """(key, outcome): key = the library's own to_list/type of the input + the operation; outcome = normalised result"""
    if crash:
        return {"key": None, "out": "CRASH", "case": case}
    if not res or res[0].get("ok") != 1:
        return None
    b = res[0]
    act = case["act"]
    opi = 2 if act in ("concat", "setfield") else 1
    key = [act, json.dumps(case.get("args"), sort_keys=True), b.get("type"), b.get("json")]
    if act in ("concat", "setfield"):
        if res[1].get("ok") != 1:
            return None
        key += [res[1].get("type"), res[1].get("json")]
    if len(res) <= opi:
        return None
    r = res[opi]
    if r.get("ok") == -1:
        return None
    if r.get("ok") == 1:
        try:
            out = ["ok", json.loads(r["json"])] if "json" in r else ["unreadable", r.get("json_exc")]
        except Exception:
            out = ["unparseable", r.get("json")]
    else:
        out = ["error"]
    return {"key": key, "out": out, "from": case["from"], "aux": case.get("aux"), "expok": case.get("exp", {}).get("ok")}
