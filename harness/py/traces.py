"""Code -> spec: record traces from the real ArrayBuilder under a seeded random driver and validate them with
spec/TraceBuilder.tla (which reuses Builder.tla's Effect and Unify)."""
import json
import os
import random
import re
import subprocess
import time
from fractions import Fraction

import replay
import tlc


def _gen_commands(rng, n):
    """a random, mostly well-nested command sequence (occasionally ill-nested on purpose)"""
    cmds = []
    stack = []
    keys = ["x", "y", "z", "w"]
    for _ in range(n):
        top = stack[-1] if stack else None
        r = rng.random()
        if r < 0.03:
            c = rng.choice([{"c": "endlist"}, {"c": "endrecord"}, {"c": "endtuple"}, {"c": "field", "key": "x"}, {"c": "index", "i": 5}])
            cmds.append(c)        # possibly ill-nested: the trace ends at the first error
            continue
        if top and top[0] == "rec" and top[1] == "needfield":
            if r < 0.25 and top[2] > 0:
                cmds.append({"c": "endrecord"})
                stack.pop()
                _value_done(stack)
                continue
            cmds.append({"c": "field", "key": rng.choice(keys)})
            top[1] = "needvalue"
            top[2] += 1
            continue
        if top and top[0] == "tup" and top[1] == "needindex":
            if top[2] >= top[3]:
                cmds.append({"c": "endtuple"})
                stack.pop()
                _value_done(stack)
                continue
            cmds.append({"c": "index", "i": top[2]})
            top[1] = "needvalue"
            top[2] += 1
            continue
        if top and top[0] == "list" and r < 0.25:
            cmds.append({"c": "endlist"})
            stack.pop()
            _value_done(stack)
            continue
        # a value or a begin...
        k = rng.random()
        if len(stack) < 4 and k < 0.15:
            cmds.append({"c": "beginlist"})
            stack.append(["list"])
        elif len(stack) < 4 and k < 0.27:
            cmds.append({"c": "beginrecord", "name": rng.choice(["", "", "P", "Q"])})
            stack.append(["rec", "needfield", 0])
        elif len(stack) < 4 and k < 0.33:
            nf = rng.choice([1, 2, 3])
            cmds.append({"c": "begintuple", "n": nf})
            stack.append(["tup", "needindex", 0, nf])
        else:
            v = rng.random()
            if v < 0.15:
                cmds.append({"c": "null"})
            elif v < 0.55:
                cmds.append({"c": "int", "x": rng.choice([0, 1, 2, -3, 7])})
            elif v < 0.75:
                cmds.append({"c": "real", "n": rng.choice([5, -1, 7]), "d": 2})
            elif v < 0.85:
                cmds.append({"c": "bool", "x": rng.choice([0, 1])})
            else:
                cmds.append({"c": "str", "b": list(rng.choice([b"a", b"bc", b""]))})
            _value_done(stack)
    return cmds


def _value_done(stack):
    if stack and stack[-1][0] in ("rec", "tup"):
        stack[-1][1] = "needfield" if stack[-1][0] == "rec" else "needindex"


def _vjson(x):
    """python value (json.loads of tojson) -> the tagged records of AkValue (records without names)"""
    if x is None:
        return {"t": "none"}
    if isinstance(x, bool):
        return {"t": "int", "x": 1 if x else 0}
    if isinstance(x, int):
        return {"t": "int", "x": x}
    if isinstance(x, float):
        if x == int(x):
            return {"t": "int", "x": int(x)}
        f = Fraction(x).limit_denominator(64)
        return {"t": "real", "n": f.numerator, "d": f.denominator}
    if isinstance(x, str):
        return {"t": "str", "b": list(x.encode("latin-1"))}
    if isinstance(x, list):
        return {"t": "list", "xs": [_vjson(e) for e in x]}
    if isinstance(x, dict):
        return {"t": "rec", "ks": list(x.keys()), "vs": [_vjson(e) for e in x.values()]}
    raise ValueError(x)


def record_builder_traces(worker, seed, ntraces, maxlen, env=None):
    rng = random.Random(seed)
    wcases = []
    seqs = []
    for t in range(ntraces):
        cmds = _gen_commands(rng, rng.randint(5, maxlen))
        seqs.append(cmds)
        wcases.append({"id": t, "steps": [{"op": "builder_run", "cmds": [replay._bcmd(c) for c in cmds], "initial": rng.choice([1, 2, 1024]),
                                            "resize_num": 3, "resize_den": 2, "capi": rng.choice([0, 0, 1])}]})
    answers, crashes = replay.run_worker(worker, wcases, env=env)
    traces = []
    problems = []
    for t, cmds in enumerate(seqs):
        if t in dict(crashes):
            problems.append((t, "CRASH while recording: " + dict(crashes)[t]))
            continue
        r = answers[t][0]
        if r.get("ok") != 1:
            problems.append((t, "builder_run failed: %r" % (r.get("harness") or r.get("msg"))))
            continue
        events = []
        dup = False
        for c, st in zip(cmds, r["steps"]):
            ev = {"cmd": c, "ok": 1 if st.get("ok") == 1 else 0}
            if st.get("ok") == 1:
                # objects with repeated keys cannot be represented after json.loads: such traces stop before that event
                pairs = []
                val = json.loads(st["json"], object_pairs_hook=lambda ps: (pairs.append(ps), dict(ps))[1])
                if any(len(set(k for k, _ in ps)) != len(ps) for ps in pairs):
                    dup = True
                    break
                ev["snap"] = _vjson(val)
            else:
                ev["snap"] = {"t": "none"}
            events.append(ev)
        if r.get("immutable") != 1 and not dup:
            problems.append((t, "an earlier snapshot changed: %s" % r.get("diff")))
        if events:
            traces.append(events)
    return traces, problems


def validate_builder_traces(traces, workdir, timeout=900):
    consts = dict(Alphabet="{}", MaxCmds="100000", MaxOpen="99", WellNestedOnly="FALSE", EmitOn="FALSE", **{"Allowed(h, c)": "TRUE"})
    return validate_batched("TraceBuilder", consts, "TInit", "TNext", traces, workdir, "traces.ndjson", batch=3000, timeout=timeout)


class _Combined(object):
    def __init__(self):
        self.wall = 0.0
        self.log = ""
        self.ok = True


def validate_batched(module, consts, init, next_, traces, workdir, filename, batch=5000, timeout=1500, invariants=()):
    """validates `traces` with TLC in batches (the JSON reader of the CommunityModules does not survive gigabyte files);
    returns (combined result, (ntraces, nrejected) or None, rejections with GLOBAL trace numbers)"""
    os.makedirs(workdir, exist_ok=True)
    comb = _Combined()
    total, nrej, rejected = 0, 0, []
    for b0 in range(0, max(len(traces), 1), batch):
        part = traces[b0:b0 + batch]
        tf = os.path.join(workdir, filename if b0 == 0 else "%s.%d" % (filename, b0 // batch))
        with open(tf, "w") as f:
            for tr in part:
                f.write(json.dumps(tr) + "\n")
        r = tlc.run_tlc(module, consts, workdir, init=init, next_=next_, view=None, action_constraints=(), invariants=list(invariants),
                        workers=1, timeout=timeout, coverage=False, env_extra={"TRACE_FILE": tf})
        comb.wall += r.wall
        log = open(os.path.join(workdir, "tlc.log")).read()
        comb.log = log
        m = re.search(r'<<"TRACES-CHECKED", (\d+), "rejected", (\d+)>>', log)
        if not m or int(m.group(1)) != len(part):
            return comb, None, rejected
        total += int(m.group(1))
        nrej += int(m.group(2))
        for tid, line, why, detail in re.findall(r'<<"TRACE-REJECTED", (\d+), (\d+), "([^"]*)", "(.*)">>', log):
            rejected.append((str(int(tid) + b0), line, why, detail))
        if b0 > 0:
            os.unlink(tf)
    return comb, (total, nrej), rejected


# ====================================================================== value-operation chains (TraceSession.tla)
def parse_type(s):
    """datashape text of the subset the driver produces -> the T records of AkValue (as JSON)"""
    s = s.strip()
    pos = [0]

    def peek(tok):
        return s.startswith(tok, pos[0])

    def eat(tok):
        assert s.startswith(tok, pos[0]), (s, pos[0], tok)
        pos[0] += len(tok)

    def ws():
        while pos[0] < len(s) and s[pos[0]] == " ":
            pos[0] += 1

    def parse():
        ws()
        if peek("?"):
            eat("?")
            return {"k": "opt", "x": parse()}
        if peek("option["):
            eat("option[")
            x = parse()
            ws()
            eat("]")
            return {"k": "opt", "x": x}
        if peek("var *"):
            eat("var *")
            return {"k": "var", "x": parse()}
        m = re.match(r"(\d+) \*", s[pos[0]:])
        if m:
            pos[0] += m.end()
            return {"k": "reg", "n": int(m.group(1)), "x": parse()}
        if peek("("):
            eat("(")
            xs = []
            ws()
            while not peek(")"):
                xs.append(parse())
                ws()
                if peek(","):
                    eat(",")
            eat(")")
            return {"k": "rec", "ks": [str(i) for i in range(len(xs))], "xs": xs, "tup": 1}
        if peek("{"):
            eat("{")
            ks, xs = [], []
            ws()
            while not peek("}"):
                m2 = re.match(r'"([^"]*)": ', s[pos[0]:])
                pos[0] += m2.end()
                ks.append(m2.group(1))
                xs.append(parse())
                ws()
                if peek(","):
                    eat(",")
                ws()
            eat("}")
            return {"k": "rec", "ks": ks, "xs": xs, "tup": 0}
        if peek("union["):
            eat("union[")
            xs = []
            ws()
            while not peek("]"):
                xs.append(parse())
                ws()
                if peek(","):
                    eat(",")
            eat("]")
            return {"k": "union", "xs": xs}
        m = re.match(r"(unknown|bool|u?int(8|16|32|64)|float(32|64))", s[pos[0]:])
        if m:
            pos[0] += m.end()
            return {"k": "unknown"} if m.group(1) == "unknown" else {"k": "num", "dt": m.group(1)}
        raise ValueError("type %r at %d" % (s, pos[0]))
    out = parse()
    ws()
    if pos[0] != len(s):
        raise ValueError("trailing type text in %r" % s)
    return out


def _rand_leaf(rng, n):
    dt = rng.choice(["i64", "i64", "i32", "f64", "b", "u8"])
    if rng.random() < 0.06:
        # extremes of the integer types: what a widening copy (concatenation with another dtype) must not bend
        dt = rng.choice(["u32", "i64", "u8", "i32"])
        lo, hi = {"u32": (0, 2 ** 32 - 1), "i64": (-2 ** 62, 2 ** 62), "u8": (0, 255), "i32": (-2 ** 31, 2 ** 31 - 1)}[dt]
        return {"c": "Numpy", "dt": dt, "d": [rng.choice([lo, hi, hi - 1, lo + 1, (lo + hi) // 2 + 1, 3]) for _ in range(n)]}
    if dt == "b":
        d = [rng.randint(0, 1) for _ in range(n)]
    elif dt == "u8":
        d = [rng.randint(0, 9) for _ in range(n)]
    else:
        d = [rng.randint(-3, 9) for _ in range(n)]
    return {"c": "Numpy", "dt": dt, "d": d}


def _stride_views(L, rng):
    """in place: every other 2-dimensional NumpyArray leaf becomes a view into a wider buffer (rows not packed back to back,
    first element not at the start), as a column range of a NumPy array is"""
    if L.get("c") == "Numpy" and len(L.get("shape", [])) == 2 and "st" not in L and rng.random() < 0.5:
        rows, cols = L["shape"]
        pad = (lambda v: 1 - v) if L["dt"] == "b" else (lambda v: v + 50)
        buf = [pad(L["d"][0])] if L["d"] else [0]
        for r in range(rows):
            row = L["d"][r * cols:(r + 1) * cols]
            buf += row + [pad(row[-1])]
        L.update(d=buf, st=[cols + 1, 1], off=1)
    elif L.get("c") == "Numpy" and "shape" not in L and "st" not in L and "p" not in L and L["d"] and rng.random() < 0.25:
        # a one-dimensional leaf that is every second element of a wider buffer (x[1::2] of a NumPy array)
        pad = (lambda v: 1 - v) if L["dt"] == "b" else (lambda v: v + 50)
        buf = []
        for v in L["d"]:
            buf += [pad(v), v]
        L.update(d=buf, shape=[len(buf) // 2], st=[2], off=1)
    if "x" in L:
        _stride_views(L["x"], rng)
    for x in L.get("xs", []):
        _stride_views(x, rng)


def _revalued(L, rng):
    """a copy of the layout with every NumPy leaf holding other numbers of another dtype"""
    import copy
    M = copy.deepcopy(L)

    def go(n):
        if n.get("c") == "Numpy" and "st" not in n:
            n["dt"] = "f64" if n["dt"] in ("i64", "i32", "u8", "b") else "i64"
            n["d"] = [rng.randint(-3, 9) + 20 for _ in n["d"]]
        if "x" in n:
            go(n["x"])
        for x in n.get("xs", []):
            go(x)
    go(M)
    return M


def _rand_layout(rng, depth, allow_record=True, allow_union=False):
    """a random VALID layout (returned with its length), larger and deeper than the model checker's bound: every list class
    and index width, offsets that do not start at zero, gaps / overlaps / out-of-order lists, all five option encodings,
    IndexedArray indirection, multidimensional NumPy leaves, records"""
    if allow_record and depth >= 2 and rng.random() < 0.2:
        return _rand_record_layout(rng, depth, allow_union)
    n = rng.randint(4, 9)
    L = _rand_leaf(rng, n)
    length = n
    if rng.random() < 0.15 and n % 2 == 0:
        L["shape"] = [n // 2, 2]                      # a 2-dimensional NumpyArray: one regular level inside the leaf
        length = n // 2
    isopt = False
    for _ in range(depth):
        kind = rng.choice(["off", "off", "list", "opt", "reg", "idx", "bytemask", "bitmask", "unmasked", "rec"]
                          + (["union"] if allow_union else []))
        if kind == "off":
            k = rng.randint(0, 5)
            lo = rng.randint(0, min(2, length))
            cuts = sorted(rng.randint(lo, length) for _ in range(k + 1))
            L = {"c": "ListOffset", "w": rng.choice(["64", "32", "U32"]), "o": cuts, "x": L}
            length, isopt = k, False
        elif kind == "list":
            k = rng.randint(0, 5)
            ss, ee = [], []
            for _ in range(k):
                a = rng.randint(0, length)
                b = rng.randint(a, length)
                ss.append(a)
                ee.append(b)
            L = {"c": "List", "w": rng.choice(["64", "32", "U32"]), "s": ss, "e": ee, "x": L}
            length, isopt = k, False
        elif kind == "opt" and not isopt and L.get("c") != "Indexed":
            k = rng.randint(0, 6)
            L = {"c": "IndexedOption", "w": rng.choice(["64", "32"]),
                 "i": [rng.choice([-1, -1] + list(range(length))) if length else -1 for _ in range(k)], "x": L}
            length, isopt = k, True
        elif kind == "idx" and not isopt and length > 0 and L.get("c") != "Indexed":
            k = rng.randint(0, 6)
            L = {"c": "Indexed", "w": rng.choice(["64", "32", "U32"]), "i": [rng.randrange(length) for _ in range(k)], "x": L}
            length = k
        elif kind == "bytemask" and not isopt and L.get("c") != "Indexed":
            k = rng.randint(0, length)
            L = {"c": "ByteMasked", "m": [rng.choice([0, 1, 1]) for _ in range(k)], "vw": rng.randint(0, 1), "x": L}
            length, isopt = k, True
        elif kind == "bitmask" and not isopt and L.get("c") != "Indexed":
            k = rng.randint(0, length)
            nbytes = (k + 7) // 8 + rng.randint(0, 1)
            L = {"c": "BitMasked", "m": [rng.randint(0, 255) for _ in range(nbytes)], "vw": rng.randint(0, 1), "lsb": rng.randint(0, 1),
                 "n": k, "x": L}
            length, isopt = k, True
        elif kind == "unmasked" and not isopt and L.get("c") != "Indexed":
            L = {"c": "Unmasked", "x": L}
            isopt = True
        elif kind == "reg" and rng.random() < 0.1:
            # lists of fixed size 0: the length is the node's own (zeros_length), not derived from the content
            zl = rng.randint(0, 3)
            L = {"c": "Regular", "size": 0, "zl": zl, "x": L}
            length, isopt = zl, False
        elif kind == "reg" and length >= 2:
            size = rng.choice([1, 2, 3])
            L = {"c": "Regular", "size": size, "zl": 0, "x": L}
            length, isopt = length // size, False
        elif kind == "union" and L.get("c") != "Union" and rng.random() < 0.6:
            # a UnionArray whose tags/index cover its two contents partially, repeatedly and out of order
            if rng.random() < 0.5:
                # the other member has the SAME shape with other numbers (what concatenating int and float lists, or
                # ak.where of two like arrays, leaves behind)
                other, olen = _revalued(L, rng), length
            else:
                other, olen = _rand_layout(rng, rng.randint(0, 2), allow_record=False)
            if other.get("c") == "Union":
                continue
            lens = [length, olen]
            avail = [t for t in (0, 1) if lens[t] > 0]
            k = rng.randint(0, 6) if avail else 0
            tags = [rng.choice(avail) for _ in range(k)]
            L = {"c": "Union", "w": rng.choice(["64", "32", "U32"]), "t": tags, "i": [rng.randrange(lens[t]) for t in tags], "xs": [L, other]}
            length, isopt = k, False
        elif kind == "rec" and allow_record and rng.random() < 0.5:
            other, olen = _rand_layout(rng, rng.randint(0, 1), allow_record=False)
            k = min(length, olen)
            k = rng.randint(0, k) if rng.random() < 0.3 else k
            L = {"c": "Record", "tuple": 0, "n": k, "names": ["x", "y"], "xs": [L, other]}
            length, isopt = k, False
    return L, length


def _wrap_option(rng, L, length):
    """one of the five option encodings around L (which must not be option-type or indexed itself)"""
    kind = rng.choice(["opt", "bytemask", "bitmask", "unmasked"])
    if kind == "opt":
        k = rng.randint(1, 6)
        return {"c": "IndexedOption", "w": rng.choice(["64", "32"]),
                "i": [rng.choice([-1] + list(range(length))) if length else -1 for _ in range(k)], "x": L}, k
    if kind == "bytemask":
        k = rng.randint(0, length)
        return {"c": "ByteMasked", "m": [rng.choice([0, 1]) for _ in range(k)], "vw": rng.randint(0, 1), "x": L}, k
    if kind == "bitmask":
        k = rng.randint(0, length)
        return {"c": "BitMasked", "m": [rng.randint(0, 255) for _ in range((k + 7) // 8 + rng.randint(0, 1))], "vw": rng.randint(0, 1),
                "lsb": rng.randint(0, 1), "n": k, "x": L}, k
    return {"c": "Unmasked", "x": L}, length


def _rand_overlong_record_layout(rng):
    """a RecordArray at top level (sometimes below one list) whose fields are ALL longer than the record array itself and are
    lists of lists: what ak.layout.RecordArray(contents, keys, length) or a carried / re-assembled record leaves behind"""
    fields, lens = [], []
    for _ in range(2):
        n = rng.randint(3, 7)
        F = _rand_leaf(rng, n)
        for _lvl in range(2):
            k = rng.randint(3, 5)
            start = rng.randint(0, 1)
            cuts = sorted(rng.randint(start, n) for _ in range(k + 1))
            F = {"c": "ListOffset", "w": rng.choice(["64", "32", "U32"]), "o": cuts, "x": F}
            n = k
        fields.append(F)
        lens.append(n)
    length = rng.randint(0, min(lens) - 1)
    L = {"c": "Record", "tuple": 0, "n": length, "names": ["x", "y"], "xs": fields}
    if rng.random() < 0.3:
        k = rng.randint(0, 3)
        cuts = sorted(rng.randint(0, length) for _ in range(k + 1))
        L = {"c": "ListOffset", "w": "64", "o": cuts, "x": L}
        length = k
    return L, length


def _rand_record_layout(rng, depth, allow_union=False):
    """records in the middle: option-type fields below, options and lists above (what ak.zip / ak.mask / ak.pad_none
    of records leave behind)"""
    fields, lens = [], []
    for _ in range(2):
        F, n = _rand_layout(rng, rng.randint(0, 1), allow_record=False)
        if F.get("c") not in ("IndexedOption", "ByteMasked", "BitMasked", "Unmasked", "Indexed") and rng.random() < 0.7:
            F, n = _wrap_option(rng, F, n)
        fields.append(F)
        lens.append(n)
    length = min(lens)
    L = {"c": "Record", "tuple": 0, "n": length, "names": ["x", "y"], "xs": fields}
    isopt = False
    for _ in range(rng.randint(0, 2)):
        if not isopt and rng.random() < 0.6:
            L, length = _wrap_option(rng, L, length)
            isopt = True
        elif rng.random() < 0.25:
            # fixed-size lists of records, size 0 included (length held by the node itself)
            size = rng.choice([0, 1, 2])
            zl = rng.randint(1, 3) if size == 0 else 0
            L = {"c": "Regular", "size": size, "zl": zl, "x": L}
            length, isopt = (zl if size == 0 else length // size), False
        else:
            k = rng.randint(0, 4)
            cuts = sorted(rng.randint(0, length) for _ in range(k + 1))
            L = {"c": "ListOffset", "w": rng.choice(["64", "32", "U32"]), "o": cuts, "x": L}
            length, isopt = k, False
    return L, length


def _rand_op(rng):
    nb = 99999
    k = rng.random()
    ax = rng.choice([-3, -2, -1, 0, 1, 2])
    if k < 0.33:
        def item():
            r = rng.random()
            if r < 0.25:
                return {"k": "at", "i": rng.randint(-3, 3)}
            if r < 0.7:
                return {"k": "range", "a": rng.choice([nb, -2, 0, 1, 2]), "b": rng.choice([nb, -1, 2, 4]), "s": rng.choice([nb, 1, 2, -1])}
            if r < 0.85:
                return {"k": "arr", "is": [rng.randint(-2, 2) for _ in range(rng.randint(0, 3))]}
            if r < 0.92:
                return {"k": "newaxis"}
            return {"k": "ellipsis"}
        items = [item() for _ in range(rng.randint(1, 2))]
        return "slice", {"items": items}
    if k < 0.45:
        return "num", {"axis": ax}
    if k < 0.55:
        return "flatten", {"axis": ax}
    if k < 0.62:
        return "localindex", {"axis": ax}
    if k < 0.72:
        return "pad", {"axis": ax, "target": rng.randint(0, 3), "clip": rng.randint(0, 1)}
    if k < 0.80:
        return "comb", {"axis": ax, "n": rng.randint(1, 3), "repl": rng.randint(0, 1)}
    if k < 0.90:
        return "reduce", {"reducer": rng.choice(["count", "sum", "prod", "any", "all", "min", "max", "argmin", "argmax", "count_nonzero"]),
                          "axis": ax, "mask": 1, "keepdims": rng.randint(0, 1)}
    if k < 0.97:
        return rng.choice(["sort", "argsort"]), {"axis": ax, "asc": rng.randint(0, 1), "stable": 1}
    if k < 0.985:
        return "same", {"o": rng.choice(["simplify", "toListOffsetArray64", "toIndexedOptionArray64", "toByteMaskedArray", "deep_copy"])}
    return "concatself", {}


def _worker_step(op, a):
    if op == "slice":
        return {"op": "getitem", "slice": [replay.slice_item(it) for it in a["items"]], "pydispatch": 0}
    if op in ("num", "flatten", "localindex"):
        return {"op": op, "axis": a["axis"]}
    if op == "pad":
        return {"op": "rpad_and_clip" if a["clip"] else "rpad", "axis": a["axis"], "target": a["target"]}
    if op == "comb":
        return {"op": "combinations", "axis": a["axis"], "n": a["n"], "replacement": a["repl"]}
    if op == "reduce":
        return {"op": "reduce", "reducer": a["reducer"], "axis": a["axis"], "mask": a["mask"], "keepdims": a["keepdims"]}
    if op == "same":
        if a["o"] == "toListOffsetArray64":
            return {"op": "toListOffsetArray64", "start_at_zero": 0}
        if a["o"] == "toByteMaskedArray":
            return {"op": "toByteMaskedArray", "valid_when": 0}
        return {"op": a["o"]}
    if op == "concatself":
        return {"op": "concat0", "others": ["cur"]}
    return {"op": op, "axis": a["axis"], "ascending": a["asc"], "stable": a["stable"]}


def _tag(x, big_ok=False):
    """json value -> tagged AkValue value; raises ValueError for values the model does not carry (non-integral floats).
    big_ok: integers beyond TLC's 32 bits become opaque tokens [t |-> "big", s |-> decimal text]: enough for operations that
    only MOVE values (concatenation, slicing, conversions), which compare them for equality and nothing else"""
    if x is None:
        return {"t": "none"}
    if isinstance(x, bool):
        return {"t": "int", "x": 1 if x else 0}
    if isinstance(x, int):
        if abs(x) >= 2 ** 31:
            if big_ok:
                return {"t": "big", "s": str(x)}
            raise ValueError("big")
        return {"t": "int", "x": x}
    if isinstance(x, float):
        if x != x:
            return {"t": "nan"}
        if x != int(x) or (abs(x) >= 2 ** 31 and not big_ok) or abs(x) >= 2 ** 53:
            raise ValueError("non-integral")
        return {"t": "int", "x": int(x)} if abs(x) < 2 ** 31 else {"t": "big", "s": str(int(x))}
    if isinstance(x, str):
        if x == "nan":
            return {"t": "nan"}
        raise ValueError("string")
    if isinstance(x, list):
        return {"t": "list", "xs": [_tag(e, big_ok) for e in x]}
    if isinstance(x, dict):
        return {"t": "rec", "ks": list(x.keys()), "vs": [_tag(e, big_ok) for e in x.values()]}
    raise ValueError(x)


MAX_VALUE_JSON = 20000      # characters of one value's JSON; larger results end a chain (TLC's JSON reader is the limit)


def _magnitude(x):
    """an upper bound of |product| and |sum| of all numbers in a nested value"""
    m = [1]

    def walk(y):
        if isinstance(y, list):
            for e in y:
                walk(e)
        elif isinstance(y, dict):
            for e in y.values():
                walk(e)
        elif isinstance(y, (int, float)) and not isinstance(y, bool) and y == y:
            m[0] *= max(2, abs(int(y)) + 1)
    walk(x)
    return m[0]


def _rand_3d_layout(rng):
    """ONE three-dimensional NumpyArray with unequal inner dimensions (what ak.Array(np3d) is), alone or as the content of lists"""
    d1, d2 = rng.choice([(2, 3), (3, 2), (2, 1), (1, 2), (3, 1), (1, 3)])
    n = rng.randint(1, 3)
    dt = rng.choice(["i64", "i32", "f64"])
    L = {"c": "Numpy", "dt": dt, "d": [rng.randint(-3, 9) for _ in range(n * d1 * d2)], "shape": [n, d1, d2]}
    if rng.random() < 0.3:
        k = rng.randint(0, 3)
        L = {"c": "ListOffset", "w": rng.choice(["64", "32"]), "o": sorted(rng.randint(0, n) for _ in range(k + 1)), "x": L}
    return L


def record_chains(worker, seed, ntraces, maxops, env=None, leaf3d=False):
    """one worker case per chain: each op reads register cur and, if it succeeds with an array, replaces it.
    Returns (traces, metas, problems): traces[t] = events for TLC; metas[t][k] = pseudo-case of event k (operation,
    arguments, the operand's physical layout and type: what the known-findings matchers look at);
    problems = (pseudo-case, why) observed without the specification's help (crash, invalid result, odd exception)."""
    rng = random.Random(seed)
    wcases, plans = [], []
    want = ["json", "type", "valid", "layout"]
    for t in range(ntraces):
        L, _n = _rand_layout(rng, rng.randint(1, 3))
        _stride_views(L, random.Random(seed * 31 + t))
        if leaf3d:
            r3 = random.Random(seed * 77 + t)           # (its own stream: the other chains stay what they were)
            if r3.random() < 0.2:
                L = _rand_3d_layout(r3)
        ops = [_rand_op(rng) for _ in range(rng.randint(2, maxops))]
        steps = [{"op": "build", "dst": "cur", "layout": L, "want": want}]
        for op, a in ops:
            st = _worker_step(op, a)
            st.update({"src": "cur", "dst": "cur", "keep_only_valid": 1, "want": want})
            steps.append(st)
        wcases.append({"id": t, "steps": steps})
        plans.append(ops)
    answers, crashes = replay.run_worker(worker, wcases, env=env)
    traces, metas, problems = [], [], []
    crashed = dict(crashes)

    def meta(op, a, layout, ty, hist):
        return {"act": op, "args": a, "from": layout, "fromty": ty, "len": len(layout.get("d", [])) if False else None,
                "chain": hist}

    def process(t, ops, res, upto=None):
        """events of chain t from the worker's answers; returns (events, metas, complete): complete = every step up to
        `upto` was inside the model's domain and recorded"""
        b = res[0]
        if b.get("ok") != 1 or b.get("valid", "") != "":
            problems.append(({"act": "chain", "worker_case": wcases[t], "_t": t, "_step": 0},
                             "harness: driver built an unusable layout: %r" % (b.get("msg") or b.get("valid"))))
            return [], [], False
        cur_json, cur_type, cur_layout = b["json"], b["type"], b["layout"]
        events, ms = [], []
        complete = True
        for k, ((op, a), r) in enumerate(zip(ops, res[1:])):
            if upto is not None and k >= upto:
                break
            m = meta(op, a, cur_layout, cur_type, [o for o, _ in ops[:k + 1]])
            m["_t"], m["_step"] = t, k + 1
            complete = False
            try:
                ev = {"op": op, "args": a, "v": _tag(json.loads(cur_json)), "T": parse_type(cur_type)}
            except ValueError:
                break                                   # value outside the model's leaf domain: the chain stops here
            if op == "reduce" and a["reducer"] in ("prod", "sum") and _magnitude(json.loads(cur_json)) >= 2 ** 30:
                break                                   # TLC's integers are 32-bit: the chain stops before they overflow
            if r.get("ok") == 1:
                if len(r.get("json") or "") > MAX_VALUE_JSON:
                    break                               # a combinatorial blow-up (combinations of combinations): the chain stops
                if r.get("json_skipped"):
                    problems.append((m, "result fails validity: %r" % r.get("valid")))
                    break
                if "json_exc" in r:
                    problems.append((m, "tojson raised: " + r["json_exc"]))
                    break
                try:
                    ev.update(ok=1, out=_tag(json.loads(r["json"])))
                except ValueError:
                    break
                m["lib"] = r["json"]
                events.append(ev)
                ms.append(m)
                if r.get("scalar"):
                    break                               # a scalar ends the chain
                cur_json, cur_type, cur_layout = r["json"], r["type"], r["layout"]
            elif r.get("ok") == 0:
                if r.get("exc") not in ("ValueError", "RuntimeError"):
                    problems.append((m, "not an ordinary exception: %s" % r.get("exc")))
                    break
                ev.update(ok=0, out={"t": "none"})
                m["lib"] = "%s: %s" % (r.get("exc"), r.get("msg"))
                events.append(ev)
                ms.append(m)
            elif op == "same" and any(tok in str(r.get("harness")) for tok in ("not a", "not an", "wrong class")):
                pass                                    # conversion not defined for this node class: no call was made
            else:
                problems.append((m, "harness: " + str(r.get("harness"))))
                break
            complete = True
        return events, ms, complete, (cur_layout, cur_type)

    for t, ops in enumerate(plans):
        res = answers.get(t)
        if res is None:
            # the worker died inside this chain: find the step by re-running prefixes (each alone)
            steps = wcases[t]["steps"]
            culprit, lastgood, cr = None, None, None
            for k in range(1, len(steps) + 1):
                ans, cr = replay.run_worker(worker, [{"id": 0, "steps": steps[:k]}], env=env)
                if cr:
                    culprit = k - 1
                    break
                lastgood = ans[0]
            if culprit is None or culprit == 0 or lastgood is None:
                problems.append(({"act": "chain", "worker_case": wcases[t], "_t": t, "_step": 0}, "CRASH: " + crashed.get(t, "worker died")))
                continue
            out = process(t, ops, lastgood, upto=culprit - 1)
            events, ms, complete = out[0], out[1], out[2]
            if events:
                traces.append(events)
                metas.append(ms)
            if complete and len(out) > 3:
                op, a = ops[culprit - 1]
                m = meta(op, a, out[3][0], out[3][1], [o for o, _ in ops[:culprit]])
                m["_t"], m["_step"] = t, culprit
                m["worker_case"] = {"id": 0, "steps": steps[:culprit + 1]}
                problems.append((m, "CRASH: " + cr[0][1]))
            # (otherwise the crashing call was made on a value outside the model's domain -- e.g. 64-bit garbage a known
            #  finding left behind, summed until signed overflow: nothing is claimed about it)
            continue
        out = process(t, ops, res)
        if out[0]:
            traces.append(out[0])
            metas.append(out[1])
    return traces, metas, problems


def validate_chains(traces, workdir, timeout=1500):
    return validate_batched("TraceSession", {}, "SInit", "SNext", traces, workdir, "chains.ndjson", timeout=timeout)


# ====================================================================== VirtualArray sessions (TraceVirtual.tla)
def record_virtual_traces(worker, seed, ntraces, maxlen=40):
    import virtual as vmod
    rng = random.Random(seed)
    ops = [{"op": "length"}, {"op": "type"}, {"op": "tojson"}, {"op": "at", "i": 0}, {"op": "at", "i": -1}, {"op": "range", "a": 1, "b": 3},
           {"op": "range_lazy", "a": 0, "b": 2}, {"op": "num", "axis": 0}, {"op": "carry"}, {"op": "validity"}, {"op": "evict"}, {"op": "evict"},
           {"op": "depths"}, {"op": "slice_depths", "sk": "newaxis", "a": 0, "b": 2, "axis": 0},
           {"op": "slice_depths", "sk": "ellipsis", "a": 0, "b": 2, "axis": 0}, {"op": "slice_depths", "sk": "range", "a": 0, "b": 2, "axis": 0},
           {"op": "slice_sum", "sk": "newaxis", "a": 0, "b": 0, "axis": -1}, {"op": "slice_sum", "sk": "newaxis", "a": 0, "b": 0, "axis": 0},
           {"op": "slice_json", "sk": "range", "a": -2, "b": 99999, "axis": 0}, {"op": "slice_json", "sk": "range", "a": 99999, "b": -1, "axis": 0},
           {"op": "slice_json", "sk": "range", "a": 1, "b": 99, "axis": 0}]
    wcases, plans = [], []
    for t in range(ntraces):
        mode = rng.choice(["ok", "ok", "short", "wrongform", "raises", "raise_first", "bad_first"])
        ln, fm = rng.randint(0, 1), rng.randint(0, 1)
        if mode == "short":
            ln = 1
        if mode == "wrongform":
            fm = 1
        if mode == "bad_first":
            ln, fm = 1, 0
        cfg = {"cache": rng.choice(["none", "keep", "keep", "evict_always"]), "mode": mode, "len": ln, "form": fm}
        eager = rng.choice(vmod.EAGERS)
        n = {"ListOffset": lambda e: len(e["o"]) - 1, "Numpy": lambda e: (e["shape"][0] if "shape" in e else len(e["d"])), "IndexedOption": lambda e: len(e["i"]),
             "Record": lambda e: e["n"], "Regular": lambda e: len(e["x"]["d"]) // e["size"]}[eager["c"]](eager)
        sched = [rng.choice(ops) for _ in range(rng.randint(5, maxlen))]
        st = {"op": "virtual_run", "eager": eager, "mode": mode, "declare_length": ln, "declare_form": fm, "cache": cfg["cache"],
              "schedule": [vmod._op(o, n) for o in sched]}
        if mode == "wrongform":
            st["alt"] = vmod.WRONG
        if mode == "bad_first":
            st["alt"] = {"c": "Numpy", "dt": "b", "d": [1]}
        wcases.append({"id": t, "steps": [st]})
        plans.append((cfg, sched))
    answers, crashes = replay.run_worker(worker, wcases)
    crashed = dict(crashes)
    traces, problems = [], []
    for t, (cfg, sched) in enumerate(plans):
        if t in crashed:
            problems.append(({"act": "virtual-trace", "worker_case": wcases[t]}, "CRASH: " + crashed[t]))
            continue
        res = answers[t]
        if not res or res[0].get("ok") != 1:
            problems.append(({"act": "virtual-trace", "worker_case": wcases[t]}, "harness: virtual_run failed: %r" % (res and (res[0].get("harness") or res[0].get("msg")))))
            continue
        events, prev = [], 0
        for o, s in zip(sched, res[0]["steps"]):
            v, e = s["virt"], s["eager"]
            if v.get("ok") == -1:
                problems.append(({"act": "virtual-trace", "worker_case": wcases[t]}, "harness: " + str(v.get("harness"))))
                break
            if o["op"] != "evict" and e.get("ok") != 1:
                break                   # refused on the eager array too: not a question about laziness
            events.append({"o": o, "same": 1 if (v.get("ok") == 1 and v == e) else 0, "raised": 0 if v.get("ok") == 1 else 1,
                           "delta": s["calls"] - prev, "held": 1 if s.get("held", 0) else 0})
            prev = s["calls"]
        if events:
            traces.append({"cfg": cfg, "events": events})
    return traces, problems


def validate_virtual_traces(trs, workdir, timeout=900):
    consts = dict(CacheKinds="{}", GenModes="{}", Decls="{}", Ops="{}", MaxSteps="100000", EmitOn="FALSE")
    return validate_batched("TraceVirtual", consts, "TInit", "TNext", trs, workdir, "virtual-traces.ndjson", batch=4000, timeout=timeout,
                            invariants=["TraceInv"])
