"""Matchers for entries of /verif/known_findings.json with status "known".  Each matcher is
precise to ONE recorded defect (specific input class / call site), so that any other
violation of the same property is still reported."""


def _items(case):
    return case.get("args", {}).get("items", []) if isinstance(case.get("args"), dict) else []


def _has_option(L):
    if not isinstance(L, dict):
        return False
    if L.get("c") in ("IndexedOption", "ByteMasked", "BitMasked", "Unmasked"):
        return True
    if "x" in L and _has_option(L["x"]):
        return True
    return any(_has_option(x) for x in L.get("xs", []))


def slice_zero_length_array(case, why):
    """F03: a zero-length integer array index inside a tuple of two or more items."""
    its = _items(case)
    return case.get("act") == "slice" and len(its) >= 2 and any(it["k"] == "arr" and len(it["is"]) == 0 for it in its)


def slice_option_advanced_pairing(case, why):
    """F04: two or more advanced indexes (arrays / integers next to arrays / arrays with None) where rows are
    missing (option node in the layout or None in an index array): the later arrays are not re-aligned."""
    its = _items(case)
    if case.get("act") != "slice":
        return False
    adv = [it for it in its if it["k"] in ("arr", "at", "missing")]
    arrlike = [it for it in its if it["k"] in ("arr", "missing")]
    if len(adv) < 2 or not arrlike:
        return False
    none_in_index = any(it["k"] == "missing" and 99999 in it["is"] for it in its)
    if not (_has_option(case.get("from")) or none_in_index):
        return False
    return why.startswith("value differs") or "index out of range" in why or why.startswith("tojson raised") \
        or why.startswith("result fails validity")


def slice_jagged_none_on_option(case, why):
    """F05: a jagged index with None entries applied to an option-type array yields an invalid layout."""
    its = _items(case)
    if case.get("act") != "slice" or not _has_option(case.get("from")):
        return False
    if not any(it["k"] == "jagged" and any(99999 in sub for sub in it["js"]) for it in its):
        return False
    return why.startswith("tojson raised") or why.startswith("result fails validity") or why.startswith("value differs")
