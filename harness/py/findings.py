"""Matchers for entries of /verif/known_findings.json with status "known".  Each matcher is
precise to ONE recorded defect (specific input class / call site), so that any other
violation of the same property is still reported."""
