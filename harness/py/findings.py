"""Matchers for entries of /verif/known_findings.json with status "known".  Each matcher is
precise to ONE recorded defect (specific input class / call site), so that any other
violation of the same property is still reported."""


def _items(case):
    return case.get("args", {}).get("items", []) if isinstance(case.get("args"), dict) else []


def _has_option(L):
    if not isinstance(L, dict):
        return False
    if L.get("c") in ("IndexedOption", "ByteMasked", "BitMasked", "Unmasked"):
        return True
    if "x" in L and _has_option(L["x"]):
        return True
    return any(_has_option(x) for x in L.get("xs", []))


def slice_zero_length_array(case, why):
    """F03: a zero-length integer array index inside a tuple of two or more items."""
    its = _items(case)
    return case.get("act") == "slice" and len(its) >= 2 and any(it["k"] == "arr" and len(it["is"]) == 0 for it in its)


def slice_option_advanced_pairing(case, why):
    """F04: two or more advanced indexes (arrays / integers next to arrays / arrays with None) where rows are
    missing (option node in the layout or None in an index array): the later arrays are not re-aligned."""
    its = _items(case)
    if case.get("act") != "slice":
        return False
    adv = [it for it in its if it["k"] in ("arr", "at", "missing")]
    arrlike = [it for it in its if it["k"] in ("arr", "missing")]
    if len(adv) < 2 or not arrlike:
        return False
    none_in_index = any(it["k"] == "missing" and 99999 in it["is"] for it in its)
    if not (_has_option(case.get("from")) or none_in_index):
        return False
    # (the misaligned pair can also be IN range where the aligned one is not: a value where the specification must raise)
    return why.startswith("value differs") or "index out of range" in why or why.startswith("tojson raised") \
        or why.startswith("result fails validity") or why.startswith("spec: must raise")


def slice_jagged_none_on_option(case, why):
    """F05: a jagged index with None entries applied to an option-type array yields an invalid layout."""
    its = _items(case)
    if case.get("act") != "slice" or not _has_option(case.get("from")):
        return False
    if not any(it["k"] == "jagged" and any(99999 in sub for sub in it["js"]) for it in its):
        return False
    return why.startswith("tojson raised") or why.startswith("result fails validity") or why.startswith("value differs")


def _negaxis(case):
    depth = case.get("fromty", "").count(" * ") + 1
    ax = case["args"]["axis"]
    return depth - ax if ax >= 0 else -ax


def _option_above_list(L, under_option=False):
    if not isinstance(L, dict):
        return False
    c = L.get("c")
    if under_option and (c in ("ListOffset", "List", "Regular") or (c == "Numpy" and len(L.get("shape", [0])) > 1)):
        return True
    uo = under_option or c in ("IndexedOption", "ByteMasked", "BitMasked", "Unmasked")
    if "x" in L and _option_above_list(L["x"], uo):
        return True
    return any(_option_above_list(x, uo) for x in L.get("xs", []))


def _regular_under_var(L, under_var=False):
    if not isinstance(L, dict):
        return False
    c = L.get("c")
    if under_var and (c == "Regular" or (c == "Numpy" and len(L.get("shape", [0])) > 1)):
        return True
    uv = under_var or c in ("ListOffset", "List", "Regular")     # (a regular outer level is reduced as a ListOffsetArray too)
    if "x" in L and _regular_under_var(L["x"], uv):
        return True
    return any(_regular_under_var(x, uv) for x in L.get("xs", []))


def _short_earlier_row(v):
    """does some list in the nested value v hold a sub-list (or None) that comes BEFORE a longer sub-list?  Only then is there
    a position that a later row reaches and an earlier row of the same group does not -- the precondition of F07 / F16"""
    if not isinstance(v, list):
        return False
    best = None
    for e in v:
        n = len(e) if isinstance(e, list) else (0 if e is None else None)
        if n is None:
            continue
        if best is not None and n > best:
            return True
        best = n if best is None else min(best, n)
    return any(_short_earlier_row(e) for e in v)


def _may_have_short_earlier_row(case):
    if "chain" in case or case.get("py"):
        return True            # a recorded chain: the operand is a physical layout (strided / multidimensional leaves), not the abstract encoding
    try:
        import replay
        return _short_earlier_row(replay.abstract_to_list(case["from"]))
    except Exception:
        return True            # the operand is not in the abstract encoding (recorded chains): no sharper statement is possible


def reduce_nonlocal_two_levels_up(case, why):
    """F07: argmin/argmax along a non-innermost axis of an array with three or more list levels do not count the rows
    that are too short to reach the position (argmax([[],[[1]]],axis=0) gives [[0]], not [[1]]).  (The other half of the
    original F07 -- groups mis-assigned for every reducer -- is repaired by the fix recorded as F55.)"""
    return (case.get("act") == "reduce" and _negaxis(case) >= 2 and case.get("fromty", "").count(" * ") >= 2
            and case["args"]["reducer"] in ("argmin", "argmax") and why.startswith("value differs")
            and _may_have_short_earlier_row(case))


def reduce_argpos_missing_rows(case, why):
    """F08: argmin/argmax along a non-innermost axis of an option-of-lists array does not count the missing rows
    (argmin([None,[1]],axis=0) gives [0], not [1])."""
    return (case.get("act") == "reduce" and case["args"]["reducer"] in ("argmin", "argmax") and _negaxis(case) >= 2
            and _option_above_list(case.get("from")) and why.startswith("value differs") and _may_have_short_earlier_row(case))


def reduce_regular_inner_refused(case, why):
    """F09: non-innermost reduce of a variable-length list of regular lists raises
    'cannot convert to RegularArray because subarray lengths are not regular'."""
    return (case.get("act") == "reduce" and _negaxis(case) >= 2 and _regular_under_var(case.get("from"))
            and "cannot convert to RegularArray" in why)


def reduce_empty_outer_sigfpe(case, why):
    """F10: SIGFPE (division by zero in awkward_ListOffsetArray_reduce_nonlocal_outstartsstops_64) when reducing a
    zero-length array of lists of lists along a non-innermost axis."""
    return (case.get("act") == "reduce" and why.startswith("CRASH") and "rc=-8" in why and case.get("len") == 0
            and _negaxis(case) >= 2 and case.get("fromty", "").count(" * ") >= 2)


def _has_class(L, cls):
    if not isinstance(L, dict):
        return False
    if L.get("c") == cls:
        return True
    if "x" in L and _has_class(L["x"], cls):
        return True
    return any(_has_class(x, cls) for x in L.get("xs", []))


def reduce_argpos_indexed_content(case, why):
    """F11: argmin/argmax along a non-innermost axis lose the position shift when the lists' content is a
    (non-option) IndexedArray: argmax([[],[1]], axis=0) with IndexedArray leaves gives [0], not [1]."""
    positional = (case.get("act") == "argsort"
                  or (case.get("act") == "reduce" and case["args"]["reducer"] in ("argmin", "argmax")))
    return (positional and _negaxis(case) >= 2
            and _has_class(case.get("from"), "Indexed") and why.startswith("value differs") and _may_have_short_earlier_row(case))


def _has_nan(L):
    if not isinstance(L, dict):
        return False
    if L.get("c") == "Numpy" and L.get("dt", "").startswith("float") and -777 in L.get("d", []):
        return True
    if "x" in L and _has_nan(L["x"]):
        return True
    return any(_has_nan(x) for x in L.get("xs", []))


def sort_unstable_nan(case, why):
    """F14: sort(stable=False) of floats containing NaN does not put NaN first and may not even be ordered
    ([2,nan,1] ascending gives [1,nan,2]); the stable path is correct."""
    return (case.get("act") == "sort" and case["args"]["stable"] == 0 and _has_nan(case.get("from"))
            and why.startswith("value differs"))


def argsort_all_missing(case, why):
    """F15: argsort of an option-type leaf array none of whose elements is valid returns an invalid layout
    (IndexedOptionArray index >= len(content))."""
    import re
    m = re.match(r"result of argsort fails validity: .*IndexedOptionArray.* \[root type: (.*)\]$", why)
    if m and ("?" in m.group(1) or "option[" in m.group(1)):
        return True          # the same defect met inside a history (C12)
    return (case.get("act") == "argsort" and _has_option(case.get("from"))
            and (why.startswith("tojson raised") or why.startswith("result fails validity")))


def argsort_nonlocal_depth3_positions(case, why):
    """F16: argsort along a non-innermost axis of an array with three or more list levels does not count the
    rows that are too short (same root cause as F07): argsort([[],[[1]]], axis=0) gives [[],[[0]]]."""
    return (case.get("act") == "argsort" and _negaxis(case) >= 2 and case.get("fromty", "").count(" * ") >= 2
            and why.startswith("value differs")
            and (_may_have_short_earlier_row(case) or _nonzero_origin(case.get("from"))))     # (second symptom: uninitialised positions)


def _nonzero_origin(L):
    if not isinstance(L, dict):
        return False
    if L.get("c") == "ListOffset" and L.get("o") and L["o"][0] != 0:
        return True
    if L.get("c") == "List" and L.get("s") and min(L["s"]) != 0:
        return True
    if "x" in L and _nonzero_origin(L["x"]):
        return True
    return any(_nonzero_origin(x) for x in L.get("xs", []))


def argsort_option_leaves_offset_origin(case, why):
    """F17: argsort of lists with option-type leaves whose offsets do not start at zero (a sliced view): positions
    are shifted by the origin (ListOffset(offsets=[1,3]) over option [5,4,3] = [[4,3]] gives [[0,-1]], not [[1,0]])."""
    return (case.get("act") == "argsort" and _has_option(case.get("from")) and _nonzero_origin(case.get("from"))
            and why.startswith("value differs"))


def builder_clear_after_record(case, why):
    """F18: ArrayBuilder.clear() after records/tuples were appended leaves a record/tuple builder with length -1
    in the tree; later non-record values that join it in an option/union are shown as None
    (null, begintuple(2), endtuple, clear, integer(1) -> [None])."""
    if case.get("act") != "builder":
        return False
    cmds = [c["c"] for c in case.get("cmds", [])]
    import re
    m = re.match(r"command (\d+) ", why)
    if not m:
        return False
    at = int(m.group(1))
    # a clear() before the deviating command that itself comes after a record/tuple was begun
    stale = any(cmds[i] == "clear" and any(c in ("beginrecord", "begintuple") for c in cmds[:i]) for i in range(at))
    return stale and ("differs from appended values" in why or "ill-nested call accepted" in why
                      or "well-nested call raised" in why)


def _record_with_unreachable(L):
    """a Record node whose contents are longer than its declared length"""
    if not isinstance(L, dict):
        return False
    if L.get("c") == "Record" and L.get("xs"):
        def ln(x):
            c = x.get("c")
            if c == "Numpy":
                return len(x.get("d", []))
            if c == "ListOffset":
                return len(x["o"]) - 1
            if c in ("List",):
                return len(x["s"])
            if c in ("Indexed", "IndexedOption"):
                return len(x["i"])
            if c == "ByteMasked":
                return len(x["m"])
            if c == "Record":
                return x.get("n", 0)
            return 10 ** 6
        if any(ln(x) > L.get("n", 0) for x in L["xs"]):
            return True
    if "x" in L and _record_with_unreachable(L["x"]):
        return True
    return any(_record_with_unreachable(x) for x in L.get("xs", []))


def slice_record_unreachable_content(case, why):
    """F24: a positional index applied below a RecordArray whose contents are longer than the record length is also
    applied to the unreachable entries, raising a spurious 'index out of range'."""
    return (case.get("act") == "slice" and _record_with_unreachable(case.get("from"))
            and "index out of range" in why and why.startswith("spec: value expected"))


def sort_empty_string_array(case, why):
    """F27: sort/argsort of a ZERO-LENGTH array whose elements are strings (directly or as an option/indexed of
    strings) returns the empty character array: Content::sort ends with getitem_nothing()."""
    if case.get("act") not in ("sort", "argsort") or case.get("len") != 0:
        return False
    ty = case.get("fromty", "")
    return ty in ("string", "bytes", "option[string]", "option[bytes]") and \
        (why.startswith("value differs") or why.startswith("result fails validity"))


def argsort_strings_all_missing(case, why):
    """F28: argsort of option-type strings where a whole group (list) holds no valid string: the empty string array
    returned by ListOffsetArray::argsort_next(length 0) is wrapped back, giving [None, ...] typed option[string]
    instead of the positions.  Matches only if every group that differs is all-None in the library's answer."""
    import json
    if case.get("act") != "argsort" or not why.startswith("value differs: library "):
        return False
    ty = case.get("fromty", "")
    if "option[string]" not in ty and "option[bytes]" not in ty:
        return False
    try:
        got = json.loads(why[len("value differs: library "):])
    except Exception:
        return False
    import replay
    want = replay.vjson_to_py(case["exp"]["v"])

    def ok(g, w):
        if isinstance(w, list) and (not w or not isinstance(w[0], list)):
            if not isinstance(g, list) or len(g) != len(w):
                return False
            return g == w or all(x is None for x in g)
        if isinstance(w, list):
            return isinstance(g, list) and len(g) == len(w) and all(ok(a, b) for a, b in zip(g, w))
        return g == w
    return ok(got, want)


def argsort_option_strings_positions(case, why):
    """F29: argsort of option-type strings reports the valid strings by their position among the VALID ones (the
    shifts that account for missing values are ignored by the string branch of ListOffsetArray::argsort_next):
    argsort([None, ""]) gives [0, 0] instead of [1, 0].  Matches only if the library's answer is exactly what that
    defect produces from the expected answer."""
    import json
    import replay
    if case.get("act") != "argsort" or not why.startswith("value differs: library "):
        return False
    ty = case.get("fromty", "")
    if "option[string]" not in ty and "option[bytes]" not in ty:
        return False
    try:
        got = json.loads(why[len("value differs: library "):])
        val = replay.abstract_to_list(case["from"])
    except Exception:
        return False
    want = replay.vjson_to_py(case["exp"]["v"])

    def ok(g, w, v):
        if isinstance(v, list) and (not v or not isinstance(v[0], list)) and all(x is None or isinstance(x, str) for x in v):
            if not isinstance(g, list) or not isinstance(w, list) or len(g) != len(w):
                return False
            nones = [p for p, x in enumerate(v) if x is None]
            model = [p if v[p] is None else p - sum(1 for q in nones if q < p) for p in w]
            return g == model or g == w
        if isinstance(v, list):
            return isinstance(g, list) and isinstance(w, list) and len(g) == len(w) == len(v) and all(ok(a, b, c) for a, b, c in zip(g, w, v))
        return g == w
    return ok(got, want, val)


def sort_records_invalid(case, why):
    """F31: sort/argsort of an array that contains records returns an invalid layout (RecordArray::sort_next wraps each
    sorted field in a RegularArray of the wrong size)."""
    import re
    m = re.match(r"result of (arg)?sort fails validity: .* \[root type: (.*)\]$", why)
    if m:
        return "{" in m.group(2) or "(" in m.group(2)
    ty = case.get("fromty") or ""
    return (case.get("act") in ("sort", "argsort") and ("{" in ty or "(" in ty)
            and (why.startswith("result fails validity") or why.startswith("tojson raised")))


def broadcast_empty_regular_with_empty_list(case, why):
    """F39: broadcast_and_apply.all_same_offsets treats a zero-length RegularArray of size 0 and a zero-length
    ListArray/ListOffsetArray as having the same offsets, and the same-offsets branch leaves the RegularArray
    unexpanded: ak.broadcast_arrays raises for these two EMPTY arrays."""
    if case.get("act") != "ufunc" or "cannot broadcast RegularArray of size 0 with RegularArray of size 1" not in why:
        return False
    a, b = case.get("from", {}), case.get("aux", {})

    def empty_reg0(L):
        return L.get("c") == "Regular" and L.get("size") == 0 and L.get("zl") == 0

    def empty_var(L):
        return (L.get("c") == "List" and len(L.get("s", [1])) == 0) or (L.get("c") == "ListOffset" and len(L.get("o", [])) == 1)
    return (empty_reg0(a) and empty_var(b)) or (empty_reg0(b) and empty_var(a))


def arrow_null_over_empty_content(case, why):
    """F42: to_arrow replaces the index of every missing value by 0 and builds IndexedArray(index, content); when the
    content is EMPTY that index is out of range, and the projection reads outside the content's buffers (garbage list
    offsets / buffer sizes under the null mask; from_arrow may then fail with 'buffer size must be a multiple...')."""
    if not ((case.get("act") == "buffers" and "arrow" in why) or case.get("act") == "rt_arrow"):
        return False
    import replay

    def _length(L):
        c = L.get("c")
        if c == "Numpy":
            return L.get("shape", [len(L.get("d", []))])[0]
        if c in ("ListOffset",):
            return len(L["o"]) - 1
        if c == "List":
            return len(L["s"])
        if c in ("Indexed", "IndexedOption"):
            return len(L["i"])
        if c == "ByteMasked":
            return len(L["m"])
        if c in ("BitMasked", "Record"):
            return L.get("n", 0)
        if c == "Regular":
            return L.get("zl", 0) if L.get("size", 0) == 0 else _length(L["x"]) // L["size"]
        if c == "Unmasked":
            return _length(L["x"])
        if c == "Union":
            return len(L["t"])
        return 0 if c == "Empty" else 1

    def bad(L):
        if not isinstance(L, dict):
            return False
        if L.get("c") == "IndexedOption":
            try:
                if len(replay.abstract_to_list(L["x"])) == 0:
                    return True
            except Exception:
                try:
                    if _length(L["x"]) == 0:          # (layouts dumped by the worker / the stand-in carry more attributes)
                        return True
                except Exception:
                    pass
        if "x" in L and bad(L["x"]):
            return True
        return any(bad(x) for x in L.get("xs", []))
    return bad(case.get("from"))


# ---- C17: the datashape parser does not accept / does not reproduce some of what Type::tostring prints
def _tnodes(t):
    yield t
    if "x" in t:
        for y in _tnodes(t["x"]):
            yield y
    for c in t.get("xs", []):
        for y in _tnodes(c):
            yield y


def _iscat(t):
    return any(k == "__categorical__" for k, _ in t.get("ps", []))


def typeparser_inner_regular_as_arraytype(case, why):
    """F44: from_datashape(high_level=True) turns EVERY 'N * T' into an ArrayType, not only the outermost one."""
    if case.get("act") != "type":
        return False
    if why.startswith("re-parsed type prints the same"):
        return any(n["k"] == "reg" and not n.get("ps") for n in _tnodes(case["tree"]))
    # below an option the stray ArrayType is no list type any more, so the option prints as '?N * T' instead of 'option[N * T]'
    if why.startswith("type changed by printing and re-parsing") and "option[" in why and "?" in why.split("->")[-1]:
        pe = lambda n: all(k == "__categorical__" for k, _ in n.get("ps", []))       # prints without a parameters= clause
        return any(n["k"] == "opt" and pe(n) and n["x"]["k"] == "reg" and not n["x"].get("ps") for n in _tnodes(case["tree"]))
    return False


def typeparser_categorical_regular(case, why):
    """F45: 'categorical[type=N * T]' is parsed with the categorical flag handed to T instead of the regular type."""
    return (case.get("act") == "type" and why.startswith("type changed by printing and re-parsing")
            and any(n["k"] == "reg" and _iscat(n) and len(n.get("ps", [])) == 1 for n in _tnodes(case["tree"])))


def typeparser_zero_field_record(case, why):
    """F46: records/tuples without fields print as '()', '{}', 'Name[]', 'struct[[], [], ...]', 'tuple[[], ...]', none of which the grammar accepts."""
    return (case.get("act") == "type" and "cannot be parsed back" in why
            and any(n["k"] == "rec" and len(n["xs"]) == 0 for n in _tnodes(case["tree"])))


def typeparser_named_tuple(case, why):
    """F47: a tuple with a record name prints as 'Name[T, ...]'; the grammar's record_highlevel requires '"key": T' items."""
    kw = {"var", "option", "bool", "int8", "int16", "int32", "int64", "int128", "uint8", "uint16", "uint32", "uint64", "uint128",
          "float16", "float32", "float64", "float128", "decimal32", "decimal64", "decimal128", "bignum", "int", "real", "complex",
          "intptr", "uintptr", "string", "char", "bytes", "date", "json", "void", "datetime", "categorical", "pointer"}
    return (case.get("act") == "type" and "cannot be parsed back" in why
            and any(n["k"] == "rec" and n["tup"] == 1 and n.get("nm") and n["nm"] not in kw and not n.get("ps") and len(n["xs"]) > 0
                    for n in _tnodes(case["tree"])))


def numba_regular_size0_length(case, why):
    """F51: boxing a view back from Numba rebuilds a size-0 RegularArray without its zeros_length."""
    if case.get("act") != "numba":
        return False

    def has(L):
        if not isinstance(L, dict):
            return False
        if L.get("c") == "Regular" and L.get("size") == 0 and L.get("zl", 0) > 0:
            return True
        return ("x" in L and has(L["x"])) or any(has(x) for x in L.get("xs", []))
    return has(case.get("from")) and case.get("args", {}).get("prog") in ("range", "at", "range_at", "at_range", "at_at", "at_len", "field_x", "field_x_at")


def cartesian_regular_size0(case, why):
    """F53: ak.cartesian inserts length-1 regular dimensions and broadcasts; broadcast_and_apply refuses size 1 against
    size 0, so any operand whose lists are a RegularArray of size 0 makes ak.cartesian raise."""
    # (when the other operand is given as a multidimensional NumpyArray the same refusal surfaces one level further
    #  down, as 'cannot broadcast NumpyArray of length n with NumpyArray of length 0')
    if case.get("act") != "cartesian" or not ("cannot broadcast RegularArray of size 0 with RegularArray of size" in why
                                              or ("cannot broadcast NumpyArray of length" in why and "of length 0" in why)):
        return False
    return any(L.get("c") == "Regular" and L.get("size") == 0 for L in (case.get("from", {}), case.get("aux", {})))


def jagged_slice_multidim_numpy(case, why):
    """F54: a jagged (variable-length) index applied to a MULTIDIMENSIONAL NumpyArray raises
    'undefined operation: NumpyArray::getitem_next_jagged'; the same data as RegularArray over a flat NumpyArray works."""
    return case.get("act") == "slice" and "NumpyArray::getitem_next_jagged" in why and \
        any(it.get("k") == "jagged" for it in case.get("args", {}).get("items", []))


def _record_with_list_field_under_list(L, under_list=False):
    if not isinstance(L, dict):
        return False
    c = L.get("c")
    if c in ("Record", "Union") and under_list and any(_has_list(x) for x in L.get("xs", [])):
        return True          # (a union of branches of different depths defers a negative axis to its contents just as a record does)
    ul = under_list or c in ("ListOffset", "List", "Regular") or (c == "Numpy" and len(L.get("shape", [0])) > 1)
    if "x" in L and _record_with_list_field_under_list(L["x"], ul):
        return True
    return any(_record_with_list_field_under_list(x, ul) for x in L.get("xs", []))


def _has_list(L):
    if not isinstance(L, dict):
        return False
    if L.get("c") in ("ListOffset", "List", "Regular", "Str") or (L.get("c") == "Numpy" and len(L.get("shape", [0])) > 1):
        return True
    return ("x" in L and _has_list(L["x"])) or any(_has_list(x) for x in L.get("xs", []))


def negative_axis_below_nested_record(case, why):
    """F56: Content::axis_wrap_if_negative resolves a negative axis relative to the node it is called on but the result
    is compared with the absolute depth; at the top they coincide, but below a record that is itself inside a list
    (where the axis is first resolvable, in each field) the axis lands one or more levels too high:
    num([[{x:[1]},{x:[2,3]}],[{x:[4,5,6]}]], axis=-1) returns an INVALID layout, local_index gives the field's
    row numbers, flatten raises 'axis=0 not allowed', pad_none pads nothing, combinations mixes different records."""
    ax = case.get("args", {}).get("axis") if isinstance(case.get("args"), dict) else None
    if case.get("act") not in ("num", "localindex", "flatten", "pad", "comb", "isnone", "fillnone", "firsts") or ax is None or ax >= 0:
        return False
    return _record_with_list_field_under_list(case.get("from"))


def _wcase_layouts(case):
    w = case.get("_wcase") or {}
    return [st.get("layout") for st in w.get("steps", []) if isinstance(st, dict) and st.get("op") == "build"]


def _has_multidim_numpy(L):
    if not isinstance(L, dict):
        return False
    if L.get("c") == "Numpy" and len(L.get("shape", [0])) > 1:
        return True
    return ("x" in L and _has_multidim_numpy(L["x"])) or any(_has_multidim_numpy(x) for x in L.get("xs", []))


def concat_multidim_numpy_with_regular(case, why):
    """F59: NumpyArray::mergeable knows no list classes and RegularArray::mergeable no NumpyArray, so concatenating a
    MULTIDIMENSIONAL NumpyArray with a RegularArray (or any list array) of the very same type n * T gives union[n * T, n * T]."""
    if case.get("act") != "concat" or not why.startswith("identical types must merge into one type"):
        return False
    ls = _wcase_layouts(case)

    def meets(A, B):
        """walking both operands down together: a multidimensional NumpyArray node facing a list-class node"""
        if not isinstance(A, dict) or not isinstance(B, dict):
            return False
        for P, Q in ((A, B), (B, A)):
            if P.get("c") == "Numpy" and len(P.get("shape", [0])) > 1 and Q.get("c") != "Numpy":
                return True
        return "x" in A and "x" in B and meets(A["x"], B["x"])
    return len(ls) >= 2 and any(meets(ls[i], ls[j]) for i in range(len(ls)) for j in range(i + 1, len(ls)))


def ellipsis_through_records(case, why):
    """F57: RecordArray::getitem_next hands every item to its fields with an EMPTY tail, so an Ellipsis met at a record
    cannot see the items that follow it and expands to nothing: x[..., 0:4:2] on an array of tuples of var * 3 * float64
    acts as x[:, 0:4:2] (the range lands on the first list level below the record instead of the innermost)."""
    its = _items(case)
    if case.get("act") != "slice" or not _has_class(case.get("from"), "Record"):
        return False
    k = [i for i, it in enumerate(its) if it.get("k") == "ellipsis"]
    if len(k) != 1 or k[0] == len(its) - 1:
        return False
    return why.startswith("value differs") or why.startswith("spec: value expected") or why.startswith("spec: must raise")


def _option_list_under_list(L, under_list=False):
    """an option node whose content is a list node, itself below a list node"""
    if not isinstance(L, dict):
        return False
    c = L.get("c")
    if c in ("IndexedOption", "ByteMasked", "BitMasked", "Unmasked") and under_list:
        x = L.get("x", {})
        while isinstance(x, dict) and x.get("c") in ("Indexed",):
            x = x.get("x", {})
        if isinstance(x, dict) and (x.get("c") in ("ListOffset", "List", "Regular") or (x.get("c") == "Numpy" and len(x.get("shape", [0])) > 1)):
            return True
    ul = under_list or c in ("ListOffset", "List", "Regular")
    if "x" in L and _option_list_under_list(L["x"], ul):
        return True
    return any(_option_list_under_list(x, ul) for x in L.get("xs", []))


def sort_missing_list_inside_lists(case, why):
    """F58: sort/argsort along the innermost axis of lists of option-type lists (var * option[var * T]) turn the lists
    that FOLLOW a missing one in a later outer list into None: sort([[[6]],[None],[[3]]]) gives [[[6]],[None],[None]]
    (IndexedOptionArray::sort_next/argsort_next use the leaf-level kernel IndexedArray_local_preparenext_64 for a
    non-leaf option node)."""
    # (when the outer offsets do not start at zero the same code path gives up with a RuntimeError instead)
    return (case.get("act") in ("sort", "argsort") and _option_list_under_list(case.get("from"))
            and (why.startswith("value differs")
                 or "sort_next with unbranching depth > negaxis expects a ListOffsetArray64 whose offsets start at zero" in why))


def num_axis0_bare_recordarray(case, why):
    """F60: RecordArray::num at its own level (axis=0) returns a RECORD holding the length once per field, while the same
    records behind an IndexedArray / option node (e.g. after any carry) return the length itself."""
    if case.get("act") != "num" or not why.startswith("value differs"):
        return False
    L = case.get("from") or {}
    ty = case.get("fromty") or ""
    ax = case.get("args", {}).get("axis")
    top_is_record = L.get("c") == "Record"
    depth = 1                       # records count one level; a negative axis equal to -depth of a flat record means axis 0
    return top_is_record and (ax == 0 or (ax == -1 and " * " not in ty))


def _flat_leaves(x, out):
    if isinstance(x, list):
        for e in x:
            _flat_leaves(e, out)
    elif isinstance(x, dict):
        if set(x.keys()) >= {"t"}:
            t = x["t"]
            if t == "list":
                for e in x["xs"]:
                    _flat_leaves(e, out)
            elif t == "int":
                out.append(float(x["x"]))
        else:
            for e in x.values():
                _flat_leaves(e, out)
    elif isinstance(x, bool):
        out.append(1.0 if x else 0.0)
    elif isinstance(x, (int, float)):
        out.append(float(x))
    return out


def flatten_all_union_order(case, why):
    """F73: flatten(axis=None) of a union-typed array: the right leaves, grouped by union content instead of in order.
    Matches only when the library's leaves are a permutation of the specified ones."""
    import json as _json
    if case.get("act") != "flatten" or case.get("args", {}).get("axis") != 77777 or not why.startswith("value differs"):
        return False
    if not _has_class(case.get("from"), "Union"):
        return False
    try:
        lib = _json.loads(case.get("lib"))
    except Exception:
        return False
    want = (case.get("spec") or {}).get("v")
    if want is None:
        return False
    return sorted(_flat_leaves(lib, [])) == sorted(_flat_leaves(want, []))


def fill_none_union_nested(case, why):
    """F74: fill_none on a union one of whose contents is an option of lists leaves a union inside a union."""
    return (case.get("act") == "fillnone" and _has_class(case.get("from"), "Union")
            and why.startswith("result fails validity") and "contains UnionArray" in why)


def _union_inside_union(L, seen=False):
    if not isinstance(L, dict):
        return False
    c = L.get("c")
    if c == "Union" and seen:
        return True
    s2 = seen or c == "Union"
    if "x" in L and _union_inside_union(L["x"], s2):
        return True
    return any(_union_inside_union(x, s2) for x in L.get("xs", []))


def flatten_union_of_lists_of_unions(case, why):
    """F84: flattening a union whose list contents hold unions themselves leaves a union directly inside a union."""
    return (case.get("act") in ("flatten", "unflatten") and _union_inside_union(case.get("from"))
            and why.startswith("result fails validity") and "contains UnionArray" in why)


def _option_directly_over_union(L):
    if not isinstance(L, dict):
        return False
    if L.get("c") in ("IndexedOption", "ByteMasked", "BitMasked", "Unmasked") and isinstance(L.get("x"), dict) and L["x"].get("c") == "Union":
        return True
    return ("x" in L and _option_directly_over_union(L["x"])) or any(_option_directly_over_union(x) for x in L.get("xs", []))


def option_over_union_unsimplified(case, why):
    """F88: an option node directly over a UnionArray: when an operation turns the union into an option-type (or indexed)
    array -- its contents simplify, one of them is an option -- the option wrapper is rebuilt around it unsimplified."""
    return (_option_directly_over_union(case.get("from")) and why.startswith("result fails validity")
            and "simplify_optiontype" in why)


def _lb_features(case):
    import replay
    return replay.lb_features(case["form"]) if case.get("act") == "layoutbuilder" else set()


def layoutbuilder_list_below_nonrouting_node(case, why):
    """F91: a list-type Form (ListOffsetForm, strings) directly below a Regular / Indexed / ByteMasked / BitMasked / Unmasked /
    Union Form: those FormBuilders do not pass begin_list / end_list on, so the first begin_list raises."""
    fs = _lb_features(case)
    if not any(f.startswith("list-below-") for f in fs):
        return False
    if "a command that fits the Form raised ValueError: ListOffsetArray" in why:
        return True
    # below a union the begin_list / end_list pair is swallowed: the union's index points at a list that was never made
    return "list-below-union" in fs and "snapshot fails validity" in why and "UnionArray8_64): index[i] >= len(content[tags[i]])" in why


def layoutbuilder_regular_below_list(case, why):
    """F92: a RegularForm directly below a ListOffsetForm: the list's offsets count the leaves appended, not the rows of the
    RegularArray, so the snapshot's offsets point beyond the content (or show other rows)."""
    return ("reg-below-list" in _lb_features(case)
            and (("snapshot fails validity" in why and "len(content)" in why) or "differs from the appended values" in why))


def layoutbuilder_string_field_of_record(case, why):
    """F93: string() for a string-typed field of a RecordForm (or, after an empty string, the next field's command) raises
    '... needs begin_list' (the same Form at top level or below a list accepts it)."""
    return "str-below-rec" in _lb_features(case) and "a command that fits the Form raised ValueError: ListOffsetArray Builder" in why
