------------------------------ MODULE Session ------------------------------
(***************************************************************************)
(* The umbrella machine of DESIGN.md section 2.2.                          *)
(*                                                                         *)
(* phase "build": the layout under test `cur` (and an optional second      *)
(* operand `aux`) is CONSTRUCTED by actions, one per node class, so that   *)
(* TLC enumerates all layouts up to the bounds in parallel and             *)
(* de-duplicates them by fingerprint.  With ValidOnly the constructors     *)
(* are guarded by the documented validity rules; without it every          *)
(* singly- or multiply-broken layout is reachable (C11 exactness, C12).    *)
(*                                                                         *)
(* Operation actions apply one public operation with enumerated arguments; *)
(* the value machine (AkValue) says what must come out.  Each explored     *)
(* operation transition is exported as one JSON case by the                *)
(* ACTION_CONSTRAINT Emit and replayed against the real library.           *)
(***************************************************************************)
EXTENDS AkBroadcast, Buffers, AkNumba, Json

CONSTANTS
  LeafSet,      \* set of leaf layouts to start from
  MaxLen,       \* maximal outer length produced by a wrap
  MaxDepth,     \* maximal number of wraps
  Classes,      \* subset of node classes that may be wrapped
  OpSet,        \* subset of operation families applied
  ValidOnly,    \* BOOLEAN: guard constructors by Valid
  SliceItems,   \* set of slice items for the Slice action (single items)
  SliceTuples,  \* set of slice tuples (sequences of items) for the Slice action
  Axes,         \* set of axis values tried
  Targets,      \* set of pad targets
  CombNs,       \* set of n for combinations
  SortArgs,     \* set of [asc, stable, arg] records applied by the Sort action
  ReduceArgs,   \* set of [r, mask, kd] records applied by the Reduce action
  MaxNodes,     \* state constraint: total number of layout nodes in cur and aux
  EmitOn        \* BOOLEAN: export transitions as JSON cases

VARIABLES cur, aux, phase, last
vars == <<cur, aux, phase, last>>

NoLayout == [c |-> "NoLayout"]
HasAux == aux.c # "NoLayout"
Building == phase = "build"
Guard(L) == (~ValidOnly) \/ Valid(L)
Deeper == LDepth(cur) < MaxDepth

\* index domains: exact in valid-only mode (faster), overshooting otherwise
IdxLo == IF ValidOnly THEN 0 ELSE -1
IdxHi(n) == IF ValidOnly THEN n ELSE n + 1

Init ==
  /\ cur \in LeafSet
  /\ aux = NoLayout
  /\ phase = "build"
  /\ last = [act |-> "init"]

Built(new) == cur' = new /\ UNCHANGED <<aux, phase>> /\ last' = [act |-> "build"]

WrapListOffset ==
  /\ Building /\ Deeper /\ "ListOffset" \in Classes
  /\ \E k \in 0..MaxLen : \E o \in [1..(k + 1) -> IdxLo..IdxHi(LLen(cur))] :
       LET new == ListOffset(o, cur) IN Guard(new) /\ Built(new)

WrapList ==
  /\ Building /\ Deeper /\ "List" \in Classes
  /\ \E k \in 0..MaxLen :
       \E s \in [1..k -> IdxLo..IdxHi(LLen(cur))] : \E e \in [1..k -> IdxLo..IdxHi(LLen(cur))] :
         LET new == ListA(s, e, cur) IN Guard(new) /\ Built(new)

WrapRegular ==
  /\ Building /\ Deeper /\ "Regular" \in Classes
  /\ \E size \in 0..MaxLen : \E zl \in 0..(IF size = 0 THEN 2 ELSE 0) :
       LET new == Regular(size, zl, cur) IN Guard(new) /\ LLen(new) <= MaxLen /\ Built(new)

WrapIndexed ==
  /\ Building /\ Deeper /\ "Indexed" \in Classes
  /\ \E k \in 0..MaxLen : \E i \in [1..k -> IdxLo..(IdxHi(LLen(cur)) - 1)] :
       LET new == Indexed(i, cur) IN Guard(new) /\ Built(new)

WrapIndexedOption ==
  /\ Building /\ Deeper /\ "IndexedOption" \in Classes
  /\ \E k \in 0..MaxLen : \E i \in [1..k -> (-1)..(IdxHi(LLen(cur)) - 1)] :
       LET new == IndexedOption(i, cur) IN Guard(new) /\ Built(new)

WrapByteMasked ==
  /\ Building /\ Deeper /\ "ByteMasked" \in Classes
  \* mask bytes: any non-zero byte means "true" (not only 1)
  /\ \E k \in 0..Min2(MaxLen, IdxHi(LLen(cur))) : \E m \in [1..k -> {0, 1, -1, 4}] : \E vw \in {0, 1} :
       LET new == ByteMasked(m, vw, cur) IN Guard(new) /\ Built(new)

\* one mask byte; the bits beyond n are filled with `pad` (they must be ignored)
PackByte(bits, lsb, pad) ==
  LET bit(k) == IF k <= Len(bits) THEN bits[k] ELSE pad      \* k = 1..8 logical position
      RECURSIVE sum(_)
      sum(k) == IF k > 8 THEN 0
                ELSE bit(k) * (2 ^ (IF lsb = 1 THEN k - 1 ELSE 8 - k)) + sum(k + 1)
  IN sum(1)
WrapBitMasked ==
  /\ Building /\ Deeper /\ "BitMasked" \in Classes
  /\ \E n \in 0..Min2(MaxLen, IdxHi(LLen(cur))) : \E bits \in [1..n -> {0, 1}] :
     \E vw \in {0, 1} : \E lsb \in {0, 1} : \E pad \in {0, 1} :
       LET new == BitMasked(<<PackByte(bits, lsb, pad)>>, vw, lsb, n, cur) IN Guard(new) /\ Built(new)

WrapUnmasked ==
  /\ Building /\ Deeper /\ "Unmasked" \in Classes
  /\ LET new == Unmasked(cur) IN Guard(new) /\ Built(new)

WrapRecord ==
  /\ Building /\ Deeper /\ "Record" \in Classes
  /\ \E tuple \in {0, 1} :
       \/ \E n \in 0..Min2(MaxLen, LLen(cur)) :
            LET new == RecordL(IF tuple = 1 THEN <<>> ELSE <<"x">>, tuple, n, <<cur>>) IN Guard(new) /\ Built(new)
       \/ /\ HasAux
          /\ \E n \in 0..Min2(MaxLen, Min2(LLen(cur), LLen(aux))) :
               LET new == RecordL(IF tuple = 1 THEN <<>> ELSE <<"x", "y">>, tuple, n, <<aux, cur>>)
               IN Guard(new) /\ cur' = new /\ aux' = NoLayout /\ UNCHANGED phase /\ last' = [act |-> "build"]

WrapUnion ==
  /\ Building /\ Deeper /\ "Union" \in Classes /\ HasAux
  /\ \E k \in 0..MaxLen : \E t \in [1..k -> 0..1] :
     \E i \in [1..k -> IdxLo..Max2(IdxHi(LLen(cur)), IdxHi(LLen(aux))) - 1] :
       LET new == UnionL(t, i, <<aux, cur>>)
       IN Guard(new) /\ cur' = new /\ aux' = NoLayout /\ UNCHANGED phase /\ last' = [act |-> "build"]

StoreAux ==
  /\ Building /\ ~HasAux /\ ("Record" \in Classes \/ "Union" \in Classes \/ "aux" \in OpSet)
  /\ aux' = cur /\ cur' \in LeafSet /\ UNCHANGED phase /\ last' = [act |-> "build"]

Build == WrapListOffset \/ WrapList \/ WrapRegular \/ WrapIndexed \/ WrapIndexedOption
         \/ WrapByteMasked \/ WrapBitMasked \/ WrapUnmasked \/ WrapRecord \/ WrapUnion \/ StoreAux

\* ---------------------------------------------------------------- operations
Sink == [c |-> "Sink"]
Case(act, args, r) ==
  /\ last' = [act |-> act, args |-> args, from |-> cur, fromty |-> TypeStr(TypeOf(cur)),
              len |-> LLen(cur), exp |-> r]
  /\ cur' = Sink /\ aux' = NoLayout /\ phase' = "done"

OpReady(name) == Building /\ name \in OpSet /\ ~HasAux /\ Valid(cur)
V == ToList(cur)
T == TypeOf(cur)

\* C11: the validity check is exact
Validity ==
  /\ Building /\ "validity" \in OpSet /\ ~HasAux
  /\ Case("validity", [none |-> 0], [ok |-> 1, v |-> VInt(IF Valid(cur) THEN 1 ELSE 0)])

\* every valid layout: to_list / type (the abstraction function itself is bound to the code)
ToListOp ==
  /\ OpReady("tolist")
  /\ Case("tolist", [none |-> 0], Ok(V))

SliceOp ==
  /\ OpReady("slice")
  /\ \E items \in SliceTuples :
       Case("slice", [items |-> items], VGetItem(V, T, items))

NumOp ==
  /\ OpReady("num")
  /\ \E ax \in Axes : Case("num", [axis |-> ax], VAxisOp([n |-> "num"], V, T, ax))

LocalIndexOp ==
  /\ OpReady("localindex")
  /\ \E ax \in Axes : Case("localindex", [axis |-> ax], VAxisOp([n |-> "localindex"], V, T, ax))

FlattenOp ==
  /\ OpReady("flatten")
  /\ \E ax \in Axes : Case("flatten", [axis |-> ax], VFlatten(V, T, ax))

PadOp ==
  /\ OpReady("pad")
  /\ \E ax \in Axes : \E tg \in Targets : \E clip \in {0, 1} :
       Case("pad", [axis |-> ax, target |-> tg, clip |-> clip],
            VAxisOp([n |-> "pad", target |-> tg, clip |-> clip], V, T, ax))

CombOp ==
  /\ OpReady("comb")
  /\ \E ax \in Axes : \E k \in CombNs : \E repl \in {0, 1} :
       Case("comb", [axis |-> ax, n |-> k, repl |-> repl],
            IF k < 1 THEN Err ELSE VAxisOp([n |-> "comb", k |-> k, repl |-> repl], V, T, ax))

ReduceOp ==
  /\ OpReady("reduce")
  /\ \E a \in ReduceArgs : \E ax \in Axes :
       Case("reduce", [reducer |-> a.r, axis |-> ax, mask |-> a.mask, keepdims |-> a.kd],
            VReduce(V, T, a.r, ax, a.mask, a.kd))

\* C08: concatenation along axis 0 keeps every element (aux first, then cur); merging identical
\* types gives that type
ConcatOp ==
  /\ Building /\ "concat" \in OpSet /\ HasAux /\ Valid(cur) /\ Valid(aux)
  /\ last' = [act |-> "concat", args |-> [axis |-> 0], from |-> cur, aux |-> aux,
              fromty |-> TypeStr(TypeOf(cur)), auxty |-> TypeStr(TypeOf(aux)), len |-> LLen(cur),
              exp |-> [ok |-> 1, v |-> VList(ToListS(aux) \o ToListS(cur)),
                       sametype |-> IF TypeOf(aux) = TypeOf(cur) THEN 1 ELSE 0]]
  /\ cur' = Sink /\ aux' = NoLayout /\ phase' = "done"

\* C08/C09: re-encodings that must not change the value: simplify, option-encoding conversions, casts
SameValueOp ==
  /\ OpReady("samevalue")
  /\ \E o \in {"simplify", "astype_float64", "astype_int32", "project_bytemask", "toListOffsetArray64",
               "toIndexedOptionArray64", "toByteMaskedArray", "deep_copy"} :
       Case("samevalue", [o |-> o], Ok(V))

SortOp ==
  /\ OpReady("sort")
  /\ \E a \in SortArgs : \E ax \in Axes :
       Case(IF a.arg = 1 THEN "argsort" ELSE "sort", [axis |-> ax, asc |-> a.asc, stable |-> a.stable],
            VSort(V, T, ax, a.asc, a.arg))

\* C10: a new or replaced field holds exactly the given values; everything else is unchanged
SetFieldOp ==
  /\ Building /\ "setfield" \in OpSet /\ HasAux /\ Valid(cur) /\ Valid(aux)
  /\ aux.c = "Record" /\ aux.tuple = 0 /\ LLen(cur) = LLen(aux)
  /\ LET recs == ToListS(aux)  what == ToListS(cur)
         upd(r, w, key) == IF \E j \in 1..Len(r.ks) : r.ks[j] = key
                           THEN VRec(r.ks, [j \in 1..Len(r.ks) |-> IF r.ks[j] = key THEN w ELSE r.vs[j]])
                           ELSE VRec(r.ks \o <<key>>, r.vs \o <<w>>)
         \* the positional form inserts the new field AT position `where` (appends beyond the end), named str(where)
         InsertAt(q, p, e) == IF p >= Len(q) THEN q \o <<e>> ELSE SubSeq(q, 1, p) \o <<e>> \o SubSeq(q, p + 1, Len(q))
         ins(r, w, p) == VRec(InsertAt(r.ks, p, ToString(p)), InsertAt(r.vs, p, w))
         emit(args, vals) ==
            last' = [act |-> "setfield", args |-> args, from |-> cur, aux |-> aux,
                     fromty |-> TypeStr(TypeOf(cur)), auxty |-> TypeStr(TypeOf(aux)), len |-> LLen(cur),
                     exp |-> [ok |-> 1, v |-> VList(vals)]]
     IN \/ \E key \in {"x", "z"} : emit([key |-> key], [k \in 1..Len(recs) |-> upd(recs[k], what[k], key)])
        \/ \E p \in 0..3 : emit([where |-> p], [k \in 1..Len(recs) |-> ins(recs[k], what[k], p)])
  /\ cur' = Sink /\ aux' = NoLayout /\ phase' = "done"

\* C07 (Python layer): ak.cartesian of two arrays = itertools.product per list at the axis, as tuples
CartesianOp ==
  /\ Building /\ "cartesian" \in OpSet /\ HasAux /\ Valid(cur) /\ Valid(aux)
  /\ \E ax \in {0, 1, -1} :
       LET A == ToListS(aux)  B == ToListS(cur)  TA == TypeOf(aux)  TB == TypeOf(cur)
           pair(x, y) == VRec(<<"0", "1">>, <<x, y>>)
           prod(xs, ys) == Flat([i \in 1..Len(xs) |-> [j \in 1..Len(ys) |-> pair(xs[i], ys[j])]])
           flatlists == TA.k \in {"var", "reg"} /\ TB.k \in {"var", "reg"} /\ TA.x.k = "num" /\ TB.x.k = "num"
           exp == IF ax = 0 THEN (IF TA.k = "num" /\ TB.k = "num" THEN Ok(VList(prod(A, B))) ELSE Unspec)
                  ELSE IF ~flatlists THEN Unspec
                  ELSE IF Len(A) # Len(B) THEN Unspec
                  ELSE Ok(VList([i \in 1..Len(A) |-> VList(prod(A[i].xs, B[i].xs))]))
       IN last' = [act |-> "cartesian", args |-> [axis |-> ax], from |-> cur, aux |-> aux,
                   fromty |-> TypeStr(TB), auxty |-> TypeStr(TA), len |-> LLen(cur), exp |-> exp]
  /\ cur' = Sink /\ aux' = NoLayout /\ phase' = "done"

RECURSIVE KindsOfT(_)
KindsOfT(U) == IF U.k \in {"var", "reg", "opt"} THEN <<U.k>> \o KindsOfT(U.x) ELSE <<U.k>>
\* C20: access programs compiled by Numba see what the interpreter sees (AkNumba!NbExpect)
NumbaOp ==
  /\ OpReady("numba")
  /\ \E prog \in NbProgs(T) : \E i \in {-3, -1, 0, 1, 2} : \E j \in {-1, 0, 1, 2} :
       /\ (prog \in {"len", "iter_count", "sum_leaves", "asarray", "field_x"} => (i = 0 /\ j = 0))
       /\ (prog \in {"at", "at_len", "at_field_x", "field_x_at"} => j = 0)
       \* the second index is applied to a list only if the first level holds no missing lists
       /\ (prog \in {"at_at", "at_len", "at_range"} => T.k \in {"var", "reg"})
       /\ Case("numba", [prog |-> prog, i |-> i, j |-> j, kinds |-> KindsOfT(T)], NbExpect(prog, V, T, i, j))

\* C09: is_none / bytemask of every option encoding: 1 exactly at the missing positions
IsNoneOp ==
  /\ OpReady("isnone") /\ (IsOptionL(cur) \/ cur.c = "Indexed")
  /\ Case("isnone", [none |-> 0], Ok(VList([k \in 1..Len(V.xs) |-> VInt(IF IsNone(V.xs[k]) THEN 1 ELSE 0)])))

\* C17: type, form and the depth / field / regularity queries describe the value truthfully
RECURSIVE KeysOfT(_)
KeysOfT(U) == CASE U.k = "rec" -> U.ks
                [] U.k \in {"var", "reg", "opt"} -> KeysOfT(U.x)
                \* a union has the fields that ALL of its members have, in the order of the first member
                [] U.k = "union" -> SelectSeq(KeysOfT(U.xs[1]), LAMBDA key : \A j \in 2..Len(U.xs) :
                                                                     \E q \in 1..Len(KeysOfT(U.xs[j])) : KeysOfT(U.xs[j])[q] = key)
                [] OTHER -> <<>>
HasUnionT(U) == LET RECURSIVE has(_)
                    has(W) == CASE W.k = "union" -> TRUE
                                [] W.k \in {"var", "reg", "opt"} -> has(W.x)
                                [] W.k = "rec" -> \E j \in 1..Len(W.xs) : has(W.xs[j])
                                [] OTHER -> FALSE
                IN has(U)
TypeFormOp ==
  /\ OpReady("typeform")
  /\ LET U == StripOpt(T) IN
     Case("typeform", [none |-> 0],
          [ok |-> 1, v |-> V, pd |-> PureDepthE(T), mind |-> MinDepthE(T), maxd |-> MaxDepthE(T),
           branch |-> IF MinDepthE(T) # MaxDepthE(T) THEN 1 ELSE 0,
           isreg |-> IF AllRegE(T) THEN 1 ELSE 0, keys |-> KeysOfT(T), hasunion |-> IF HasUnionT(T) THEN 1 ELSE 0,
           elemty |-> IF U.k \in {"var", "reg"} THEN TypeStr(U.x) ELSE ""])

\* C16: buffers / pickle / NumPy / Arrow conversions keep the value (the replayer runs every converter on the layout)
BuffersOp ==
  /\ OpReady("buffers")
  /\ Case("buffers", [none |-> 0], Ok(V))

\* C04: ufuncs / operators / broadcast_arrays on one or two arrays and scalars
UfuncOp ==
  /\ Building /\ "ufunc" \in OpSet /\ Valid(cur)
  /\ LET lay(L) == [k |-> "lay", L |-> L]
         sc(x) == [k |-> "sc", v |-> VInt(x)]
         emit(F, form, args) ==
            last' = [act |-> "ufunc", args |-> [f |-> F, form |-> form], from |-> cur, aux |-> aux,
                     fromty |-> TypeStr(TypeOf(cur)), auxty |-> IF HasAux THEN TypeStr(TypeOf(aux)) ELSE "",
                     len |-> LLen(cur), exp |-> Ufunc(F, args)]
     IN IF HasAux
        THEN /\ Valid(aux)
             /\ \/ emit("add", "aux_cur", <<lay(aux), lay(cur)>>)
                \/ emit("add", "cur_aux", <<lay(cur), lay(aux)>>)
                \/ emit("add", "aux_cur_sc", <<lay(aux), lay(cur), sc(100)>>)
                \/ emit("tuple", "aux_cur", <<lay(aux), lay(cur)>>)
        ELSE \/ emit("add", "cur_sc", <<lay(cur), sc(10)>>)
             \/ emit("add", "sc_cur", <<sc(10), lay(cur)>>)
             \/ emit("add", "cur_cur", <<lay(cur), lay(cur)>>)
             \/ emit("neg", "cur", <<lay(cur)>>)
  /\ cur' = Sink /\ aux' = NoLayout /\ phase' = "done"

Operate == CartesianOp \/ NumbaOp \/ IsNoneOp \/ TypeFormOp \/ BuffersOp \/ UfuncOp \/ SetFieldOp \/ SortOp \/ ConcatOp \/ SameValueOp \/ ReduceOp \/ Validity \/ ToListOp \/ SliceOp \/ NumOp \/ LocalIndexOp \/ FlattenOp \/ PadOp \/ CombOp

Next == Build \/ Operate
Spec == Init /\ [][Next]_vars

\* ---------------------------------------------------------------- properties
\* the abstraction function is total on valid layouts and agrees with the length bookkeeping
Refines == (phase = "build" /\ Valid(cur)) => Len(ToListS(cur)) = LLen(cur)
\* closure of the constructors in valid-only mode
Closed == (phase = "build" /\ ValidOnly) => Valid(cur)

\* C16 at design level: the lengths from_buffers recomputes from the index buffers lose nothing reachable
BuffersInv == (phase = "build" /\ Valid(cur)) => BuffersLossless(cur)

\* export
Emit == (EmitOn /\ last'.act \notin {"build", "init"}) => PrintT(<<"CASE", ToJson(last')>>)
SmallEnough == LNodes(cur) + LNodes(aux) <= MaxNodes
View == <<cur, aux, phase>>
=============================================================================
