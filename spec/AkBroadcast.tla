----------------------------- MODULE AkBroadcast -----------------------------
(***************************************************************************)
(* C04: NumPy-right / tree-left broadcasting and element-wise application. *)
(*                                                                         *)
(* The operator Apply below is the value-level transcription of            *)
(* ak._util.broadcast_and_apply.apply (src/awkward/_util.py): the same     *)
(* order of decisions -- implicit right-broadcasting of all-regular        *)
(* inputs, length check, then one switch over unknown / indexed / option / *)
(* list {all regular | var} / record / leaf inputs -- but stated on        *)
(* logical values and element types instead of layout nodes.               *)
(*                                                                         *)
(* An input is either  [k |-> "arr", xs |-> <<element values>>, T |-> T]    *)
(* (an array at the current level, T its element type as AkLayout!TypeOf   *)
(* gives it: TReg for RegularArray, TVar for ListArray/ListOffsetArray)    *)
(* or  [k |-> "sc", v |-> value]  (a Python scalar, which always repeats). *)
(* The result is a sequence of result elements, or Err.                    *)
(*                                                                         *)
(* broadcast_pack wraps every array input of length n as ONE regular list  *)
(* of size n (so a length-1 array repeats against length-n ones and the    *)
(* dimensions of all-regular inputs align to the RIGHT as in NumPy); the   *)
(* left-broadcasting of the statement ("an array with fewer variable-      *)
(* length levels repeats each element across the inner lists of the deeper *)
(* one") happens in the var-list branch.                                   *)
(***************************************************************************)
EXTENDS AkLayout

BErr == [ok |-> 0]
BOk(xs) == [ok |-> 1, xs |-> xs]

BArr(xs, T) == [k |-> "arr", xs |-> xs, T |-> T]
Sc(v) == [k |-> "sc", v |-> v]
IsArr(a) == a.k = "arr"

\* Content::purelist_isregular of an array whose ELEMENT type is T
RECURSIVE AllRegE(_)
AllRegE(T) == CASE T.k = "reg" -> AllRegE(T.x)
                [] T.k \in {"var", "str", "bytes"} -> FALSE        \* a string is a variable-length list of characters
                [] T.k = "opt" -> AllRegE(T.x)
                [] T.k = "union" -> \A j \in 1..Len(T.xs) : AllRegE(T.xs[j])
                [] OTHER -> TRUE

Repeat(x, n) == [j \in 1..n |-> x]
RECURSIVE Chunks(_, _, _)
Chunks(s, lens, k) ==       \* split s into consecutive pieces of the given lengths
  IF k > Len(lens) THEN <<>>
  ELSE <<SubSeq(s, 1, lens[k])>> \o Chunks(SubSeq(s, lens[k] + 1, Len(s)), lens, k + 1)

\* the leaf action: F = "add" (sum of the arguments), "neg" (unary minus), "tuple" (broadcast_arrays: all of them)
LeafApply(F, vals) ==
  CASE F = "add" -> VInt(SeqSum([j \in 1..Len(vals) |-> vals[j].x]))
    [] F = "neg" -> VInt(0 - vals[1].x)
    [] F = "tuple" -> VRec(TupleKeys(Len(vals)), vals)

RECURSIVE Apply(_, _)
Apply(F, ins) ==
  LET N == Len(ins)
      A == {i \in 1..N : IsArr(ins[i])}
      TK(i) == ins[i].T.k
      depthOf(i) == PureDepthE(ins[i].T)
      maxdepth == IF A = {} THEN 0 ELSE SeqMax([i \in 1..N |-> IF i \in A THEN depthOf(i) ELSE 0])
      lens == {Len(ins[i].xs) : i \in A}
  IN
  \* ---- implicit right-broadcasting (NumPy-like): only when every array input is regular all the way down
  IF (\E i \in A : TK(i) \in {"var", "reg"}) /\ (\A i \in A : AllRegE(ins[i].T)) /\ (\E i \in A : depthOf(i) < maxdepth)
  THEN Apply(F, [i \in 1..N |->
                   IF i \in A /\ depthOf(i) < maxdepth
                   THEN BArr([p \in 1..Len(ins[i].xs) |-> VList(<<ins[i].xs[p]>>)], TReg(1, ins[i].T))
                   ELSE ins[i]])
  \* ---- now all lengths must agree
  ELSE IF Cardinality(lens) > 1 THEN BErr
  ELSE LET n == IF A = {} THEN 1 ELSE CHOOSE l \in lens : TRUE IN
  \* ---- the switch
  IF \E i \in A : TK(i) = "unknown" THEN
       Apply(F, [i \in 1..N |-> IF i \in A /\ TK(i) = "unknown" THEN BArr(ins[i].xs, TNum("bool")) ELSE ins[i]])
  ELSE IF \E i \in A : TK(i) = "union" THEN [ok |-> 3]          \* unions: not modelled (outside this model's scope)
  ELSE IF \E i \in A : TK(i) = "opt" THEN
       \* a missing value in any argument gives a missing result there
       LET missing(p) == \E i \in A : TK(i) = "opt" /\ IsNone(ins[i].xs[p])
           keep == Indexes([p \in 1..n |-> p], LAMBDA p : ~missing(p))
           next == [i \in 1..N |->
                      IF i \in A THEN BArr([q \in 1..Len(keep) |-> ins[i].xs[keep[q]]],
                                          IF TK(i) = "opt" THEN ins[i].T.x ELSE ins[i].T)
                      ELSE ins[i]]
           r == Apply(F, next)
           rank(p) == Cardinality({q \in 1..Len(keep) : keep[q] <= p})
       IN IF r.ok # 1 THEN r
          ELSE BOk([p \in 1..n |-> IF missing(p) THEN VNone ELSE r.xs[rank(p)]])
  ELSE IF \E i \in A : TK(i) \in {"var", "reg"} THEN
       LET Ls == {i \in A : TK(i) \in {"var", "reg"}}
           allreg == \A i \in Ls : TK(i) = "reg"
       IN IF allreg THEN
            \* all list inputs regular: sizes must agree, size 1 repeats; non-list inputs are passed on unchanged
            \* NumPy's rule for one dimension: all sizes other than 1 must be equal (that is the result size, possibly 0)
            LET others == {ins[i].T.n : i \in {j \in Ls : ins[j].T.n # 1}}
                maxsize == IF others = {} THEN 1 ELSE CHOOSE z \in others : TRUE
                bad == Cardinality(others) > 1
                flat(i) == IF ins[i].T.n = maxsize THEN Flat([p \in 1..n |-> ins[i].xs[p].xs])
                           ELSE Flat([p \in 1..n |-> Repeat(ins[i].xs[p].xs[1], maxsize)])
                next == [i \in 1..N |-> IF i \in Ls THEN BArr(flat(i), ins[i].T.x) ELSE ins[i]]
                \* (a size-1 dimension against a size-0 one repeats zero times, as in NumPy; the library used to refuse this
                \*  -- finding F89, found through ak.cartesian of fixed-size-0 lists -- and the rule was Unspec here until then)
                r == IF bad THEN BErr ELSE Apply(F, next)
            IN IF r.ok # 1 THEN r
               ELSE IF Len(r.xs) # n * maxsize THEN BErr      \* (cannot happen when r is ok; keeps the operator total)
               ELSE BOk([p \in 1..n |-> VList(SubSeq(r.xs, (p - 1) * maxsize + 1, p * maxsize))])
          ELSE
            \* variable-length lists: the first var-list input gives the offsets; every other list input must have the
            \* same length at each position (a size-1 regular list repeats), every non-list ARRAY input repeats its
            \* element across the list (implicit left-broadcasting), scalars repeat anyway
            LET first == CHOOSE i \in Ls : TK(i) = "var" /\ \A j \in Ls : TK(j) = "var" => i <= j
                cnt == [p \in 1..n |-> Len(ins[first].xs[p].xs)]
                okAt(i, p) == IF TK(i) = "reg" /\ ins[i].T.n = 1 THEN TRUE
                              ELSE Len(ins[i].xs[p].xs) = cnt[p]
                bad == \E i \in Ls : \E p \in 1..n : ~okAt(i, p)
                spread(i) ==
                  IF i \in Ls THEN
                       BArr(Flat([p \in 1..n |-> IF TK(i) = "reg" /\ ins[i].T.n = 1 /\ cnt[p] # 1
                                                THEN Repeat(ins[i].xs[p].xs[1], cnt[p]) ELSE ins[i].xs[p].xs]), ins[i].T.x)
                  ELSE IF i \in A THEN BArr(Flat([p \in 1..n |-> Repeat(ins[i].xs[p], cnt[p])]), ins[i].T)
                  ELSE ins[i]
                r == IF bad THEN BErr ELSE Apply(F, [i \in 1..N |-> spread(i)])
            IN IF r.ok # 1 THEN r
               ELSE BOk([p \in 1..n |-> VList(Chunks(r.xs, cnt, 1)[p])])
  ELSE IF \E i \in A : TK(i) = "rec" THEN
       \* records: only broadcast_arrays may see them (ufuncs have no overload); all array inputs must be records
       \* with the same fields
       IF F # "tuple" THEN BErr
       ELSE [ok |-> 3]
  ELSE
       \* leaves
       IF \E i \in A : TK(i) \notin {"num"} THEN [ok |-> 3]
       ELSE BOk([p \in 1..n |-> LeafApply(F, [i \in 1..N |-> IF i \in A THEN ins[i].xs[p] ELSE ins[i].v])])

\* the public entry point: broadcast_pack wraps every array input as ONE regular list of its own length, and
\* broadcast_unpack takes element 0 of the result
Ufunc(F, args) ==
  \* args: sequence of [k |-> "lay", L |-> layout] or [k |-> "sc", v |-> VInt]
  LET ins == [i \in 1..Len(args) |->
                IF args[i].k = "lay" THEN BArr(<<ToList(args[i].L)>>, TReg(LLen(args[i].L), TypeOf(args[i].L)))
                ELSE Sc(args[i].v)]
      r == Apply(F, ins)
  IN IF r.ok = 3 THEN Unspec
     ELSE IF r.ok = 0 THEN Err
     ELSE Ok(r.xs[1])
=============================================================================
