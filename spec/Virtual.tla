------------------------------- MODULE Virtual -------------------------------
(***************************************************************************)
(* C18: a VirtualArray (generator + optional cache) is indistinguishable   *)
(* from the eager array, generates only when data are needed, enforces the *)
(* declared length / form, and never leaves a stale value behind.          *)
(*                                                                         *)
(* State: the cache slot of the array's key (held or not), the number of   *)
(* generator calls so far, whether the last step raised.  Environment      *)
(* actions (Evict) interleave freely with operations.  Each operation is   *)
(* classified by the code it stands for (src/libawkward/array/             *)
(* VirtualArray.cpp): NeedsData operations go through array()              *)
(*   = cache.get(key)  else  generator.generate_and_check()  then          *)
(*     cache.set(key, out);                                                *)
(* length()/form() answer from the declaration when there is one;          *)
(* getitem_range with a declared length only builds a lazier VirtualArray. *)
(*                                                                         *)
(* TLC explores every interleaving up to the bound; each behaviour is      *)
(* exported with, per step, the expected outcome class (same as eager /    *)
(* error) and the exact or bounded number of generator calls, and replayed *)
(* against the C++ VirtualArray with a harness-owned ArrayGenerator and    *)
(* ArrayCache (the observation point the property names).                  *)
(***************************************************************************)
EXTENDS Naturals, Integers, Sequences, FiniteSets, TLC, Json

CONSTANTS CacheKinds,   \* subset of {"none", "keep", "evict_always"}
          GenModes,     \* subset of {"ok", "short", "wrongform", "raises", "raise_first"}
          Decls,        \* set of [len |-> 0/1, form |-> 0/1] declarations tried
          Ops,          \* operation alphabet: records [op |-> ..., ...]
          MaxSteps,
          EmitOn

VARIABLES cfg,      \* [cache, mode, len, form] chosen at the start (constant afterwards)
          held,     \* BOOLEAN: the cache holds the materialised array
          inferred, \* BOOLEAN: an undeclared form has been learnt from a successful generation (ArrayGenerator::inferred_form_)
          calls,    \* number of generator invocations so far
          hist,     \* steps taken, with expectations
          done
vvars == <<cfg, held, inferred, calls, hist, done>>

NoCfg == [cache |-> "?", mode |-> "?", len |-> 0, form |-> 0]

VInit == cfg = NoCfg /\ held = FALSE /\ inferred = FALSE /\ calls = 0 /\ hist = <<>> /\ done = FALSE

Choose ==
  /\ cfg = NoCfg
  /\ \E c \in CacheKinds, m \in GenModes, d \in Decls :
       /\ (m = "short" => d.len = 1)          \* a short generator matters only against a declared length
       /\ (m = "wrongform" => d.form = 1)     \* a wrong form only against a declared form
       /\ (m = "bad_first" => (d.len = 1 /\ d.form = 0))   \* first generation: too short and of another form; then fine
       /\ cfg' = [cache |-> c, mode |-> m, len |-> d.len, form |-> d.form]
  /\ UNCHANGED <<held, inferred, calls, hist, done>>

Configured == cfg # NoCfg /\ ~done /\ Len(hist) < MaxSteps

\* does this operation need the data?
NeedsData(o) ==
  CASE o.op = "length" -> cfg.len = 0
    [] o.op \in {"form", "type"} -> cfg.form = 0 /\ ~inferred
    [] o.op = "range_lazy" -> cfg.len = 0          \* with a declared length the slice is a lazier VirtualArray
    \* purelist / minmax / branch depth: answered from the form when there is one
    [] o.op = "depths" -> cfg.form = 0 /\ ~inferred
    \* the depths of x[newaxis], x[...], x[a:b]: the slice is a lazier VirtualArray that inherits (and for newaxis shifts)
    \* the depths of the form; only a range without a declared length, or an unknown form, needs the data
    [] o.op = "slice_depths" -> (cfg.form = 0 /\ ~inferred) \/ (o.sk = "range" /\ cfg.len = 0)
    [] OTHER -> TRUE                               \* at, range (observed), tojson, num, carry, validity

\* what one materialisation attempt does: [ok, held', calls']
\* (the generator is asked only on a miss; a failing or mismatching generation stores nothing)
GenFails(k) == \/ cfg.mode = "raises"
               \/ cfg.mode \in {"raise_first", "bad_first"} /\ k = 1
               \/ cfg.mode = "short"              \* declared length is larger than what comes back
               \/ cfg.mode = "wrongform"          \* declared form differs from what comes back
Materialise ==
  IF held THEN [ok |-> TRUE, held |-> TRUE, calls |-> calls]
  ELSE IF GenFails(calls + 1) THEN [ok |-> FALSE, held |-> FALSE, calls |-> calls + 1]
  ELSE [ok |-> TRUE, held |-> (cfg.cache = "keep"), calls |-> calls + 1]

Do(o) ==
  /\ Configured
  /\ IF NeedsData(o)
     THEN LET m == Materialise IN
          /\ held' = m.held
          /\ inferred' = (inferred \/ (m.ok /\ m.calls > calls))
          \* with a keeping cache the count is exact; without one the code may regenerate several times per operation
          /\ calls' = m.calls
          \* delta = generator calls this step must cause; exact unless the data are regenerated freely (no keeping cache)
          /\ hist' = Append(hist, [o |-> o, exp |-> IF m.ok THEN "same" ELSE "error",
                                   delta |-> m.calls - calls, exact |-> IF cfg.cache = "keep" \/ ~m.ok THEN 1 ELSE 0,
                                   needs |-> 1])
     ELSE /\ UNCHANGED <<held, inferred, calls>>
          /\ hist' = Append(hist, [o |-> o, exp |-> "same", delta |-> 0, exact |-> 1, needs |-> 0])
  /\ UNCHANGED <<cfg, done>>

Evict ==
  /\ Configured /\ cfg.cache = "keep" /\ held
  /\ held' = FALSE
  /\ hist' = Append(hist, [o |-> [op |-> "evict"], exp |-> "same", delta |-> 0, exact |-> 1, needs |-> 0])
  /\ UNCHANGED <<cfg, inferred, calls, done>>

Finish == cfg # NoCfg /\ ~done /\ Len(hist) = MaxSteps /\ done' = TRUE /\ UNCHANGED <<cfg, held, inferred, calls, hist>>

VNext == Choose \/ (\E o \in Ops : Do(o)) \/ Evict \/ Finish

\* ---------------------------------------------------------------- properties of the design
\* declared length and form: the generator is not invoked until data are needed
LazyUntilNeeded == (cfg # NoCfg /\ cfg.len = 1 /\ cfg.form = 1 /\ (\A k \in 1..Len(hist) : hist[k].needs = 0)) => calls = 0
\* a keeping cache that is never evicted generates at most once (successfully)
KeepGeneratesOnce == (cfg # NoCfg /\ cfg.cache = "keep" /\ cfg.mode = "ok" /\ (\A k \in 1..Len(hist) : hist[k].o.op # "evict")) => calls <= 1
\* a failed generation never leaves anything in the cache
NoStale == (cfg # NoCfg /\ cfg.mode \in {"raises", "short", "wrongform"}) => ~held
\* only a keeping cache ever holds
HeldOnlyIfKeep == held => cfg.cache = "keep"
\* action property: the step that raises does not change what the cache holds
ErrorKeepsCache == [][(hist' # hist /\ hist'[Len(hist')].exp = "error") => held' = held]_vvars

VEmit == (EmitOn /\ done' /\ ~done) => PrintT(<<"CASE", ToJson([act |-> "virtual", cfg |-> cfg, steps |-> hist])>>)
VView == <<cfg, held, inferred, calls, hist, done>>

=============================================================================
